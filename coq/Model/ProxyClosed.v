(** CLOSED composition of the proxy-DEX system (properties C16 and, for proxy positions, C08): ONE model in which
    the answers the proxy gets from the pair, the two farms and the energy factory are COMPUTED by the callee
    models instead of being inputs.

      proxy            Model/ProxyDex.v     (state [state]; its endpoints are run on the computed record of answers [env])
      pair             Model/Pair.v         (addLiquidity / removeLiquidity; its LP ledger [p_lp] carries the LP tokens between
                                             the proxy, the LP farm and everybody else)
      base-asset farm  Model/FarmLocked.v   (farm-with-locked-rewards over Model/Farm.v; farming token = base asset)     farm id 0
      LP farm          Model/FarmLocked.v   (farming token = the pair's LP token)                                        farm id 1
      energy factory   Model/Energy.v       (mergeTokens / extendLockPeriod / lockVirtual / the energy entries; its ledger
                                             [s_bal] holds the REAL locked-token balances of the users and of the proxy)
    This is the world of tools/sys_proxydex.py (same real contracts).

    Every proxy endpoint performs the nested calls of locked-asset/proxy_dex/src/{proxy_pair,proxy_farm,
    wrapped_lp_token_merge,wrapped_farm_token_merge,energy_update,pair_interactions,farm_interactions,external_merging}.rs
    ON THE CALLEE MODELS, in the order the Rust makes them, decodes their outputs into the record of answers with the
    [answer_of_...] functions of Proofs/LawsC16.v and runs the ProxyDex step on that record:
      addLiquidityProxy        pair.addLiquidity ; (merge requested) factory.mergeTokens(caller)
      removeLiquidityProxy     pair.removeLiquidity ; factory.getEnergyEntryForUser + setUserEnergyAfterLockedTokenTransfer
      enterFarmProxy           farm.enterFarm(caller) [-> factory.lockVirtual] ; (merge) factory.mergeTokens, farm.mergeFarmTokens
      exitFarmProxy            farm.exitFarm(caller) [-> lockVirtual] ; factory energy entry read AFTER the reward was locked, written back
      claimRewardsProxy        farm.claimRewards(caller) [-> lockVirtual]
      mergeWrappedLpTokens     factory.mergeTokens(caller)
      mergeWrappedFarmTokens   factory.mergeTokens(caller) ; farm.mergeFarmTokens(caller) [-> lockVirtual, the proxy KEEPS the tokens]
      increaseProxyPairTokenEnergy / increaseProxyFarmTokenEnergy    factory.extendLockPeriod(epochs, caller)
    Pool trades and every other pair operation of other accounts ([CPair]), direct farm operations of other accounts
    ([CFarm]), the users' own energy-factory operations ([CEnergy]) and time ([CTime]) are environment operations on the
    callee states.

    LOCKED-TOKEN NONCES.  The factory keeps one nonce per unlock epoch (get_or_create_nonce_for_attributes) and
    Model/Energy.v identifies a locked token with its unlock epoch; here the "nonce" of a locked token IS its unlock
    epoch, in payments, in the wrapped attributes and in the proxy's ledger (the harness translates through the real
    token attributes).  So the nonce [kf] of a factory answer and the nonce [rk] of a locked reward - parameters in
    Proofs/LawsC16.v - are computed: the unlock epoch the callee model returns; [v_unlock] is the recorded nonce itself.

    WHAT THE CALLEE MODELS LACK, and how it is supplied (exactly as in Proofs/LawsC16.v):
      * Model/Farm.v / FarmLocked.v have no original-caller argument (position owner = caller = receiver).  The proxy's
        call "endpoint(Some(u)) with the proxy's farm tokens" is composed as in Model/FarmBehalf.v:
            FTransfer tokens PX -> u ; the user's own endpoint ; FTransfer new farm token u -> PX                 [via_user]
        exact on the farm's state (original_owner = u, user totals, boosted claim of u); the LOCKED reward the farm
        model's receipt names u for is really sent to the proxy: [rc_px] moves it there (glue), the proxy forwards it
        (enter / exit / claim: it is among the returned payments) or keeps it (merge).
      * Model/Energy.v has the pass-through caller hand the result to the user.  A factory call of the proxy for the
        user u on tokens the PROXY holds is: ledger move H_PX -> u (glue) ; MergeVia / ExtendVia of the model ; ledger
        move of the resulting token u -> H_PX (glue)                                                      [px_merge, px_extend]
      * setUserEnergyAfterLockedTokenTransfer has no successful call in Model/Energy.v: the entry the proxy computed
        is written with the model's own [put_entry] and the burned tokens are debited from the proxy   [px_burn];
      * the boosted payouts of the farm calls ([b], [bm]) are inputs of Model/Farm.v itself and stay inputs here
        (the closed farm model is Model/FarmFull.v), guarded by the farm's own pool counter;
      * the block nonce is state ([c_blk]); the epoch is the factory model's [s_now].

    GHOST STATE ([ghost], never read by a guard): [g_car] the locked tokens CARRIED for each account - every movement
    of locked tokens into or out of the proxy's custody is attributed to the caller of the transaction (signed ledger:
    deposits +, redemptions and burns -); cumulative base-asset flows of the proxy.

    Accounts: users 1..9 (> 0, < 16), PX = 50 (the proxy in the pair's LP ledger and as holder of farm tokens),
    LPFARM = 60 / LPBURN = 61 (LP tokens held by the LP farm / burned by it as exit penalty), H_PX = -3 (the proxy as
    holder of locked tokens in the factory's ledger: a contract account, it has no energy entry), OWNER = 100.
    No proofs in this file. *)
From MX Require Import Base.Prelude Gen.Params Model.ProxyDex.
From MX Require Model.Pair Model.Farm Model.FarmLocked Model.FarmBehalf Model.Energy.
From MX Require Proofs.LawsC16.

Module PR := MX.Model.Pair.
Module F := MX.Model.Farm.
Module FL := MX.Model.FarmLocked.
Module FB := MX.Model.FarmBehalf.
Module EN := MX.Model.Energy.
Module L16 := MX.Proofs.LawsC16.

Definition PX : Z := 50.
Definition LPFARM : Z := 60.
Definition LPBURN : Z := 61.
Definition H_PX : Z := -3.

Record ghost := mkG {
  g_car : EN.ledger;       (* locked tokens carried for each account (signed) *)
  g_mint : Z; g_burn : Z;  (* base asset minted / burned by the proxy so far *)
  g_lburn : Z;             (* locked tokens burned by the proxy so far *)
  g_pin : Z; g_pout : Z;   (* base asset the pair took from / paid to the proxy *)
  g_fin : Z; g_fout : Z;   (* base asset the base-asset farm took from / returned to the proxy *)
  g_fpen : Z;              (* base asset the base-asset farm kept (burned) as exit penalty of proxy positions *)
  g_paid : Z               (* base asset the proxy paid out to users (pool surplus) *)
}.

Definition g0 : ghost := mkG [] 0 0 0 0 0 0 0 0 0.

Record cst := mkC {
  c_px : state;            (* the proxy *)
  c_pair : PR.pair;        (* the pair *)
  c_f0 : FL.lfarm;         (* the base-asset farm *)
  c_f1 : FL.lfarm;         (* the LP farm *)
  c_en : EN.st;            (* the energy factory *)
  c_bf : bool;             (* the base asset is the pair's first token *)
  c_blk : Z;               (* block nonce *)
  c_g : ghost
}.

Definition now_of (cs : cst) : Z := EN.s_now (c_en cs).

Definition opt {A} (o : option A) : result A := match o with Some a => Ok a | None => Err EExt end.

(** ------------------------------------------------------------------ locked tokens in the proxy's custody *)
(** the factory state together with the carried ledger *)
Definition cus := (EN.st * EN.ledger)%type.

(** [a] tokens of unlock epoch [e] move from [u] into the proxy's custody, attributed to [u] *)
Definition to_px (c : cus) (u e a : Z) : result cus :=
  let '(s, car) := c in
  do l1 <- EN.debit (EN.s_bal s) u e a;
  Ok (EN.set_bal s (EN.credit l1 H_PX e a), EN.credit car u e a).

(** ... out of the proxy's custody to [u] *)
Definition from_px (c : cus) (u e a : Z) : result cus :=
  let '(s, car) := c in
  do l1 <- EN.debit (EN.s_bal s) H_PX e a;
  Ok (EN.set_bal s (EN.credit l1 u e a), EN.credit car u e (- a)).

Fixpoint to_px_all (c : cus) (u : Z) (ps : list (Z * Z)) : result cus :=
  match ps with
  | [] => Ok c
  | (e, a) :: t => do c1 <- to_px c u e a; to_px_all c1 u t
  end.

Fixpoint from_px_all (c : cus) (u : Z) (ps : list (Z * Z)) : result cus :=
  match ps with
  | [] => Ok c
  | (e, a) :: t => do c1 <- from_px c u e a; from_px_all c1 u t
  end.

(** the LOCKED payments among [ps], as (unlock epoch, amount) *)
Fixpoint locked_of (ps : list pay) : list (Z * Z) :=
  match ps with
  | [] => []
  | p :: t => if p_tok p =? TK_LOCKED then (p_non p, p_amt p) :: locked_of t else locked_of t
  end.

(** mergeTokens(original_caller = u) by the proxy on tokens it holds *)
Definition px_merge (c : cus) (u : Z) (fps : list (Z * Z)) : result (cus * EN.outs) :=
  do c1 <- from_px_all c u fps;
  do r <- EN.step (fst c1) (EN.MergeVia u fps);
  let '(s2, o) := r in
  match o with
  | [ne; ma] => do c3 <- to_px (s2, snd c1) u ne ma; Ok (c3, o)
  | _ => Err EExt
  end.

(** extendLockPeriod(le, u) by the proxy on [amt] tokens of unlock epoch [e] it holds *)
Definition px_extend (c : cus) (u e amt le : Z) : result (cus * EN.outs) :=
  do c1 <- from_px c u e amt;
  do r <- EN.step (fst c1) (EN.ExtendVia u e amt le);
  let '(s2, o) := r in
  match o with
  | [ne; ma] => do c3 <- to_px (s2, snd c1) u ne ma; Ok (c3, o)
  | _ => Err EExt
  end.

(** lockVirtual for every LOCKED receipt of a farm call: the factory model must produce exactly the receipt *)
Fixpoint lock_receipts (s : EN.st) (lock : Z) (rc : list FL.receipt) : result EN.st :=
  match rc with
  | [] => Ok s
  | (c, (r, ue)) :: t =>
      do q <- EN.step s (EN.LockVirtual c r lock);
      let '(s1, o) := q in
      match o with
      | [ue'; r'] => check (ue' =? ue) && (r' =? r) else EExt; lock_receipts s1 lock t
      | _ => Err EExt
      end
  end.

Fixpoint rc_pairs (rc : list FL.receipt) : list (Z * Z) :=
  match rc with [] => [] | (_, (r, ue)) :: t => (ue, r) :: rc_pairs t end.

(** ... of a call made by the proxy for [u]: the tokens are sent to the proxy *)
Definition rc_px (c : cus) (lock u : Z) (rc : list FL.receipt) : result cus :=
  do s1 <- lock_receipts (fst c) lock rc;
  to_px_all (s1, snd c) u (rc_pairs rc).

Definition rc_total (rc : list FL.receipt) : Z := L16.farm_sum (rc_pairs rc).

(** the LOCKED reward payment of a farm call as the proxy decodes it: (nonce = unlock epoch, amount) *)
Definition rk_of (rc : list FL.receipt) : Z := match rc with (_, (_, ue)) :: _ => ue | [] => 0 end.

(** burn_locked_tokens_and_update_energy: the entry the proxy computed is written, the tokens leave the proxy *)
Definition px_burn (c : cus) (u : Z) (x : eff) : result cus :=
  let '(s, car) := c in
  let '(k, amt) := x_lburn x in
  do l1 <- EN.debit (EN.s_bal s) H_PX k amt;
  let s1 := EN.set_bal s l1 in
  let s2 := match x_energy x with Some en' => EN.put_entry s1 u (L16.en_of en') | None => s1 end in
  Ok (s2, EN.credit car u k (- amt)).

(** what an endpoint does with locked tokens after the proxy's own computation: the returned LOCKED payments go to
    the caller, the burned ones disappear *)
Definition settle (c : cus) (u : Z) (x : eff) : result cus :=
  do c1 <- from_px_all c u (locked_of (x_outs x));
  px_burn c1 u x.

(** ------------------------------------------------------------------ the proxy's calls to a farm *)
Definition farm_of (cs : cst) (farm : Z) : result FL.lfarm :=
  if farm =? 0 then Ok (c_f0 cs) else if farm =? 1 then Ok (c_f1 cs) else Err EGuard.

(** a call with original caller [u] and the farm-token payments [toks] (held by the proxy); [back]: the first two
    results are a farm token, which is sent to the proxy *)
Definition via_user (lf : FL.lfarm) (u : Z) (toks : list (Z * Z)) (op : F.fop) (back : bool)
  : result (FL.lfarm * F.fouts * list FL.receipt) :=
  do lf1 <- FB.lseq lf (map (FB.xfer PX u) toks);
  do r <- FL.lstep lf1 (FL.LF op);
  let '(lf2, o, rc) := r in
  if back then
    do r' <- FL.lstep lf2 (FL.LF (F.FTransfer (nth 0 o 0) u PX (nth 1 o 0)));
    Ok (fst (fst r'), o, rc)
  else Ok (lf2, o, rc).

(** the LP tokens of an LP-farm exit: [amt] leave the farm's principal, [out] reach [dst], the penalty is burned *)
Definition lp_exit_flow (p : PR.pair) (dst amt out : Z) : result PR.pair :=
  do p1 <- PR.lp_debit p LPFARM amt;
  do pen <- sub_chk amt out;
  Ok (PR.lp_credit (PR.lp_credit p1 dst out) LPBURN pen).

Definition lp_enter_flow (p : PR.pair) (src amt : Z) : result PR.pair :=
  do r <- PR.ep_lp_transfer p src LPFARM amt; Ok (fst (fst r)).

(** ------------------------------------------------------------------ what the proxy sends to the factory / the farm in a merge *)
(** the locked parts behind wrapped LP payments, in payment order (WrappedLpToken::new_from_payments + into_part) *)
Fixpoint wlp_parts (s : state) (u : Z) (ps : list pay) : result (list (Z * Z)) :=
  match ps with
  | [] => Ok []
  | p :: t =>
      check p_tok p =? TK_WLP else EGuard;
      do r <- take_wlp_user s u (p_non p) (p_amt p);
      let '(s1, (k, lp)) := r in
      do rest <- wlp_parts s1 u t;
      Ok ((k, lp) :: rest)
  end.

(** the farm tokens behind wrapped farm payments, in payment order *)
Fixpoint wfm_toks (s : state) (u : Z) (ps : list pay) : result (list (Z * Z)) :=
  match ps with
  | [] => Ok []
  | p :: t =>
      check p_tok p =? TK_WFM else EGuard;
      do r <- take_wfm s u (p_non p) (p_amt p);
      let '(s1, (w, pp)) := r in
      do rest <- wfm_toks s1 u t;
      Ok ((wf_f w, p_amt p) :: rest)
  end.

(** the locked tokens of a wrapped-farm merge: the proxy farming tokens themselves, or the locked parts of the
    wrapped LP tokens (merge_wrapped_lp_tokens over the wrapped LP tokens the proxy holds) *)
Fixpoint items_locked_wlp (s : state) (its : list item) : result (list (Z * Z)) :=
  match its with
  | [] => Ok []
  | (_, _, _, pn, pp) :: t =>
      do r <- kill_wlp s pn pp;
      let '(s1, (k, lq)) := r in
      do rest <- items_locked_wlp s1 t;
      Ok ((k, lq) :: rest)
  end.

Definition items_locked (s : state) (its : list item) : result (list (Z * Z)) :=
  match its with
  | [] => Err EGuard
  | (_, _, kind, _, _) :: _ =>
      if kind =? 0 then Ok (map (fun it : item => let '(_, _, _, pn, pp) := it in (pn, pp)) its)
      else items_locked_wlp s its
  end.

(** enterFarmProxy before the farm is called: the payment leaves the caller (copy of the first part of
    Model/ProxyDex.v [ep_enter_farm]); returns (state, kind of proxy farming token, base asset minted) *)
Definition enter_pre (s : state) (u farm : Z) (p : pay) : result (state * Z * Z) :=
  let a := p_amt p in
  if p_tok p =? TK_LOCKED then
    check farm =? 0 else EExt;
    Ok (s, 0, a)
  else if p_tok p =? TK_WLP then
    match getn (s_wlp s) (p_non p) with
    | None => Err EGuard
    | Some w =>
        do h <- bal_sub (s_hlp s) (hkey (p_non p) u) a;
        do _ <- part_wlp w a;
        do lp <- sub_chk (s_lp s) a;
        check farm =? 1 else EExt;
        Ok (upd_lp (upd_hlp s h) lp, 1, 0)
    end
  else Err EGuard.

(** the locked nonce behind a wrapped LP / wrapped farm nonce (what burn_locked_tokens_and_update_energy reads) *)
Definition wlp_k (s : state) (n : Z) : Z := match getn (s_wlp s) n with Some w => wl_k w | None => 0 end.
Definition wfm_k (s : state) (m : Z) : Z :=
  match getn (s_wfm s) m with
  | Some w => if wf_kind w =? 0 then wf_pn w else wlp_k s (wf_pn w)
  | None => 0
  end.

(** ------------------------------------------------------------------ the record of answers *)
Definition env0 (now : Z) (en : penergy) (unlock : Z) : env :=
  mkEnv now true (0, 0, 0) (0, 0) (0, 0) (0, 0) (0, 0) en unlock.

Definition entry_of (s : EN.st) (u : Z) : penergy := L16.pe_of (EN.view_entry s u).

Definition und (t : Z) : Z := if t =? TK_LOCKED then TK_BASE else t.
(** pair.addLiquidity accepts the two payments only in pool order *)
Definition pool_order (bf : bool) (p1 p2 : pay) : bool :=
  if bf then (und (p_tok p1) =? TK_BASE) && (und (p_tok p2) =? TK_OTHER)
  else (und (p_tok p1) =? TK_OTHER) && (und (p_tok p2) =? TK_BASE).

(** ------------------------------------------------------------------ results of a closed step *)
Record cout := mkCO {
  co_x : eff;              (* what the proxy endpoint did (Model/ProxyDex.v) *)
  co_e : env;              (* the record of answers it was run on: COMPUTED by the callee models *)
  co_db : Z;               (* change of the global base-asset supply in this transaction, callee burns included *)
  co_dl : Z;               (* change of the global locked-token supply, callee mints included *)
  co_o : list Z            (* results of an environment operation *)
}.

Definition no_x : eff := no_eff [] true.
Definition out_env (o : list Z) : cout := mkCO no_x (env0 0 (mkPEn 0 0 0) 0) 0 0 o.

Definition upd_g (g : ghost) (car : EN.ledger) (x : eff) (pin pout fin fout fpen paid : Z) : ghost :=
  mkG car (g_mint g + x_mint x) (g_burn g + x_burn x) (g_lburn g + snd (x_lburn x))
      (g_pin g + pin) (g_pout g + pout) (g_fin g + fin) (g_fout g + fout) (g_fpen g + fpen) (g_paid g + paid).

Definition set_farm (cs : cst) (farm : Z) (lf : FL.lfarm) : FL.lfarm * FL.lfarm :=
  if farm =? 0 then (lf, c_f1 cs) else (c_f0 cs, lf).

(** base asset among the returned payments *)
Fixpoint base_paid (ps : list pay) : Z :=
  match ps with [] => 0 | p :: t => (if p_tok p =? TK_BASE then p_amt p else 0) + base_paid t end.

(** ------------------------------------------------------------------ the proxy's endpoints *)
Definition c_add_liq (cs : cst) (u pid : Z) (p1 p2 : pay) (extra : list pay) (m1 m2 : Z) : result (cst * cout) :=
  let px := c_px cs in
  let now := now_of cs in
  check pool_order (c_bf cs) p1 p2 else EExt;
  do c0 <- to_px_all (c_en cs, g_car (c_g cs)) u (locked_of [p1; p2]);
  (* call_add_liquidity *)
  do rp <- PR.step (c_pair cs) (PR.Add PX (p_amt p1) (p_amt p2) m1 m2);
  let '(pair', po, _) := rp in
  do e1 <- opt (L16.answer_of_addLiquidity (env0 now (entry_of (c_en cs) u) 0) po);
  let used := L16.add_used_locked p1 e1 in
  let k := if p_tok p1 =? TK_LOCKED then p_non p1 else p_non p2 in
  (* merge_wrapped_lp_tokens_with_virtual_pos *)
  do re <- match extra with
           | [] => Ok (c0, e1)
           | _ =>
               do parts <- wlp_parts px u extra;
               do rm <- px_merge c0 u ((k, used) :: parts);
               do e2 <- opt (L16.answer_of_mergeTokens e1 (nth 0 (snd rm) 0) (snd rm));
               Ok (fst rm, e2)
           end;
  let '(c1, e) := re in
  do rx <- step px (AddLiq u pid p1 p2 extra e);
  let '(px', x) := rx in
  do c2 <- settle c1 u x;
  Ok (mkC px' pair' (c_f0 cs) (c_f1 cs) (fst c2) (c_bf cs) (c_blk cs)
          (upd_g (c_g cs) (snd c2) x used 0 0 0 0 0),
      mkCO x e (x_mint x - x_burn x) (- snd (x_lburn x)) []).

Definition c_remove_liq (cs : cst) (u pid : Z) (p : pay) (m1 m2 : Z) : result (cst * cout) :=
  let px := c_px cs in
  let now := now_of cs in
  (* call_remove_liquidity with the LP tokens behind the payment *)
  do rp <- PR.step (c_pair cs) (PR.Remove PX (p_amt p) m1 m2);
  let '(pair', po, _) := rp in
  do e <- opt (L16.answer_of_removeLiquidity (c_bf cs) (env0 now (entry_of (c_en cs) u) (wlp_k px (p_non p))) po);
  do rx <- step px (RemoveLiq u pid p e);
  let '(px', x) := rx in
  do c2 <- settle (c_en cs, g_car (c_g cs)) u x;
  Ok (mkC px' pair' (c_f0 cs) (c_f1 cs) (fst c2) (c_bf cs) (c_blk cs)
          (upd_g (c_g cs) (snd c2) x 0 (snd (fst (v_pair e))) 0 0 0 (base_paid (x_outs x))),
      mkCO x e (x_mint x - x_burn x) (- snd (x_lburn x)) []).

Definition c_enter_farm (cs : cst) (u farm : Z) (p : pay) (extra : list pay) (b : Z) : result (cst * cout) :=
  let px := c_px cs in
  let now := now_of cs in
  let blk := c_blk cs in
  let a := p_amt p in
  do lf <- farm_of cs farm;
  do r0 <- enter_pre px u farm p;
  let '(s1, kind, minted) := r0 in
  do c0 <- to_px_all (c_en cs, g_car (c_g cs)) u (locked_of [p]);
  (* call_enter_farm; the LP tokens go to the LP farm *)
  do rf <- via_user lf u [] (F.FEnter blk now u a [] b) true;
  let '(lf1, fo, rc) := rf in
  do pair1 <- (if farm =? 1 then lp_enter_flow (c_pair cs) PX a else Ok (c_pair cs));
  do c1 <- rc_px c0 (FL.l_lock lf) u rc;
  let ebase := env0 now (entry_of (c_en cs) u) 0 in
  do re <- match extra with
           | [] =>
               do e <- opt (L16.answer_of_enterFarm ebase (rk_of rc) fo);
               Ok (lf1, c1, e)
           | _ =>
               (* merge_wrapped_farm_tokens_with_virtual_pos: factory first, then the farm *)
               do rt <- take_wfm_list s1 u extra;
               let '(s2, its) := rt in
               let its' := mk_item farm (nth 1 fo 0) kind (p_non p) a :: its in
               do fps <- items_locked s2 its';
               do toks <- wfm_toks s1 u extra;
               let toks' := (nth 0 fo 0, nth 1 fo 0) :: toks in
               do rm <- px_merge c1 u fps;
               (* the boosted rewards of the caller were claimed by enterFarm in this transaction: the merge pays none *)
               do rg <- via_user lf1 u toks' (F.FMerge blk now u toks' 0) true;
               let '(lf2, go, rcm) := rg in
               do c2 <- rc_px (fst rm) (FL.l_lock lf) u rcm;
               do e1 <- opt (L16.answer_of_mergeTokens ebase (nth 0 (snd rm) 0) (snd rm));
               do e2 <- opt (L16.answer_of_mergeFarmTokens e1 (rk_of rcm) go);
               do e <- opt (L16.answer_of_enterFarm e2 (rk_of rc) fo);
               Ok (lf2, c2, e)
           end;
  let '(lf', c3, e) := re in
  do rx <- step px (EnterFarm u farm p extra e);
  let '(px', x) := rx in
  do c4 <- settle c3 u x;
  let '(f0', f1') := set_farm cs farm lf' in
  Ok (mkC px' pair1 f0' f1' (fst c4) (c_bf cs) (c_blk cs)
          (upd_g (c_g cs) (snd c4) x 0 0 minted 0 0 0),
      mkCO x e (x_mint x - x_burn x) (rc_total rc - snd (x_lburn x)) []).

Definition c_exit_farm (cs : cst) (u farm : Z) (p : pay) (b : Z) : result (cst * cout) :=
  let px := c_px cs in
  let now := now_of cs in
  let blk := c_blk cs in
  let a := p_amt p in
  do lf <- farm_of cs farm;
  match getn (s_wfm px) (p_non p) with
  | None => Err EGuard
  | Some w =>
      let tok := (wf_f w, a) in
      (* call_exit_farm *)
      do rf <- via_user lf u [tok] (F.FExit blk now u tok b) false;
      let '(lf1, fo, rc) := rf in
      let out := nth 0 fo 0 in
      do pair1 <- (if farm =? 1 then lp_exit_flow (c_pair cs) PX a out else Ok (c_pair cs));
      do c1 <- rc_px (c_en cs, g_car (c_g cs)) (FL.l_lock lf) u rc;
      (* the energy entry is read after the reward was locked for the caller *)
      do e <- opt (L16.answer_of_exitFarm (env0 now (entry_of (fst c1) u) (wfm_k px (p_non p))) (rk_of rc) fo);
      do rx <- step px (ExitFarm u farm p e);
      let '(px', x) := rx in
      do c2 <- settle c1 u x;
      let '(f0', f1') := set_farm cs farm lf1 in
      let fb := if farm =? 0 then a - out else 0 in      (* the base-asset farm burns the penalty it keeps *)
      Ok (mkC px' pair1 f0' f1' (fst c2) (c_bf cs) (c_blk cs)
              (upd_g (c_g cs) (snd c2) x 0 0 0 (if farm =? 0 then out else 0) fb 0),
          mkCO x e (x_mint x - x_burn x - fb) (rc_total rc - snd (x_lburn x)) [])
  end.

Definition c_claim (cs : cst) (u farm : Z) (p : pay) (b : Z) : result (cst * cout) :=
  let px := c_px cs in
  let now := now_of cs in
  let blk := c_blk cs in
  do lf <- farm_of cs farm;
  match getn (s_wfm px) (p_non p) with
  | None => Err EGuard
  | Some w =>
      let tok := (wf_f w, p_amt p) in
      do rf <- via_user lf u [tok] (F.FClaim blk now u tok [] b) true;
      let '(lf1, fo, rc) := rf in
      do c1 <- rc_px (c_en cs, g_car (c_g cs)) (FL.l_lock lf) u rc;
      do e <- opt (L16.answer_of_claimRewards (env0 now (entry_of (c_en cs) u) 0) (rk_of rc) fo);
      do rx <- step px (ClaimRew u farm p e);
      let '(px', x) := rx in
      do c2 <- settle c1 u x;
      let '(f0', f1') := set_farm cs farm lf1 in
      Ok (mkC px' (c_pair cs) f0' f1' (fst c2) (c_bf cs) (c_blk cs) (upd_g (c_g cs) (snd c2) x 0 0 0 0 0 0),
          mkCO x e (x_mint x - x_burn x) (rc_total rc - snd (x_lburn x)) [])
  end.

Definition c_merge_wlp (cs : cst) (u : Z) (ps : list pay) : result (cst * cout) :=
  let px := c_px cs in
  let now := now_of cs in
  do parts <- wlp_parts px u ps;
  do rm <- px_merge (c_en cs, g_car (c_g cs)) u parts;
  do e <- opt (L16.answer_of_mergeTokens (env0 now (entry_of (c_en cs) u) 0) (nth 0 (snd rm) 0) (snd rm));
  do rx <- step px (MergeWlp u ps e);
  let '(px', x) := rx in
  do c2 <- settle (fst rm) u x;
  Ok (mkC px' (c_pair cs) (c_f0 cs) (c_f1 cs) (fst c2) (c_bf cs) (c_blk cs) (upd_g (c_g cs) (snd c2) x 0 0 0 0 0 0),
      mkCO x e 0 0 []).

Definition c_merge_wfm (cs : cst) (u farm : Z) (ps : list pay) (bm : Z) : result (cst * cout) :=
  let px := c_px cs in
  let now := now_of cs in
  let blk := c_blk cs in
  do lf <- farm_of cs farm;
  do rt <- take_wfm_list px u ps;
  let '(s1, its) := rt in
  do fps <- items_locked s1 its;
  do toks <- wfm_toks px u ps;
  (* merge_locked_tokens_through_factory, then merge_farm_tokens_through_farm *)
  do rm <- px_merge (c_en cs, g_car (c_g cs)) u fps;
  do rg <- via_user lf u toks (F.FMerge blk now u toks bm) true;
  let '(lf1, go, rcm) := rg in
  (* the farm pays the caller's boosted rewards, locked, to the proxy: they stay there *)
  do c1 <- rc_px (fst rm) (FL.l_lock lf) u rcm;
  do e1 <- opt (L16.answer_of_mergeTokens (env0 now (entry_of (c_en cs) u) 0) (nth 0 (snd rm) 0) (snd rm));
  do e <- opt (L16.answer_of_mergeFarmTokens e1 (rk_of rcm) go);
  do rx <- step px (MergeWfm u farm ps e);
  let '(px', x) := rx in
  do c2 <- settle c1 u x;
  let '(f0', f1') := set_farm cs farm lf1 in
  Ok (mkC px' (c_pair cs) f0' f1' (fst c2) (c_bf cs) (c_blk cs) (upd_g (c_g cs) (snd c2) x 0 0 0 0 0 0),
      mkCO x e 0 (rc_total rcm) []).

Definition c_inc_lp (cs : cst) (u : Z) (p : pay) (le : Z) : result (cst * cout) :=
  let px := c_px cs in
  let now := now_of cs in
  do rt <- take_wlp_user px u (p_non p) (p_amt p);
  let '(_, (k, lp)) := rt in
  do rm <- px_extend (c_en cs, g_car (c_g cs)) u k lp le;
  do e <- opt (L16.answer_of_extendLockPeriod (env0 now (entry_of (c_en cs) u) 0) (nth 0 (snd rm) 0) (snd rm));
  do rx <- step px (IncLp u p e);
  let '(px', x) := rx in
  do c2 <- settle (fst rm) u x;
  Ok (mkC px' (c_pair cs) (c_f0 cs) (c_f1 cs) (fst c2) (c_bf cs) (c_blk cs) (upd_g (c_g cs) (snd c2) x 0 0 0 0 0 0),
      mkCO x e 0 0 []).

Definition c_inc_fm (cs : cst) (u : Z) (p : pay) (le : Z) : result (cst * cout) :=
  let px := c_px cs in
  let now := now_of cs in
  do rt <- take_wfm px u (p_non p) (p_amt p);
  let '(s1, (w, pp)) := rt in
  do kl <- (if wf_kind w =? 0 then Ok (wf_pn w, pp)
            else do r2 <- release_wlp s1 (wf_pn w) pp; Ok (snd r2));
  let '(k, lq) := kl in
  do rm <- px_extend (c_en cs, g_car (c_g cs)) u k lq le;
  do e <- opt (L16.answer_of_extendLockPeriod (env0 now (entry_of (c_en cs) u) 0) (nth 0 (snd rm) 0) (snd rm));
  do rx <- step px (IncFm u p e);
  let '(px', x) := rx in
  do c2 <- settle (fst rm) u x;
  Ok (mkC px' (c_pair cs) (c_f0 cs) (c_f1 cs) (fst c2) (c_bf cs) (c_blk cs) (upd_g (c_g cs) (snd c2) x 0 0 0 0 0 0),
      mkCO x e 0 0 []).

(** operations of the proxy that make no nested call *)
Definition c_plain (cs : cst) (o : op) : result (cst * cout) :=
  do rx <- step (c_px cs) o;
  let '(px', x) := rx in
  Ok (mkC px' (c_pair cs) (c_f0 cs) (c_f1 cs) (c_en cs) (c_bf cs) (c_blk cs) (c_g cs),
      mkCO x (env0 (now_of cs) (mkPEn 0 0 0) 0) 0 0 []).

(** ------------------------------------------------------------------ environment operations *)
Definition reserved (a : Z) : bool := (a =? PX) || (a =? LPFARM) || (a =? LPBURN).

(** the accounts a pair operation names *)
Definition pair_accts (o : PR.pop) : list Z :=
  match o with
  | PR.AddInitial c _ _ | PR.Add c _ _ _ _ | PR.Remove c _ _ _ | PR.SwapIn c _ _ _ _ | PR.SwapOut c _ _ _ _
  | PR.SwapNoFee c _ _ _ | PR.RemoveBuyBack c _ _ | PR.SetFee c _ _ | PR.SetCollector c _ | PR.SetState c _
  | PR.Trust c _ _ => [c]
  | PR.SetFeeOn c _ a _ | PR.WlAdd c a | PR.WlRm c a => [c; a]
  | PR.LpTransfer s d _ => [s; d]
  | PR.Donate _ _ => []
  end.

(** base asset the pair burns in a transaction (fee slices) *)
Fixpoint burned_of (tok : Z) (l : list (Z * Z)) : Z :=
  match l with [] => 0 | (t, a) :: r => (if t =? tok then a else 0) + burned_of tok r end.

Definition c_pair_env (cs : cst) (o : PR.pop) : result (cst * cout) :=
  check negb (existsb reserved (pair_accts o)) else EPerm;
  do r <- PR.step (c_pair cs) o;
  let '(pair', po, ef) := r in
  let bt := if c_bf cs then PR.T1 else PR.T2 in
  Ok (mkC (c_px cs) pair' (c_f0 cs) (c_f1 cs) (c_en cs) (c_bf cs) (c_blk cs) (c_g cs),
      mkCO no_x (env0 (now_of cs) (mkPEn 0 0 0) 0) (- burned_of bt (PR.e_burn ef)) 0 po).

(** the accounts a farm operation names, and its clock *)
Definition farm_accts (o : F.fop) : list Z :=
  match o with
  | F.FEnter _ _ c _ _ _ | F.FClaim _ _ c _ _ _ | F.FCompound _ _ c _ _ _ | F.FExit _ _ c _ _ | F.FMerge _ _ c _ _
  | F.FClaimBoosted _ _ c _ | F.FSetRate _ c _ | F.FStart _ c | F.FEnd _ c | F.FSetPct _ c _ | F.FSetFactors c
  | F.FSetState c _ | F.FSetMinEpochs c _ | F.FSetPenalty c _ => [c]
  | F.FTransfer _ s d _ => [s; d]
  | F.FTopUp _ => []
  end.

Definition farm_clock_ok (blk ep : Z) (o : F.fop) : bool :=
  match o with
  | F.FEnter b e _ _ _ _ | F.FClaim b e _ _ _ _ | F.FCompound b e _ _ _ _ | F.FExit b e _ _ _ | F.FMerge b e _ _ _
  | F.FClaimBoosted b e _ _ => (b =? blk) && (e =? ep)
  | F.FSetRate b _ _ | F.FStart b _ | F.FEnd b _ | F.FSetPct b _ _ => b =? blk
  | _ => true
  end.

(** a direct operation of another account (or of the owner) on one of the farms, with the LP tokens and the locked
    rewards it moves *)
Definition c_farm_env (cs : cst) (farm : Z) (o : FL.lop) : result (cst * cout) :=
  do lf <- farm_of cs farm;
  check (match o with FL.LF fo => negb (existsb reserved (farm_accts fo)) && farm_clock_ok (c_blk cs) (now_of cs) fo
                    | FL.LSetLockEpochs c _ => negb (reserved c) end) else EPerm;
  do r <- FL.lstep lf o;
  let '(lf', fo, rc) := r in
  do pair' <- match o with
              | FL.LF (F.FEnter _ _ c amt _ _) => if farm =? 1 then lp_enter_flow (c_pair cs) c amt else Ok (c_pair cs)
              | FL.LF (F.FExit _ _ c p _) => if farm =? 1 then lp_exit_flow (c_pair cs) c (snd p) (nth 0 fo 0) else Ok (c_pair cs)
              | _ => Ok (c_pair cs)
              end;
  do en' <- lock_receipts (c_en cs) (FL.l_lock lf) rc;
  let fb := match o with
            | FL.LF (F.FExit _ _ _ p _) => if farm =? 0 then snd p - nth 0 fo 0 else 0
            | _ => 0
            end in
  let '(f0', f1') := set_farm cs farm lf' in
  Ok (mkC (c_px cs) pair' f0' f1' en' (c_bf cs) (c_blk cs) (c_g cs),
      mkCO no_x (env0 (now_of cs) (mkPEn 0 0 0) 0) (- fb) (rc_total rc) fo).

(** a user's own operation on the energy factory (time moves by [CTime] only) *)
Definition c_energy_env (cs : cst) (o : EN.eop) : result (cst * cout) :=
  check (match o with EN.Advance _ => false | _ => true end) else EGuard;
  do r <- EN.step (c_en cs) o;
  Ok (mkC (c_px cs) (c_pair cs) (c_f0 cs) (c_f1 cs) (fst r) (c_bf cs) (c_blk cs) (c_g cs), out_env (snd r)).

Definition c_time (cs : cst) (dblk dep : Z) : result (cst * cout) :=
  check 0 <=? dblk else EGuard;
  do r <- EN.step (c_en cs) (EN.Advance dep);
  Ok (mkC (c_px cs) (c_pair cs) (c_f0 cs) (c_f1 cs) (fst r) (c_bf cs) (c_blk cs + dblk) (c_g cs), out_env []).

(** ------------------------------------------------------------------ operations *)
Inductive cop :=
| CAddLiq (u pid : Z) (p1 p2 : pay) (extra : list pay) (m1 m2 : Z)
| CRemoveLiq (u pid : Z) (p : pay) (m1 m2 : Z)
| CEnterFarm (u farm : Z) (p : pay) (extra : list pay) (b : Z)
| CExitFarm (u farm : Z) (p : pay) (b : Z)
| CClaim (u farm : Z) (p : pay) (b : Z)
| CMergeWlp (u : Z) (ps : list pay)
| CMergeWfm (u farm : Z) (ps : list pay) (bm : Z)
| CIncLp (u : Z) (p : pay) (le : Z)
| CIncFm (u : Z) (p : pay) (le : Z)
| CSetPair (u : Z) (b : bool)
| CSetFarm (u farm : Z) (b : bool)
| CXferWlp (src dst n a : Z)
| CXferWfm (src dst n a : Z)
| CPair (o : PR.pop)
| CFarm (farm : Z) (o : FL.lop)
| CEnergy (o : EN.eop)
| CTime (dblk dep : Z).

Definition cstep (cs : cst) (o : cop) : result (cst * cout) :=
  match o with
  | CAddLiq u pid p1 p2 extra m1 m2 => c_add_liq cs u pid p1 p2 extra m1 m2
  | CRemoveLiq u pid p m1 m2 => c_remove_liq cs u pid p m1 m2
  | CEnterFarm u farm p extra b => c_enter_farm cs u farm p extra b
  | CExitFarm u farm p b => c_exit_farm cs u farm p b
  | CClaim u farm p b => c_claim cs u farm p b
  | CMergeWlp u ps => c_merge_wlp cs u ps
  | CMergeWfm u farm ps bm => c_merge_wfm cs u farm ps bm
  | CIncLp u p le => c_inc_lp cs u p le
  | CIncFm u p le => c_inc_fm cs u p le
  | CSetPair u b => c_plain cs (SetPair u b)
  | CSetFarm u farm b => c_plain cs (SetFarm u farm b)
  | CXferWlp src dst n a => c_plain cs (XferWlp src dst n a)
  | CXferWfm src dst n a => c_plain cs (XferWfm src dst n a)
  | CPair o => c_pair_env cs o
  | CFarm farm o => c_farm_env cs farm o
  | CEnergy o => c_energy_env cs o
  | CTime dblk dep => c_time cs dblk dep
  end.

(** A failed transaction reverts every contract: the runner keeps the old state. *)
Definition cstep_total (cs : cst) (o : cop) : cst :=
  match cstep cs o with Ok (cs', _) => cs' | Err _ => cs end.

Definition crun (cs : cst) (ops : list cop) : cst := fold_left cstep_total ops cs.

(** the world of tools/sys_proxydex.py before its set-up transactions: pair with (fee, special fee), the two farms
    with division safety constant [dsc], the factory's lock options [opts] (lock epochs, penalty) and the farms'
    lockEpochs [lock], at (block, epoch) *)
Definition init_c (fee sfee : Z) (bf : bool) (dsc : Z) (opts : list (Z * Z)) (lock blk epoch : Z) : cst :=
  mkC init_state (PR.init_pair fee sfee None)
      (FL.init_locked dsc true (map fst opts) lock) (FL.init_locked dsc false (map fst opts) lock)
      (EN.init_state (EN.mkCfg opts 10 0 0) epoch) bf blk g0.
