(** Executable model of energy-integration/fees-collector on top of [Model.Weekly], together with
    the energy source it reads (energy-integration/energy-factory-mock: the collector reads the
    factory's [userEnergy] storage directly and depletes the entry to the current epoch).

    Mirrors:
      fees-collector/src/lib.rs                       (init, claimRewards, claimBoostedRewards, claim_rewards,
                                                       FeesCollectorWrapper::collect_rewards_for_week)
      fees-collector/src/fees_accumulation.rs         (depositSwapFees, get_and_clear_accumulated_fees)
      fees-collector/src/additional_locked_tokens.rs  (setLockedTokensPerBlock, accumulate_additional_locked_tokens)
      fees-collector/src/config.rs                    (known contracts / tokens)
      common/modules/sc_whitelist_module              (get_orig_caller_from_opt, whitelist endpoints)
      multiversx-sc-modules pause                     (pause / unpause / not_paused)
      common-modules/energy-query/src/lib.rs          (get_energy_entry)
      energy-factory-mock/src/lib.rs                  (setUserEnergy, setUserEnergyAfterLockedTokenTransfer)
    No proofs in this file. *)
From MX Require Import Base.Prelude Gen.Params Model.Weekly.

(** Token codes: 8 = the locked token (rewards in it are re-locked through the locking contract, never
    paid from the collector's balance), anything else is an ordinary fungible fee token. *)
Definition LOCKED : Z := 8.
(** Account ids: OWNER deployed the collector; ids from SC_MIN up to OWNER are smart-contract
    addresses (pairs / proxies / depositors), ids below are user addresses. *)
Definition OWNER : Z := 100.
Definition SC_MIN : Z := 50.
Definition is_sc (a : Z) : bool := (SC_MIN <=? a) && (a <? OWNER).

(** the host part the weekly module's [collect] hook works on *)
Record fhost := mkHost {
  h_tokens : list Z;                       (* allTokens, in order *)
  h_acc : list (Z * list (Z * Z))          (* accumulatedFees(week)(token) *)
}.

Record fc := mkFC {
  fc_h : fhost;
  fc_w : wstate;
  fc_first_epoch : Z;                      (* firstWeekStartEpoch *)
  fc_epoch : Z;                            (* current block epoch *)
  fc_contracts : list Z;                   (* knownContracts *)
  fc_wl : list Z;                          (* scWhitelistAddresses *)
  fc_allow : list Z;                       (* allowExternalClaimRewards (no endpoint sets it in this version) *)
  fc_paused : bool;
  fc_lock_week : Z;                        (* lastLockedTokenAddWeek *)
  fc_per_block : Z;                        (* lockedTokensPerBlock *)
  fc_bal : list (Z * Z);                   (* the collector's fungible balances *)
  fc_factory : list (Z * en)               (* energy factory: userEnergy(user) *)
}.

Definition with_h (f : fc) (h : fhost) : fc :=
  mkFC h (fc_w f) (fc_first_epoch f) (fc_epoch f) (fc_contracts f) (fc_wl f) (fc_allow f) (fc_paused f)
       (fc_lock_week f) (fc_per_block f) (fc_bal f) (fc_factory f).
Definition with_w (f : fc) (w : wstate) : fc :=
  mkFC (fc_h f) w (fc_first_epoch f) (fc_epoch f) (fc_contracts f) (fc_wl f) (fc_allow f) (fc_paused f)
       (fc_lock_week f) (fc_per_block f) (fc_bal f) (fc_factory f).
Definition with_epoch (f : fc) (e : Z) : fc :=
  mkFC (fc_h f) (fc_w f) (fc_first_epoch f) e (fc_contracts f) (fc_wl f) (fc_allow f) (fc_paused f)
       (fc_lock_week f) (fc_per_block f) (fc_bal f) (fc_factory f).
Definition with_contracts (f : fc) (l : list Z) : fc :=
  mkFC (fc_h f) (fc_w f) (fc_first_epoch f) (fc_epoch f) l (fc_wl f) (fc_allow f) (fc_paused f)
       (fc_lock_week f) (fc_per_block f) (fc_bal f) (fc_factory f).
Definition with_wl (f : fc) (l : list Z) : fc :=
  mkFC (fc_h f) (fc_w f) (fc_first_epoch f) (fc_epoch f) (fc_contracts f) l (fc_allow f) (fc_paused f)
       (fc_lock_week f) (fc_per_block f) (fc_bal f) (fc_factory f).
Definition with_paused (f : fc) (b : bool) : fc :=
  mkFC (fc_h f) (fc_w f) (fc_first_epoch f) (fc_epoch f) (fc_contracts f) (fc_wl f) (fc_allow f) b
       (fc_lock_week f) (fc_per_block f) (fc_bal f) (fc_factory f).
Definition with_lock (f : fc) (wk pb : Z) : fc :=
  mkFC (fc_h f) (fc_w f) (fc_first_epoch f) (fc_epoch f) (fc_contracts f) (fc_wl f) (fc_allow f) (fc_paused f)
       wk pb (fc_bal f) (fc_factory f).
Definition with_bal (f : fc) (l : list (Z * Z)) : fc :=
  mkFC (fc_h f) (fc_w f) (fc_first_epoch f) (fc_epoch f) (fc_contracts f) (fc_wl f) (fc_allow f) (fc_paused f)
       (fc_lock_week f) (fc_per_block f) l (fc_factory f).
Definition with_factory (f : fc) (l : list (Z * en)) : fc :=
  mkFC (fc_h f) (fc_w f) (fc_first_epoch f) (fc_epoch f) (fc_contracts f) (fc_wl f) (fc_allow f) (fc_paused f)
       (fc_lock_week f) (fc_per_block f) (fc_bal f) l.

(** init(locked_token_id, energy_factory_address) at block epoch [epoch] *)
Definition init_fc (epoch : Z) : fc :=
  mkFC (mkHost [LOCKED] []) init_w epoch epoch [] [] [] false 0 0 [] [].

Definition mem (x : Z) (l : list Z) : bool := existsb (Z.eqb x) l.
Definition remove_z (x : Z) (l : list Z) : list Z := filter (fun y => negb (y =? x)) l.

(** ------------------------------------------------------------------ energy factory (mock) + energy-query *)
Fixpoint efind (l : list (Z * en)) (u : Z) : option en :=
  match l with
  | [] => None
  | (u', e) :: t => if u' =? u then Some e else efind t u
  end.

Fixpoint eset (l : list (Z * en)) (u : Z) (e : en) : list (Z * en) :=
  match l with
  | [] => [(u, e)]
  | (u', e') :: t => if u' =? u then (u, e) :: t else (u', e') :: eset t u e
  end.

(** get_energy_entry *)
Definition energy_entry (f : fc) (u : Z) : en :=
  match efind (fc_factory f) u with
  | Some e => en_deplete e (fc_epoch f)
  | None => en_zero (fc_epoch f)
  end.

Definition current_week (f : fc) : result Z := week_for_epoch (fc_first_epoch f) (fc_epoch f).

(** ------------------------------------------------------------------ fees_accumulation.rs *)
Definition acc_get (h : fhost) (week tok : Z) : Z := aget (rget (h_acc h) week) tok.
Definition acc_set (h : fhost) (week tok v : Z) : fhost :=
  mkHost (h_tokens h) (rset (h_acc h) week (aset (rget (h_acc h) week) tok v)).

(** FeesCollectorWrapper::collect_rewards_for_week: every known token's accumulated amount is taken
    (cleared); the non-zero ones form the week's total, in allTokens order *)
Fixpoint collect_tokens (h : fhost) (week : Z) (toks : list Z) : fhost * list (Z * Z) :=
  match toks with
  | [] => (h, [])
  | t :: tl =>
      let v := acc_get h week t in
      let '(h', r) := collect_tokens (acc_set h week t 0) week tl in
      (h', if 0 <? v then (t, v) :: r else r)
  end.

Definition fc_collect (h : fhost) (week : Z) : fhost * list (Z * Z) := collect_tokens h week (h_tokens h).

(** the collector keeps the default get_user_rewards_for_week *)
Definition fc_hook := default_user_rewards fhost fc_collect.

(** ------------------------------------------------------------------ additional_locked_tokens.rs *)
Definition accumulate_additional (f : fc) (cw : Z) : fc :=
  if fc_lock_week f =? cw then f else
  let lw := cw - 1 in
  let add := fc_per_block f * BLOCKS_IN_WEEK in
  let h := acc_set (fc_h f) lw LOCKED (acc_get (fc_h f) lw LOCKED + add) in
  with_lock (with_h f h) cw (fc_per_block f).

(** ------------------------------------------------------------------ operations *)
Inductive fop :=
| Advance (n : Z)                                  (* the chain moves on by n epochs *)
| SetEnergy (u amt tok : Z)                        (* factory: entry (amt, current epoch, tok) *)
| SetEnergyRaw (u amt ep tok : Z)                  (* factory: arbitrary entry (signed amount, any epoch) *)
| Deposit (c tok nonce amt : Z)                    (* depositSwapFees with one payment *)
| Claim (c : Z) (orig : option Z) (boosted : bool) (* claimRewards / claimBoostedRewards [original caller] *)
| UpdateEnergy (c u : Z)                           (* updateEnergyForUser(u) *)
| Pause (c : Z) (p : bool)
| AddToken (c t : Z) | RemoveToken (c t : Z)
| AddContract (c a : Z) | RemoveContract (c a : Z)
| WlAdd (c a : Z) | WlRm (c a : Z)
| SetPerBlock (c amt : Z).

(** what an operation hands back: the payments the endpoint returns (token, amount) and, for a
    claim, the per-week breakdown [(week, payments)] they were added up from *)
Definition outs := list (Z * Z).
Definition detail := list (Z * list (Z * Z)).

Definition owner_only (c : Z) : bool := c =? OWNER.

Definition ep_advance (f : fc) (n : Z) : result (fc * outs * detail) :=
  check (0 <=? n) else EGuard;
  Ok (with_epoch f (fc_epoch f + n), [], []).

Definition ep_set_energy (f : fc) (u amt tok : Z) : result (fc * outs * detail) :=
  check (0 <=? amt) && (0 <=? tok) else EGuard;
  Ok (with_factory f (eset (fc_factory f) u (mkEn amt (fc_epoch f) tok)), [], []).

Definition ep_set_energy_raw (f : fc) (u amt ep tok : Z) : result (fc * outs * detail) :=
  check (0 <=? ep) && (0 <=? tok) else EGuard;
  Ok (with_factory f (eset (fc_factory f) u (mkEn amt ep tok)), [], []).

Definition ep_deposit (f : fc) (c tok nonce amt : Z) : result (fc * outs * detail) :=
  check (0 <=? amt) && (0 <=? nonce) else EGuard;
  check mem c (fc_contracts f) else EPerm;
  check mem tok (h_tokens (fc_h f)) else EGuard;
  do cw <- current_week f;
  do f1 <- (if 0 <? nonce then
              check (tok =? LOCKED) else EGuard;
              Ok f                                                      (* burned on arrival *)
            else Ok (with_bal f (aset (fc_bal f) tok (aget (fc_bal f) tok + amt))));
  Ok (with_h f1 (acc_set (fc_h f1) cw tok (acc_get (fc_h f1) cw tok + amt)), [], []).

(** outgoing direct_multi: the VM aborts on an insufficient balance *)
Fixpoint pay_out (bal : list (Z * Z)) (ps : list (Z * Z)) : result (list (Z * Z)) :=
  match ps with
  | [] => Ok bal
  | (t, a) :: tl => do b <- sub_chk (aget bal t) a; pay_out (aset bal t b) tl
  end.

Definition locked_total (ps : list (Z * Z)) : Z :=
  fold_right (fun p acc => if fst p =? LOCKED then snd p + acc else acc) 0 ps.
Definition unlocked_part (ps : list (Z * Z)) : list (Z * Z) :=
  filter (fun p => negb (fst p =? LOCKED)) ps.

(** claim_rewards(caller, original_caller): rewards go to [dest], progress and energy are [user]'s *)
Definition claim_rewards (f : fc) (dest user : Z) : result (fc * outs * detail) :=
  do cw <- current_week f;
  let f1 := accumulate_additional f cw in
  do (h2, w2, det) <- claim_multi fhost fc_hook (fc_h f1) (fc_w f1) user cw (energy_entry f1 user);
  let f2 := with_w (with_h f1 h2) w2 in
  let all := flat_rewards det in
  let plain := unlocked_part all in
  let lk := locked_total all in
  do bal' <- pay_out (fc_bal f2) plain;
  (* locked-token rewards are minted by the locking contract (lock_virtual), not taken from the balance *)
  Ok (with_bal f2 bal', plain ++ (if 0 <? lk then [(LOCKED, lk)] else []), det).

Definition ep_claim (f : fc) (c : Z) (orig : option Z) (boosted : bool) : result (fc * outs * detail) :=
  check negb (fc_paused f) else EState;
  if boosted then
    match orig with
    | Some u => check mem u (fc_allow f) else EPerm; claim_rewards f u u
    | None => claim_rewards f c c
    end
  else
    match orig with
    | Some u => check mem c (fc_wl f) else EPerm; claim_rewards f c u
    | None => claim_rewards f c c
    end.

Definition ep_update_energy (f : fc) (c u : Z) : result (fc * outs * detail) :=
  do cw <- current_week f;
  do w' <- update_energy_for_user (fc_w f) u cw (energy_entry f u);
  Ok (with_w f w', [], []).

Definition ep_pause (f : fc) (c : Z) (p : bool) : result (fc * outs * detail) :=
  check owner_only c else EPerm;
  Ok (with_paused f p, [], []).

Definition ep_add_token (f : fc) (c t : Z) : result (fc * outs * detail) :=
  check owner_only c else EPerm;
  let h := fc_h f in
  Ok (with_h f (mkHost (if mem t (h_tokens h) then h_tokens h else h_tokens h ++ [t]) (h_acc h)), [], []).

Definition ep_remove_token (f : fc) (c t : Z) : result (fc * outs * detail) :=
  check owner_only c else EPerm;
  let h := fc_h f in
  Ok (with_h f (mkHost (remove_z t (h_tokens h)) (h_acc h)), [], []).

Definition ep_add_contract (f : fc) (c a : Z) : result (fc * outs * detail) :=
  check owner_only c else EPerm;
  check is_sc a else EGuard;
  Ok (with_contracts f (if mem a (fc_contracts f) then fc_contracts f else fc_contracts f ++ [a]), [], []).

Definition ep_remove_contract (f : fc) (c a : Z) : result (fc * outs * detail) :=
  check owner_only c else EPerm;
  Ok (with_contracts f (remove_z a (fc_contracts f)), [], []).

Definition ep_wl_add (f : fc) (c a : Z) : result (fc * outs * detail) :=
  check owner_only c else EPerm;
  check negb (mem a (fc_wl f)) else EGuard;
  Ok (with_wl f (fc_wl f ++ [a]), [], []).

Definition ep_wl_rm (f : fc) (c a : Z) : result (fc * outs * detail) :=
  check owner_only c else EPerm;
  check mem a (fc_wl f) else EGuard;
  Ok (with_wl f (remove_z a (fc_wl f)), [], []).

Definition ep_set_per_block (f : fc) (c amt : Z) : result (fc * outs * detail) :=
  check owner_only c else EPerm;
  check (0 <=? amt) else EGuard;
  do cw <- current_week f;
  let f1 := accumulate_additional f cw in
  Ok (with_lock f1 (fc_lock_week f1) amt, [], []).

Definition step (f : fc) (op : fop) : result (fc * outs * detail) :=
  match op with
  | Advance n => ep_advance f n
  | SetEnergy u amt tok => ep_set_energy f u amt tok
  | SetEnergyRaw u amt ep tok => ep_set_energy_raw f u amt ep tok
  | Deposit c tok nonce amt => ep_deposit f c tok nonce amt
  | Claim c orig boosted => ep_claim f c orig boosted
  | UpdateEnergy c u => ep_update_energy f c u
  | Pause c p => ep_pause f c p
  | AddToken c t => ep_add_token f c t
  | RemoveToken c t => ep_remove_token f c t
  | AddContract c a => ep_add_contract f c a
  | RemoveContract c a => ep_remove_contract f c a
  | WlAdd c a => ep_wl_add f c a
  | WlRm c a => ep_wl_rm f c a
  | SetPerBlock c amt => ep_set_per_block f c amt
  end.

(** A failed transaction reverts: the runner keeps the old state. *)
Definition step_total (f : fc) (op : fop) : fc :=
  match step f op with Ok (f', _, _) => f' | Err _ => f end.

Definition run (f : fc) (ops : list fop) : fc := fold_left step_total ops f.

(** ------------------------------------------------------------------ views *)
Definition view_total_rewards (f : fc) (week : Z) : list (Z * Z) := rget (w_rewards (fc_w f)) week.
Definition view_total_energy (f : fc) (week : Z) : Z := aget (w_energy (fc_w f)) week.
Definition view_total_locked (f : fc) (week : Z) : Z := aget (w_tokens (fc_w f)) week.
Definition view_accumulated (f : fc) (week tok : Z) : Z := acc_get (fc_h f) week tok.
Definition view_progress (f : fc) (u : Z) : option progress := pfind (w_prog (fc_w f)) u.
Definition view_last_global (f : fc) : Z := w_last (fc_w f).
