(** Executable model of dex/farm (base functions of the farm family).

    Mirrors:
      common/modules/farm/farm_base_impl/src/{base_traits_impl,enter_farm,claim_rewards,compound_rewards,exit_farm}.rs
      common/modules/farm/contexts/src/storage_cache.rs      (load / commit discipline)
      common/common_structs/src/farm_types.rs                (into_part, merge_with)
      common/modules/math/src/lib.rs                         (weighted_average_round_up)
      common/traits/fixed-supply-token/src/lib.rs            (rule_of_three)
      common/modules/utils/src/lib.rs                        (merge_attributes_from_payments, ...)
      dex/farm/src/{lib,base_functions,exit_penalty}.rs
      energy-integration/farm-boosted-yields/src/lib.rs      (take_reward_slice)

    The boosted-yields payout of an operation is an INPUT [b] of the operation here (the weekly
    splitting that computes it is modelled in Model/Weekly.v); this model accounts for where [b]
    comes from: it is debited from the reward reserve and from the aggregate of the boosted pools
    [f_pool] = sum over weeks of accumulated + remaining + undistributed.  The per-week bound
    (b never exceeds the week's frozen pool) is property C11; here it appears as the guard
    [b <= f_pool].

    Position migration (farm_position_migration_nonce) is fixed at its default 1: no "old" positions.
    No proofs in this file. *)
From MX Require Import Base.Prelude Gen.Params.

Definition OWNER : Z := 100.
Definition MAXP : Z := FARM_MAX_PERCENT.

Record attrs := mkAttrs {
  a_rps : Z; a_epoch : Z; a_comp : Z; a_amt : Z; a_owner : Z
}.

Record farm := mkFarm {
  f_supply : Z;            (* farm_token_supply *)
  f_reserve : Z;           (* reward_reserve *)
  f_rps : Z;               (* reward_per_share *)
  f_last : Z;              (* last_reward_block_nonce *)
  f_rate : Z;              (* per_block_reward_amount *)
  f_produce : bool;        (* produce_rewards_enabled *)
  f_pct : Z;               (* boostedYieldsRewardsPercentage *)
  f_factors : bool;        (* boostedYieldsConfig set *)
  f_dsc : Z;               (* division_safety_constant *)
  f_minep : Z; f_pen : Z;  (* minimum_farming_epochs, penalty_percent *)
  f_state : Z;             (* pausable::State *)
  f_same : bool;           (* farming token = reward token (compound allowed) *)
  f_next : Z;              (* next farm-token nonce *)
  f_attrs : list (Z * attrs);     (* nonce -> attributes of every position ever minted *)
  f_held : list (Z * Z);          (* key nonce*1000+holder -> amount held *)
  f_utot : list (Z * Z);          (* userTotalFarmPosition *)
  f_bal_rew : Z;           (* reward tokens the farm holds as rewards *)
  f_bal_farming : Z;       (* farming tokens the farm holds as principal *)
  f_pool : Z;              (* sum of boosted pools: accumulated + remaining + undistributed *)
  f_gen : Z; f_paid : Z;   (* ghost: rewards generated / paid so far *)
  f_out : list (Z * Z)     (* ghost: nonce -> amount outstanding (held by any account) *)
}.

Definition upd_core (f : farm) (supply reserve rps last : Z) : farm :=
  mkFarm supply reserve rps last (f_rate f) (f_produce f) (f_pct f) (f_factors f) (f_dsc f) (f_minep f)
         (f_pen f) (f_state f) (f_same f) (f_next f) (f_attrs f) (f_held f) (f_utot f)
         (f_bal_rew f) (f_bal_farming f) (f_pool f) (f_gen f) (f_paid f) (f_out f).
Definition upd_cfg (f : farm) (rate : Z) (produce : bool) (pct : Z) (factors : bool) (minep pen st : Z) : farm :=
  mkFarm (f_supply f) (f_reserve f) (f_rps f) (f_last f) rate produce pct factors (f_dsc f) minep pen st
         (f_same f) (f_next f) (f_attrs f) (f_held f) (f_utot f) (f_bal_rew f) (f_bal_farming f)
         (f_pool f) (f_gen f) (f_paid f) (f_out f).
Definition upd_tokens (f : farm) (next : Z) (at_ : list (Z * attrs)) (held utot : list (Z * Z)) : farm :=
  mkFarm (f_supply f) (f_reserve f) (f_rps f) (f_last f) (f_rate f) (f_produce f) (f_pct f) (f_factors f)
         (f_dsc f) (f_minep f) (f_pen f) (f_state f) (f_same f) next at_ held utot
         (f_bal_rew f) (f_bal_farming f) (f_pool f) (f_gen f) (f_paid f) (f_out f).
Definition upd_out (f : farm) (o : list (Z * Z)) : farm :=
  mkFarm (f_supply f) (f_reserve f) (f_rps f) (f_last f) (f_rate f) (f_produce f) (f_pct f) (f_factors f)
         (f_dsc f) (f_minep f) (f_pen f) (f_state f) (f_same f) (f_next f) (f_attrs f) (f_held f) (f_utot f)
         (f_bal_rew f) (f_bal_farming f) (f_pool f) (f_gen f) (f_paid f) o.
Definition upd_money (f : farm) (brew bfarm pool gen paid : Z) : farm :=
  mkFarm (f_supply f) (f_reserve f) (f_rps f) (f_last f) (f_rate f) (f_produce f) (f_pct f) (f_factors f)
         (f_dsc f) (f_minep f) (f_pen f) (f_state f) (f_same f) (f_next f) (f_attrs f) (f_held f) (f_utot f)
         brew bfarm pool gen paid (f_out f).

Definition init_farm (dsc : Z) (same : bool) : farm :=
  mkFarm 0 0 0 0 0 false 0 false dsc FARM_DEFAULT_MINUMUM_FARMING_EPOCHS FARM_DEFAULT_PENALTY_PERCENT
         ST_Inactive same 1 [] [] [] 0 0 0 0 0 [].

(** ------------------------------------------------------------------ attributes algebra *)
Definition ceil_avg (v1 w1 v2 w2 : Z) : result Z :=
  do q <- div_chk (v1 * w1 + v2 * w2 + (w1 + w2) - 1) (w1 + w2); Ok q.

(** rule_of_three: full * part / total (exact copy when part = total) *)
Definition rule3 (total part full : Z) : result Z :=
  if part =? total then Ok full else div_chk (full * part) total.

Definition into_part (a : attrs) (x : Z) : result attrs :=
  if x =? a_amt a then Ok a else
  do c <- rule3 (a_amt a) x (a_comp a);
  Ok (mkAttrs (a_rps a) (a_epoch a) c x (a_owner a)).

Definition merge_with (a b : attrs) : result attrs :=
  do r <- ceil_avg (a_rps a) (a_amt a) (a_rps b) (a_amt b);
  Ok (mkAttrs r (Z.max (a_epoch a) (a_epoch b)) (a_comp a + a_comp b) (a_amt a + a_amt b) (a_owner a)).

Fixpoint find_attrs (l : list (Z * attrs)) (n : Z) : option attrs :=
  match l with
  | [] => None
  | (k, a) :: t => if k =? n then Some a else find_attrs t n
  end.

Definition get_attrs (f : farm) (n : Z) : result attrs :=
  match find_attrs (f_attrs f) n with Some a => Ok a | None => Err EGuard end.

(** merge_attributes_from_payments *)
Fixpoint merge_payments (f : farm) (base : attrs) (ps : list (Z * Z)) : result attrs :=
  match ps with
  | [] => Ok base
  | (n, x) :: t =>
      do a <- get_attrs f n;
      do p <- into_part a x;
      do m <- merge_with base p;
      merge_payments f m t
  end.

(** ------------------------------------------------------------------ position-token ledger *)
Definition hkey (n h : Z) : Z := n * 1000 + h.
Definition held (f : farm) (n h : Z) : Z := aget (f_held f) (hkey n h).
Definition utot (f : farm) (u : Z) : Z := aget (f_utot f) u.

(** caller [c] pays amount [x] of nonce [n] (the VM rejects insufficient balance and zero amounts) *)
Definition outst (f : farm) (n : Z) : Z := aget (f_out f) n.

(** account [c] gives up [x] of nonce [n] (the VM rejects insufficient balance and zero amounts) *)
Definition debit_held (f : farm) (c : Z) (p : Z * Z) : result farm :=
  let '(n, x) := p in
  check (0 <? x) else EGuard;
  do b <- sub_chk (held f n c) x;
  Ok (upd_tokens f (f_next f) (f_attrs f) (aset (f_held f) (hkey n c) b) (f_utot f)).

(** a position payment to the farm: every endpoint burns what it receives, so the amount stops
    being outstanding *)
Definition pay_in (f : farm) (c : Z) (p : Z * Z) : result farm :=
  do f1 <- debit_held f c p;
  do o <- sub_chk (outst f1 (fst p)) (snd p);
  Ok (upd_out f1 (aset (f_out f1) (fst p) o)).

Fixpoint pay_all (f : farm) (c : Z) (ps : list (Z * Z)) : result farm :=
  match ps with
  | [] => Ok f
  | p :: t => do f1 <- pay_in f c p; pay_all f1 c t
  end.

(** nft_create: new nonce with attributes, whole amount credited to [dst] *)
Definition mint_pos (f : farm) (a : attrs) (dst : Z) : farm * Z :=
  let n := f_next f in
  let f1 := upd_tokens f (n + 1) (f_attrs f ++ [(n, a)]) (aset (f_held f) (hkey n dst) (held f n dst + a_amt a)) (f_utot f) in
  (upd_out f1 (aset (f_out f1) n (outst f1 n + a_amt a)), n).

Definition set_utot (f : farm) (u v : Z) : farm :=
  upd_tokens f (f_next f) (f_attrs f) (f_held f) (aset (f_utot f) u v).

(** decrease_user_farm_position: saturating *)
Definition decrease_user (f : farm) (p : Z * Z) : result farm :=
  let '(n, x) := p in
  do a <- get_attrs f n;
  let t := utot f (a_owner a) in
  Ok (if x <? t then set_utot f (a_owner a) (t - x) else set_utot f (a_owner a) 0).

Definition increase_user (f : farm) (u x : Z) : farm := set_utot f u (utot f u + x).

(** check_and_update_user_farm_position *)
Fixpoint check_update (f : farm) (u : Z) (ps : list (Z * Z)) : result farm :=
  match ps with
  | [] => Ok f
  | (n, x) :: t =>
      do a <- get_attrs f n;
      if a_owner a =? u then check_update f u t
      else do f1 <- decrease_user f (n, x);
           check_update (increase_user f1 u x) u t
  end.

(** ------------------------------------------------------------------ reward generation *)
(** take_reward_slice (after the F4 repair: nothing is cut while no factors are configured) *)
Definition boosted_cut (f : farm) (total : Z) : Z :=
  if (f_pct f =? 0) || negb (f_factors f) then 0 else total * f_pct f / MAXP.

(** Wrapper::generate_aggregated_rewards on the storage cache *)
Definition settle (f : farm) (blk : Z) : result farm :=
  if blk <=? f_last f then Ok f else
  let to_mint := if f_produce f then f_rate f * (blk - f_last f) else 0 in
  if to_mint =? 0 then Ok (upd_core f (f_supply f) (f_reserve f) (f_rps f) blk) else
  let cut := boosted_cut f to_mint in
  let base := to_mint - cut in
  do inc <- (if f_supply f =? 0 then Ok 0 else div_chk (base * f_dsc f) (f_supply f));
  let f1 := upd_core f (f_supply f) (f_reserve f + to_mint) (f_rps f + inc) blk in
  Ok (upd_money f1 (f_bal_rew f + to_mint) (f_bal_farming f) (f_pool f + cut) (f_gen f + to_mint) (f_paid f)).

(** DefaultFarmWrapper::calculate_rewards *)
Definition base_reward (f : farm) (a : attrs) (x : Z) : result Z :=
  if a_rps a <? f_rps f then div_chk (x * (f_rps f - a_rps a)) (f_dsc f) else Ok 0.

(** pay [r] reward tokens out of reserve, of which [b] come from the boosted pools *)
Definition pay_reward (f : farm) (r b : Z) : result farm :=
  check (0 <=? b) else EGuard;
  do res <- sub_chk (f_reserve f) r;
  do pool <- sub_chk (f_pool f) b;
  do bal <- sub_chk (f_bal_rew f) r;
  let f1 := upd_core f (f_supply f) res (f_rps f) (f_last f) in
  Ok (upd_money f1 bal (f_bal_farming f) pool (f_gen f) (f_paid f + r)).

Definition active (f : farm) : bool := f_state f =? ST_Active.

(** ------------------------------------------------------------------ operations *)
Inductive fop :=
| FEnter (blk ep c amt : Z) (adds : list (Z * Z)) (b : Z)
| FClaim (blk ep c : Z) (first : Z * Z) (adds : list (Z * Z)) (b : Z)
| FCompound (blk ep c : Z) (first : Z * Z) (adds : list (Z * Z)) (b : Z)
| FExit (blk ep c : Z) (p : Z * Z) (b : Z)
| FMerge (blk ep c : Z) (ps : list (Z * Z)) (b : Z)
| FClaimBoosted (blk ep c : Z) (b : Z)
| FTransfer (n src dst amt : Z)
| FSetRate (blk c r : Z)
| FStart (blk c : Z)
| FEnd (blk c : Z)
| FSetPct (blk c p : Z)
| FSetFactors (c : Z)
| FSetState (c st : Z)
| FSetMinEpochs (c e : Z)
| FSetPenalty (c p : Z)
| FTopUp (amt : Z).      (* plain transfer of reward tokens to the farm: anybody can do it *)

Definition fouts := list Z.

Definition ep_enter (f : farm) (blk ep c amt : Z) (adds : list (Z * Z)) (b : Z) : result (farm * fouts) :=
  check (0 <? amt) else EGuard;
  (* claim_only_boosted_payment: direct storage debit, no live cache yet *)
  do f0 <- pay_reward f b b;
  check active f0 else EState;
  do f1 <- pay_all f0 c adds;
  do f2 <- check_update f1 c adds;
  let f3 := increase_user f2 c amt in
  do f4 <- settle f3 blk;
  let f5 := upd_core f4 (f_supply f4 + amt) (f_reserve f4) (f_rps f4) (f_last f4) in
  do m <- merge_payments f5 (mkAttrs (f_rps f5) ep 0 amt c) adds;
  let '(f6, n) := mint_pos f5 m c in
  let f7 := upd_money f6 (f_bal_rew f6) (f_bal_farming f6 + amt) (f_pool f6) (f_gen f6) (f_paid f6) in
  Ok (f7, [n; a_amt m; b]).

Definition ep_claim (f : farm) (blk ep c : Z) (first : Z * Z) (adds : list (Z * Z)) (b : Z)
  : result (farm * fouts) :=
  check active f else EState;
  do f1 <- pay_all f c (first :: adds);
  do f2 <- settle f1 blk;
  do a <- get_attrs f2 (fst first);
  do part <- into_part a (snd first);
  do base <- base_reward f2 part (snd first);
  do f3 <- pay_reward f2 (base + b) b;
  do f4 <- check_update f3 c (first :: adds);
  do m <- merge_payments f4 (mkAttrs (f_rps f4) (a_epoch part) (a_comp part) (a_amt part) c) adds;
  let '(f5, n) := mint_pos f4 m c in
  Ok (f5, [n; a_amt m; base + b]).

Definition ep_compound (f : farm) (blk ep c : Z) (first : Z * Z) (adds : list (Z * Z)) (b : Z)
  : result (farm * fouts) :=
  check active f else EState;
  check f_same f else EGuard;
  do f1 <- pay_all f c (first :: adds);
  do f2 <- settle f1 blk;
  do a <- get_attrs f2 (fst first);
  do part <- into_part a (snd first);
  do base <- base_reward f2 part (snd first);
  let r := base + b in
  do f3 <- pay_reward f2 r b;
  let f3' := upd_core f3 (f_supply f3 + r) (f_reserve f3) (f_rps f3) (f_last f3) in
  do f4 <- check_update f3' c (first :: adds);
  do m <- merge_payments f4 (mkAttrs (f_rps f4) ep (a_comp part + r) (a_amt part + r) c) adds;
  let '(f5, n) := mint_pos f4 m c in
  let f6 := increase_user f5 c r in
  let f7 := upd_money f6 (f_bal_rew f6) (f_bal_farming f6 + r) (f_pool f6) (f_gen f6) (f_paid f6) in
  Ok (f7, [n; a_amt m]).

Definition ep_exit (f : farm) (blk ep c : Z) (p : Z * Z) (b : Z) : result (farm * fouts) :=
  check active f else EState;
  do f1 <- pay_in f c p;
  do f2 <- settle f1 blk;
  do a <- get_attrs f2 (fst p);
  do part <- into_part a (snd p);
  do base <- base_reward f2 part (snd p);
  do f3 <- pay_reward f2 (base + b) b;
  do f4 <- decrease_user f3 p;
  do sup <- sub_chk (f_supply f4) (a_amt part);
  let f5 := upd_core f4 sup (f_reserve f4) (f_rps f4) (f_last f4) in
  do age <- sub_chk ep (a_epoch a);
  let pen := if age <? f_minep f5 then a_amt part * f_pen f5 / MAXP else 0 in
  do out <- sub_chk (a_amt part) pen;
  do bal <- sub_chk (f_bal_farming f5) (a_amt part);
  let f6 := upd_money f5 (f_bal_rew f5) bal (f_pool f5) (f_gen f5) (f_paid f5) in
  Ok (f6, [out; base + b]).

Definition ep_merge (f : farm) (blk ep c : Z) (ps : list (Z * Z)) (b : Z) : result (farm * fouts) :=
  check active f else EState;                    (* F2 repair *)
  match ps with
  | [] => Err EGuard
  | first :: rest =>
      do f0 <- pay_reward f b b;
      do f1 <- pay_all f0 c ps;
      do f2 <- check_update f1 c ps;
      do a <- get_attrs f2 (fst first);
      do part <- into_part a (snd first);
      do m0 <- merge_payments f2 part rest;
      let m := mkAttrs (a_rps m0) (a_epoch m0) (a_comp m0) (a_amt m0) c in
      let '(f3, n) := mint_pos f2 m c in
      Ok (f3, [n; a_amt m; b])
  end.

Definition ep_claim_boosted (f : farm) (blk ep c : Z) (b : Z) : result (farm * fouts) :=
  check negb (utot f c =? 0) else EGuard;
  check active f else EState;
  do f1 <- settle f blk;
  do f2 <- pay_reward f1 b b;
  Ok (f2, [b]).

Definition ep_transfer (f : farm) (n src dst amt : Z) : result (farm * fouts) :=
  do f1 <- debit_held f src (n, amt);
  Ok (upd_tokens f1 (f_next f1) (f_attrs f1) (aset (f_held f1) (hkey n dst) (held f1 n dst + amt)) (f_utot f1), []).

Definition admin (c : Z) : bool := c =? OWNER.

Definition fstep (f : farm) (op : fop) : result (farm * fouts) :=
  match op with
  | FEnter blk ep c amt adds b => ep_enter f blk ep c amt adds b
  | FClaim blk ep c first adds b => ep_claim f blk ep c first adds b
  | FCompound blk ep c first adds b => ep_compound f blk ep c first adds b
  | FExit blk ep c p b => ep_exit f blk ep c p b
  | FMerge blk ep c ps b => ep_merge f blk ep c ps b
  | FClaimBoosted blk ep c b => ep_claim_boosted f blk ep c b
  | FTransfer n s d a => ep_transfer f n s d a
  | FSetRate blk c r =>
      check admin c else EPerm; check negb (r =? 0) && (0 <=? r) else EGuard;
      do f1 <- settle f blk;
      Ok (upd_cfg f1 r (f_produce f1) (f_pct f1) (f_factors f1) (f_minep f1) (f_pen f1) (f_state f1), [])
  | FStart blk c =>
      check admin c else EPerm; check negb (f_rate f =? 0) else EGuard; check negb (f_produce f) else EGuard;
      let f1 := upd_core f (f_supply f) (f_reserve f) (f_rps f) blk in
      Ok (upd_cfg f1 (f_rate f1) true (f_pct f1) (f_factors f1) (f_minep f1) (f_pen f1) (f_state f1), [])
  | FEnd blk c =>
      check admin c else EPerm;
      do f1 <- settle f blk;
      Ok (upd_cfg f1 (f_rate f1) false (f_pct f1) (f_factors f1) (f_minep f1) (f_pen f1) (f_state f1), [])
  | FSetPct blk c p =>
      check admin c else EPerm; check (0 <=? p) && (p <=? MAXP) else EGuard;
      do f1 <- settle f blk;
      Ok (upd_cfg f1 (f_rate f1) (f_produce f1) p (f_factors f1) (f_minep f1) (f_pen f1) (f_state f1), [])
  | FSetFactors c =>
      check admin c else EPerm;
      Ok (upd_cfg f (f_rate f) (f_produce f) (f_pct f) true (f_minep f) (f_pen f) (f_state f), [])
  | FSetState c st =>
      check admin c else EPerm; check (st =? ST_Active) || (st =? ST_Inactive) else EGuard;
      Ok (upd_cfg f (f_rate f) (f_produce f) (f_pct f) (f_factors f) (f_minep f) (f_pen f) st, [])
  | FSetMinEpochs c e =>
      check admin c else EPerm; check (0 <=? e) && (e <=? FARM_MAX_MINIMUM_FARMING_EPOCHS) else EGuard;
      Ok (upd_cfg f (f_rate f) (f_produce f) (f_pct f) (f_factors f) e (f_pen f) (f_state f), [])
  | FSetPenalty c p =>
      check admin c else EPerm; check (0 <=? p) && (p <? MAXP) else EGuard;
      Ok (upd_cfg f (f_rate f) (f_produce f) (f_pct f) (f_factors f) (f_minep f) p (f_state f), [])
  | FTopUp amt =>
      check (0 <? amt) else EGuard;
      Ok (upd_money f (f_bal_rew f + amt) (f_bal_farming f) (f_pool f) (f_gen f) (f_paid f), [])
  end.

Definition fstep_total (f : farm) (op : fop) : farm :=
  match fstep f op with Ok (f', _) => f' | Err _ => f end.

Definition frun (f : farm) (ops : list fop) : farm := fold_left fstep_total ops f.
