(** Executable model of the energy bookkeeping of the locked-asset subsystem (property C08).

    Mirrors, function by function and guard by guard:
      locked-asset/energy-factory/src/energy.rs               (Energy: add, subtract, deplete, raw add/remove,
                                                               add_after_token_lock, refund_after_token_unlock,
                                                               deplete_after_early_unlock, update_after_unlock_any,
                                                               update_after_unlock_epoch_change, views)
      locked-asset/energy-factory/src/lib.rs                  (lockTokens, unlockTokens, extendLockPeriod)
      locked-asset/energy-factory/src/extend_lock.rs          (lock_by_token_type, lock_base_asset, extend_new_token_period)
      locked-asset/energy-factory/src/token_merging.rs        (mergeTokens, weighted average, month normalisation)
      locked-asset/energy-factory/src/unlock_with_penalty.rs  (unlockEarly, reduceLockPeriod, reduce_lock_period_common)
      locked-asset/energy-factory/src/penalty.rs, lock_options.rs (percentages, start-of-month rounding)
      locked-asset/energy-factory/src/virtual_lock.rs         (lockVirtual)
      locked-asset/energy-factory/src/locked_token_transfer.rs, unstake.rs (setUserEnergyAfterLockedTokenTransfer, revertUnstake)
      locked-asset/simple-lock/src/basic_lock_unlock.rs       (lock_tokens, unlock_tokens)
      locked-asset/token-unstake/src/{fees_handler,unbond_tokens,cancel_unstake}.rs
      locked-asset/lkmex-transfer/src/{lib,energy_transfer}.rs
      locked-asset/locked-token-wrapper/src/lib.rs

    Conventions.
    * Every locked token created by the factory has attributes (base asset, 0, unlock_epoch) and
      [get_or_create_nonce_for_attributes] keeps one nonce per attribute value, so a locked token
      "kind" is identified here by its unlock epoch; the harness translates nonces to unlock epochs
      through the real token attributes.
    * The ledger is the list of signed balance changes; the balance of (holder, unlock epoch) is the
      sum of its entries.  A debit is guarded like an ESDT transfer / burn (aborts when insufficient).
    * Accounts: ids > 0 are user accounts (externally owned); the contract accounts that hold locked
      tokens in escrow are H_UNSTAKE (token-unstake), H_XFER (lkmex-transfer), H_WRAP (wrapper).
      Penalty fees are burned (token-unstake burns its share, the fees collector burns the rest).
    * The whitelisted contract of [extendLockPeriod] / [lockVirtual] / [mergeTokens(original_caller)]
      is a pass-through that acts for the user and hands the result back in the same operation
      (ExtendVia / LockVirtual / MergeVia).  Positions a proxy keeps for a user are not modelled.
    No proofs in this file. *)
From MX Require Import Base.Prelude Gen.Params.

(** ------------------------------------------------------------------ energy.rs *)
Record energy := mkEn { e_amt : Z; e_upd : Z; e_tot : Z }.

Definition zero_energy : energy := mkEn 0 0 0.

(** Energy::add *)
Definition en_add (en : energy) (future current per_epoch : Z) : energy :=
  if future <=? current then en
  else mkEn (e_amt en + per_epoch * (future - current)) (e_upd en) (e_tot en).

(** Energy::subtract *)
Definition en_subtract (en : energy) (past current per_epoch : Z) : energy :=
  if current <=? past then en
  else mkEn (e_amt en - per_epoch * (current - past)) (e_upd en) (e_tot en).

Definition deplete (en : energy) (now : Z) : energy :=
  if e_upd en =? now then en
  else
    let en1 := if 0 <? e_tot en then en_subtract en (e_upd en) now (e_tot en) else en in
    mkEn (e_amt en1) now (e_tot en1).

Definition add_energy_raw (en : energy) (tok amt : Z) : energy :=
  mkEn (e_amt en + amt) (e_upd en) (e_tot en + tok).

Definition remove_energy_raw (en : energy) (tok amt : Z) : result energy :=
  do t <- sub_chk (e_tot en) tok;
  Ok (mkEn (e_amt en - amt) (e_upd en) t).

Definition add_after_token_lock (en : energy) (amt unlock now : Z) : energy :=
  let en1 := en_add en unlock now amt in
  mkEn (e_amt en1) (e_upd en1) (e_tot en1 + amt).

Definition refund_after_token_unlock (en : energy) (amt unlock now : Z) : result energy :=
  let en1 := en_add en now unlock amt in
  do t <- sub_chk (e_tot en1) amt;
  Ok (mkEn (e_amt en1) (e_upd en1) t).

Definition deplete_after_early_unlock (en : energy) (amt unlock now : Z) : result energy :=
  let en1 := en_subtract en now unlock amt in
  do t <- sub_chk (e_tot en1) amt;
  Ok (mkEn (e_amt en1) (e_upd en1) t).

Definition update_after_unlock_any (en : energy) (amt unlock now : Z) : result energy :=
  if unlock <? now then refund_after_token_unlock en amt unlock now
  else deplete_after_early_unlock en amt unlock now.

Definition update_after_unlock_epoch_change (en : energy) (amt old_unlock new_unlock now : Z) : result energy :=
  do en1 <- update_after_unlock_any en amt old_unlock now;
  Ok (add_after_token_lock en1 amt new_unlock now).

Definition get_energy_amount (en : energy) : Z := if 0 <? e_amt en then e_amt en else 0.

(** ------------------------------------------------------------------ ledger *)
Definition ledger := list (Z * Z * Z).          (* ((holder, unlock epoch), signed change) *)

Fixpoint lget (l : ledger) (h e : Z) : Z :=
  match l with
  | [] => 0
  | (h', e', a) :: t => (if (h' =? h) && (e' =? e) then a else 0) + lget t h e
  end.

Definition credit (l : ledger) (h e a : Z) : ledger := (h, e, a) :: l.

Definition debit (l : ledger) (h e a : Z) : result ledger :=
  do _ <- sub_chk (lget l h e) a;
  Ok ((h, e, - a) :: l).

Fixpoint credit_all (l : ledger) (h : Z) (ps : list (Z * Z)) : ledger :=
  match ps with
  | [] => l
  | (e, a) :: t => credit_all (credit l h e a) h t
  end.

Fixpoint debit_all (l : ledger) (h : Z) (ps : list (Z * Z)) : result ledger :=
  match ps with
  | [] => Ok l
  | (e, a) :: t => do l1 <- debit l h e a; debit_all l1 h t
  end.

(** sum of amount * unlock_epoch, and of amount, over the tokens held by [h] *)
Fixpoint lweight (l : ledger) (h : Z) : Z :=
  match l with
  | [] => 0
  | (h', e, a) :: t => (if h' =? h then a * e else 0) + lweight t h
  end.

Fixpoint ltotal (l : ledger) (h : Z) : Z :=
  match l with
  | [] => 0
  | (h', _, a) :: t => (if h' =? h then a else 0) + ltotal t h
  end.

Definition H_UNSTAKE : Z := 0.
Definition H_XFER : Z := -1.
Definition H_WRAP : Z := -2.
Definition ADMIN : Z := 100.                 (* the account holding lkmex-transfer admin permissions *)
Definition is_user (a : Z) : bool := 0 <? a.

(** ------------------------------------------------------------------ state *)
Record unbond := mkUb { ub_at : Z; ub_e : Z; ub_locked : Z; ub_unlocked : Z }.
Record xfer := mkXf { xf_recv : Z; xf_send : Z; xf_funds : list (Z * Z); xf_at : Z }.

Record cfg := mkCfg {
  c_opts : list (Z * Z);        (* lock options (lock_epochs, penalty_start_percentage), sorted by epochs *)
  c_unbond : Z;                 (* token-unstake unbond_epochs *)
  c_minlock : Z;                (* lkmex-transfer min_lock_epochs *)
  c_cool : Z                    (* lkmex-transfer epochs_cooldown_duration *)
}.

Record st := mkSt {
  s_cfg : cfg;
  s_now : Z;                            (* block epoch *)
  s_en : list (Z * energy);             (* userEnergy *)
  s_bal : ledger;                       (* locked-token balances *)
  s_unb : list (Z * unbond);            (* unlockedTokensForUser, all users, in push order *)
  s_xf : list xfer;                     (* lockedFunds *)
  s_slast : list (Z * Z);               (* senderLastTransferEpoch  (0 = empty, as in storage) *)
  s_rlast : list (Z * Z);               (* receiverLastTransferEpoch *)
  s_wbal : ledger                       (* wrapped-token balances, keyed by the unlock epoch of the wrapped nonce *)
}.

Definition set_now (s : st) (n : Z) : st :=
  mkSt (s_cfg s) n (s_en s) (s_bal s) (s_unb s) (s_xf s) (s_slast s) (s_rlast s) (s_wbal s).
Definition set_en (s : st) (x : list (Z * energy)) : st :=
  mkSt (s_cfg s) (s_now s) x (s_bal s) (s_unb s) (s_xf s) (s_slast s) (s_rlast s) (s_wbal s).
Definition set_bal (s : st) (x : ledger) : st :=
  mkSt (s_cfg s) (s_now s) (s_en s) x (s_unb s) (s_xf s) (s_slast s) (s_rlast s) (s_wbal s).
Definition set_unb (s : st) (x : list (Z * unbond)) : st :=
  mkSt (s_cfg s) (s_now s) (s_en s) (s_bal s) x (s_xf s) (s_slast s) (s_rlast s) (s_wbal s).
Definition set_xf (s : st) (x : list xfer) : st :=
  mkSt (s_cfg s) (s_now s) (s_en s) (s_bal s) (s_unb s) x (s_slast s) (s_rlast s) (s_wbal s).
Definition set_slast (s : st) (x : list (Z * Z)) : st :=
  mkSt (s_cfg s) (s_now s) (s_en s) (s_bal s) (s_unb s) (s_xf s) x (s_rlast s) (s_wbal s).
Definition set_rlast (s : st) (x : list (Z * Z)) : st :=
  mkSt (s_cfg s) (s_now s) (s_en s) (s_bal s) (s_unb s) (s_xf s) (s_slast s) x (s_wbal s).
Definition set_wbal (s : st) (x : ledger) : st :=
  mkSt (s_cfg s) (s_now s) (s_en s) (s_bal s) (s_unb s) (s_xf s) (s_slast s) (s_rlast s) x.

Definition init_state (c : cfg) (epoch : Z) : st := mkSt c epoch [] [] [] [] [] [] [].

Fixpoint eget (l : list (Z * energy)) (u : Z) : energy :=
  match l with
  | [] => zero_energy
  | (k, v) :: t => if k =? u then v else eget t u
  end.

Definition eset (l : list (Z * energy)) (u : Z) (v : energy) : list (Z * energy) := (u, v) :: l.

(** get_updated_energy_entry_for_user (also energy_query::get_energy_entry of the satellite contracts):
    an absent entry reads as new_zero_energy(now), which is what depleting the all-zero entry gives *)
Definition entry_now (s : st) (u : Z) : energy := deplete (eget (s_en s) u) (s_now s).

Definition put_entry (s : st) (u : Z) (en : energy) : st := set_en s (eset (s_en s) u en).

(** ------------------------------------------------------------------ lock_options.rs *)
Definition opts_of (s : st) : list (Z * Z) := c_opts (s_cfg s).

Definition listed (opts : list (Z * Z)) (le : Z) : bool := existsb (fun o => fst o =? le) opts.

Definition som (x : Z) : Z := x - x mod EPOCHS_PER_MONTH.      (* unlock_epoch_to_start_of_month *)

Definition last_lock (opts : list (Z * Z)) : Z := fst (last opts (0, 0)).

Definition som_upper (opts : list (Z * Z)) (now x : Z) : Z :=  (* ..._upper_estimate *)
  let lower := som x in
  if x =? lower then lower else
  let nw := lower + EPOCHS_PER_MONTH in
  if nw <=? now then nw else
  if (nw - now) <=? last_lock opts then nw else lower.

(** what addLockOptions accepts (after its own sort): 1..MAX options, epochs >= one year and strictly
    increasing, percentages <= 100% and strictly increasing *)
Fixpoint opts_sorted (l : list (Z * Z)) : bool :=
  match l with
  | a :: ((b :: _) as t) => (fst a <? fst b) && (snd a <? snd b) && opts_sorted t
  | _ => true
  end.

Definition valid_opts (l : list (Z * Z)) : bool :=
  negb (match l with [] => true | _ => false end)
  && (Z.of_nat (length l) <=? MAX_LOCK_OPTIONS)
  && forallb (fun o => (EPOCHS_PER_YEAR <=? fst o) && (0 <=? snd o) && (snd o <=? MAX_PENALTY_PERCENTAGE)) l
  && opts_sorted l.

(** ------------------------------------------------------------------ penalty.rs / math *)
Definition lin_interp (min_in max_in cur min_out max_out : Z) : result Z :=
  check negb ((cur <? min_in) || (max_in <? cur)) else EGuard;
  div_chk (min_out * (max_in - cur) + max_out * (cur - min_in)) (max_in - min_in).

Fixpoint find_seg (l : list (Z * Z)) (x : Z) : option ((Z * Z) * (Z * Z)) :=
  match l with
  | a :: ((b :: _) as t) => if (fst a <=? x) && (x <=? fst b) then Some (a, b) else find_seg t x
  | _ => None
  end.

Definition pct_full (opts : list (Z * Z)) (x : Z) : result Z :=
  match opts with
  | [] => Err EGuard
  | first :: _ =>
      check (x <=? last_lock opts) else EGuard;
      let '(prev, next) :=
        if (1 <? Z.of_nat (length opts)) && (fst first <? x) then
          match find_seg opts x with Some pn => pn | None => ((0, 0), (0, 0)) end
        else ((0, 0), first) in
      lin_interp (fst prev) (fst next) x (snd prev) (snd next)
  end.

Definition pct_partial (opts : list (Z * Z)) (prev nw : Z) : result Z :=
  do pf <- pct_full opts prev;
  do pn <- pct_full opts nw;
  do d <- sub_chk pf pn;
  do den <- sub_chk MAX_PENALTY_PERCENTAGE pn;
  div_chk (d * MAX_PENALTY_PERCENTAGE) den.

Definition penalty_amount (opts : list (Z * Z)) (amt prev nw : Z) : result Z :=
  check (0 <? prev) else EGuard;
  check (nw <? prev) else EGuard;
  do pct <- (if nw =? 0 then pct_full opts prev else pct_partial opts prev nw);
  Ok (amt * pct / MAX_PENALTY_PERCENTAGE).

(** weighted_average_round_up *)
Definition avg_up (v1 w1 v2 w2 : Z) : result Z :=
  div_chk (v1 * w1 + v2 * w2 + (w1 + w2) - 1) (w1 + w2).

(** ------------------------------------------------------------------ simple-lock: lock_tokens *)
(** mints [a] locked tokens of unlock epoch [e] to [h]; when the epoch is not in the future the
    payment comes back unlocked (no locked token appears) *)
Definition lock_tokens (l : ledger) (h e a now : Z) : ledger :=
  if e <=? now then l else credit l h e a.

Definition outs := list Z.

(** ------------------------------------------------------------------ energy-factory endpoints *)
(** lockTokens with the base asset (dest = caller unless the optional argument names another account);
    lockVirtual is the same with a whitelisted contract as caller and dest = energy address = [dest] *)
Definition ep_lock (s : st) (amt le dest : Z) : result (st * outs) :=
  check listed (opts_of s) le else EGuard;
  let now := s_now s in
  let unlock := som (now + le) in
  check (now <? unlock) else EGuard;
  let en := entry_now s dest in
  check (0 <? amt) else EGuard;                                     (* lock_tokens: "No payment" *)
  let bal1 := lock_tokens (s_bal s) dest unlock amt now in
  let en1 := add_after_token_lock en amt unlock now in
  Ok (set_bal (put_entry s dest en1) bal1, [unlock; amt]).

(** lockTokens with a locked token as payment (dest must be the caller) and extendLockPeriod
    (energy of [u], tokens back through the whitelisted caller) *)
Definition ep_extend (s : st) (u e amt le dest : Z) : result (st * outs) :=
  check listed (opts_of s) le else EGuard;
  let now := s_now s in
  let unlock := som (now + le) in
  check (now <? unlock) else EGuard;
  do bal0 <- debit (s_bal s) u e amt;
  let en := entry_now s dest in
  check (dest =? u) else EGuard;
  check (e <? unlock) else EGuard;
  do en1 <- update_after_unlock_epoch_change en amt e unlock now;
  check (0 <? amt) else EGuard;
  let bal1 := lock_tokens bal0 u unlock amt now in
  Ok (set_bal (put_entry s u en1) bal1, [unlock; amt]).

(** unlockTokens *)
Fixpoint unlock_loop (en : energy) (now : Z) (ps : list (Z * Z)) : result energy :=
  match ps with
  | [] => Ok en
  | (e, a) :: t =>
      check (e <=? now) else EGuard;
      check (0 <? a) else EGuard;
      do en1 <- refund_after_token_unlock en a e now;
      unlock_loop en1 now t
  end.

Definition sum_amt (ps : list (Z * Z)) : Z := fold_right (fun p acc => snd p + acc) 0 ps.

Definition ep_unlock (s : st) (c : Z) (ps : list (Z * Z)) : result (st * outs) :=
  do bal1 <- debit_all (s_bal s) c ps;
  check negb (match ps with [] => true | _ => false end) else EGuard;
  let now := s_now s in
  do en1 <- unlock_loop (entry_now s c) now ps;
  Ok (set_bal (put_entry s c en1) bal1, [sum_amt ps]).

(** mergeTokens: energy of [u]; the merged token goes to the caller, who is [u] or the pass-through *)
Fixpoint merge_loop (en : energy) (now acc_e acc_a : Z) (ps : list (Z * Z)) : result (energy * Z * Z) :=
  match ps with
  | [] => Ok (en, acc_e, acc_a)
  | (e, a) :: t =>
      check (now <? e) else EGuard;
      do en1 <- update_after_unlock_any en a e now;
      do ne <- avg_up acc_e acc_a e a;
      merge_loop en1 now ne (acc_a + a) t
  end.

Definition ep_merge (s : st) (u : Z) (ps : list (Z * Z)) : result (st * outs) :=
  do bal1 <- debit_all (s_bal s) u ps;
  check forallb (fun p => 0 <? snd p) ps else EGuard;        (* ESDT transfers carry positive amounts *)
  let now := s_now s in
  match ps with
  | [] => Err EGuard
  | (e0, a0) :: t =>
      check (now <? e0) else EGuard;
      do en1 <- update_after_unlock_any (entry_now s u) a0 e0 now;
      do (en2, me, ma) <- merge_loop en1 now e0 a0 t;
      check negb (match opts_of s with [] => true | _ => false end) else EGuard;
      let ne := som_upper (opts_of s) now me in
      let en3 := add_after_token_lock en2 ma ne now in
      let bal2 := lock_tokens bal1 u ne ma now in
      Ok (set_bal (put_entry s u en3) bal2, [ne; ma])
  end.

(** reduce_lock_period_common: returns (energy after removal, new lock epochs, amount remaining after penalty) *)
Definition reduce_common (s : st) (c e amt : Z) (opt_le : option Z) : result (energy * Z * Z) :=
  let now := s_now s in
  check (now <? e) else EGuard;
  do nle <- match opt_le with
            | Some le =>
                let tentative := now + le in
                let diff := tentative - som tentative in
                sub_chk le diff
            | None => Ok 0
            end;
  let prev := e - now in
  check (nle <? prev) else EGuard;
  do en1 <- deplete_after_early_unlock (entry_now s c) amt e now;
  do pen <- penalty_amount (opts_of s) amt prev nle;
  check (0 <? amt) else EGuard;
  check (pen <? amt) else EGuard;
  Ok (en1, nle, amt - pen).

(** unlockEarly: the locked tokens and the minted base tokens go to token-unstake *)
Definition ep_unlock_early (s : st) (c e amt : Z) : result (st * outs) :=
  do bal0 <- debit (s_bal s) c e amt;
  do (en1, _, lft) <- reduce_common s c e amt None;
  let bal1 := credit bal0 H_UNSTAKE e amt in
  let ub := mkUb (s_now s + c_unbond (s_cfg s)) e amt lft in
  Ok (set_unb (set_bal (put_entry s c en1) bal1) (s_unb s ++ [(c, ub)]), []).

(** reduceLockPeriod: the penalty part keeps its nonce and is burned by token-unstake / the collector *)
Definition ep_reduce (s : st) (c e amt le : Z) : result (st * outs) :=
  check listed (opts_of s) le else EGuard;
  do bal0 <- debit (s_bal s) c e amt;
  do (en1, nle, lft) <- reduce_common s c e amt (Some le);
  let now := s_now s in
  let new_unlock := now + nle in
  let bal1 := lock_tokens bal0 c new_unlock lft now in
  let en2 := add_after_token_lock en1 lft new_unlock now in
  Ok (set_bal (put_entry s c en2) bal1, [new_unlock; lft]).

(** ------------------------------------------------------------------ token-unstake *)
(** claimUnlockedTokens: from the front of the caller's queue while unbonded, at most MAX entries *)
Fixpoint claim_scan (l : list (Z * unbond)) (u now : Z) (fuel : nat) (stopped : bool)
  : list (Z * unbond) * list unbond :=
  match l with
  | [] => ([], [])
  | (k, ub) :: t =>
      if negb (k =? u) then
        let '(kept, got) := claim_scan t u now fuel stopped in ((k, ub) :: kept, got)
      else if stopped then
        let '(kept, got) := claim_scan t u now fuel true in ((k, ub) :: kept, got)
      else
        match fuel with
        | O => let '(kept, got) := claim_scan t u now O true in ((k, ub) :: kept, got)
        | S f =>
            if now <? ub_at ub then
              let '(kept, got) := claim_scan t u now fuel true in ((k, ub) :: kept, got)
            else
              let '(kept, got) := claim_scan t u now f false in (kept, ub :: got)
        end
  end.

Definition ep_claim (s : st) (c : Z) : result (st * outs) :=
  let '(kept, got) := claim_scan (s_unb s) c (s_now s) (Z.to_nat MAX_CLAIM_UNLOCKED_TOKENS) false in
  check negb (match got with [] => true | _ => false end) else EGuard;
  do bal1 <- debit_all (s_bal s) H_UNSTAKE (map (fun ub => (ub_e ub, ub_locked ub)) got);
  Ok (set_unb (set_bal s bal1) kept, map ub_unlocked got).

(** cancelUnbond *)
Fixpoint cancel_loop (en : energy) (now : Z) (l : list unbond) : result energy :=
  match l with
  | [] => Ok en
  | ub :: t =>
      do en1 <-
        (if now <=? ub_e ub then Ok (add_after_token_lock en (ub_locked ub) (ub_e ub) now)
         else
           let en' := add_energy_raw en (ub_locked ub) 0 in
           remove_energy_raw en' 0 (ub_locked ub * (now - ub_e ub)));
      cancel_loop en1 now t
  end.

Definition queue_of (l : list (Z * unbond)) (u : Z) : list unbond :=
  map snd (filter (fun p => fst p =? u) l).

Definition ep_cancel_unbond (s : st) (c : Z) : result (st * outs) :=
  let q := queue_of (s_unb s) c in
  check negb (match q with [] => true | _ => false end) else EGuard;
  let ps := map (fun ub => (ub_e ub, ub_locked ub)) q in
  do en1 <- cancel_loop (entry_now s c) (s_now s) q;
  do bal1 <- debit_all (s_bal s) H_UNSTAKE ps;
  let bal2 := credit_all bal1 c ps in
  Ok (set_unb (set_bal (put_entry s c en1) bal2) (filter (fun p => negb (fst p =? c)) (s_unb s)),
      flat_map (fun p => [fst p; snd p]) ps).

(** ------------------------------------------------------------------ lkmex-transfer / wrapper: energy_transfer.rs *)
Fixpoint deduct_loop (en : energy) (now : Z) (ps : list (Z * Z)) : result energy :=
  match ps with
  | [] => Ok en
  | (e, a) :: t =>
      check (now <? e) else EGuard;
      do en1 <- deplete_after_early_unlock en a e now;
      deduct_loop en1 now t
  end.

Fixpoint add_dest_loop (en : energy) (now : Z) (ps : list (Z * Z)) : result energy :=
  match ps with
  | [] => Ok en
  | (e, a) :: t =>
      do en1 <-
        (if now <? e then Ok (add_after_token_lock en a e now)
         else
           do en' <- remove_energy_raw en 0 (a * (now - e));
           Ok (add_energy_raw en' a 0));
      add_dest_loop en1 now t
  end.

Definition on_cooldown (s : st) (last : Z) : bool :=
  if last =? 0 then false else negb (c_cool (s_cfg s) <? s_now s - last).

Definition xf_match (r sd : Z) (x : xfer) : bool := (xf_recv x =? r) && (xf_send x =? sd).

Definition find_xf (l : list xfer) (r sd : Z) : option xfer := find (xf_match r sd) l.

Definition ep_lock_funds (s : st) (sender receiver : Z) (ps : list (Z * Z)) : result (st * outs) :=
  do bal1 <- debit_all (s_bal s) sender ps;
  check forallb (fun p => 0 <? snd p) ps else EGuard;
  check (match find_xf (s_xf s) receiver sender with None => true | Some _ => false end) else EGuard;
  check negb (on_cooldown s (aget (s_slast s) sender)) else EGuard;
  let now := s_now s in
  do en1 <- deduct_loop (entry_now s sender) now ps;
  let bal2 := credit_all bal1 H_XFER ps in
  let s1 := set_bal (put_entry s sender en1) bal2 in
  Ok (set_slast (set_xf s1 (s_xf s ++ [mkXf receiver sender ps now])) (aset (s_slast s) sender now), []).

Definition ep_withdraw (s : st) (receiver sender : Z) : result (st * outs) :=
  check negb (on_cooldown s (aget (s_rlast s) receiver)) else EGuard;
  match find_xf (s_xf s) receiver sender with
  | None => Err EGuard
  | Some x =>
      let now := s_now s in
      check (c_minlock (s_cfg s) <? now - xf_at x) else EGuard;
      do en1 <- add_dest_loop (entry_now s receiver) now (xf_funds x);
      do bal1 <- debit_all (s_bal s) H_XFER (xf_funds x);
      let bal2 := credit_all bal1 receiver (xf_funds x) in
      let s1 := set_bal (put_entry s receiver en1) bal2 in
      Ok (set_rlast (set_xf s1 (filter (fun y => negb (xf_match receiver sender y)) (s_xf s)))
                    (aset (s_rlast s) receiver now), [])
  end.

Definition ep_cancel_transfer (s : st) (c sender receiver : Z) : result (st * outs) :=
  check (c =? ADMIN) else EPerm;                    (* require_caller_has_admin_permissions *)
  match find_xf (s_xf s) receiver sender with
  | None => Err EGuard
  | Some x =>
      let now := s_now s in
      do en1 <- add_dest_loop (entry_now s sender) now (xf_funds x);
      do bal1 <- debit_all (s_bal s) H_XFER (xf_funds x);
      let bal2 := credit_all bal1 sender (xf_funds x) in
      let s1 := set_bal (put_entry s sender en1) bal2 in
      Ok (set_slast (set_xf s1 (filter (fun y => negb (xf_match receiver sender y)) (s_xf s)))
                    (aset (s_slast s) sender 0), [])
  end.

Definition ep_wrap (s : st) (c e amt : Z) : result (st * outs) :=
  do bal0 <- debit (s_bal s) c e amt;
  check (0 <? amt) else EGuard;
  do en1 <- deduct_loop (entry_now s c) (s_now s) [(e, amt)];
  let bal1 := credit bal0 H_WRAP e amt in
  Ok (set_wbal (set_bal (put_entry s c en1) bal1) (credit (s_wbal s) c e amt), [e; amt]).

Definition ep_unwrap (s : st) (c e amt : Z) : result (st * outs) :=
  do w1 <- debit (s_wbal s) c e amt;
  check (0 <? amt) else EGuard;
  do en1 <- add_dest_loop (entry_now s c) (s_now s) [(e, amt)];
  do bal0 <- debit (s_bal s) H_WRAP e amt;
  let bal1 := credit bal0 c e amt in
  Ok (set_wbal (set_bal (put_entry s c en1) bal1) w1, [e; amt]).

Definition ep_wtransfer (s : st) (src dst e amt : Z) : result (st * outs) :=
  check (0 <? amt) else EGuard;
  do w1 <- debit (s_wbal s) src e amt;
  Ok (set_wbal s (credit w1 dst e amt), []).

Definition ep_advance (s : st) (d : Z) : result (st * outs) :=
  check (0 <=? d) else EGuard;
  Ok (set_now s (s_now s + d), []).

(** ------------------------------------------------------------------ operations *)
Inductive eop :=
| Lock (c amt le dest : Z)                 (* lockTokens, base asset *)
| LockVirtual (u amt le : Z)               (* lockVirtual by the whitelisted contract, dest = energy address = u *)
| Extend (c e amt le dest : Z)             (* lockTokens, locked token *)
| ExtendVia (u e amt le : Z)               (* extendLockPeriod by the whitelisted contract for u *)
| Merge (c : Z) (ps : list (Z * Z))
| MergeVia (u : Z) (ps : list (Z * Z))     (* mergeTokens(original_caller = u) by the whitelisted contract *)
| Reduce (c e amt le : Z)
| Unlock (c : Z) (ps : list (Z * Z))
| UnlockEarly (c e amt : Z)
| Claim (c : Z)
| CancelUnbond (c : Z)
| LockFunds (sender receiver : Z) (ps : list (Z * Z))
| Withdraw (receiver sender : Z)
| CancelTransfer (c sender receiver : Z)
| Wrap (c e amt : Z)
| Unwrap (c e amt : Z)
| WTransfer (src dst e amt : Z)
| Unauth (c k : Z)                         (* a user account calling an endpoint reserved to contracts:
                                              setUserEnergyAfterLockedTokenTransfer, revertUnstake, lockVirtual,
                                              extendLockPeriod, depositUserTokens, depositFees *)
| Advance (d : Z).

(** the accounts an operation names are user accounts: contract accounts act only through their code *)
Definition accounts_ok (op : eop) : bool :=
  match op with
  | Lock c _ _ dest => is_user c && is_user dest
  | LockVirtual u _ _ => is_user u
  | Extend c _ _ _ dest => is_user c && is_user dest
  | ExtendVia u _ _ _ => is_user u
  | Merge c _ => is_user c
  | MergeVia u _ => is_user u
  | Reduce c _ _ _ => is_user c
  | Unlock c _ => is_user c
  | UnlockEarly c _ _ => is_user c
  | Claim c => is_user c
  | CancelUnbond c => is_user c
  | LockFunds a b _ => is_user a && is_user b
  | Withdraw a b => is_user a && is_user b
  | CancelTransfer c a b => is_user c && is_user a && is_user b
  | Wrap c _ _ => is_user c
  | Unwrap c _ _ => is_user c
  | WTransfer a b _ _ => is_user a && is_user b
  | Unauth c _ => is_user c
  | Advance _ => true
  end.

Definition step (s : st) (op : eop) : result (st * outs) :=
  check accounts_ok op else EPerm;
  match op with
  | Lock c amt le dest => ep_lock s amt le dest
  | LockVirtual u amt le => ep_lock s amt le u
  | Extend c e amt le dest => ep_extend s c e amt le dest
  | ExtendVia u e amt le => ep_extend s u e amt le u
  | Merge c ps => ep_merge s c ps
  | MergeVia u ps => ep_merge s u ps
  | Reduce c e amt le => ep_reduce s c e amt le
  | Unlock c ps => ep_unlock s c ps
  | UnlockEarly c e amt => ep_unlock_early s c e amt
  | Claim c => ep_claim s c
  | CancelUnbond c => ep_cancel_unbond s c
  | LockFunds a b ps => ep_lock_funds s a b ps
  | Withdraw a b => ep_withdraw s a b
  | CancelTransfer c a b => ep_cancel_transfer s c a b
  | Wrap c e amt => ep_wrap s c e amt
  | Unwrap c e amt => ep_unwrap s c e amt
  | WTransfer a b e amt => ep_wtransfer s a b e amt
  | Unauth _ _ => Err EPerm
  | Advance d => ep_advance s d
  end.

(** A failed transaction reverts: the runner keeps the old state. *)
Definition step_total (s : st) (op : eop) : st :=
  match step s op with Ok (s', _) => s' | Err _ => s end.

Definition run (s : st) (ops : list eop) : st := fold_left step_total ops s.

(** ------------------------------------------------------------------ views *)
(** getEnergyEntryForUser *)
Definition view_entry (s : st) (u : Z) : energy := entry_now s u.
(** getEnergyAmountForUser *)
Definition view_amount (s : st) (u : Z) : Z := get_energy_amount (entry_now s u).
