(** Executable model of dex/pair (constant-product AMM pair).

    Mirrors, function by function and guard by guard:
      dex/pair/src/amm.rs                      (quote, amount_out, amount_out_no_fee, amount_in, special fee)
      dex/pair/src/liquidity_pool.rs           (pool_add_*, pool_remove_liquidity, set_optimal_amounts, swap_safe_no_fee)
      dex/pair/src/pair_actions/{swap,add_liq,initial_liq,remove_liq}.rs   (endpoints)
      dex/pair/src/fee.rs                      (send_fee, send_fee_slice, admin endpoints)
      dex/pair/src/config.rs, lib.rs           (set_fee_percents, init)
    No proofs in this file: the model must keep running when a proof breaks. *)
From MX Require Import Base.Prelude Gen.Params.

(** Token codes: 0 = the LP token, 1 = first pool token, 2 = second pool token, >= 3 = foreign. *)
Definition LP : Z := 0.
Definition T1 : Z := 1.
Definition T2 : Z := 2.

(** Account ids: 0 = the pair contract itself; OWNER = deployer (holds owner/admin/pause permissions,
    as router_owner_address does after [init]); everything else is a plain account unless whitelisted. *)
Definition SELF : Z := 0.
Definition OWNER : Z := 100.

Record pair := mkPair {
  p_r1 : Z; p_r2 : Z;            (* reserve(first), reserve(second) *)
  p_S : Z;                        (* lp_token_supply *)
  p_state : Z;                    (* pausable::State discriminant, see Gen.Params.ST_* *)
  p_fee : Z; p_sfee : Z;          (* total_fee_percent, special_fee_percent *)
  p_dests : list (Z * Z);         (* destination_map in iteration order: (address id, requested token) *)
  p_cut : option Z;               (* Some cut  <->  fees collector configured *)
  p_trusted : list (Z * Z);       (* trusted_swap_pair keys (token, token) *)
  p_wl : list Z;                  (* whitelist *)
  p_adder : option Z;             (* initial_liquidity_adder *)
  p_bal1 : Z; p_bal2 : Z;         (* the pair account's real balances of the pool tokens *)
  p_lp : list (Z * Z)             (* LP balances by account id (SELF included) *)
}.

Definition set_pool (p : pair) (r1 r2 s : Z) : pair :=
  mkPair r1 r2 s (p_state p) (p_fee p) (p_sfee p) (p_dests p) (p_cut p) (p_trusted p) (p_wl p)
         (p_adder p) (p_bal1 p) (p_bal2 p) (p_lp p).
Definition set_bals (p : pair) (b1 b2 : Z) : pair :=
  mkPair (p_r1 p) (p_r2 p) (p_S p) (p_state p) (p_fee p) (p_sfee p) (p_dests p) (p_cut p)
         (p_trusted p) (p_wl p) (p_adder p) b1 b2 (p_lp p).
Definition set_lp (p : pair) (l : list (Z * Z)) : pair :=
  mkPair (p_r1 p) (p_r2 p) (p_S p) (p_state p) (p_fee p) (p_sfee p) (p_dests p) (p_cut p)
         (p_trusted p) (p_wl p) (p_adder p) (p_bal1 p) (p_bal2 p) l.
Definition set_state (p : pair) (st : Z) : pair :=
  mkPair (p_r1 p) (p_r2 p) (p_S p) st (p_fee p) (p_sfee p) (p_dests p) (p_cut p)
         (p_trusted p) (p_wl p) (p_adder p) (p_bal1 p) (p_bal2 p) (p_lp p).
Definition set_fees (p : pair) (f sf : Z) : pair :=
  mkPair (p_r1 p) (p_r2 p) (p_S p) (p_state p) f sf (p_dests p) (p_cut p)
         (p_trusted p) (p_wl p) (p_adder p) (p_bal1 p) (p_bal2 p) (p_lp p).
Definition set_dests (p : pair) (d : list (Z * Z)) : pair :=
  mkPair (p_r1 p) (p_r2 p) (p_S p) (p_state p) (p_fee p) (p_sfee p) d (p_cut p)
         (p_trusted p) (p_wl p) (p_adder p) (p_bal1 p) (p_bal2 p) (p_lp p).
Definition set_cut (p : pair) (c : option Z) : pair :=
  mkPair (p_r1 p) (p_r2 p) (p_S p) (p_state p) (p_fee p) (p_sfee p) (p_dests p) c
         (p_trusted p) (p_wl p) (p_adder p) (p_bal1 p) (p_bal2 p) (p_lp p).
Definition set_trusted (p : pair) (t : list (Z * Z)) : pair :=
  mkPair (p_r1 p) (p_r2 p) (p_S p) (p_state p) (p_fee p) (p_sfee p) (p_dests p) (p_cut p)
         t (p_wl p) (p_adder p) (p_bal1 p) (p_bal2 p) (p_lp p).
Definition set_wl (p : pair) (w : list Z) : pair :=
  mkPair (p_r1 p) (p_r2 p) (p_S p) (p_state p) (p_fee p) (p_sfee p) (p_dests p) (p_cut p)
         (p_trusted p) w (p_adder p) (p_bal1 p) (p_bal2 p) (p_lp p).

Definition init_pair (fee sfee : Z) (adder : option Z) : pair :=
  mkPair 0 0 0 ST_Inactive fee sfee [] None [] [] adder 0 0 [].

(** ------------------------------------------------------------------ amm.rs *)
Definition M : Z := PAIR_MAX_PERCENTAGE.

Definition quote (a ra rb : Z) : result Z := div_chk (a * rb) ra.

Definition amount_out_no_fee (ain rin rout : Z) : result Z :=
  div_chk (ain * rout) (rin + ain).

Definition amount_out (fee ain rin rout : Z) : result Z :=
  let a := ain * (M - fee) in
  div_chk (a * rout) (rin * M + a).

Definition amount_in (fee aout rin rout : Z) : result Z :=
  do d <- sub_chk rout aout;
  do q <- div_chk (rin * aout * M) (d * (M - fee));
  Ok (q + 1).

Definition special_fee (sfee ain : Z) : Z := ain * sfee / M.

(** ------------------------------------------------------------------ reserve access by direction *)
(** order = true : PoolOrder (in = first, out = second); false : ReverseOrder *)
Definition rin (p : pair) (o : bool) : Z := if o then p_r1 p else p_r2 p.
Definition rout (p : pair) (o : bool) : Z := if o then p_r2 p else p_r1 p.
Definition set_rs (p : pair) (o : bool) (ri ro : Z) : pair :=
  if o then set_pool p ri ro (p_S p) else set_pool p ro ri (p_S p).
Definition tok_in (o : bool) : Z := if o then T1 else T2.
Definition tok_out (o : bool) : Z := if o then T2 else T1.

Definition swap_order (tin tout : Z) : result bool :=
  if (tin =? T1) && (tout =? T2) then Ok true
  else if (tin =? T2) && (tout =? T1) then Ok false
  else Err EGuard.

Definition is_state_active (st : Z) : bool := (st =? ST_Active) || (st =? ST_PartialActive).
Definition can_swap (st : Z) : bool := st =? ST_Active.
Definition fee_enabled (p : pair) : bool :=
  negb (match p_dests p with [] => true | _ => false end)
  || (match p_cut p with Some _ => true | None => false end).

(** pair account balance bookkeeping *)
Definition bal (p : pair) (t : Z) : Z := if t =? T1 then p_bal1 p else p_bal2 p.
Definition add_bal (p : pair) (t : Z) (a : Z) : pair :=
  if t =? T1 then set_bals p (p_bal1 p + a) (p_bal2 p) else set_bals p (p_bal1 p) (p_bal2 p + a).
(** outgoing transfer / burn: the VM aborts when the balance is insufficient *)
Definition sub_bal (p : pair) (t : Z) (a : Z) : result pair :=
  do b <- sub_chk (bal p t) a;
  Ok (if t =? T1 then set_bals p b (p_bal2 p) else set_bals p (p_bal1 p) b).

Definition lp_of (p : pair) (a : Z) : Z := aget (p_lp p) a.
Definition lp_credit (p : pair) (a amt : Z) : pair := set_lp p (aset (p_lp p) a (lp_of p a + amt)).
(** the pair contract never spends the LP it holds itself (no code path does), so a debit of SELF
    is not an operation of the system *)
Definition lp_debit (p : pair) (a amt : Z) : result pair :=
  check negb (a =? SELF) else EGuard;
  do b <- sub_chk (lp_of p a) amt;
  Ok (set_lp p (aset (p_lp p) a b)).

(** ------------------------------------------------------------------ liquidity_pool.rs *)
(** swap_safe_no_fee on the cached reserves *)
Definition swap_safe_no_fee (p : pair) (o : bool) (ain : Z) : result (pair * Z) :=
  check negb (rin p o =? 0) else EGuard;
  do out <- amount_out_no_fee ain (rin p o) (rout p o);
  check (out <? rout p o) && negb (out =? 0) else EGuard;
  do ro <- sub_chk (rout p o) out;
  Ok (set_rs p o (rin p o + ain) ro, out).

(** effects visible outside the pair account, accumulated during one transaction *)
Record effects := mkEff {
  e_burn : list (Z * Z);      (* (token, amount) burned by the pair *)
  e_coll : list (Z * Z);      (* (token, amount) deposited into the fees collector *)
  e_ext  : list (Z * Z * Z)   (* (token, amount, requested token) sent to a trusted pair's swapNoFeeAndForward *)
}.
Definition no_eff : effects := mkEff [] [] [].
Definition eff_burn (e : effects) (t a : Z) : effects :=
  if a =? 0 then e else mkEff (e_burn e ++ [(t, a)]) (e_coll e) (e_ext e).
Definition eff_coll (e : effects) (t a : Z) : effects := mkEff (e_burn e) (e_coll e ++ [(t, a)]) (e_ext e).
Definition eff_ext (e : effects) (t a r : Z) : effects := mkEff (e_burn e) (e_coll e) (e_ext e ++ [(t, a, r)]).

Definition pair_eqb (x y : Z * Z) : bool := (fst x =? fst y) && (snd x =? snd y).
Definition has_trusted (p : pair) (a b : Z) : bool :=
  existsb (pair_eqb (a, b)) (p_trusted p) || existsb (pair_eqb (b, a)) (p_trusted p).

(** fee.rs: send_fee_slice.  [ft] is the token the slice is denominated in (always a pool token:
    the swap's input token, or for buy-back the pool token removed), [o] the direction in which a
    local no-fee swap sells [ft]. *)
Definition burn_tok (p : pair) (e : effects) (t a : Z) : result (pair * effects) :=
  if a =? 0 then Ok (p, e) else
  do p' <- sub_bal p t a; Ok (p', eff_burn e t a).

Definition send_fee_slice (p : pair) (e : effects) (o : bool) (ft slice req : Z)
  : result (pair * effects) :=
  if ft =? req then burn_tok p e ft slice
  else if ((req =? T1) && (ft =? T2)) || ((req =? T2) && (ft =? T1)) then
    do (p1, out) <- swap_safe_no_fee p o slice;
    burn_tok p1 e req out
  else if has_trusted p ft req then
    do p1 <- sub_bal p ft slice;
    Ok (p1, eff_ext e ft slice req)
  else
    let other := if ft =? T1 then T2 else T1 in
    if ((ft =? T1) || (ft =? T2)) && has_trusted p other req then
      do (p1, out) <- swap_safe_no_fee p o slice;
      do p2 <- sub_bal p1 other out;
      Ok (p2, eff_ext e other out req)
    else Err EGuard.

Fixpoint send_slices (p : pair) (e : effects) (o : bool) (ft slice : Z) (ds : list (Z * Z))
  : result (pair * effects) :=
  match ds with
  | [] => Ok (p, e)
  | (_, req) :: t =>
      do (p1, e1) <- send_fee_slice p e o ft slice req;
      send_slices p1 e1 o ft slice t
  end.

Definition send_fee (p : pair) (e : effects) (o : bool) (ft fee : Z) : result (pair * effects) :=
  if fee =? 0 then Ok (p, e) else
  do (p1, e1, rest) <-
     match p_cut p with
     | Some cut =>
         let c := fee * cut / M in
         do rem <- sub_chk fee c;
         if 0 <? c then
           do p1 <- sub_bal p ft c; Ok (p1, eff_coll e ft c, rem)
         else Ok (p, e, rem)
     | None => Ok (p, e, fee)
     end;
  let n := Z.of_nat (length (p_dests p)) in
  if n =? 0 then Ok (p1, e1) else
  let slice := rest / n in
  if slice =? 0 then Ok (p1, e1) else
  send_slices p1 e1 o ft slice (p_dests p).

(** ------------------------------------------------------------------ operations *)
Inductive pop :=
| AddInitial (c a1 a2 : Z)
| Add (c a1 a2 m1 m2 : Z)
| Remove (c lp m1 m2 : Z)
| SwapIn (c tin ain tout minout : Z)
| SwapOut (c tin ainmax tout aout : Z)
| SwapNoFee (c tin ain tout : Z)
| RemoveBuyBack (c lp tok : Z)
| SetFee (c f sf : Z)
| SetFeeOn (c : Z) (en : bool) (a tok : Z)
| SetCollector (c cut : Z)
| SetState (c st : Z)                    (* resume / pause / setStateActiveNoSwaps *)
| WlAdd (c a : Z) | WlRm (c a : Z)
| Trust (c ta tb : Z)
| LpTransfer (src dst amt : Z)
| Donate (tok amt : Z).                  (* plain transfer of a pool token to the pair account *)

Definition has_owner_perm (c : Z) : bool := c =? OWNER.

(** outputs: the amounts of the returned payments, in the order the endpoint returns them *)
Definition outs := list Z.

Definition k_check (p p' : pair) : bool := (p_r1 p * p_r2 p) <=? (p_r1 p' * p_r2 p').

Definition ep_add_initial (p : pair) (c a1 a2 : Z) : result (pair * outs * effects) :=
  check (match p_adder p with Some ad => c =? ad | None => true end) else EPerm;
  check (0 <? a1) && (0 <? a2) else EGuard;
  check negb (is_state_active (p_state p)) else EState;
  check (p_S p =? 0) else EGuard;
  let liq := Z.min a1 a2 in
  check (MINIMUM_LIQUIDITY <? liq) else EGuard;
  let p1 := lp_credit p SELF MINIMUM_LIQUIDITY in                (* esdt_local_mint(minimum) stays in the pair *)
  let p2 := set_pool p1 (p_r1 p + a1) (p_r2 p + a2) liq in
  let p3 := add_bal (add_bal p2 T1 a1) T2 a2 in
  let p4 := lp_credit p3 c (liq - MINIMUM_LIQUIDITY) in
  Ok (set_state p4 ST_PartialActive, [liq - MINIMUM_LIQUIDITY; a1; a2], no_eff).

Definition set_optimal (p : pair) (a1 a2 m1 m2 : Z) : result (Z * Z) :=
  if p_S p =? 0 then Ok (a1, a2) else
  do q2 <- quote a1 (p_r1 p) (p_r2 p);
  do (o1, o2) <-
     (if q2 <=? a2 then Ok (a1, q2)
      else do q1 <- quote a2 (p_r2 p) (p_r1 p);
           check (q1 <=? a1) else EGuard;
           Ok (q1, a2));
  check (m1 <=? o1) else ESlippage;
  check (m2 <=? o2) else ESlippage;
  Ok (o1, o2).

Definition ep_add (p : pair) (c a1 a2 m1 m2 : Z) : result (pair * outs * effects) :=
  check (0 <? m1) && (0 <? m2) else EGuard;
  check (0 <? a1) && (0 <? a2) else EGuard;
  check is_state_active (p_state p) else EState;
  check (match p_adder p with Some _ => negb (p_S p =? 0) | None => true end) else EGuard;
  do (o1, o2) <- set_optimal p a1 a2 m1 m2;
  do (p1, liq) <-
     (if p_S p =? 0 then
        let liq := Z.min o1 o2 in
        check (MINIMUM_LIQUIDITY <? liq) else EGuard;
        let p1 := lp_credit p SELF MINIMUM_LIQUIDITY in
        Ok (set_pool p1 (p_r1 p + o1) (p_r2 p + o2) liq, liq - MINIMUM_LIQUIDITY)
      else
        do l1 <- div_chk (o1 * p_S p) (p_r1 p);
        do l2 <- div_chk (o2 * p_S p) (p_r2 p);
        let liq := Z.min l1 l2 in
        check (0 <? liq) else EGuard;
        Ok (set_pool p (p_r1 p + o1) (p_r2 p + o2) (p_S p + liq), liq));
  check k_check p p1 else EGuard;
  let p2 := add_bal (add_bal p1 T1 o1) T2 o2 in      (* a1, a2 come in; a1-o1, a2-o2 go back *)
  let p3 := lp_credit p2 c liq in
  Ok (p3, [liq; o1; o2], no_eff).

(** get_amounts_removed + pool_remove_liquidity *)
Definition pool_remove (p : pair) (lp m1 m2 : Z) : result (pair * Z * Z) :=
  check (lp + MINIMUM_LIQUIDITY <=? p_S p) else EGuard;
  do x1 <- div_chk (lp * p_r1 p) (p_S p);
  check (0 <? x1) else EGuard;
  check (m1 <=? x1) else ESlippage;
  check (x1 <? p_r1 p) else EGuard;
  do x2 <- div_chk (lp * p_r2 p) (p_S p);
  check (0 <? x2) else EGuard;
  check (m2 <=? x2) else ESlippage;
  check (x2 <? p_r2 p) else EGuard;
  do s' <- sub_chk (p_S p) lp;
  do r1' <- sub_chk (p_r1 p) x1;
  do r2' <- sub_chk (p_r2 p) x2;
  Ok (set_pool p r1' r2' s', x1, x2).

Definition ep_remove (p : pair) (c lp m1 m2 : Z) : result (pair * outs * effects) :=
  check (0 <? m1) && (0 <? m2) else EGuard;
  check is_state_active (p_state p) else EState;
  check (0 <? lp) else EGuard;
  do p0 <- lp_debit p c lp;                              (* the LP payment arrives at the pair ... *)
  do (p1, x1, x2) <- pool_remove p0 lp m1 m2;
  check (p_r1 p1 * p_r2 p1 <=? p_r1 p * p_r2 p) else EGuard;
  (* ... and is burned *)
  do p2 <- sub_bal p1 T1 x1;
  do p3 <- sub_bal p2 T2 x2;
  Ok (p3, [x1; x2], no_eff).

Definition ep_swap_in (p : pair) (c tin ain tout minout : Z) : result (pair * outs * effects) :=
  check (0 <? minout) else EGuard;
  check (0 <? ain) else EGuard;
  do o <- swap_order tin tout;
  check can_swap (p_state p) else EState;
  check (minout <? rout p o) else EGuard;
  do out <- amount_out (p_fee p) ain (rin p o) (rout p o);
  check (minout <=? out) else ESlippage;
  check (out <? rout p o) else EGuard;
  check negb (out =? 0) else EGuard;
  let fee := if fee_enabled p then special_fee (p_sfee p) ain else 0 in
  do after <- sub_chk ain fee;
  do ro <- sub_chk (rout p o) out;
  let p1 := set_rs p o (rin p o + after) ro in
  check k_check p p1 else EGuard;
  let p2 := add_bal p1 tin ain in
  do (p3, e) <- (if 0 <? fee then send_fee p2 no_eff o tin fee else Ok (p2, no_eff));
  do p4 <- sub_bal p3 tout out;
  Ok (p4, [out], e).

Definition ep_swap_out (p : pair) (c tin ainmax tout aout : Z) : result (pair * outs * effects) :=
  check (0 <? aout) else EGuard;
  check (0 <? ainmax) else EGuard;
  do o <- swap_order tin tout;
  check can_swap (p_state p) else EState;
  check (aout <? rout p o) else EGuard;
  do ain <- amount_in (p_fee p) aout (rin p o) (rout p o);
  check (ain <=? ainmax) else ESlippage;
  check negb (ain =? 0) else EGuard;
  let fee := if fee_enabled p then special_fee (p_sfee p) ain else 0 in
  do after <- sub_chk ain fee;
  do ro <- sub_chk (rout p o) aout;
  let p1 := set_rs p o (rin p o + after) ro in
  check k_check p p1 else EGuard;
  let p2 := add_bal p1 tin ain in                       (* ainmax arrives, ainmax - ain is refunded *)
  do (p3, e) <- (if 0 <? fee then send_fee p2 no_eff o tin fee else Ok (p2, no_eff));
  do p4 <- sub_bal p3 tout aout;
  Ok (p4, [aout; ainmax - ain], e).

Definition ep_swap_no_fee (p : pair) (c tin ain tout : Z) : result (pair * outs * effects) :=
  check existsb (Z.eqb c) (p_wl p) else EPerm;
  check (0 <? ain) else EGuard;
  do o <- swap_order tin tout;
  check can_swap (p_state p) else EState;
  do (p1, out) <- swap_safe_no_fee p o ain;
  check (0 <? out) else EGuard;
  check k_check p p1 else EGuard;
  let p2 := add_bal p1 tin ain in
  do (p3, e) <- burn_tok p2 no_eff tout out;
  Ok (p3, [], e).

Definition ep_remove_buyback (p : pair) (c lp tok : Z) : result (pair * outs * effects) :=
  check existsb (Z.eqb c) (p_wl p) else EPerm;
  check (0 <? lp) else EGuard;
  do p0 <- lp_debit p c lp;
  do (p1, x1, x2) <- pool_remove p0 lp 1 1;
  do (p2, e2) <- send_fee_slice p1 no_eff true T1 x1 tok;
  do (p3, e3) <- send_fee_slice p2 e2 false T2 x2 tok;
  Ok (p3, [], e3).

Definition ep_set_fee (p : pair) (c f sf : Z) : result (pair * outs * effects) :=
  check has_owner_perm c else EPerm;
  check (0 <=? sf) && (sf <=? f) && (f <=? PAIR_MAX_FEE_PERCENTAGE) else EGuard;
  Ok (set_fees p f sf, [], no_eff).

Definition ep_set_fee_on (p : pair) (c : Z) (en : bool) (a tok : Z) : result (pair * outs * effects) :=
  check has_owner_perm c else EPerm;
  let is_dest := existsb (fun d => fst d =? a) (p_dests p) in
  if en then
    check negb is_dest else EGuard;
    Ok (set_dests p (p_dests p ++ [(a, tok)]), [], no_eff)
  else
    check is_dest else EGuard;
    check existsb (pair_eqb (a, tok)) (p_dests p) else EGuard;
    Ok (set_dests p (filter (fun d => negb (fst d =? a)) (p_dests p)), [], no_eff).

Definition ep_set_collector (p : pair) (c cut : Z) : result (pair * outs * effects) :=
  check has_owner_perm c else EPerm;
  check (0 <? cut) && (cut <=? M) else EGuard;
  Ok (set_cut p (Some cut), [], no_eff).

Definition ep_set_state (p : pair) (c st : Z) : result (pair * outs * effects) :=
  check has_owner_perm c else EPerm;
  check (0 <=? st) && (st <? ST_COUNT) else EGuard;
  Ok (set_state p st, [], no_eff).

Definition ep_wl_add (p : pair) (c a : Z) : result (pair * outs * effects) :=
  check has_owner_perm c else EPerm;
  check negb (existsb (Z.eqb a) (p_wl p)) else EGuard;
  Ok (set_wl p (p_wl p ++ [a]), [], no_eff).

Definition ep_wl_rm (p : pair) (c a : Z) : result (pair * outs * effects) :=
  check has_owner_perm c else EPerm;
  check existsb (Z.eqb a) (p_wl p) else EGuard;
  Ok (set_wl p (filter (fun x => negb (x =? a)) (p_wl p)), [], no_eff).

Definition ep_trust (p : pair) (c ta tb : Z) : result (pair * outs * effects) :=
  check has_owner_perm c else EPerm;
  check negb (ta =? tb) else EGuard;
  check negb (existsb (pair_eqb (ta, tb)) (p_trusted p)) else EGuard;
  Ok (set_trusted p (p_trusted p ++ [(ta, tb)]), [], no_eff).

Definition ep_lp_transfer (p : pair) (src dst amt : Z) : result (pair * outs * effects) :=
  check (0 <? amt) else EGuard;
  do p1 <- lp_debit p src amt;
  Ok (lp_credit p1 dst amt, [], no_eff).

Definition ep_donate (p : pair) (tok amt : Z) : result (pair * outs * effects) :=
  check (0 <? amt) && ((tok =? T1) || (tok =? T2)) else EGuard;
  Ok (add_bal p tok amt, [], no_eff).

Definition step (p : pair) (op : pop) : result (pair * outs * effects) :=
  match op with
  | AddInitial c a1 a2 => ep_add_initial p c a1 a2
  | Add c a1 a2 m1 m2 => ep_add p c a1 a2 m1 m2
  | Remove c lp m1 m2 => ep_remove p c lp m1 m2
  | SwapIn c tin ain tout minout => ep_swap_in p c tin ain tout minout
  | SwapOut c tin ainmax tout aout => ep_swap_out p c tin ainmax tout aout
  | SwapNoFee c tin ain tout => ep_swap_no_fee p c tin ain tout
  | RemoveBuyBack c lp tok => ep_remove_buyback p c lp tok
  | SetFee c f sf => ep_set_fee p c f sf
  | SetFeeOn c en a tok => ep_set_fee_on p c en a tok
  | SetCollector c cut => ep_set_collector p c cut
  | SetState c st => ep_set_state p c st
  | WlAdd c a => ep_wl_add p c a
  | WlRm c a => ep_wl_rm p c a
  | Trust c ta tb => ep_trust p c ta tb
  | LpTransfer s d a => ep_lp_transfer p s d a
  | Donate t a => ep_donate p t a
  end.

(** A failed transaction reverts: the runner keeps the old state. *)
Definition step_total (p : pair) (op : pop) : pair :=
  match step p op with Ok (p', _, _) => p' | Err _ => p end.

Definition run (p : pair) (ops : list pop) : pair := fold_left step_total ops p.

(** ------------------------------------------------------------------ views *)
Definition view_amount_out (p : pair) (tin ain : Z) : result Z :=
  check (0 <? ain) else EGuard;
  if tin =? T1 then
    check (0 <? p_r2 p) else EGuard;
    do out <- amount_out (p_fee p) ain (p_r1 p) (p_r2 p);
    check (out <? p_r2 p) else EGuard; Ok out
  else if tin =? T2 then
    check (0 <? p_r1 p) else EGuard;
    do out <- amount_out (p_fee p) ain (p_r2 p) (p_r1 p);
    check (out <? p_r1 p) else EGuard; Ok out
  else Err EGuard.

Definition view_amount_in (p : pair) (twant awant : Z) : result Z :=
  check (0 <? awant) else EGuard;
  if twant =? T1 then
    check (awant <? p_r1 p) else EGuard;
    amount_in (p_fee p) awant (p_r2 p) (p_r1 p)
  else if twant =? T2 then
    check (awant <? p_r2 p) else EGuard;
    amount_in (p_fee p) awant (p_r1 p) (p_r2 p)
  else Err EGuard.

Definition view_tokens_for_position (p : pair) (liq : Z) : Z * Z :=
  if p_S p =? 0 then (0, 0) else (liq * p_r1 p / p_S p, liq * p_r2 p / p_S p).

Definition view_equivalent (p : pair) (tin ain : Z) : result Z :=
  check (0 <? ain) else EGuard;
  if (p_r1 p =? 0) || (p_r2 p =? 0) then Ok 0
  else if tin =? T1 then quote ain (p_r1 p) (p_r2 p)
  else if tin =? T2 then quote ain (p_r2 p) (p_r1 p)
  else Err EGuard.

(** ------------------------------------------------------------------ two-pair world
    The pair under study ([w_p]) plus the trusted external pair ([w_q]) that executes
    swapNoFeeAndForward for fee slices.  The external pair trades (T1, foreign token 3); in its own
    local codes these are 1 and 2.  [Q_CALLER] is the id under which the first pair is whitelisted
    there.  A failing nested call fails the whole transaction. *)
Record world := mkWorld { w_p : pair; w_q : pair }.

Definition Q_CALLER : Z := 7.
Definition FOREIGN : Z := 3.

Definition q_local (t : Z) : Z := if t =? T1 then 1 else if t =? FOREIGN then 2 else 99.

Fixpoint apply_ext (q : pair) (l : list (Z * Z * Z)) : result pair :=
  match l with
  | [] => Ok q
  | (t, a, req) :: tl =>
      do (q', _, _) <- ep_swap_no_fee q Q_CALLER (q_local t) a (q_local req);
      apply_ext q' tl
  end.

Definition wstep (w : world) (op : pop) : result (world * outs * effects) :=
  do (p', o, e) <- step (w_p w) op;
  do q' <- apply_ext (w_q w) (e_ext e);
  Ok (mkWorld p' q', o, e).

Definition wstep_total (w : world) (op : pop) : world :=
  match wstep w op with Ok (w', _, _) => w' | Err _ => w end.

Definition wrun (w : world) (ops : list pop) : world := fold_left wstep_total ops w.
