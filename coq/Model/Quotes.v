(** Read-only quotes (property C20): every VIEW the property names, as a Gallina function on the
    state of the subsystem model it belongs to.

    Mirrors:
      dex/pair/src/pair_actions/views.rs             getAmountOut, getAmountIn, getTokensForGivenPosition, getEquivalent
      dex/pair/src/liquidity_pool.rs                  get_token_for_given_position
      dex/farm/src/lib.rs, dex/farm-with-locked-rewards/src/lib.rs
                                                      calculateRewardsForGivenPosition (+ require_queried: the storage
                                                      cache it settles is dropped with the query)
      farm-staking/farm-staking/src/lib.rs            calculateRewardsForGivenPosition (user = optional argument, else original_owner)
      farm-staking/farm-staking/src/base_impl_wrapper.rs   calculate_base_farm_rewards
      locked-asset/energy-factory/src/unlock_with_penalty.rs  getPenaltyAmount
      dex/price-discovery/src/phase.rs, lib.rs        getCurrentPhase, getCurrentPrice

    A view is a function of the state (and, where the code reads it, the block nonce) that returns a
    value and NO state: "quoting never changes state" is the type of these functions; on the code side
    the harness digests contract storage around every query.
    Each view calls the same model helper the Rust view calls (get_amount_out -> [amount_out], ...).
    One module per subsystem, because the subsystem models reuse short names.  No proofs in this file. *)
From MX Require Import Base.Prelude Gen.Params.
From MX Require Model.Pair Model.Farm Model.Staking Model.Penalty Model.PriceDiscovery.

(** ------------------------------------------------------------------ dex/pair *)
Module QPair.
Import MX.Model.Pair.

(** getAmountOut(token_in, amount_in) *)
Definition get_amount_out (p : pair) (tin ain : Z) : result Z :=
  check (0 <? ain) else EGuard;                                   (* ERROR_ZERO_AMOUNT *)
  if tin =? T1 then
    check (0 <? p_r2 p) else EGuard;                              (* ERROR_NOT_ENOUGH_RESERVE *)
    do out <- amount_out (p_fee p) ain (p_r1 p) (p_r2 p);
    check (out <? p_r2 p) else EGuard;
    Ok out
  else if tin =? T2 then
    check (0 <? p_r1 p) else EGuard;
    do out <- amount_out (p_fee p) ain (p_r2 p) (p_r1 p);
    check (out <? p_r1 p) else EGuard;
    Ok out
  else Err EGuard.                                                (* ERROR_UNKNOWN_TOKEN *)

(** getAmountIn(token_wanted, amount_wanted) *)
Definition get_amount_in (p : pair) (twant awant : Z) : result Z :=
  check (0 <? awant) else EGuard;
  if twant =? T1 then
    check (awant <? p_r1 p) else EGuard;
    amount_in (p_fee p) awant (p_r2 p) (p_r1 p)
  else if twant =? T2 then
    check (awant <? p_r2 p) else EGuard;
    amount_in (p_fee p) awant (p_r1 p) (p_r2 p)
  else Err EGuard.

(** liquidity_pool.rs get_token_for_given_position: one side *)
Definition token_for_position (p : pair) (liq reserve : Z) : Z :=
  if p_S p =? 0 then p_S p else liq * reserve / p_S p.

(** getTokensForGivenPosition(liquidity): never fails *)
Definition get_tokens_for_given_position (p : pair) (liq : Z) : Z * Z :=
  (token_for_position p liq (p_r1 p), token_for_position p liq (p_r2 p)).

(** getEquivalent(token_in, amount_in) *)
Definition get_equivalent (p : pair) (tin ain : Z) : result Z :=
  check (0 <? ain) else EGuard;
  if (p_r1 p =? 0) || (p_r2 p =? 0) then Ok 0
  else if tin =? T1 then quote ain (p_r1 p) (p_r2 p)
  else if tin =? T2 then quote ain (p_r2 p) (p_r1 p)
  else Err EGuard.

End QPair.

(** ------------------------------------------------------------------ dex/farm, dex/farm-with-locked-rewards *)
Module QFarm.
Import MX.Model.Farm.

(** the storage cache the query builds: StorageCache::new + generate_aggregated_rewards at the block
    of the query.  Its Drop writes are discarded together with everything else a query writes. *)
Definition query_cache (f : farm) (blk : Z) : result farm := settle f blk.

(** calculateRewardsForGivenPosition(user, farm_token_amount, attributes) queried at block [blk].
    Wrapper::calculate_rewards = DefaultFarmWrapper::calculate_rewards + calculate_boosted_rewards(user);
    as everywhere in Model/Farm.v the boosted amount the weekly splitting computes for [user] in this
    state is the input [b] (the same function, on the same storage, that claimRewards calls for its
    caller). *)
Definition calc_rewards (f : farm) (blk amount : Z) (a : attrs) (b : Z) : result Z :=
  do f1 <- query_cache f blk;
  do base <- base_reward f1 a amount;
  Ok (base + b).

End QFarm.

(** ------------------------------------------------------------------ farm-staking *)
Module QStk.
Import MX.Model.Staking.

(** FarmStakingWrapper::calculate_base_farm_rewards *)
Definition base_rewards (s : stk) (amount arps : Z) : result Z :=
  if arps <? s_rps s then div_chk (amount * (s_rps s - arps)) (s_dsc s) else Ok 0.

Definition query_cache (s : stk) (blk : Z) : result stk := settle s blk.

(** the user whose boosted rewards the view adds: the optional argument, else the position's recorded
    original owner (attributes.original_owner) *)
Definition view_user (owner : Z) (opt_user : option Z) : Z :=
  match opt_user with Some u => u | None => owner end.

(** calculateRewardsForGivenPosition(farm_token_amount, attributes, opt_user) queried at block [blk];
    of the attributes reward_per_share [arps] and original_owner [owner] are read.
    FarmStakingWrapper::calculate_rewards = calculate_base_farm_rewards + calculate_boosted_rewards(user);
    as in Model/Staking.v and Model/Farm.v the boosted amount the weekly splitting computes for a user in
    this state is an input: [bo u] for user [u] (the same function, on the same storage, that
    claimRewards calls for its caller).  Nothing is assumed about its values. *)
Definition calc_rewards (s : stk) (blk amount arps owner : Z) (opt_user : option Z) (bo : Z -> Z) : result Z :=
  do s1 <- query_cache s blk;
  do base <- base_rewards s1 amount arps;
  Ok (base + bo (view_user owner opt_user)).

(** claimRewards by caller [c] on a position (amount [x], reward_per_share [arps]): Model/Staking.v takes
    the paid reward as an input; here it is tied to what FarmStakingWrapper::calculate_rewards computes:
    base(position) + boosted(caller). *)
Definition claim (s : stk) (blk ep c x arps : Z) (bo : Z -> Z) : result (stk * souts) :=
  do s1 <- settle s blk;
  do base <- base_rewards s1 x arps;
  sstep s (SClaim blk ep c x (base + bo c) (bo c)).

End QStk.

(** ------------------------------------------------------------------ energy-factory *)
Module QPen.
Import MX.Model.Penalty.

(** getPenaltyAmount(token_amount, prev_lock_epochs, new_lock_epochs) = calculate_penalty_amount *)
Definition get_penalty_amount (s : lst) (amt prev new : Z) : result Z :=
  penalty_amount (opts s) amt prev new.

(** the arguments under which the two endpoints call calculate_penalty_amount for a LOCKED token
    with unlock epoch [e] at the current epoch: remaining epochs now, remaining epochs afterwards *)
Definition prev_epochs (s : lst) (e : Z) : Z := e - l_now s.
Definition new_epochs_reduce (s : lst) (le : Z) : Z := start_of_month (l_now s + le) - l_now s.

End QPen.

(** ------------------------------------------------------------------ price-discovery *)
Module QPd.
Import MX.Model.PriceDiscovery.

(** getCurrentPhase *)
Definition current_phase (s : pd) : result phase := get_current_phase (p_cfg s) (p_block s).
(** getCurrentPrice = calculate_price *)
Definition current_price (s : pd) : result Z := calculate_price s.

End QPd.
