(** Extension of the permissions + pausable state machine of Model/Access.v ([pm_step]) to the
    operations the stateful tie (tools/sys_perm.py, Run/PermRun.v) drives on the real contracts and
    that [pm_op] lacks.  Executable definitions only (proofs: Proofs/PermExtProofs.v).

    - common/modules/permissions_module/src/permissions_module.rs: [add_permissions] /
      [remove_permissions] (bitflags insert / remove on the stored value of ONE address) and
      [add_permissions_for_all];
    - common/modules/pausable/src/pausable.rs: addToPauseWhitelist / removeFromPauseWhitelist take a
      LIST of addresses (MultiValueEncoded, duplicates allowed): the caller is checked ONCE, then the
      list is processed in order, one storage update per element;
    - the protocol's ChangeOwnerAddress built-in (the "owner change" after which the new chain owner
      calls updateOwnerOrAdmin(previous owner)): succeeds for the current chain owner only and
      touches nothing but the owner field (protocol rule, assumption A-CHANGE-OWNER of the tie);
    - the permissions the [init] functions grant (base_farm_init for dex/farm,
      farm-with-locked-rewards and farm-staking; dex/pair init; lkmex-transfer init), so that a
      history is replayed from the deployment arguments, not from an observed table.

    Everything else is [pm_step] itself ([XBase]); the single-address operations of [pm_op] are the
    one-element case of the list operations (Proofs/PermExtProofs.v: px_single_pauser_add, px_single_pauser_remove). *)
From Coq Require Import ZArith List Bool.
From MX Require Import Base.Prelude Gen.Params Gen.Endpoints Model.Access.
Import ListNotations.
Open Scope Z_scope.

(** permissions(address).update(|p| p.insert(flags)) / p.remove(flags) *)
Definition add_perm (s : pm_state) (a flags : Z) : pm_state := pm_set s a (Z.lor (pm_get s a) flags).
Definition remove_perm (s : pm_state) (a flags : Z) : pm_state := pm_set s a (Z.ldiff (pm_get s a) flags).

(** `for address in addresses { ... }` *)
Definition add_perm_all (s : pm_state) (l : list Z) (flags : Z) : pm_state :=
  fold_left (fun s a => add_perm s a flags) l s.
Definition remove_perm_all (s : pm_state) (l : list Z) (flags : Z) : pm_state :=
  fold_left (fun s a => remove_perm s a flags) l s.

Definition pm_set_owner (s : pm_state) (o : Z) : pm_state := mkPm (pm_perms s) (pm_state_val s) o.

Inductive px_op :=
| XBase (op : pm_op)                      (* every operation of Model/Access.v, unchanged *)
| XAddPausers (caller : Z) (l : list Z)     (* addToPauseWhitelist(l) *)
| XRemovePausers (caller : Z) (l : list Z)  (* removeFromPauseWhitelist(l) *)
| XChangeOwner (caller new_owner : Z).      (* ChangeOwnerAddress built-in *)

Definition px_step (s : pm_state) (op : px_op) : result pm_state :=
  match op with
  | XBase o => pm_step s o
  | XAddPausers c l =>
      do _ <- require_any_of (pm_get s c) PERM_OWNER;
      Ok (add_perm_all s l PERM_PAUSE)
  | XRemovePausers c l =>
      do _ <- require_any_of (pm_get s c) PERM_OWNER;
      Ok (remove_perm_all s l PERM_PAUSE)
  | XChangeOwner c n =>
      check (c =? pm_chain_owner s) else EPerm;
      Ok (pm_set_owner s n)
  end.

Definition px_caller (op : px_op) : Z :=
  match op with
  | XBase o => pm_caller o
  | XAddPausers c _ | XRemovePausers c _ | XChangeOwner c _ => c
  end.

Definition px_step_total (s : pm_state) (op : px_op) : pm_state :=
  match px_step s op with Ok s' => s' | Err _ => s end.
Definition px_run (s : pm_state) (ops : list px_op) : pm_state := fold_left px_step_total ops s.

(** ------------------------------------------------------------------ what [init] grants
    Address id 0 is the zero address (`owner.is_zero()`). *)
Definition PERM_OWNER_PAUSE : Z := Z.lor PERM_OWNER PERM_PAUSE.
Definition PERM_ALL : Z := Z.lor PERM_OWNER (Z.lor PERM_ADMIN PERM_PAUSE).

(** common/modules/farm/farm_base_impl/src/base_farm_init.rs (dex/farm, farm-with-locked-rewards,
    farm-staking): state Inactive; the `owner` argument, when not zero, gets OWNER|PAUSE; the
    deployer gets everything when no admin is listed ("backwards compatibility"), OWNER|PAUSE
    otherwise and then every listed admin gets ADMIN *)
Definition pinit_farm (deployer owner : Z) (admins : list Z) : pm_state :=
  let s0 := mkPm [] ST_Inactive deployer in
  let s1 := if owner =? 0 then s0 else add_perm s0 owner PERM_OWNER_PAUSE in
  match admins with
  | [] => add_perm s1 deployer PERM_ALL
  | _ => add_perm_all (add_perm s1 deployer PERM_OWNER_PAUSE) admins PERM_ADMIN
  end.

(** dex/pair/src/lib.rs init: state Inactive; the router address and the router owner address get
    everything when no admin is listed, OWNER|PAUSE otherwise and then every listed admin ADMIN;
    the deployer (chain owner) gets nothing by itself *)
Definition pinit_pair (deployer router router_owner : Z) (admins : list Z) : pm_state :=
  let s0 := mkPm [] ST_Inactive deployer in
  match admins with
  | [] => add_perm (add_perm s0 router PERM_ALL) router_owner PERM_ALL
  | _ => add_perm_all (add_perm (add_perm s0 router PERM_OWNER_PAUSE) router_owner PERM_OWNER_PAUSE) admins PERM_ADMIN
  end.

(** locked-asset/lkmex-transfer/src/lib.rs init: the deployer gets OWNER; the contract has no
    pausable module (the stored state is never observed there) *)
Definition pinit_lkmex (deployer : Z) : pm_state :=
  add_perm (mkPm [] ST_Inactive deployer) deployer PERM_OWNER.

(** ------------------------------------------------------------------ the set-based specification
    Three sets of addresses (who holds OWNER / ADMIN / PAUSE), the pause state and the chain owner.
    Grant = insertion, revoke = deletion, updateOwnerOrAdmin(prev) = the caller takes prev's place
    in every set; an operation acts iff its caller is in the demanded set.  Proofs/PermExtProofs.v
    proves that the bit-level machine refines it over every history. *)
Record sp_state := mkSp { sp_owners : list Z; sp_admins : list Z; sp_pausers : list Z;
                          sp_paused : Z; sp_chain : Z }.

Definition zadd (x : Z) (l : list Z) : list Z := x :: l.
Definition zadd_all (xs l : list Z) : list Z := xs ++ l.
Definition zremove_all (xs l : list Z) : list Z := filter (fun y => negb (zmem y xs)) l.
(** membership after "c takes the place of prev": c is in iff prev was; prev is out (unless prev = c) *)
Definition ztransfer (prev c : Z) (l : list Z) : list Z :=
  let was := zmem prev l in
  let l' := zremove c (zremove prev l) in
  if was then c :: l' else l'.

Definition sp_step (t : sp_state) (op : px_op) : sp_state :=
  let own c := zmem c (sp_owners t) in
  match op with
  | XBase (PmAddAdmin c a) =>
      if own c then mkSp (sp_owners t) (zadd a (sp_admins t)) (sp_pausers t) (sp_paused t) (sp_chain t) else t
  | XBase (PmRemoveAdmin c a) =>
      if own c then mkSp (sp_owners t) (zremove a (sp_admins t)) (sp_pausers t) (sp_paused t) (sp_chain t) else t
  | XBase (PmAddPauser c a) =>
      if own c then mkSp (sp_owners t) (sp_admins t) (zadd a (sp_pausers t)) (sp_paused t) (sp_chain t) else t
  | XBase (PmRemovePauser c a) =>
      if own c then mkSp (sp_owners t) (sp_admins t) (zremove a (sp_pausers t)) (sp_paused t) (sp_chain t) else t
  | XAddPausers c l =>
      if own c then mkSp (sp_owners t) (sp_admins t) (zadd_all l (sp_pausers t)) (sp_paused t) (sp_chain t) else t
  | XRemovePausers c l =>
      if own c then mkSp (sp_owners t) (sp_admins t) (zremove_all l (sp_pausers t)) (sp_paused t) (sp_chain t) else t
  | XBase (PmUpdateOwnerOrAdmin c prev) =>
      if c =? sp_chain t
      then mkSp (ztransfer prev c (sp_owners t)) (ztransfer prev c (sp_admins t)) (ztransfer prev c (sp_pausers t))
                (sp_paused t) (sp_chain t)
      else t
  | XBase (PmPause c) =>
      if zmem c (sp_pausers t) then mkSp (sp_owners t) (sp_admins t) (sp_pausers t) ST_Inactive (sp_chain t) else t
  | XBase (PmResume c) =>
      if zmem c (sp_pausers t) then mkSp (sp_owners t) (sp_admins t) (sp_pausers t) ST_Active (sp_chain t) else t
  | XBase (PmSetStateActiveNoSwaps c) =>
      if own c then mkSp (sp_owners t) (sp_admins t) (sp_pausers t) ST_PartialActive (sp_chain t) else t
  | XChangeOwner c n =>
      if c =? sp_chain t then mkSp (sp_owners t) (sp_admins t) (sp_pausers t) (sp_paused t) n else t
  end.

Definition sp_run (t : sp_state) (ops : list px_op) : sp_state := fold_left sp_step ops t.

(** does the specification accept the operation (its caller is in the demanded set)? *)
Definition sp_accepts (t : sp_state) (op : px_op) : bool :=
  match op with
  | XBase (PmPause c) | XBase (PmResume c) => zmem c (sp_pausers t)
  | XBase (PmUpdateOwnerOrAdmin c _) | XChangeOwner c _ => c =? sp_chain t
  | _ => zmem (px_caller op) (sp_owners t)
  end.

(** the target of a state-setting operation *)
Definition state_target (op : px_op) : option Z :=
  match op with
  | XBase (PmPause _) => Some ST_Inactive
  | XBase (PmResume _) => Some ST_Active
  | XBase (PmSetStateActiveNoSwaps _) => Some ST_PartialActive
  | _ => None
  end.

(** role bit indices: Permissions::OWNER = 2^0, ADMIN = 2^1, PAUSE = 2^2 (Proofs: perm_flags_are_bits) *)
Definition BIT_OWNER : Z := 0.
Definition BIT_ADMIN : Z := 1.
Definition BIT_PAUSE : Z := 2.
Definition holds_bit (s : pm_state) (a i : Z) : bool := Z.testbit (pm_get s a) i.

(** can the operation hand role bit [i] to address [x]?  (syntactic: the only operations after which
    [x] may hold a bit it did not hold before) *)
Definition may_grant (op : px_op) (x i : Z) : bool :=
  match op with
  | XBase (PmAddAdmin _ a) => (a =? x) && (i =? BIT_ADMIN)
  | XBase (PmAddPauser _ a) => (a =? x) && (i =? BIT_PAUSE)
  | XAddPausers _ l => zmem x l && (i =? BIT_PAUSE)
  | XBase (PmUpdateOwnerOrAdmin c _) => c =? x
  | _ => false
  end.

(** can the operation take role bit [i] from address [x]? *)
Definition may_revoke (op : px_op) (x i : Z) : bool :=
  match op with
  | XBase (PmRemoveAdmin _ a) => (a =? x) && (i =? BIT_ADMIN)
  | XBase (PmRemovePauser _ a) => (a =? x) && (i =? BIT_PAUSE)
  | XRemovePausers _ l => zmem x l && (i =? BIT_PAUSE)
  | XBase (PmUpdateOwnerOrAdmin c prev) => (prev =? x) || (c =? x)
  | _ => false
  end.
