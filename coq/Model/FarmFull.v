(** dex/farm as ONE closed model: Model/Farm.v (positions, reward per share, reserve, user totals) composed
    with Model/Boosted.v on Model/Weekly.v (the farm-boosted-yields module it hosts).

    In the two open models the facts that belong to the other half are operation INPUTS:
      Farm.v     takes the boosted payout [b] of every operation;
      Boosted.v  takes [pre] (farm-level guards), [cur] (energy entry), [pos] (the caller's
                 user_total_farm_position BEFORE the endpoint's own position update), [posa] (after exitFarm's
                 decrease), [full] (the emission minted by this endpoint's generate_aggregated_rewards) and
                 [supply] (farm_token_supply handed to set_farm_supply_for_current_week).
    Here they are COMPUTED, each from the other half's state, exactly where the Rust computes them:
      pos    = user_total_farm_position(caller) of the farm state before the operation
               (dex/farm/src/base_functions.rs Wrapper::calculate_boosted_rewards reads it before
                check_and_update_user_farm_position / increase / decrease run);
      full   = per_block_reward * (block - last_reward_block_nonce) if rewards are produced and the block is new
               (farm_base_impl/src/base_traits_impl.rs mint_per_block_rewards), of the state before the operation —
               no helper that runs before generate_aggregated_rewards inside an endpoint touches these fields;
      b      = the total the boosted module pays for this operation (claim_boosted_yields_rewards);
      supply = storage_cache.farm_token_supply after the operation (base_functions.rs enter_farm / claim_rewards /
               compound_rewards / exit_farm, lib.rs claim_boosted_rewards: set_farm_supply_for_current_week);
      posa   = user_total_farm_position(caller) after the operation (lib.rs exit_farm_endpoint:
               clear_user_energy_if_needed runs last);
      pre    = true: the farm-level guards are the farm half's own, the transaction fails if either half fails;
      cur    = the energy factory's stored entry depleted to the current epoch, or a zero entry stamped with the
               current epoch when the factory has none (energy-query/src/lib.rs get_energy_entry).
    What remains an input is what another contract or the chain supplies: the factory's stored entry for the
    user at the time of the call ([raw]: amount, last update epoch, total locked tokens; None = no entry) and
    the clock (block nonce and epoch move by [XTime]).

    The order of the module calls inside each endpoint is the one Model/Boosted.v's ep_* functions mirror
    (enter: claim with the old position, then the settlement; claim/compound/exit/claimBoosted: settlement,
    then the claim; merge: claim only); the farm half's order is Model/Farm.v's ep_*.  The boosted payout does
    not depend on [supply]/[posa] (they are written after the claim), so the composition is evaluated in three
    steps: the module's claim (pass 1, gives [b]), the farm endpoint with that [b], the module again with the
    supply and position the farm endpoint produced (pass 2, gives the module's new state).
    No proofs in this file. *)
From MX Require Import Base.Prelude Gen.Params Model.Weekly Model.Farm Model.Boosted.

Record xstate := mkX {
  x_f : farm;          (* the farm proper *)
  x_b : bst;           (* the boosted-yields module (its b_epoch is the chain's epoch) *)
  x_blk : Z            (* the chain's block nonce *)
}.

Definition init_x (dsc : Z) (same : bool) (blk epoch : Z) : xstate :=
  mkX (init_farm dsc same) (init_b epoch) blk.

(** ------------------------------------------------------------------ operations: the endpoints of dex/farm *)
Inductive xop :=
| XTime (dblk dep : Z)                                                     (* the chain moves on *)
| XEnter (c amt : Z) (adds : list (Z * Z)) (raw : option en)              (* enterFarm (with merge) *)
| XClaim (c : Z) (first : Z * Z) (adds : list (Z * Z)) (raw : option en)  (* claimRewards *)
| XCompound (c : Z) (first : Z * Z) (adds : list (Z * Z)) (raw : option en) (* compoundRewards *)
| XExit (c : Z) (p : Z * Z) (raw : option en)                             (* exitFarm *)
| XMerge (c : Z) (ps : list (Z * Z)) (raw : option en)                    (* mergeFarmTokens *)
| XClaimBoosted (c : Z) (raw : option en)                                 (* claimBoostedRewards *)
| XTransfer (n src dst amt : Z)                                           (* ESDT transfer of a position *)
| XSetRate (c r : Z)                                                      (* setPerBlockRewardAmount *)
| XStart (c : Z)                                                          (* startProduceRewards *)
| XEnd (c : Z)                                                            (* endProduceRewards *)
| XSetPct (c p : Z)                                                       (* setBoostedYieldsRewardsPercentage *)
| XSetFactors (c : Z) (fa : factors)                                      (* setBoostedYieldsFactors *)
| XSetState (c st : Z)                                                    (* pause / resume *)
| XSetMinEpochs (c e : Z)                                                 (* set_minimum_farming_epochs *)
| XSetPenalty (c p : Z)                                                   (* set_penalty_percent *)
| XTopUp (amt : Z)                                                        (* plain transfer of reward tokens *)
| XCollect (c : Z)                                                        (* collectUndistributedBoostedRewards *)
| XUpdateEnergy (c u : Z) (raw : option en).                              (* updateEnergyForUser(u), anybody *)

(** ------------------------------------------------------------------ the computed facts *)
(** energy-query get_energy_entry *)
Definition energy_entry (raw : option en) (epoch : Z) : en :=
  match raw with Some e => en_deplete e epoch | None => en_zero epoch end.

(** mint_per_block_rewards: what generate_aggregated_rewards mints at block [blk] *)
Definition emission (f : farm) (blk : Z) : Z :=
  if blk <=? f_last f then 0 else if f_produce f then f_rate f * (blk - f_last f) else 0.

(** the caller whose total position clear_user_energy_if_needed reads (exitFarm only) *)
Definition caller_of (op : xop) : Z :=
  match op with
  | XEnter c _ _ _ | XClaim c _ _ _ | XCompound c _ _ _ | XExit c _ _ | XMerge c _ _ | XClaimBoosted c _ => c
  | _ => 0
  end.

(** the boosted module's part of the endpoint ([supply], [posa]: farm supply / caller's total position AFTER
    the farm part; irrelevant for the payout).  None = the endpoint does not touch the module. *)
Definition bop_of (s : xstate) (op : xop) (supply posa : Z) : option bop :=
  let f := x_f s in
  let ep := b_epoch (x_b s) in
  let full := emission f (x_blk s) in
  match op with
  | XTime _ dep => Some (BAdvance dep)
  | XEnter c _ _ raw => Some (BEnter true c (energy_entry raw ep) (utot f c) full supply)
  | XClaim c _ _ raw => Some (BClaim true c (energy_entry raw ep) (utot f c) full supply)
  | XCompound c _ _ raw => Some (BCompound true c (energy_entry raw ep) (utot f c) full supply)
  | XExit c _ raw => Some (BExit true c (energy_entry raw ep) (utot f c) posa full supply)
  | XMerge c _ raw => Some (BMerge true c (energy_entry raw ep) (utot f c))
  | XClaimBoosted c raw => Some (BClaimBoosted true c (energy_entry raw ep) (utot f c) full supply)
  | XSetRate _ _ => Some (BSettle true full)
  | XEnd _ => Some (BSettle true full)
  | XSetPct c p => Some (BSetPct c p full)
  | XSetFactors c fa => Some (BSetFactors c fa)
  | XCollect c => Some (BCollect c)
  | XUpdateEnergy _ u raw => Some (BUpdateEnergy u (energy_entry raw ep))
  | XTransfer _ _ _ _ | XStart _ | XSetState _ _ | XSetMinEpochs _ _ | XSetPenalty _ _ | XTopUp _ => None
  end.

(** the farm's part of the endpoint, with the boosted payout [b] the module computed.
    None = the endpoint does not touch the farm proper. *)
Definition fop_of (s : xstate) (op : xop) (b : Z) : option fop :=
  let blk := x_blk s in
  let ep := b_epoch (x_b s) in
  match op with
  | XTime _ _ => None
  | XEnter c amt adds _ => Some (FEnter blk ep c amt adds b)
  | XClaim c first adds _ => Some (FClaim blk ep c first adds b)
  | XCompound c first adds _ => Some (FCompound blk ep c first adds b)
  | XExit c p _ => Some (FExit blk ep c p b)
  | XMerge c ps _ => Some (FMerge blk ep c ps b)
  | XClaimBoosted c _ => Some (FClaimBoosted blk ep c b)
  | XTransfer n src dst amt => Some (FTransfer n src dst amt)
  | XSetRate c r => Some (FSetRate blk c r)
  | XStart c => Some (FStart blk c)
  | XEnd c => Some (FEnd blk c)
  | XSetPct c p => Some (FSetPct blk c p)
  | XSetFactors c _ => Some (FSetFactors c)
  | XSetState c st => Some (FSetState c st)
  | XSetMinEpochs c e => Some (FSetMinEpochs c e)
  | XSetPenalty c p => Some (FSetPenalty c p)
  | XTopUp amt => Some (FTopUp amt)
  | XCollect _ | XUpdateEnergy _ _ _ => None
  end.

(** the block nonce after the operation *)
Definition clock_of (s : xstate) (op : xop) : result Z :=
  match op with
  | XTime dblk _ => check (0 <=? dblk) else EGuard; Ok (x_blk s + dblk)
  | _ => Ok (x_blk s)
  end.

Record xout := mkXO {
  xo_b : Z;            (* the boosted payout the module computed = the farm part's input b *)
  xo_f : fouts;        (* what the farm endpoint returns (Model/Farm.v) *)
  xo_m : bout          (* what the module hands back (Model/Boosted.v): payout, per-week breakdown, cut, sweeps *)
}.

Definition run_b (b : bst) (o : option bop) : result (bst * bout) :=
  match o with Some bo => Boosted.step b bo | None => Ok (b, out0) end.

Definition run_f (f : farm) (o : option fop) : result (farm * fouts) :=
  match o with Some fo => fstep f fo | None => Ok (f, []) end.

Definition full_step (s : xstate) (op : xop) : result (xstate * xout) :=
  do blk' <- clock_of s op;
  (* pass 1: the module's claim gives the boosted payout *)
  do (_, o1) <- run_b (x_b s) (bop_of s op 0 0);
  (* the farm endpoint, paying that amount out of reserve and pools *)
  do (f', fo) <- run_f (x_f s) (fop_of s op (o_b o1));
  (* pass 2: the module with the supply / position the farm endpoint left behind *)
  do (b', o2) <- run_b (x_b s) (bop_of s op (f_supply f') (utot f' (caller_of op)));
  Ok (mkX f' b' blk', mkXO (o_b o1) fo o2).

(** A failed transaction reverts. *)
Definition full_step_total (s : xstate) (op : xop) : xstate :=
  match full_step s op with Ok (s', _) => s' | Err _ => s end.

Definition full_run (s : xstate) (ops : list xop) : xstate := fold_left full_step_total ops s.
