(** Executable model of dex/router composed with the pair model (Model/Pair.v).

    Mirrors, function by function and guard by guard:
      dex/router/src/contract.rs         (init, pause, resume, createPair, upgradePair, issueLpToken,
                                          setLocalRoles, removePair, setFeeOn, setFeeOff, setPairCreationEnabled)
      dex/router/src/config.rs           (is_active, check_is_pair_sc)
      dex/router/src/factory.rs          (create_pair, getPair, getAllPairsManagedAddresses, get_pair_temporary_owner)
      dex/router/src/multi_pair_swap.rs  (multiPairSwap, actual_swap_fixed_input / _output)
      dex/router/src/enable_swap_by_user.rs (addCommonTokensForUserPairs, removeCommonTokensForUserPairs,
                                          configEnableByUserParameters, setSwapEnabledByUser)
      dex/pair/src/lib.rs                (init as run by deploy_from_source, setLpTokenIdentifier)
    Every pair contract of the world is a [Model.Pair.pair]; a hop of multiPairSwap is
    [Pair.ep_swap_in] / [Pair.ep_swap_out] on that pair's state, the router being the intermediate
    holder of the tokens.  No proofs in this file.
    Not modelled: the router's own #[upgrade] (sets state to false; the executor has no upgrade call),
    setTemporaryOwnerPeriod / setPairTemplateAddress / clearPairTemporaryOwnerStorage (the period stays
    at its init value, the template is set at init), and what happens after the synchronous part of
    issueLpToken, setLocalRoles and upgradePair (calls to the ESDT system contract / code upgrade):
    those endpoints are modelled up to their guards. *)
From MX Require Import Base.Prelude Gen.Params Model.Pair.

(** Account ids: 0 = the router contract; [Pair.OWNER] (100) = router owner (deployer); 1.. = users;
    pair contracts have their own address ids (>= 10 in the harness).
    Token codes: > 0 = a valid ESDT identifier, <= 0 = a malformed identifier. *)
Definition ROUTER : Z := 0.

(** ------------------------------------------------------------------ ledger of pool tokens
    (router, users, owner).  The pair contracts' own balances live in their [pair] records. *)
Definition ledger := list (Z * Z * Z).      (* (account, token, balance) *)

Fixpoint lget (l : ledger) (a t : Z) : Z :=
  match l with
  | [] => 0
  | (a', t', v) :: tl => if (a' =? a) && (t' =? t) then v else lget tl a t
  end.

Fixpoint lset (l : ledger) (a t v : Z) : ledger :=
  match l with
  | [] => [(a, t, v)]
  | (a', t', v') :: tl => if (a' =? a) && (t' =? t) then (a, t, v) :: tl else (a', t', v') :: lset tl a t v
  end.

Definition credit (l : ledger) (a t v : Z) : ledger := lset l a t (lget l a t + v).
(** outgoing ESDT transfer: the VM aborts when the balance is insufficient *)
Definition debit (l : ledger) (a t v : Z) : result ledger :=
  do b <- sub_chk (lget l a t) v; Ok (lset l a t b).

Fixpoint debit_all (l : ledger) (a : Z) (ps : list (Z * Z)) : result ledger :=
  match ps with
  | [] => Ok l
  | (t, v) :: tl => do l1 <- debit l a t v; debit_all l1 a tl
  end.
Fixpoint credit_all (l : ledger) (a : Z) (ps : list (Z * Z)) : ledger :=
  match ps with
  | [] => l
  | (t, v) :: tl => credit_all (credit l a t v) a tl
  end.
(** direct_multi: one transfer per payment, in order *)
Fixpoint pay_all (l : ledger) (from to : Z) (ps : list (Z * Z)) : result ledger :=
  match ps with
  | [] => Ok l
  | (t, v) :: tl => do l1 <- debit l from t v; pay_all (credit l1 to t v) from to tl
  end.

(** ------------------------------------------------------------------ pair contracts of the world *)
Record pent := mkPent {
  pe_t1 : Z; pe_t2 : Z;        (* first_token_id, second_token_id as stored by the pair (what it "reports") *)
  pe_lp : bool;                (* lpTokenIdentifier set *)
  pe_p : pair
}.
Definition set_pp (pe : pent) (p : pair) : pent := mkPent (pe_t1 pe) (pe_t2 pe) (pe_lp pe) p.
Definition set_plp (pe : pent) (b : bool) : pent := mkPent (pe_t1 pe) (pe_t2 pe) b (pe_p pe).

(** global token -> the pair's local code (Pair.T1 / Pair.T2 / foreign >= 3) and back *)
Definition loc (pe : pent) (t : Z) : Z :=
  if t =? pe_t1 pe then T1 else if t =? pe_t2 pe then T2 else 3 + Z.abs t.
Definition glob (pe : pent) (lt : Z) : Z :=
  if lt =? T1 then pe_t1 pe else if lt =? T2 then pe_t2 pe else lt - 3.

Fixpoint pair_at (l : list (Z * pent)) (a : Z) : option pent :=
  match l with
  | [] => None
  | (k, v) :: t => if k =? a then Some v else pair_at t a
  end.
Definition upd_pair (l : list (Z * pent)) (a : Z) (v : pent) : list (Z * pent) :=
  map (fun kv => if fst kv =? a then (fst kv, v) else kv) l.

(** ------------------------------------------------------------------ router storage *)
Record router := mkRouter {
  r_active : bool;                    (* state *)
  r_creation : bool;                  (* pair_creation_enabled *)
  r_owner : Z;                        (* owner *)
  r_map : list (Z * Z * Z);           (* pair_map in iteration (= insertion) order: (first, second, address) *)
  r_temp : list (Z * Z * Z);          (* pair_temporary_owner: (pair address, creator, creation block) *)
  r_common : list Z;                  (* commonTokensForUserPairs *)
  r_cfg : list (Z * (Z * Z * Z))      (* enableSwapByUserConfig: common token -> (locked token, min value, min lock epochs) *)
}.

Record world := mkW {
  w_r : router;
  w_pairs : list (Z * pent);          (* every pair contract that exists, registered or not, by address *)
  w_led : ledger;
  w_block : Z;                        (* current block nonce *)
  w_epoch : Z                         (* current block epoch *)
}.

Definition set_r (w : world) (r : router) : world := mkW r (w_pairs w) (w_led w) (w_block w) (w_epoch w).
Definition set_pairs (w : world) (ps : list (Z * pent)) : world := mkW (w_r w) ps (w_led w) (w_block w) (w_epoch w).
Definition set_led (w : world) (l : ledger) : world := mkW (w_r w) (w_pairs w) l (w_block w) (w_epoch w).
Definition set_block (w : world) (n : Z) : world := mkW (w_r w) (w_pairs w) (w_led w) n (w_epoch w).
Definition set_epoch (w : world) (n : Z) : world := mkW (w_r w) (w_pairs w) (w_led w) (w_block w) n.

Definition set_active (r : router) (b : bool) : router :=
  mkRouter b (r_creation r) (r_owner r) (r_map r) (r_temp r) (r_common r) (r_cfg r).
Definition set_creation (r : router) (b : bool) : router :=
  mkRouter (r_active r) b (r_owner r) (r_map r) (r_temp r) (r_common r) (r_cfg r).
Definition set_map (r : router) (m : list (Z * Z * Z)) : router :=
  mkRouter (r_active r) (r_creation r) (r_owner r) m (r_temp r) (r_common r) (r_cfg r).
Definition set_temp (r : router) (t : list (Z * Z * Z)) : router :=
  mkRouter (r_active r) (r_creation r) (r_owner r) (r_map r) t (r_common r) (r_cfg r).
Definition set_common (r : router) (l : list Z) : router :=
  mkRouter (r_active r) (r_creation r) (r_owner r) (r_map r) (r_temp r) l (r_cfg r).
Definition set_cfg (r : router) (c : list (Z * (Z * Z * Z))) : router :=
  mkRouter (r_active r) (r_creation r) (r_owner r) (r_map r) (r_temp r) (r_common r) c.

Definition init_router : router := mkRouter true false OWNER [] [] [] [].
Definition init_world (led : ledger) (blk : Z) : world := mkW init_router [] led blk 1.

(** ------------------------------------------------------------------ factory.rs: pair_map access *)
Definition key_is (e : Z * Z * Z) (a b : Z) : bool := (fst (fst e) =? a) && (snd (fst e) =? b).

(** pair_map().get(&PairTokens{a, b}) *)
Fixpoint map_get (m : list (Z * Z * Z)) (a b : Z) : option Z :=
  match m with
  | [] => None
  | e :: t => if key_is e a b then Some (snd e) else map_get t a b
  end.

(** getPair: try (a, b), then (b, a); the view returns the zero address for [None] *)
Definition get_pair (m : list (Z * Z * Z)) (a b : Z) : option Z :=
  match map_get m a b with Some p => Some p | None => map_get m b a end.

Definition map_remove (m : list (Z * Z * Z)) (a b : Z) : list (Z * Z * Z) :=
  filter (fun e => negb (key_is e a b)) m.

(** getAllPairsManagedAddresses *)
Definition all_pairs (m : list (Z * Z * Z)) : list Z := map snd m.

Definition tok_valid (t : Z) : bool := 0 <? t.

(** config.rs: check_is_pair_sc — the address must be the pair_map entry for the tokens that the
    contract at that address itself reports.  An address without pair storage reports empty tokens,
    for which no entry exists. *)
Definition registered (w : world) (addr : Z) : result pent :=
  match pair_at (w_pairs w) addr with
  | None => Err EGuard
  | Some pe =>
      match get_pair (r_map (w_r w)) (pe_t1 pe) (pe_t2 pe) with
      | Some a' => if a' =? addr then Ok pe else Err EGuard
      | None => Err EGuard
      end
  end.

Definition is_owner (w : world) (c : Z) : bool := c =? r_owner (w_r w).

(** ------------------------------------------------------------------ contract.rs endpoints *)
Definition outs := list Z.

(** pair init as executed by deploy_from_source (dex/pair/src/lib.rs init + set_fee_percents);
    fee arguments are u64 *)
Definition pair_init_ok (a b f sf : Z) : bool :=
  tok_valid a && tok_valid b && negb (a =? b) && (0 <=? sf) && (sf <=? f) && (f <=? PAIR_MAX_FEE_PERCENTAGE).

Definition fresh_addr (w : world) (na : Z) : bool :=
  negb (na =? ROUTER) && (match pair_at (w_pairs w) na with None => true | Some _ => false end).

Definition ep_create_pair (w : world) (c a b adder : Z) (fees : option (Z * Z)) (na : Z)
  : result (world * outs) :=
  let r := w_r w in
  check r_active r else EState;
  check is_owner w c || r_creation r else EPerm;
  check negb (a =? b) else EGuard;
  check tok_valid a else EGuard;
  check tok_valid b else EGuard;
  check (match get_pair (r_map r) a b with None => true | Some _ => false end) else EGuard;
  do (f, sf) <-
     (if is_owner w c then
        match fees with
        | Some (f, sf) =>
            check (sf <=? f) && (f <? ROUTER_MAX_TOTAL_FEE_PERCENT) else EGuard;
            Ok (f, sf)
        | None => Err EGuard                                (* "Bad percents length" *)
        end
      else Ok (ROUTER_DEFAULT_TOTAL_FEE_PERCENT, ROUTER_DEFAULT_SPECIAL_FEE_PERCENT));
  (* factory::create_pair: deploy from the template at the fresh address, run the pair's init *)
  check fresh_addr w na else EGuard;
  check pair_init_ok a b f sf else EExt;
  let pe := mkPent a b false (init_pair f sf (if adder =? 0 then None else Some adder)) in
  let r' := set_temp (set_map r (r_map r ++ [(a, b, na)])) (r_temp r ++ [(na, c, w_block w)]) in
  Ok (set_pairs (set_r w r') (w_pairs w ++ [(na, pe)]), [na]).

Definition ep_remove_pair (w : world) (c a b : Z) : result (world * outs) :=
  let r := w_r w in
  check is_owner w c else EPerm;
  check r_active r else EState;
  check negb (a =? b) else EGuard;
  check tok_valid a else EGuard;
  check tok_valid b else EGuard;
  match get_pair (r_map r) a b with
  | None => Err EGuard
  | Some _ =>
      match map_get (r_map r) a b with
      | Some p => Ok (set_r w (set_map r (map_remove (r_map r) a b)), [p])
      | None =>
          match map_get (r_map r) b a with
          | Some p => Ok (set_r w (set_map r (map_remove (r_map r) b a)), [p])
          | None => Ok (w, [0])
          end
      end
  end.

(** the upgrade itself is an asynchronous call that replaces code, not storage *)
Definition ep_upgrade_pair (w : world) (c a b : Z) : result (world * outs) :=
  let r := w_r w in
  check is_owner w c else EPerm;
  check r_active r else EState;
  check negb (a =? b) else EGuard;
  check tok_valid a else EGuard;
  check tok_valid b else EGuard;
  match get_pair (r_map r) a b with
  | None => Err EGuard
  | Some _ => Ok (w, [])
  end.

(** a call from the router into a registered pair: the router holds OWNER|PAUSE permissions on every
    pair it deployed (pair init, router_address = deployer), which the pair model expresses as the
    permission holder [Pair.OWNER]. *)
Definition pair_admin (w : world) (addr : Z) (pe : pent) (op : pop) : result (world * outs) :=
  do (p', _, _) <- step (pe_p pe) op;
  Ok (set_pairs w (upd_pair (w_pairs w) addr (set_pp pe p')), []).

Definition ep_pause (w : world) (c addr : Z) (st : Z) : result (world * outs) :=
  check is_owner w c else EPerm;
  if addr =? ROUTER then Ok (set_r w (set_active (w_r w) (st =? ST_Active)), [])
  else
    do pe <- registered w addr;
    pair_admin w addr pe (SetState OWNER st).

Definition ep_set_fee (w : world) (c addr : Z) (en : bool) (dest tok : Z) : result (world * outs) :=
  check is_owner w c else EPerm;
  check r_active (w_r w) else EState;
  do pe <- registered w addr;
  pair_admin w addr pe (SetFeeOn OWNER en dest (loc pe tok)).

Definition ep_set_local_roles (w : world) (c addr : Z) : result (world * outs) :=
  check r_active (w_r w) else EState;
  do pe <- registered w addr;
  check pe_lp pe else EGuard;
  Ok (w, []).

(** factory.rs: get_pair_temporary_owner *)
Fixpoint temp_get (t : list (Z * Z * Z)) (addr : Z) : option (Z * Z) :=
  match t with
  | [] => None
  | e :: tl => if fst (fst e) =? addr then Some (snd (fst e), snd e) else temp_get tl addr
  end.
Definition temp_owner (w : world) (addr : Z) : option Z :=
  match temp_get (r_temp (w_r w)) addr with
  | Some (creator, blk) =>
      if blk + ROUTER_TEMPORARY_OWNER_PERIOD_BLOCKS <=? w_block w then None else Some creator
  | None => None
  end.

(** issueLpToken up to the asynchronous call to the ESDT system contract *)
Definition ep_issue_lp (w : world) (c addr : Z) : result (world * outs) :=
  let r := w_r w in
  check r_active r else EState;
  check is_owner w c || r_creation r else EPerm;
  do pe <- registered w addr;
  check (match temp_owner w addr with None => true | Some t => c =? t end) else EPerm;
  check negb (pe_lp pe) else EGuard;
  Ok (w, []).

Definition ep_set_creation (w : world) (c : Z) (en : bool) : result (world * outs) :=
  check is_owner w c else EPerm;
  Ok (set_r w (set_creation (w_r w) en), []).

(** ------------------------------------------------------------------ enable_swap_by_user.rs *)
Definition zmem (x : Z) (l : list Z) : bool := existsb (Z.eqb x) l.

Definition ep_add_common (w : world) (c tok : Z) : result (world * outs) :=
  check is_owner w c else EPerm;
  check tok_valid tok else EGuard;
  let r := w_r w in
  Ok (set_r w (set_common r (if zmem tok (r_common r) then r_common r else r_common r ++ [tok])), []).

Definition ep_remove_common (w : world) (c tok : Z) : result (world * outs) :=
  check is_owner w c else EPerm;
  let r := w_r w in
  Ok (set_r w (set_common r (filter (fun x => negb (x =? tok)) (r_common r))), []).

Fixpoint cfg_get (l : list (Z * (Z * Z * Z))) (k : Z) : option (Z * Z * Z) :=
  match l with
  | [] => None
  | (k', v) :: t => if k' =? k then Some v else cfg_get t k
  end.

Definition ep_config_enable (w : world) (c common locked minval minep : Z) : result (world * outs) :=
  check is_owner w c else EPerm;
  check tok_valid common else EGuard;
  check tok_valid locked else EGuard;
  let r := w_r w in
  check zmem common (r_common r) else EGuard;
  Ok (set_r w (set_cfg r ((common, (locked, minval, minep)) :: r_cfg r)), []).

(** Locked-token codes: a token code >= 8 stands for a meta-ESDT whose attributes decode as
    LockedTokenAttributes; [orig] identifies the pair whose LP token the position wraps (its
    original_token_id), [unlock] its unlock epoch.  The payment returns to the caller at the end, so
    no balance of the locked token changes. *)
Definition is_locked_tok (t : Z) : bool := 8 <=? t.

Definition ep_enable_swap (w : world) (c addr ltok orig unlock amt : Z) : result (world * outs) :=
  let r := w_r w in
  check r_active r else EState;
  do pe <- registered w addr;
  let p := pe_p pe in
  check (p_state p =? ST_PartialActive) else EState;
  check is_locked_tok ltok else EGuard;
  check pe_lp pe else EGuard;
  check (orig =? addr) else EGuard;
  let (v1, v2) := view_tokens_for_position p amt in
  do (common, value) <-
     (if zmem (pe_t1 pe) (r_common r) then Ok (pe_t1 pe, v1)
      else if zmem (pe_t2 pe) (r_common r) then Ok (pe_t2 pe, v2)
      else Err EGuard);
  match cfg_get (r_cfg r) common with
  | None => Err EGuard
  | Some (locked, minval, minep) =>
      check (ltok =? locked) else EGuard;
      check (minval <=? value) else EGuard;
      let locked_epochs := if w_epoch w <? unlock then unlock - w_epoch w else 0 in
      check (minep <=? locked_epochs) else EGuard;
      check (match p_adder p with Some ad => c =? ad | None => false end) else EPerm;
      (* set_fee_percents + pair_resume, called by the router with its owner permissions *)
      do (p1, _, _) <- step p (SetFee OWNER ROUTER_USER_DEFINED_TOTAL_FEE_PERCENT ROUTER_DEFAULT_SPECIAL_FEE_PERCENT);
      do (p2, _, _) <- step p1 (SetState OWNER ST_Active);
      Ok (set_pairs w (upd_pair (w_pairs w) addr (set_pp pe p2)), [])
  end.

(** ------------------------------------------------------------------ multi_pair_swap.rs *)
(** one swap operation: (pair address, function, token wanted, amount wanted);
    function 0 = swapTokensFixedInput, 1 = swapTokensFixedOutput, anything else = another name *)
Definition hop := (Z * Z * Z * Z)%type.
Definition FIXED_IN : Z := 0.
Definition FIXED_OUT : Z := 1.

(** one iteration of the loop: [last] is last_payment (token, amount), [resid] the payments vector *)
Definition do_hop (w : world) (h : hop) (last : Z * Z) (resid : list (Z * Z))
  : result (world * (Z * Z) * list (Z * Z)) :=
  let '(addr, f, tw, aw) := h in
  let (tin, ain) := last in
  do pe <- registered w addr;
  if f =? FIXED_IN then
    do led1 <- debit (w_led w) ROUTER tin ain;
    do (p', o, e) <- ep_swap_in (pe_p pe) ROUTER (loc pe tin) ain (loc pe tw) aw;
    match o, e_ext e with
    | [out], [] =>
        let led2 := credit led1 ROUTER tw out in
        Ok (set_led (set_pairs w (upd_pair (w_pairs w) addr (set_pp pe p'))) led2, (tw, out), resid)
    | _, _ => Err EExt
    end
  else if f =? FIXED_OUT then
    do led1 <- debit (w_led w) ROUTER tin ain;
    do (p', o, e) <- ep_swap_out (pe_p pe) ROUTER (loc pe tin) ain (loc pe tw) aw;
    match o, e_ext e with
    | [out; res], [] =>
        let led2 := credit (credit led1 ROUTER tw out) ROUTER tin res in
        Ok (set_led (set_pairs w (upd_pair (w_pairs w) addr (set_pp pe p'))) led2, (tw, out),
            if 0 <? res then resid ++ [(tin, res)] else resid)
    | _, _ => Err EExt
    end
  else Err EGuard.

Fixpoint run_hops (w : world) (hops : list hop) (last : Z * Z) (resid : list (Z * Z))
  : result (world * (Z * Z) * list (Z * Z)) :=
  match hops with
  | [] => Ok (w, last, resid)
  | h :: t => do (w1, last1, resid1) <- do_hop w h last resid; run_hops w1 t last1 resid1
  end.

Fixpoint flat (ps : list (Z * Z)) : list Z :=
  match ps with [] => [] | (t, v) :: tl => t :: v :: flat tl end.

Definition ep_multi_swap (w : world) (c tin amt : Z) (hops : list hop)
  : result (world * list (Z * Z)) :=
  check r_active (w_r w) else EState;
  check tok_valid tin else EGuard;
  check (0 <? amt) else EGuard;
  check (match hops with [] => false | _ => true end) else EGuard;
  (* the caller's payment arrives at the router *)
  do led0 <- debit (w_led w) c tin amt;
  let w0 := set_led w (credit led0 ROUTER tin amt) in
  do (w1, last, resid) <- run_hops w0 hops (tin, amt) [];
  let payments := resid ++ [last] in
  do led2 <- pay_all (w_led w1) ROUTER c payments;
  Ok (set_led w1 led2, payments).

(** ------------------------------------------------------------------ environment of the router:
    pair contracts deployed without the router, direct calls to pair contracts, plain transfers,
    block progress.  These exist to reach diverse worlds; they are not router endpoints. *)
Definition ep_deploy_pair (w : world) (a b f sf na : Z) : result (world * outs) :=
  check fresh_addr w na else EGuard;
  check pair_init_ok a b f sf else EGuard;
  Ok (set_pairs w (w_pairs w ++ [(na, mkPent a b false (init_pair f sf None))]), [na]).

(** pair.setLpTokenIdentifier called directly by an account with owner permissions on the pair *)
Definition ep_set_lp (w : world) (c addr : Z) : result (world * outs) :=
  match pair_at (w_pairs w) addr with
  | None => Err EGuard
  | Some pe =>
      check has_owner_perm c else EPerm;
      check negb (pe_lp pe) else EGuard;
      Ok (set_pairs w (upd_pair (w_pairs w) addr (set_plp pe true)), [])
  end.

Definition direct_allowed (op : pop) : bool :=
  match op with
  | AddInitial _ _ _ | Add _ _ _ _ _ | Remove _ _ _ _ | SwapIn _ _ _ _ _ | SwapOut _ _ _ _ _
  | SetState _ _ | SetFee _ _ _ | SetFeeOn _ _ _ _ => true
  | _ => false
  end.
Definition needs_lp (op : pop) : bool :=
  match op with AddInitial _ _ _ | Add _ _ _ _ _ | Remove _ _ _ _ => true | _ => false end.

(** what a direct pair call moves on the ledger: (caller, payments sent, payments received),
    in the pair's local token codes *)
Definition moves (op : pop) (o : list Z) : Z * list (Z * Z) * list (Z * Z) :=
  match op, o with
  | AddInitial c a1 a2, _ => (c, [(T1, a1); (T2, a2)], [])
  | Add c a1 a2 _ _, [_; o1; o2] => (c, [(T1, a1); (T2, a2)], [(T1, a1 - o1); (T2, a2 - o2)])
  | Remove c _ _ _, [x1; x2] => (c, [], [(T1, x1); (T2, x2)])
  | SwapIn c tin ain tout _, [out] => (c, [(tin, ain)], [(tout, out)])
  | SwapOut c tin amax tout _, [out; res] => (c, [(tin, amax)], [(tout, out); (tin, res)])
  | _, _ => (0, [], [])
  end.

Definition ep_direct (w : world) (addr : Z) (op : pop) : result (world * outs) :=
  match pair_at (w_pairs w) addr with
  | None => Err EGuard
  | Some pe =>
      check direct_allowed op else EGuard;
      check negb (needs_lp op) || pe_lp pe else EGuard;
      do (p', o, e) <- step (pe_p pe) op;
      check (match e_ext e with [] => true | _ => false end) else EExt;
      let '(c, debs, creds) := moves op o in
      let g := map (fun tv => (glob pe (fst tv), snd tv)) in
      do led1 <- debit_all (w_led w) c (g debs);
      let led2 := credit_all led1 c (g creds) in
      Ok (set_led (set_pairs w (upd_pair (w_pairs w) addr (set_pp pe p'))) led2, o)
  end.

Definition ep_donate_router (w : world) (c tok amt : Z) : result (world * outs) :=
  check (0 <? amt) else EGuard;
  do led1 <- debit (w_led w) c tok amt;
  Ok (set_led w (credit led1 ROUTER tok amt), []).

(** ------------------------------------------------------------------ operations *)
Inductive rop :=
| CreatePair (c a b adder : Z) (fees : option (Z * Z)) (na : Z)
| RemovePair (c a b : Z)
| UpgradePair (c a b : Z)
| Pause (c addr : Z)
| Resume (c addr : Z)
| RSetFeeOn (c addr dest tok : Z)
| RSetFeeOff (c addr dest tok : Z)
| SetLocalRoles (c addr : Z)
| IssueLp (c addr : Z)
| SetCreation (c : Z) (en : bool)
| MultiSwap (c tin amt : Z) (hops : list hop)
| DeployPair (a b f sf na : Z)
| SetLp (c addr : Z)
| Direct (addr : Z) (op : pop)
| DonateRouter (c tok amt : Z)
| SetBlock (n : Z)
| AddCommon (c tok : Z)
| RemoveCommon (c tok : Z)
| ConfigEnable (c common locked minval minep : Z)
| EnableSwap (c addr ltok orig unlock amt : Z)
| SetEpoch (n : Z).

Definition rstep (w : world) (op : rop) : result (world * outs) :=
  match op with
  | CreatePair c a b adder fees na => ep_create_pair w c a b adder fees na
  | RemovePair c a b => ep_remove_pair w c a b
  | UpgradePair c a b => ep_upgrade_pair w c a b
  | Pause c addr => ep_pause w c addr ST_Inactive
  | Resume c addr => ep_pause w c addr ST_Active
  | RSetFeeOn c addr dest tok => ep_set_fee w c addr true dest tok
  | RSetFeeOff c addr dest tok => ep_set_fee w c addr false dest tok
  | SetLocalRoles c addr => ep_set_local_roles w c addr
  | IssueLp c addr => ep_issue_lp w c addr
  | SetCreation c en => ep_set_creation w c en
  | MultiSwap c tin amt hops =>
      do (w', ps) <- ep_multi_swap w c tin amt hops; Ok (w', flat ps)
  | DeployPair a b f sf na => ep_deploy_pair w a b f sf na
  | SetLp c addr => ep_set_lp w c addr
  | Direct addr op => ep_direct w addr op
  | DonateRouter c tok amt => ep_donate_router w c tok amt
  | SetBlock n => Ok (set_block w n, [])
  | AddCommon c tok => ep_add_common w c tok
  | RemoveCommon c tok => ep_remove_common w c tok
  | ConfigEnable c common locked minval minep => ep_config_enable w c common locked minval minep
  | EnableSwap c addr ltok orig unlock amt => ep_enable_swap w c addr ltok orig unlock amt
  | SetEpoch n => Ok (set_epoch w n, [])
  end.

(** A failed transaction reverts (nested synchronous calls included): the runner keeps the old world. *)
Definition rstep_total (w : world) (op : rop) : world :=
  match rstep w op with Ok (w', _) => w' | Err _ => w end.

Definition rrun (w : world) (ops : list rop) : world := fold_left rstep_total ops w.
