(** Executable model of dex/farm-with-locked-rewards: a thin wrapper around Model/Farm.v.

    Mirrors dex/farm-with-locked-rewards/src/{lib,external_interaction}.rs, endpoint by endpoint:
      enterFarm, claimRewards, exitFarm, mergeFarmTokens, claimBoostedRewards and the admin endpoints
      (startProduceRewards, endProduceRewards, setPerBlockRewardAmount,
      setBoostedYieldsRewardsPercentage, set_minimum_farming_epochs, set_penalty_percent, pause/resume)
      run the SAME module code as dex/farm (farm_base_impl, farm::base_functions, farm-boosted-yields),
      instantiated with NoMintWrapper instead of Wrapper.  NoMintWrapper differs from Wrapper only in
      [mint_rewards] (a no-op: generated rewards are bookkeeping, nothing is minted);
      generate_aggregated_rewards / calculate_rewards / exit penalty are textually the same.
      So the shared state evolves by [Farm.fstep]; its field [f_bal_rew] is here a GHOST
      (generated - paid + donated), NOT a balance of the contract.
    What is different and modelled here:
      * there is no compoundRewards endpoint;
      * every reward (base + boosted of claim / exit; boosted of enter / merge / claimBoosted) is handed
        to the energy factory's lockVirtual (common/modules/locking_module/src/lock_with_energy_module.rs,
        locked-asset/energy-factory/src/virtual_lock.rs) when it is non-zero: the farm's lockEpochs
        must be a listed lock option, the unlock epoch start_of_month(now + lockEpochs) must lie in the
        future, and the caller receives [reward] LOCKED tokens with that unlock epoch; a zero reward
        makes no call at all (send_to_lock_contract_non_zero);
      * setLockEpochs (owner only, value not validated);
      * [l_base]: the reward tokens the contract really holds on top of principal; nothing in the
        contract ever sends or mints reward tokens, only plain transfers to it (FTopUp) add to it.
    The energy factory is never paused and the farm is whitelisted in it (set-up of the world).
    No proofs in this file. *)
From MX Require Import Base.Prelude Gen.Params Model.Farm.

Record lfarm := mkL {
  l_f : farm;          (* state shared with dex/farm *)
  l_base : Z;          (* reward tokens really held, principal excluded *)
  l_opts : list Z;     (* energy factory: listed lock options (epochs) *)
  l_lock : Z;          (* lockEpochs *)
  l_locked : Z         (* ghost: LOCKED reward tokens created for users so far *)
}.

Definition init_locked (dsc : Z) (same : bool) (opts : list Z) (lock : Z) : lfarm :=
  mkL (init_farm dsc same) 0 opts lock 0.

Inductive lop :=
| LF (op : fop)
| LSetLockEpochs (c e : Z).

(** one LOCKED payment: receiver, amount, unlock epoch *)
Definition receipt := (Z * (Z * Z))%type.

Definition listed (s : lfarm) : bool := existsb (Z.eqb (l_lock s)) (l_opts s).

(** unlock_epoch_to_start_of_month (current_epoch + lock_epochs) *)
Definition unlock_of (ep le : Z) : Z := (ep + le) - (ep + le) mod EPOCHS_PER_MONTH.

(** the reward amount among the results of a farm endpoint *)
Definition reward_of (op : fop) (o : fouts) : Z :=
  match op with
  | FEnter _ _ _ _ _ _ | FClaim _ _ _ _ _ _ | FMerge _ _ _ _ _ => nth 2 o 0
  | FExit _ _ _ _ _ => nth 1 o 0
  | FClaimBoosted _ _ _ _ => nth 0 o 0
  | _ => 0
  end.

Definition op_epoch (op : fop) : Z :=
  match op with
  | FEnter _ ep _ _ _ _ | FClaim _ ep _ _ _ _ | FCompound _ ep _ _ _ _ | FExit _ ep _ _ _
  | FMerge _ ep _ _ _ | FClaimBoosted _ ep _ _ => ep
  | _ => 0
  end.

Definition op_caller (op : fop) : Z :=
  match op with
  | FEnter _ _ c _ _ _ | FClaim _ _ c _ _ _ | FCompound _ _ c _ _ _ | FExit _ _ c _ _
  | FMerge _ _ c _ _ | FClaimBoosted _ _ c _ => c
  | _ => 0
  end.

Definition topup_of (op : fop) : Z := match op with FTopUp a => a | _ => 0 end.

Definition has_endpoint (op : fop) : bool :=
  match op with FCompound _ _ _ _ _ _ => false | _ => true end.

Definition lstep (s : lfarm) (op : lop) : result (lfarm * fouts * list receipt) :=
  match op with
  | LSetLockEpochs c e =>
      check admin c else EPerm; check (0 <=? e) else EGuard;
      Ok (mkL (l_f s) (l_base s) (l_opts s) e (l_locked s), [], [])
  | LF op =>
      check has_endpoint op else EGuard;
      do (f', o) <- fstep (l_f s) op;
      let r := reward_of op o in
      let base := l_base s + topup_of op in
      if 0 <? r then
        let ue := unlock_of (op_epoch op) (l_lock s) in
        check listed s else EExt;
        check (op_epoch op <? ue) else EExt;
        Ok (mkL f' base (l_opts s) (l_lock s) (l_locked s + r), o, [(op_caller op, (r, ue))])
      else Ok (mkL f' base (l_opts s) (l_lock s) (l_locked s), o, [])
  end.

Definition lstep_total (s : lfarm) (op : lop) : lfarm :=
  match lstep s op with Ok (s', _, _) => s' | Err _ => s end.

Definition lrun (s : lfarm) (ops : list lop) : lfarm := fold_left lstep_total ops s.
