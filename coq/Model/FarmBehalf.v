(** Executable model of the ON-BEHALF endpoints of dex/farm and dex/farm-with-locked-rewards, with the
    permissions hub as part of the state (C07 owner totals / C19 "rewards claimed on behalf go to the
    position owner").

    Mirrors:
      dex/farm/src/external_interaction.rs                      enterFarmOnBehalf(user), claimRewardsOnBehalf()
      dex/farm-with-locked-rewards/src/external_interaction.rs  the same two endpoints (NoMintWrapper, lock_virtual)
      common/modules/original_owner_helper/src/lib.rs           get_claim_original_owner, check_additional_payments_original_owner
      common/modules/permissions_hub_module/src/lib.rs          require_user_whitelisted (sync call of the hub's isWhitelisted)
      dex/permissions-hub/src/lib.rs                            whitelist / removeWhitelist / blacklist / removeBlacklist
                                                                (= [Access.hub_step] of Model/Access.v, reused unchanged)

    The endpoints are modelled BY COMPOSITION of operations Model/Farm.v already has.  An authorised agent [a]
    calls for user [u] with position tokens [a] HOLDS and whose recorded owner is [u]:

      enterFarmOnBehalf(u) {farming amt, adds}  =  guards ; FTransfer adds a -> u ; FEnter by u (amt, adds, b) ;
                                                   FTransfer new position u -> a
      claimRewardsOnBehalf() {first, adds}      =  guards ; FTransfer (first :: adds) a -> u ; FClaim by u ;
                                                   FTransfer new position u -> a

    Why this is exact on the farm's state (checked against the source, line by line):
      * the endpoint bodies are the bodies of enterFarm / claimRewards with orig_caller := user
        (migrate_old_farm_positions(user), claim_only_boosted_payment(user), enter_farm / claim_rewards (user),
        update_energy_and_progress(user)): boosted rewards, energy and claim progress are those of [u];
      * the position tokens are burned from the call value whoever sent them - the model debits [a]'s holding by
        moving it to [u] first;
      * check_and_update_user_farm_position(user, payments) is a no-op on positions already recorded for [u]
        (that is what the owner guards establish), so userTotalFarmPosition(u) moves exactly as if [u] had acted;
      * the new position is created with original_owner = user and sent to the CALLER (send_payment_non_zero(&caller, ..)):
        mint for [u], then transfer to [a].
    What is NOT part of Model/Farm.v's state and is added here as ledgers (ghost counters per account):
      * who RECEIVES reward tokens: enter: boosted rewards to [u]; claim: base + boosted to [u]
        (send_payment_non_zero(&user, ..)) - never to [a];
      * who PAYS the farming tokens of an enter: the caller [a] (the call value);
      * who receives farming tokens: only exitFarm pays them, and there is no exit-on-behalf endpoint.
    Differences that do not reach this model: the locked farm's enterFarmOnBehalf locks the boosted reward AFTER
    enter_farm (the ordinary enterFarm locks it before); both run update_energy_and_progress(user) last, so the
    recorded energy entry is the same; the events carry [user] as caller.

    Guards (order as in the source; only Ok/Err is compared):
      enter: require_user_whitelisted(user, caller) = hub.isWhitelisted(user, caller)  (listed by user and not blacklisted);
             check_additional_payments_original_owner: with more than one payment, every payment in the farm token
             must record original_owner = user (the attributes of each are decoded);
      claim: get_claim_original_owner: every payment's recorded owner is non-zero and the same - that is the user;
             then require_user_whitelisted(user, caller).
    No proofs in this file. *)
From MX Require Import Base.Prelude Gen.Params Model.Farm Model.FarmLocked.
From MX Require Model.Access.

(** ------------------------------------------------------------------ helpers shared by both farms *)
(** recorded owners of the paid positions, in payment order (get_token_attributes of each payment) *)
Fixpoint owners_of (f : farm) (ps : list (Z * Z)) : result (list Z) :=
  match ps with
  | [] => Ok []
  | p :: t => do a <- get_attrs f (fst p); do r <- owners_of f t; Ok (a_owner a :: r)
  end.

(** plain ESDT transfer of a position payment *)
Definition xfer (src dst : Z) (p : Z * Z) : fop := FTransfer (fst p) src dst (snd p).

Definition acredit (l : list (Z * Z)) (k v : Z) : list (Z * Z) := aset l k (aget l k + v).

Definition farming_in (op : fop) : Z := match op with FEnter _ _ _ amt _ _ => amt | _ => 0 end.
Definition farming_out (op : fop) (o : fouts) : Z := match op with FExit _ _ _ _ _ => nth 0 o 0 | _ => 0 end.

(** ------------------------------------------------------------------ dex/farm *)
Fixpoint fseq (f : farm) (ops : list fop) : result farm :=
  match ops with
  | [] => Ok f
  | op :: t => do r <- fstep f op; fseq (fst r) t
  end.

(** enterFarmOnBehalf(u) by [a]; results as enterFarm: [new nonce; amount; boosted rewards] *)
Definition ob_enter (h : Access.hub) (f : farm) (blk ep a u amt : Z) (adds : list (Z * Z)) (b : Z)
  : result (farm * fouts) :=
  do owners <- owners_of f adds;
  do _ <- Access.enter_on_behalf h a u owners;
  do f1 <- fseq f (map (xfer a u) adds);
  do r <- fstep f1 (FEnter blk ep u amt adds b);
  do r' <- fstep (fst r) (FTransfer (nth 0 (snd r) 0) u a (nth 1 (snd r) 0));
  Ok (fst r', snd r).

(** claimRewardsOnBehalf() by [a]; results as claimRewards: [new nonce; amount; base + boosted]; also the user *)
Definition ob_claim (h : Access.hub) (f : farm) (blk ep a : Z) (first : Z * Z) (adds : list (Z * Z)) (b : Z)
  : result (farm * fouts * Z) :=
  do owners <- owners_of f (first :: adds);
  do u <- Access.claim_original_owner owners None;
  check Access.is_whitelisted h u a else EPerm;
  do f1 <- fseq f (map (xfer a u) (first :: adds));
  do r <- fstep f1 (FClaim blk ep u first adds b);
  do r' <- fstep (fst r) (FTransfer (nth 0 (snd r) 0) u a (nth 1 (snd r) 0));
  Ok (fst r', snd r, u).

Record bst := mkB {
  b_f : farm;                  (* the farm, exactly the state of Model/Farm.v *)
  b_hub : Access.hub;          (* the permissions hub the farm is configured with *)
  b_rew : list (Z * Z);        (* ghost: reward tokens each account has received from the farm *)
  b_fout : list (Z * Z);       (* ghost: farming tokens each account has received from the farm *)
  b_fin : list (Z * Z)         (* ghost: farming tokens each account has paid into the farm *)
}.

Definition init_b (dsc : Z) (same : bool) (hub_owner : Z) : bst :=
  mkB (init_farm dsc same) (Access.mkHub [] [] hub_owner) [] [] [].

Inductive bop :=
| BF (op : fop)                                                    (* every operation of Model/Farm.v, by anybody *)
| BHub (op : Access.hub_op)                                        (* whitelist / removeWhitelist / blacklist / removeBlacklist *)
| BEnterOB (blk ep a u amt : Z) (adds : list (Z * Z)) (b : Z)      (* enterFarmOnBehalf(u) called by a *)
| BClaimOB (blk ep a : Z) (first : Z * Z) (adds : list (Z * Z)) (b : Z).   (* claimRewardsOnBehalf() called by a *)

Definition bstep (s : bst) (op : bop) : result (bst * fouts) :=
  match op with
  | BF op =>
      do r <- fstep (b_f s) op;
      let c := op_caller op in
      Ok (mkB (fst r) (b_hub s) (acredit (b_rew s) c (reward_of op (snd r)))
              (acredit (b_fout s) c (farming_out op (snd r))) (acredit (b_fin s) c (farming_in op)), snd r)
  | BHub op =>
      do h' <- Access.hub_step (b_hub s) op;
      Ok (mkB (b_f s) h' (b_rew s) (b_fout s) (b_fin s), [])
  | BEnterOB blk ep a u amt adds b =>
      do r <- ob_enter (b_hub s) (b_f s) blk ep a u amt adds b;
      Ok (mkB (fst r) (b_hub s) (acredit (b_rew s) u (nth 2 (snd r) 0)) (b_fout s) (acredit (b_fin s) a amt), snd r)
  | BClaimOB blk ep a first adds b =>
      do r <- ob_claim (b_hub s) (b_f s) blk ep a first adds b;
      let '(f', o, u) := r in
      Ok (mkB f' (b_hub s) (acredit (b_rew s) u (nth 2 o 0)) (b_fout s) (b_fin s), o)
  end.

Definition bstep_total (s : bst) (op : bop) : bst :=
  match bstep s op with Ok (s', _) => s' | Err _ => s end.

Definition brun (s : bst) (ops : list bop) : bst := fold_left bstep_total ops s.

(** ------------------------------------------------------------------ dex/farm-with-locked-rewards *)
Fixpoint lseq (s : lfarm) (ops : list fop) : result lfarm :=
  match ops with
  | [] => Ok s
  | op :: t => do r <- lstep s (LF op); lseq (fst (fst r)) t
  end.

(** the locked receipts are those of the user's own enterFarm: receiver = energy address = [u]
    (send_to_lock_contract_non_zero(reward token, boosted, user, user)) *)
Definition lob_enter (h : Access.hub) (s : lfarm) (blk ep a u amt : Z) (adds : list (Z * Z)) (b : Z)
  : result (lfarm * fouts * list receipt) :=
  do owners <- owners_of (l_f s) adds;
  do _ <- Access.enter_on_behalf h a u owners;
  do s1 <- lseq s (map (xfer a u) adds);
  do r <- lstep s1 (LF (FEnter blk ep u amt adds b));
  let '(s2, o, rc) := r in
  do r' <- lstep s2 (LF (FTransfer (nth 0 o 0) u a (nth 1 o 0)));
  Ok (fst (fst r'), o, rc).

Definition lob_claim (h : Access.hub) (s : lfarm) (blk ep a : Z) (first : Z * Z) (adds : list (Z * Z)) (b : Z)
  : result (lfarm * fouts * list receipt * Z) :=
  do owners <- owners_of (l_f s) (first :: adds);
  do u <- Access.claim_original_owner owners None;
  check Access.is_whitelisted h u a else EPerm;
  do s1 <- lseq s (map (xfer a u) (first :: adds));
  do r <- lstep s1 (LF (FClaim blk ep u first adds b));
  let '(s2, o, rc) := r in
  do r' <- lstep s2 (LF (FTransfer (nth 0 o 0) u a (nth 1 o 0)));
  Ok (fst (fst r'), o, rc, u).

Record lbst := mkLB {
  lb_s : lfarm;                (* the locked farm, exactly the state of Model/FarmLocked.v *)
  lb_hub : Access.hub;
  lb_lk : list (Z * Z);        (* ghost: LOCKED reward tokens each account has received *)
  lb_fout : list (Z * Z);      (* ghost: farming tokens each account has received from the farm *)
  lb_fin : list (Z * Z)        (* ghost: farming tokens each account has paid into the farm *)
}.

Definition init_lb (dsc : Z) (same : bool) (opts : list Z) (lock hub_owner : Z) : lbst :=
  mkLB (init_locked dsc same opts lock) (Access.mkHub [] [] hub_owner) [] [] [].

Inductive lbop :=
| LBL (op : lop)
| LBHub (op : Access.hub_op)
| LBEnterOB (blk ep a u amt : Z) (adds : list (Z * Z)) (b : Z)
| LBClaimOB (blk ep a : Z) (first : Z * Z) (adds : list (Z * Z)) (b : Z).

Definition credit_receipts (l : list (Z * Z)) (rc : list receipt) : list (Z * Z) :=
  fold_left (fun acc r => acredit acc (fst r) (fst (snd r))) rc l.

Definition lop_fop (op : lop) : fop := match op with LF o => o | LSetLockEpochs _ _ => FTopUp 0 end.

Definition lbstep (s : lbst) (op : lbop) : result (lbst * fouts * list receipt) :=
  match op with
  | LBL op =>
      do r <- lstep (lb_s s) op;
      let '(s', o, rc) := r in
      let fo := lop_fop op in
      let c := op_caller fo in
      Ok (mkLB s' (lb_hub s) (credit_receipts (lb_lk s) rc)
               (acredit (lb_fout s) c (farming_out fo o)) (acredit (lb_fin s) c (farming_in fo)), o, rc)
  | LBHub op =>
      do h' <- Access.hub_step (lb_hub s) op;
      Ok (mkLB (lb_s s) h' (lb_lk s) (lb_fout s) (lb_fin s), [], [])
  | LBEnterOB blk ep a u amt adds b =>
      do r <- lob_enter (lb_hub s) (lb_s s) blk ep a u amt adds b;
      let '(s', o, rc) := r in
      Ok (mkLB s' (lb_hub s) (credit_receipts (lb_lk s) rc) (lb_fout s) (acredit (lb_fin s) a amt), o, rc)
  | LBClaimOB blk ep a first adds b =>
      do r <- lob_claim (lb_hub s) (lb_s s) blk ep a first adds b;
      let '(s', o, rc, _) := r in
      Ok (mkLB s' (lb_hub s) (credit_receipts (lb_lk s) rc) (lb_fout s) (lb_fin s), o, rc)
  end.

Definition lbstep_total (s : lbst) (op : lbop) : lbst :=
  match lbstep s op with Ok (s', _, _) => s' | Err _ => s end.

Definition lbrun (s : lbst) (ops : list lbop) : lbst := fold_left lbstep_total ops s.
