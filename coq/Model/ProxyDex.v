(** Executable model of the proxy DEX contract (property C16).

    Mirrors, function by function and guard by guard:
      locked-asset/proxy_dex/src/proxy_pair.rs            (addLiquidityProxy, removeLiquidityProxy,
                                                           increaseProxyPairTokenEnergy)
      locked-asset/proxy_dex/src/proxy_farm.rs            (enterFarmProxy, exitFarmProxy, claimRewardsProxy,
                                                           increaseProxyFarmTokenEnergy,
                                                           handle_farm_penalty_and_get_output_proxy_farming_token)
      locked-asset/proxy_dex/src/proxy_common.rs          (require_exactly_one_locked, burn_if_base_asset)
      locked-asset/proxy_dex/src/wrapped_lp_attributes.rs   (into_part, merge_wrapped_lp_tokens)
      locked-asset/proxy_dex/src/wrapped_farm_attributes.rs (into_part, merge_wrapped_farm_tokens)
      locked-asset/proxy_dex/src/wrapped_lp_token_merge.rs, wrapped_farm_token_merge.rs (merge endpoints)
      locked-asset/proxy_dex/src/energy_update.rs         (burn_locked_tokens_and_update_energy)
      locked-asset/proxy_dex/src/other_sc_whitelist.rs    (intermediated pairs / farms)
      common/traits/fixed-supply-token/src/lib.rs         (rule_of_three_non_zero_result)
      locked-asset/energy-factory/src/energy.rs           (deplete, update_after_unlock_any — the part the proxy runs itself)

    What is modelled exactly: the proxy's own ledger (base asset, second pool token, LP tokens, farm
    tokens, locked tokens and wrapped LP tokens held by the proxy), the attributes and outstanding
    supply of every wrapped LP / wrapped farm nonce, the holders of the wrapped tokens, the base asset
    the proxy mints and burns, the locked tokens it burns and the energy entry it writes back.

    What is ENVIRONMENT (assume / guarantee, DESIGN.md §7 C16): the pair, the farms and the energy
    factory.  Every nested call is represented by the response the proxy received ([env]); the
    interface laws these responses must obey are evaluated where the response is consumed and
    returned in [x_law] (the theorems quantify over runs whose responses obey the laws, the
    correspondence run evaluates the same [x_law] on every real response).  [v_ok] says that no guard
    of a nested contract fired (a failing nested call fails the whole transaction).

    Not modelled: the legacy locked token (old factory) paths; the optional original-caller argument.

    Transit convention: a helper that takes tokens out of a wrapped position removes the backing
    from the proxy's ledger at once (the tokens are "in the proxy's hand" for the rest of the
    transaction) and a helper that creates a position deposits the backing; at the end of every
    operation the ledger equals the proxy's real ESDT balances.
    No proofs in this file. *)
From MX Require Import Base.Prelude Gen.Params.

(** token codes used in payments *)
Definition TK_BASE : Z := 0.      (* base asset (MEX) *)
Definition TK_OTHER : Z := 1.     (* the pool's other token *)
Definition TK_LOCKED : Z := 2.    (* locked token of the energy factory *)
Definition TK_WLP : Z := 3.       (* wrapped LP token *)
Definition TK_WFM : Z := 4.       (* wrapped farm token *)
Definition OWNER : Z := 100.

Definition pay := (Z * Z * Z)%type.           (* (token code, nonce, amount) *)
Definition p_tok (p : pay) : Z := fst (fst p).
Definition p_non (p : pay) : Z := snd (fst p).
Definition p_amt (p : pay) : Z := snd p.

(** ------------------------------------------------------------------ energy.rs (the part run by the proxy) *)
Record penergy := mkPEn { pe_amt : Z; pe_upd : Z; pe_tot : Z }.

Definition pe_add (en : penergy) (future current per_epoch : Z) : penergy :=
  if future <=? current then en
  else mkPEn (pe_amt en + per_epoch * (future - current)) (pe_upd en) (pe_tot en).

Definition pe_subtract (en : penergy) (past current per_epoch : Z) : penergy :=
  if current <=? past then en
  else mkPEn (pe_amt en - per_epoch * (current - past)) (pe_upd en) (pe_tot en).

Definition pe_deplete (en : penergy) (now : Z) : penergy :=
  if pe_upd en =? now then en
  else
    let en1 := if 0 <? pe_tot en then pe_subtract en (pe_upd en) now (pe_tot en) else en in
    mkPEn (pe_amt en1) now (pe_tot en1).

Definition pe_update_after_unlock_any (en : penergy) (amt unlock now : Z) : result penergy :=
  let en1 := if unlock <? now then pe_add en now unlock amt else pe_subtract en now unlock amt in
  do t <- sub_chk (pe_tot en1) amt;
  Ok (mkPEn (pe_amt en1) (pe_upd en1) t).

(** ------------------------------------------------------------------ fixed-supply-token *)
(** rule_of_three_non_zero_result: full * cur / total (full itself when cur = total), "Zero amount" abort *)
Definition rule3 (total cur full : Z) : result Z :=
  do r <- (if cur =? total then Ok full else div_chk (full * cur) total);
  check 0 <? r else EGuard;
  Ok r.

(** ------------------------------------------------------------------ state *)
Record wlp := mkWlp {
  wl_T : Z;        (* lp_token_amount recorded in the attributes = supply at creation *)
  wl_k : Z;        (* locked token nonce recorded *)
  wl_L : Z;        (* locked token amount recorded *)
  wl_live : Z;     (* outstanding supply that can still be redeemed *)
  wl_dead : Z      (* supply left unburned in the proxy after its content was re-wrapped (never leaves) *)
}.

Record wfm := mkWfm {
  wf_farm : Z;     (* which farm issued the farm token (0 = base-asset farm, 1 = LP farm) *)
  wf_f : Z;        (* farm token nonce *)
  wf_T : Z;        (* farm token amount recorded = supply at creation *)
  wf_kind : Z;     (* proxy farming token: 0 = locked token, 1 = wrapped LP token *)
  wf_pn : Z;       (* its nonce *)
  wf_P : Z;        (* its amount *)
  wf_sup : Z       (* outstanding supply *)
}.

Record state := mkSt {
  s_wlp : list wlp;            (* wrapped LP nonce n is element n-1 *)
  s_wfm : list wfm;            (* wrapped farm nonce m is element m-1 *)
  s_hlp : list (Z * Z);        (* holders of wrapped LP tokens: key nonce*16 + account *)
  s_hfm : list (Z * Z);        (* holders of wrapped farm tokens *)
  s_base : Z;                  (* proxy's balance of the base asset *)
  s_other : Z;                 (* ... of the other pool token *)
  s_lp : Z;                    (* ... of LP tokens *)
  s_farm : list (Z * Z);       (* ... of farm tokens: key nonce*2 + farm *)
  s_locked : list (Z * Z);     (* ... of locked tokens per nonce *)
  s_pwlp : list (Z * Z);       (* ... of wrapped LP tokens per nonce *)
  s_pair_ok : bool;            (* the pair is intermediated *)
  s_farm0_ok : bool; s_farm1_ok : bool
}.

Definition init_state : state :=
  mkSt [] [] [] [] 0 0 0 [] [] [] true true true.

Definition hkey (n u : Z) : Z := n * 16 + u.
Definition fkey (f farm : Z) : Z := f * 2 + farm.

Definition getn {A} (l : list A) (n : Z) : option A :=
  if n <=? 0 then None else nth_error l (Z.to_nat (n - 1)).

Fixpoint setnth {A} (l : list A) (i : nat) (x : A) : list A :=
  match l, i with
  | [], _ => []
  | _ :: t, O => x :: t
  | h :: t, S j => h :: setnth t j x
  end.

Definition setn {A} (l : list A) (n : Z) (x : A) : list A := setnth l (Z.to_nat (n - 1)) x.

Definition next_nonce {A} (l : list A) : Z := Z.of_nat (length l) + 1.

Definition bal_sub (l : list (Z * Z)) (k a : Z) : result (list (Z * Z)) :=
  do v <- sub_chk (aget l k) a; Ok (aset l k v).
Definition bal_add (l : list (Z * Z)) (k a : Z) : list (Z * Z) := aset l k (aget l k + a).

(** ------------------------------------------------------------------ environment *)
Record env := mkEnv {
  v_now : Z;               (* block epoch *)
  v_ok : bool;             (* no guard of a nested contract fires *)
  v_pair : Z * Z * Z;      (* addLiquidity: (lp, first used, second used) in payment order;
                              removeLiquidity: (0, base asset received, other token received) *)
  v_farm : Z * Z;          (* enterFarm / claimRewards: farm token (nonce, amount); exitFarm: (0, farming tokens returned) *)
  v_fmerge : Z * Z;        (* mergeFarmTokens: farm token (nonce, amount) *)
  v_rew : Z * Z;           (* reward payment of the farm, locked token (nonce, amount): forwarded to the caller by
                              enter / exit / claim; kept by the proxy in mergeWrappedFarmTokens *)
  v_fact : Z * Z;          (* mergeTokens / extendLockPeriod of the factory: locked token (nonce, amount) *)
  v_energy : penergy;      (* the caller's energy entry as the proxy reads it *)
  v_unlock : Z             (* unlock epoch of the locked nonce the proxy burns *)
}.

(** what an operation does besides changing the state *)
Record eff := mkEff {
  x_outs : list pay;           (* payments returned by the endpoint *)
  x_mint : Z;                  (* base asset minted by the proxy *)
  x_burn : Z;                  (* base asset burned by the proxy *)
  x_lburn : Z * Z;             (* locked tokens burned by the proxy (nonce, amount) *)
  x_energy : option penergy;   (* energy entry written to the factory for the caller *)
  x_law : bool                 (* the nested responses obey the interface laws *)
}.

Inductive op :=
| AddLiq (u pairid : Z) (p1 p2 : pay) (extra : list pay) (e : env)
| RemoveLiq (u pairid : Z) (p : pay) (e : env)
| EnterFarm (u farm : Z) (p : pay) (extra : list pay) (e : env)
| ExitFarm (u farm : Z) (p : pay) (e : env)
| ClaimRew (u farm : Z) (p : pay) (e : env)
| MergeWlp (u : Z) (ps : list pay) (e : env)
| MergeWfm (u farm : Z) (ps : list pay) (e : env)
| IncLp (u : Z) (p : pay) (e : env)
| IncFm (u : Z) (p : pay) (e : env)
| SetPair (u : Z) (b : bool)
| SetFarm (u farm : Z) (b : bool)
| XferWlp (src dst n a : Z)
| XferWfm (src dst n a : Z).

(** ------------------------------------------------------------------ record updates *)
Definition upd_wlp (s : state) (v : list wlp) : state :=
  mkSt v (s_wfm s) (s_hlp s) (s_hfm s) (s_base s) (s_other s) (s_lp s) (s_farm s) (s_locked s) (s_pwlp s)
       (s_pair_ok s) (s_farm0_ok s) (s_farm1_ok s).
Definition upd_wfm (s : state) (v : list wfm) : state :=
  mkSt (s_wlp s) v (s_hlp s) (s_hfm s) (s_base s) (s_other s) (s_lp s) (s_farm s) (s_locked s) (s_pwlp s)
       (s_pair_ok s) (s_farm0_ok s) (s_farm1_ok s).
Definition upd_hlp (s : state) (v : list (Z * Z)) : state :=
  mkSt (s_wlp s) (s_wfm s) v (s_hfm s) (s_base s) (s_other s) (s_lp s) (s_farm s) (s_locked s) (s_pwlp s)
       (s_pair_ok s) (s_farm0_ok s) (s_farm1_ok s).
Definition upd_hfm (s : state) (v : list (Z * Z)) : state :=
  mkSt (s_wlp s) (s_wfm s) (s_hlp s) v (s_base s) (s_other s) (s_lp s) (s_farm s) (s_locked s) (s_pwlp s)
       (s_pair_ok s) (s_farm0_ok s) (s_farm1_ok s).
Definition upd_lp (s : state) (v : Z) : state :=
  mkSt (s_wlp s) (s_wfm s) (s_hlp s) (s_hfm s) (s_base s) (s_other s) v (s_farm s) (s_locked s) (s_pwlp s)
       (s_pair_ok s) (s_farm0_ok s) (s_farm1_ok s).
Definition upd_farm (s : state) (v : list (Z * Z)) : state :=
  mkSt (s_wlp s) (s_wfm s) (s_hlp s) (s_hfm s) (s_base s) (s_other s) (s_lp s) v (s_locked s) (s_pwlp s)
       (s_pair_ok s) (s_farm0_ok s) (s_farm1_ok s).
Definition upd_locked (s : state) (v : list (Z * Z)) : state :=
  mkSt (s_wlp s) (s_wfm s) (s_hlp s) (s_hfm s) (s_base s) (s_other s) (s_lp s) (s_farm s) v (s_pwlp s)
       (s_pair_ok s) (s_farm0_ok s) (s_farm1_ok s).
Definition upd_pwlp (s : state) (v : list (Z * Z)) : state :=
  mkSt (s_wlp s) (s_wfm s) (s_hlp s) (s_hfm s) (s_base s) (s_other s) (s_lp s) (s_farm s) (s_locked s) v
       (s_pair_ok s) (s_farm0_ok s) (s_farm1_ok s).
Definition upd_flags (s : state) (p f0 f1 : bool) : state :=
  mkSt (s_wlp s) (s_wfm s) (s_hlp s) (s_hfm s) (s_base s) (s_other s) (s_lp s) (s_farm s) (s_locked s) (s_pwlp s)
       p f0 f1.

(** ------------------------------------------------------------------ primitive ledger moves *)
(** locked tokens leave / enter the proxy's balance *)
Definition locked_out (s : state) (k a : Z) : result state :=
  do l <- bal_sub (s_locked s) k a; Ok (upd_locked s l).
Definition locked_in (s : state) (k a : Z) : state := upd_locked s (bal_add (s_locked s) k a).

(** WrappedLpTokenAttributes::into_part: the locked tokens that go with [a] wrapped LP tokens *)
Definition part_wlp (w : wlp) (a : Z) : result Z := rule3 (wl_T w) a (wl_L w).
(** WrappedFarmTokenAttributes::into_part: the proxy farming tokens that go with [a] wrapped farm tokens *)
Definition part_wfm (w : wfm) (a : Z) : result Z := rule3 (wf_T w) a (wf_P w).

(** [a] wrapped LP tokens of nonce [n] are redeemed out of the live supply: their locked tokens are
    taken into the proxy's hand.  Returns (locked nonce, locked amount). *)
Definition release_wlp (s : state) (n a : Z) : result (state * (Z * Z)) :=
  match getn (s_wlp s) n with
  | None => Err EGuard
  | Some w =>
      check 0 <? a else EGuard;
      do lp <- part_wlp w a;
      do live <- sub_chk (wl_live w) a;
      let s1 := upd_wlp s (setn (s_wlp s) n (mkWlp (wl_T w) (wl_k w) (wl_L w) live (wl_dead w))) in
      do s2 <- locked_out s1 (wl_k w) lp;
      Ok (s2, (wl_k w, lp))
  end.

(** a user pays [a] wrapped LP tokens of nonce [n]; they are burned (now or later in the transaction);
    the LP tokens and the locked tokens behind them are taken into the proxy's hand *)
Definition take_wlp_user (s : state) (u n a : Z) : result (state * (Z * Z)) :=
  do h <- bal_sub (s_hlp s) (hkey n u) a;
  do lp <- sub_chk (s_lp s) a;
  release_wlp (upd_lp (upd_hlp s h) lp) n a.

(** wrapped LP tokens the proxy holds in its hand stay in its balance unburned while their content is
    re-wrapped: they leave the live supply for good *)
Definition kill_wlp (s : state) (n a : Z) : result (state * (Z * Z)) :=
  do r <- release_wlp s n a;
  let '(s1, kl) := r in
  match getn (s_wlp s1) n with
  | None => Err EGuard
  | Some w =>
      let s2 := upd_wlp s1 (setn (s_wlp s1) n (mkWlp (wl_T w) (wl_k w) (wl_L w) (wl_live w) (wl_dead w + a))) in
      Ok (upd_pwlp s2 (bal_add (s_pwlp s2) n a), kl)
  end.

(** nft_create of a wrapped LP token with attributes (T, k, L); the locked tokens are deposited.
    Returns the new nonce. *)
Definition mint_wlp (s : state) (T k L : Z) : state * Z :=
  let n := next_nonce (s_wlp s) in
  (locked_in (upd_wlp s (s_wlp s ++ [mkWlp T k L T 0])) k L, n).

(** ... sent to a user: the LP tokens are deposited as well *)
Definition mint_wlp_user (s : state) (u T k L : Z) : state * Z :=
  let '(s1, n) := mint_wlp s T k L in
  (upd_lp (upd_hlp s1 (bal_add (s_hlp s1) (hkey n u) T)) (s_lp s1 + T), n).

(** a user pays [a] wrapped farm tokens of nonce [m]: the farm tokens and the proxy farming tokens
    behind them are taken into the proxy's hand.  Returns the attributes and the proxy farming part. *)
Definition take_wfm (s : state) (u m a : Z) : result (state * (wfm * Z)) :=
  match getn (s_wfm s) m with
  | None => Err EGuard
  | Some w =>
      check 0 <? a else EGuard;
      do h <- bal_sub (s_hfm s) (hkey m u) a;
      do pp <- part_wfm w a;
      do sup <- sub_chk (wf_sup w) a;
      do fb <- bal_sub (s_farm s) (fkey (wf_f w) (wf_farm w)) a;
      let s1 := upd_farm (upd_hfm (upd_wfm s (setn (s_wfm s) m
                  (mkWfm (wf_farm w) (wf_f w) (wf_T w) (wf_kind w) (wf_pn w) (wf_P w) sup))) h) fb in
      do s2 <- (if wf_kind w =? 0 then locked_out s1 (wf_pn w) pp
                else do l <- bal_sub (s_pwlp s1) (wf_pn w) pp; Ok (upd_pwlp s1 l));
      Ok (s2, (w, pp))
  end.

(** nft_create of a wrapped farm token sent to [u]; farm tokens and proxy farming tokens are deposited *)
Definition mint_wfm (s : state) (u farm f T kind pn P : Z) : state * Z :=
  let m := next_nonce (s_wfm s) in
  let s1 := upd_wfm s (s_wfm s ++ [mkWfm farm f T kind pn P T]) in
  let s2 := upd_farm (upd_hfm s1 (bal_add (s_hfm s1) (hkey m u) T)) (bal_add (s_farm s1) (fkey f farm) T) in
  (if kind =? 0 then locked_in s2 pn P else upd_pwlp s2 (bal_add (s_pwlp s2) pn P), m).

(** burn_locked_tokens_and_update_energy (the tokens are in the proxy's hand) *)
Definition burn_energy (e : env) (amt : Z) : result (option penergy) :=
  if amt =? 0 then Ok None
  else do en <- pe_update_after_unlock_any (pe_deplete (v_energy e) (v_now e)) amt (v_unlock e) (v_now e);
       Ok (Some en).

Definition farm_ok (s : state) (farm : Z) : bool :=
  if farm =? 0 then s_farm0_ok s else if farm =? 1 then s_farm1_ok s else false.

Fixpoint sum_amt (ps : list pay) : Z :=
  match ps with [] => 0 | p :: t => p_amt p + sum_amt t end.

(** ------------------------------------------------------------------ merging *)
(** burn the wrapped LP payments of a merge one by one; accumulates (LP total, locked parts total) *)
Fixpoint take_wlp_list (s : state) (u : Z) (ps : list pay) : result (state * (Z * Z)) :=
  match ps with
  | [] => Ok (s, (0, 0))
  | p :: t =>
      check p_tok p =? TK_WLP else EGuard;
      do r <- take_wlp_user s u (p_non p) (p_amt p);
      let '(s1, (_, lp)) := r in
      do r2 <- take_wlp_list s1 u t;
      let '(s2, (ta, tl)) := r2 in
      Ok (s2, (p_amt p + ta, lp + tl))
  end.

(** one element of a wrapped-farm merge: farm, farm amount, kind, proxy farming nonce and amount *)
Definition item := (Z * Z * Z * Z * Z)%type.
Definition mk_item (farm a kind pn pp : Z) : item := (farm, a, kind, pn, pp).

Fixpoint take_wfm_list (s : state) (u : Z) (ps : list pay) : result (state * list item) :=
  match ps with
  | [] => Ok (s, [])
  | p :: t =>
      check p_tok p =? TK_WFM else EGuard;
      do r <- take_wfm s u (p_non p) (p_amt p);
      let '(s1, (w, pp)) := r in
      do r2 <- take_wfm_list s1 u t;
      let '(s2, its) := r2 in
      Ok (s2, mk_item (wf_farm w) (p_amt p) (wf_kind w) (wf_pn w) pp :: its)
  end.

(** merge_wrapped_lp_tokens over wrapped LP tokens the proxy holds (not burned: they die);
    accumulates (wrapped LP total, locked parts total) *)
Fixpoint kill_items (s : state) (its : list item) : result (state * (Z * Z)) :=
  match its with
  | [] => Ok (s, (0, 0))
  | (_, _, _, pn, pp) :: t =>
      do r <- kill_wlp s pn pp;
      let '(s1, (_, lq)) := r in
      do r2 <- kill_items s1 t;
      let '(s2, (ta, tl)) := r2 in
      Ok (s2, (pp + ta, lq + tl))
  end.

Fixpoint items_same (farm kind : Z) (its : list item) : bool :=
  match its with
  | [] => true
  | (fa, _, ki, _, _) :: t => (fa =? farm) && (ki =? kind) && items_same farm kind t
  end.

Fixpoint items_farm_total (its : list item) : Z :=
  match its with [] => 0 | (_, a, _, _, _) :: t => a + items_farm_total t end.
Fixpoint items_pp_total (its : list item) : Z :=
  match its with [] => 0 | (_, _, _, _, pp) :: t => pp + items_pp_total t end.

(** merge_wrapped_farm_tokens: all items are in the proxy's hand.  Returns the new wrapped farm nonce,
    its amount and the law flag. *)
Definition merge_items (s : state) (u farm : Z) (its : list item) (e : env)
  : result (state * (Z * Z * bool)) :=
  match its with
  | [] => Err EGuard
  | (fa, _, kind, _, _) :: _ =>
      check items_same fa kind its else EGuard;
      check fa =? farm else EExt;                     (* the farm only takes its own farm token *)
      check v_ok e else EExt;
      let '(kf, lf) := v_fact e in
      let '(f', F') := v_fmerge e in
      if kind =? 0 then
        let '(s1, m) := mint_wfm s u farm f' F' 0 kf lf in
        Ok (s1, (m, F', (lf =? items_pp_total its) && (F' =? items_farm_total its)))
      else
        do r <- kill_items s its;
        let '(s1, (tw, tl)) := r in
        let '(s2, n) := mint_wlp s1 tw kf lf in
        let '(s3, m) := mint_wfm s2 u farm f' F' 1 n tw in
        Ok (s3, (m, F', (lf =? tl) && (F' =? items_farm_total its)))
  end.

(** ------------------------------------------------------------------ endpoints *)
Definition no_eff (outs : list pay) (law : bool) : eff := mkEff outs 0 0 (0, 0) None law.

Definition ep_add_liq (s : state) (u pairid : Z) (p1 p2 : pay) (extra : list pay) (e : env)
  : result (state * eff) :=
  check (pairid =? 0) && s_pair_ok s else EGuard;
  let l1 := p_tok p1 =? TK_LOCKED in
  let l2 := p_tok p2 =? TK_LOCKED in
  check xorb l1 l2 else EGuard;                       (* require_exactly_one_locked *)
  check (0 <? p_amt p1) && (0 <? p_amt p2) else EGuard;
  let pl := if l1 then p1 else p2 in
  let minted := p_amt pl in
  check v_ok e else EExt;
  let '(lp, used1, used2) := v_pair e in
  do left1 <- sub_chk (p_amt p1) used1;
  do left2 <- sub_chk (p_amt p2) used2;
  let locked_used := if l1 then used1 else used2 in
  let lleft := if l1 then left1 else left2 in          (* base asset handed back by the pair, burned *)
  let oleft := if l1 then left2 else left1 in
  let law := (0 <? lp) && (0 <=? locked_used) in
  match extra with
  | [] =>
      let '(s1, n) := mint_wlp_user s u lp (p_non pl) locked_used in
      Ok (s1, mkEff [(TK_WLP, n, lp); (TK_LOCKED, p_non pl, lleft); (TK_OTHER, 0, oleft)]
                    minted lleft (0, 0) None law)
  | _ =>
      do r <- take_wlp_list s u extra;
      let '(s1, (ta, tl)) := r in
      do _ <- rule3 lp lp locked_used;                 (* into_part of the virtual position *)
      let '(kf, lf) := v_fact e in
      let '(s2, n) := mint_wlp_user s1 u (lp + ta) kf lf in
      Ok (s2, mkEff [(TK_WLP, n, lp + ta); (TK_LOCKED, p_non pl, lleft); (TK_OTHER, 0, oleft)]
                    minted lleft (0, 0) None (law && (lf =? locked_used + tl)))
  end.

Definition ep_remove_liq (s : state) (u pairid : Z) (p : pay) (e : env) : result (state * eff) :=
  check (pairid =? 0) && s_pair_ok s else EGuard;
  check p_tok p =? TK_WLP else EGuard;
  do r <- take_wlp_user s u (p_non p) (p_amt p);
  let '(s1, (k, lp)) := r in
  check v_ok e else EExt;
  let '(_, rb, ro) := v_pair e in
  if lp <? rb then
    Ok (s1, mkEff [(TK_BASE, 0, rb - lp); (TK_LOCKED, k, lp); (TK_OTHER, 0, ro)] 0 lp (0, 0) None true)
  else
    let extra := lp - rb in
    do en <- burn_energy e extra;
    Ok (s1, mkEff [(TK_LOCKED, k, rb); (TK_OTHER, 0, ro)] 0 rb (k, extra) en (0 <=? rb)).

Definition ep_enter_farm (s : state) (u farm : Z) (p : pay) (extra : list pay) (e : env)
  : result (state * eff) :=
  check farm_ok s farm else EGuard;
  check 0 <? p_amt p else EGuard;
  let a := p_amt p in
  do r0 <- (if p_tok p =? TK_LOCKED then
              check farm =? 0 else EExt;               (* the base-asset farm takes the minted base asset *)
              Ok (s, 0, a)
            else if p_tok p =? TK_WLP then
              match getn (s_wlp s) (p_non p) with
              | None => Err EGuard
              | Some w =>
                  do h <- bal_sub (s_hlp s) (hkey (p_non p) u) a;
                  do _ <- part_wlp w a;
                  do lp <- sub_chk (s_lp s) a;          (* the LP tokens go to the farm *)
                  check farm =? 1 else EExt;
                  Ok (upd_lp (upd_hlp s h) lp, 1, 0)
              end
            else Err EGuard);
  let '(s1, kind, minted) := r0 in
  check v_ok e else EExt;
  let '(f, F) := v_farm e in
  let '(rk, ra) := v_rew e in
  match extra with
  | [] =>
      let '(s2, m) := mint_wfm s1 u farm f F kind (p_non p) a in
      Ok (s2, mkEff [(TK_WFM, m, F); (TK_LOCKED, rk, ra)] minted 0 (0, 0) None (F =? a))
  | _ =>
      do r <- take_wfm_list s1 u extra;
      let '(s2, its) := r in
      do _ <- rule3 F F a;                             (* into_part of the virtual position *)
      (* the virtual position's proxy farming tokens are in the proxy's hand like those of the payments *)
      do r2 <- merge_items s2 u farm (mk_item farm F kind (p_non p) a :: its) e;
      let '(s5, (m, amt, law)) := r2 in
      Ok (s5, mkEff [(TK_WFM, m, amt); (TK_LOCKED, rk, ra)] minted 0 (0, 0) None ((F =? a) && law))
  end.

Definition ep_exit_farm (s : state) (u farm : Z) (p : pay) (e : env) : result (state * eff) :=
  check farm_ok s farm else EGuard;
  check p_tok p =? TK_WFM else EGuard;
  let a := p_amt p in
  do r <- take_wfm s u (p_non p) a;
  let '(s1, (w, pp)) := r in
  check wf_farm w =? farm else EExt;
  check v_ok e else EExt;
  let F := snd (v_farm e) in
  let '(rk, ra) := v_rew e in
  let bburn := if farm =? 0 then F else 0 in           (* burn_if_base_asset *)
  check F <=? a else EGuard;
  if F =? a then
    if wf_kind w =? 0 then
      Ok (s1, mkEff [(TK_LOCKED, wf_pn w, pp); (TK_LOCKED, rk, ra)] 0 bburn (0, 0) None (0 <=? F))
    else
      let s2 := upd_lp (upd_hlp s1 (bal_add (s_hlp s1) (hkey (wf_pn w) u) pp)) (s_lp s1 + F) in
      Ok (s2, mkEff [(TK_WLP, wf_pn w, pp); (TK_LOCKED, rk, ra)] 0 bburn (0, 0) None (0 <=? F))
  else
    let pen := a - F in
    do rem <- sub_chk pp pen;
    if wf_kind w =? 0 then
      do en <- burn_energy e pen;
      Ok (s1, mkEff [(TK_LOCKED, wf_pn w, rem); (TK_LOCKED, rk, ra)] 0 bburn (wf_pn w, pen) en (0 <=? F))
    else
      match getn (s_wlp s1) (wf_pn w) with
      | None => Err EGuard
      | Some wl =>
          do lnew <- part_wlp wl rem;
          (* the old wrapped LP tokens stay in the proxy unburned *)
          do r2 <- kill_wlp s1 (wf_pn w) pp;
          let '(s2, (k, lold)) := r2 in
          do extra <- sub_chk lold lnew;
          do en <- burn_energy e extra;
          let s3 := upd_lp s2 (s_lp s2 + F) in
          let '(s4, n) := mint_wlp s3 rem k lnew in
          let s5 := upd_hlp s4 (bal_add (s_hlp s4) (hkey n u) rem) in
          Ok (s5, mkEff [(TK_WLP, n, rem); (TK_LOCKED, rk, ra)] 0 bburn (k, extra) en (0 <=? F))
      end.

Definition ep_claim (s : state) (u farm : Z) (p : pay) (e : env) : result (state * eff) :=
  check farm_ok s farm else EGuard;
  check p_tok p =? TK_WFM else EGuard;
  do r <- take_wfm s u (p_non p) (p_amt p);
  let '(s1, (w, pp)) := r in
  check wf_farm w =? farm else EExt;
  check v_ok e else EExt;
  let '(f, F) := v_farm e in
  let '(rk, ra) := v_rew e in
  let '(s2, m) := mint_wfm s1 u farm f F (wf_kind w) (wf_pn w) pp in
  Ok (s2, no_eff [(TK_WFM, m, F); (TK_LOCKED, rk, ra)] (F =? p_amt p)).

Definition ep_merge_wlp (s : state) (u : Z) (ps : list pay) (e : env) : result (state * eff) :=
  check PROXY_MIN_MERGE_PAYMENTS <=? Z.of_nat (length ps) else EGuard;
  do r <- take_wlp_list s u ps;
  let '(s1, (ta, tl)) := r in
  check v_ok e else EExt;
  let '(kf, lf) := v_fact e in
  let '(s2, n) := mint_wlp_user s1 u ta kf lf in
  Ok (s2, no_eff [(TK_WLP, n, ta)] (lf =? tl)).

Definition ep_merge_wfm (s : state) (u farm : Z) (ps : list pay) (e : env) : result (state * eff) :=
  check farm_ok s farm else EGuard;
  check PROXY_MIN_MERGE_PAYMENTS <=? Z.of_nat (length ps) else EGuard;
  do r <- take_wfm_list s u ps;
  let '(s1, its) := r in
  do r2 <- merge_items s1 u farm its e;
  let '(s2, (m, amt, law)) := r2 in
  (* the farm's mergeFarmTokens also pays the caller's boosted rewards, as locked tokens, to the proxy;
     merge_farm_tokens_through_farm decodes only the merged farm token: the rewards stay in the proxy *)
  let '(rk, ra) := v_rew e in
  Ok (locked_in s2 rk ra, no_eff [(TK_WFM, m, amt)] (law && (0 <=? ra))).

Definition ep_inc_lp (s : state) (u : Z) (p : pay) (e : env) : result (state * eff) :=
  check p_tok p =? TK_WLP else EGuard;
  do r <- take_wlp_user s u (p_non p) (p_amt p);
  let '(s1, (k, lp)) := r in
  check v_ok e else EExt;
  let '(kf, lf) := v_fact e in
  let '(s2, n) := mint_wlp_user s1 u (p_amt p) kf lf in
  Ok (s2, no_eff [(TK_WLP, n, p_amt p)] (lf =? lp)).

Definition ep_inc_fm (s : state) (u : Z) (p : pay) (e : env) : result (state * eff) :=
  check p_tok p =? TK_WFM else EGuard;
  let a := p_amt p in
  do r <- take_wfm s u (p_non p) a;
  let '(s1, (w, pp)) := r in
  let '(kf, lf) := v_fact e in
  if wf_kind w =? 0 then
    check v_ok e else EExt;
    let '(s2, m) := mint_wfm s1 u (wf_farm w) (wf_f w) a 0 kf lf in
    Ok (s2, no_eff [(TK_WFM, m, a)] (lf =? pp))
  else
    (* the wrapped LP tokens in the proxy's hand are burned, a new wrapped LP token replaces them *)
    do r2 <- release_wlp s1 (wf_pn w) pp;
    let '(s2, (k, lq)) := r2 in
    check v_ok e else EExt;
    let '(s3, n) := mint_wlp s2 pp kf lf in
    let '(s4, m) := mint_wfm s3 u (wf_farm w) (wf_f w) a 1 n pp in
    Ok (s4, no_eff [(TK_WFM, m, a)] (lf =? lq)).

Definition ep_xfer_wlp (s : state) (src dst n a : Z) : result (state * eff) :=
  check 0 <? a else EGuard;
  do h <- bal_sub (s_hlp s) (hkey n src) a;
  Ok (upd_hlp s (bal_add h (hkey n dst) a), no_eff [] true).

Definition ep_xfer_wfm (s : state) (src dst n a : Z) : result (state * eff) :=
  check 0 <? a else EGuard;
  do h <- bal_sub (s_hfm s) (hkey n src) a;
  Ok (upd_hfm s (bal_add h (hkey n dst) a), no_eff [] true).

Definition step (s : state) (o : op) : result (state * eff) :=
  match o with
  | AddLiq u pid p1 p2 extra e => ep_add_liq s u pid p1 p2 extra e
  | RemoveLiq u pid p e => ep_remove_liq s u pid p e
  | EnterFarm u farm p extra e => ep_enter_farm s u farm p extra e
  | ExitFarm u farm p e => ep_exit_farm s u farm p e
  | ClaimRew u farm p e => ep_claim s u farm p e
  | MergeWlp u ps e => ep_merge_wlp s u ps e
  | MergeWfm u farm ps e => ep_merge_wfm s u farm ps e
  | IncLp u p e => ep_inc_lp s u p e
  | IncFm u p e => ep_inc_fm s u p e
  | SetPair u b =>
      check u =? OWNER else EPerm;
      check b || s_pair_ok s else EGuard;              (* removeIntermediatedPair requires membership *)
      Ok (upd_flags s b (s_farm0_ok s) (s_farm1_ok s), no_eff [] true)
  | SetFarm u farm b =>
      check u =? OWNER else EPerm;
      check (farm =? 0) || (farm =? 1) else EGuard;
      check b || farm_ok s farm else EGuard;
      Ok (if farm =? 0 then upd_flags s (s_pair_ok s) b (s_farm1_ok s)
          else upd_flags s (s_pair_ok s) (s_farm0_ok s) b, no_eff [] true)
  | XferWlp src dst n a => ep_xfer_wlp s src dst n a
  | XferWfm src dst n a => ep_xfer_wfm s src dst n a
  end.

(** a failed transaction leaves the state unchanged *)
Definition step_total (s : state) (o : op) : state :=
  match step s o with Ok (s', _) => s' | Err _ => s end.

Definition run (s : state) (ops : list op) : state := fold_left step_total ops s.

(** a run all of whose nested responses obey the interface laws *)
Fixpoint lawful (s : state) (ops : list op) : bool :=
  match ops with
  | [] => true
  | o :: t =>
      match step s o with
      | Ok (s', x) => x_law x && lawful s' t
      | Err _ => lawful s t
      end
  end.
