(** Executable model of the pair's safe-price module.

    Mirrors, function by function and guard by guard:
      dex/pair/src/safe_price.rs        (update_safe_price, compute_new_observation; ring buffer
                                         price_observations : VecMapper, safe_price_current_index)
      dex/pair/src/safe_price_view.rs   (get_oldest_price_observation, get_price_observation:
                                         last / simulated / binary search / linear interpolation,
                                         compute_weighted_amounts, compute_weighted_price, getSafePrice*,
                                         getLpTokensSafePrice*, getPriceObservation, default offsets)
      dex/pair/src/read_pair_storage.rs (the views read reserves / supply / ring of the pair account)
    and the composition with Model.Pair: every successful pool operation of the kinds that call
    [update_safe_price] feeds the ring with the PRE-operation reserves.

    The ring capacity [N] (MAX_OBSERVATIONS in the source) is a Section variable: nothing in this
    file depends on its value.  VecMapper indices are 1-based; [get]/[set] outside 1..len abort.
    u64/usize subtractions that would wrap are modelled as aborting ([sub_chk]).
    No proofs in this file. *)
From MX Require Import Base.Prelude Gen.Params Model.Pair.

(** PriceObservation *)
Record obs := mkO {
  ob_a1 : Z;        (* first_token_reserve_accumulated *)
  ob_a2 : Z;        (* second_token_reserve_accumulated *)
  ob_w : Z;         (* weight_accumulated *)
  ob_round : Z;     (* recording_round *)
  ob_lp : Z         (* lp_supply_accumulated *)
}.
Definition obs0 : obs := mkO 0 0 0 0 0.        (* PriceObservation::default() *)

(** one call of update_safe_price: block round and the three arguments *)
Record upd := mkU { u_round : Z; u_r1 : Z; u_r2 : Z; u_S : Z }.

(** what the views read besides the ring: current block round, the pair's reserves and LP supply *)
Record env := mkEnv { e_now : Z; e_r1 : Z; e_r2 : Z; e_S : Z }.

(** ------------------------------------------------------------------ VecMapper *)
Definition vlen (l : list obs) : Z := Z.of_nat (length l).

Definition vget (l : list obs) (i : Z) : result obs :=
  if (1 <=? i) && (i <=? vlen l) then Ok (nth (Z.to_nat (i - 1)) l obs0) else Err EGuard.

Definition vset (l : list obs) (i : Z) (o : obs) : result (list obs) :=
  if (1 <=? i) && (i <=? vlen l)
  then Ok (firstn (Z.to_nat (i - 1)) l ++ o :: skipn (Z.to_nat i) l)
  else Err EGuard.

Record ring := mkRing {
  rg_obs : list obs;      (* price_observations, index 1 first *)
  rg_cur : Z              (* safe_price_current_index (0 while nothing was recorded) *)
}.
Definition ring0 : ring := mkRing [] 0.

(** compute_new_observation *)
Definition compute_new (round r1 r2 s : Z) (last : obs) : result obs :=
  do w <- (if ob_round last =? 0 then Ok 1 else sub_chk round (ob_round last));
  Ok (mkO (ob_a1 last + w * r1) (ob_a2 last + w * r2) (ob_w last + w) round (ob_lp last + w * s)).

Section Ring.
Variable N : Z.

(** ------------------------------------------------------------------ safe_price.rs *)
Definition update (rg : ring) (round r1 r2 s : Z) : result ring :=
  if (r1 =? 0) || (r2 =? 0) || (s =? 0) then Ok rg else
  check (rg_cur rg <=? N) else EGuard;
  do (last, ni) <-
     (if vlen (rg_obs rg) =? 0 then Ok (obs0, 1)
      else do l <- vget (rg_obs rg) (rg_cur rg); Ok (l, rg_cur rg mod N + 1));
  if ob_round last =? round then Ok rg else
  do nw <- compute_new round r1 r2 s last;
  do obs' <- (if vlen (rg_obs rg) =? N then vset (rg_obs rg) ni nw else Ok (rg_obs rg ++ [nw]));
  Ok (mkRing obs' ni).

Definition update_u (rg : ring) (u : upd) : result ring :=
  update rg (u_round u) (u_r1 u) (u_r2 u) (u_S u).

Fixpoint run_updates (rg : ring) (us : list upd) : result ring :=
  match us with
  | [] => Ok rg
  | u :: t => do rg' <- update_u rg u; run_updates rg' t
  end.

(** ------------------------------------------------------------------ safe_price_view.rs *)
Definition get_oldest (rg : ring) : result obs :=
  check negb (vlen (rg_obs rg) =? 0) else EGuard;
  let idx := if vlen (rg_obs rg) =? N then rg_cur rg mod N + 1 else 1 in
  vget (rg_obs rg) idx.

(** the while loop of price_observation_by_binary_search; [si] is the last probed index *)
Fixpoint bs_loop (fuel : nat) (l : list obs) (x lo hi si : Z) : result (obs * Z) :=
  if lo <=? hi then
    match fuel with
    | O => Err EArith
    | S f =>
        let m := (lo + hi) / 2 in
        do po <- vget l m;
        if ob_round po =? x then Ok (po, m)
        else if ob_round po <? x then bs_loop f l x (m + 1) hi m
        else do hi' <- sub_chk m 1; bs_loop f l x lo hi' m
    end
  else Ok (obs0, si).

Definition bsearch (rg : ring) (x : Z) : result (obs * Z) :=
  do o1 <- vget (rg_obs rg) 1;
  do (lo, hi) <-
     (if ob_round o1 <=? x then do h <- sub_chk (rg_cur rg) 1; Ok (1, h)
      else Ok (rg_cur rg + 1, vlen (rg_obs rg)));
  bs_loop (Z.to_nat N) (rg_obs rg) x lo hi 1.

Definition interpolate (rg : ring) (x si : Z) : result obs :=
  do found <- vget (rg_obs rg) si;
  do (lf, rt) <-
     (if ob_round found <? x then
        do r <- vget (rg_obs rg) (si mod N + 1); Ok (found, r)
      else
        do l <- vget (rg_obs rg) (if si =? 1 then N else si - 1); Ok (l, found));
  do lw <- sub_chk (ob_round rt) x;
  do rw <- sub_chk x (ob_round lf);
  let ws := lw + rw in
  do a1 <- div_chk (lw * ob_a1 lf + rw * ob_a1 rt) ws;
  do a2 <- div_chk (lw * ob_a2 lf + rw * ob_a2 rt) ws;
  do lp <- div_chk (lw * ob_lp lf + rw * ob_lp rt) ws;
  do w <- sub_chk (ob_w lf + x) (ob_round lf);
  Ok (mkO a1 a2 w x lp).

Definition get_price_observation (rg : ring) (ev : env) (x : Z) : result obs :=
  check negb (vlen (rg_obs rg) =? 0) else EGuard;
  do last <- vget (rg_obs rg) (rg_cur rg);
  if ob_round last =? x then Ok last
  else if ob_round last <? x then
    check (x <=? e_now ev) else EGuard;
    compute_new x (e_r1 ev) (e_r2 ev) (e_S ev) last
  else
    do (po, si) <- bsearch rg x;
    if 0 <? ob_round po then Ok po else interpolate rg x si.

(** compute_weighted_amounts: (weighted first reserve, weighted second reserve, weighted lp supply) *)
Definition weighted_amounts (f l : obs) : result (Z * Z * Z) :=
  do wd <- sub_chk (ob_w l) (ob_w f);
  check (0 <? wd) else EGuard;
  do d1 <- sub_chk (ob_a1 l) (ob_a1 f);
  do d2 <- sub_chk (ob_a2 l) (ob_a2 f);
  do wl <- (if 0 <? ob_lp f then do dl <- sub_chk (ob_lp l) (ob_lp f); Ok (dl / wd) else Ok 0);
  Ok (d1 / wd, d2 / wd, wl).

(** getSafePrice: returns (token out, amount out) *)
Definition get_safe_price (rg : ring) (ev : env) (s e tok amt : Z) : result (Z * Z) :=
  check (s <? e) else EGuard;
  do oldest <- get_oldest rg;
  check (ob_round oldest <=? s) else EGuard;
  do f <- get_price_observation rg ev s;
  do l <- get_price_observation rg ev e;
  do (w1, w2, _) <- weighted_amounts f l;
  if tok =? T1 then do out <- div_chk (amt * w2) w1; Ok (T2, out)
  else if tok =? T2 then do out <- div_chk (amt * w1) w2; Ok (T1, out)
  else Err EGuard.

(** getLpTokensSafePrice: returns (first token worth, second token worth) *)
Definition get_lp_safe_price (rg : ring) (ev : env) (s e liq : Z) : result (Z * Z) :=
  check (s <? e) else EGuard;
  do oldest <- get_oldest rg;
  check (ob_round oldest <=? s) else EGuard;
  do f <- get_price_observation rg ev s;
  do l <- get_price_observation rg ev e;
  do (w1, w2, wl) <- weighted_amounts f l;
  if (wl =? 0) && (e_S ev =? 0) then Ok (0, 0) else
  let wl' := if wl =? 0 then e_S ev else wl in
  do x1 <- div_chk (liq * w1) wl';
  do x2 <- div_chk (liq * w2) wl';
  Ok (x1, x2).

(** getPriceObservation *)
Definition view_observation (rg : ring) (ev : env) (x : Z) : result obs :=
  do oldest <- get_oldest rg;
  check (ob_round oldest <=? x) else EGuard;
  get_price_observation rg ev x.

(** ...ByRoundOffset / ...ByTimestampOffset / ...ByDefaultOffset *)
Definition offset_start (ev : env) (off : Z) : result Z :=
  check (0 <? off) && (off <? e_now ev) else EGuard;
  Ok (e_now ev - off).

Definition default_start (rg : ring) (ev : env) : result Z :=
  do oldest <- get_oldest rg;
  do d <- sub_chk (e_now ev) (ob_round oldest);
  let d' := if DEFAULT_SAFE_PRICE_ROUNDS_OFFSET <? d then DEFAULT_SAFE_PRICE_ROUNDS_OFFSET else d in
  Ok (e_now ev - d').

Inductive query :=
| QObs (x : Z)                         (* getPriceObservation *)
| QPrice (s e tok amt : Z)             (* getSafePrice *)
| QPriceOff (off tok amt : Z)          (* getSafePriceByRoundOffset *)
| QPriceTs (ts tok amt : Z)            (* getSafePriceByTimestampOffset *)
| QPriceDef (tok amt : Z)              (* getSafePriceByDefaultOffset, updateAndGetSafePrice *)
| QLp (s e liq : Z)                    (* getLpTokensSafePrice *)
| QLpOff (off liq : Z)                 (* getLpTokensSafePriceByRoundOffset *)
| QLpTs (ts liq : Z)                   (* getLpTokensSafePriceByTimestampOffset *)
| QLpDef (liq : Z).                    (* getLpTokensSafePriceByDefaultOffset, updateAndGetTokensForGivenPositionWithSafePrice *)

(** results as flat lists: an observation = its five fields, a price = [token; amount],
    an LP valuation = [first amount; second amount] *)
Definition obs_fields (o : obs) : list Z := [ob_a1 o; ob_a2 o; ob_w o; ob_round o; ob_lp o].

Definition run_query (rg : ring) (ev : env) (q : query) : result (list Z) :=
  match q with
  | QObs x => do o <- view_observation rg ev x; Ok (obs_fields o)
  | QPrice s e tok amt => do (t, a) <- get_safe_price rg ev s e tok amt; Ok [t; a]
  | QPriceOff off tok amt =>
      do s <- offset_start ev off;
      do (t, a) <- get_safe_price rg ev s (e_now ev) tok amt; Ok [t; a]
  | QPriceTs ts tok amt =>
      do s <- offset_start ev (ts / SECONDS_PER_ROUND);
      do (t, a) <- get_safe_price rg ev s (e_now ev) tok amt; Ok [t; a]
  | QPriceDef tok amt =>
      do s <- default_start rg ev;
      do (t, a) <- get_safe_price rg ev s (e_now ev) tok amt; Ok [t; a]
  | QLp s e liq => do (a, b) <- get_lp_safe_price rg ev s e liq; Ok [a; b]
  | QLpOff off liq =>
      do s <- offset_start ev off;
      do (a, b) <- get_lp_safe_price rg ev s (e_now ev) liq; Ok [a; b]
  | QLpTs ts liq =>
      do s <- offset_start ev (ts / SECONDS_PER_ROUND);
      do (a, b) <- get_lp_safe_price rg ev s (e_now ev) liq; Ok [a; b]
  | QLpDef liq =>
      do s <- default_start rg ev;
      do (a, b) <- get_lp_safe_price rg ev s (e_now ev) liq; Ok [a; b]
  end.

(** ------------------------------------------------------------------ composition with the pool
    pair_actions/{swap,add_liq,remove_liq}.rs: swapTokensFixedInput/Output, swapNoFeeAndForward,
    addLiquidity, removeLiquidity, removeLiquidityAndBuyBackAndBurnToken call update_safe_price
    with the storage-cache reserves before changing them; addInitialLiquidity and the admin
    endpoints do not. *)
Definition updating (op : pop) : bool :=
  match op with
  | Add _ _ _ _ _ | Remove _ _ _ _ | SwapIn _ _ _ _ _ | SwapOut _ _ _ _ _
  | SwapNoFee _ _ _ _ | RemoveBuyBack _ _ _ => true
  | _ => false
  end.

Record spw := mkSpw { sw_w : world; sw_ring : ring }.

Definition upd_of (round : Z) (p : pair) : upd := mkU round (p_r1 p) (p_r2 p) (p_S p).

Definition sp_step (w : spw) (round : Z) (op : pop) : result (spw * outs) :=
  do (w', o, _) <- wstep (sw_w w) op;
  do rg' <- (if updating op then update_u (sw_ring w) (upd_of round (w_p (sw_w w))) else Ok (sw_ring w));
  Ok (mkSpw w' rg', o).

Definition sp_step_total (w : spw) (rop : Z * pop) : spw :=
  match sp_step w (fst rop) (snd rop) with Ok (w', _) => w' | Err _ => w end.

Definition sp_run (w : spw) (ops : list (Z * pop)) : spw := fold_left sp_step_total ops w.

Definition env_of (w : spw) (now : Z) : env :=
  let p := w_p (sw_w w) in mkEnv now (p_r1 p) (p_r2 p) (p_S p).

End Ring.

(** ------------------------------------------------------------------ the observations ever recorded
    Plain (non-aborting, linear-time) description of what a sequence of update calls records; the
    trace checker uses it to build injected ring states, Proofs/SafePriceProofs.v proves that
    [run_updates] computes exactly [layout N (observations us)] when rounds never decrease. *)
Definition u_zero (u : upd) : bool := (u_r1 u =? 0) || (u_r2 u =? 0) || (u_S u =? 0).

(** the calls that record an observation: reserves all non-zero, round differs from the last recorded one *)
Fixpoint eff_from (lr : Z) (us : list upd) : list upd :=
  match us with
  | [] => []
  | u :: t => if u_zero u || (u_round u =? lr) then eff_from lr t else u :: eff_from (u_round u) t
  end.
Definition eff (us : list upd) : list upd := eff_from 0 us.

Definition nobs (last : obs) (u : upd) : obs :=
  let w := if ob_round last =? 0 then 1 else u_round u - ob_round last in
  mkO (ob_a1 last + w * u_r1 u) (ob_a2 last + w * u_r2 u) (ob_w last + w) (u_round u) (ob_lp last + w * u_S u).

Fixpoint chain_from (prev : obs) (E : list upd) : list obs :=
  match E with
  | [] => []
  | u :: t => let o := nobs prev u in o :: chain_from o t
  end.
Definition chain (E : list upd) : list obs := chain_from obs0 E.
Definition observations (us : list upd) : list obs := chain (eff us).

(** ------------------------------------------------------------------ ring of a list of observations
    The observations ever recorded, oldest first, laid out the way the contract stores them:
    observation number j (1-based) lives at index ((j-1) mod N)+1 and only the last N survive.
    (Proofs/SafePriceProofs.v proves that [run_updates] produces exactly this.) *)
Definition layout (N : Z) (l : list obs) : ring :=
  let k := vlen l in
  if k <=? N then mkRing l k
  else
    let tl := skipn (Z.to_nat (k - N)) l in
    let cur := (k - 1) mod N + 1 in
    mkRing (skipn (Z.to_nat (N - cur)) tl ++ firstn (Z.to_nat (N - cur)) tl) cur.
