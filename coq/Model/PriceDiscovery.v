(** Executable model of dex/price-discovery.

    Mirrors, function by function and guard by guard:
      dex/price-discovery/src/phase.rs         (get_current_phase, require_*_allowed, get_penalty_percentage)
      dex/price-discovery/src/lib.rs           (init, deposit, withdraw, redeem, compute_bought_tokens,
                                                calculate_price, increase_balance, decrease_balance)
      dex/price-discovery/src/redeem_token.rs  (mint_and_send_redeem_token, burn_redeem_token,
                                                burn_redeem_token_without_supply_decrease)
      dex/price-discovery/src/common_storage.rs (launched_token_balance, accepted_token_balance)
    The locking SC (common/modules/locking_module -> simple-lock lockTokens) forwards the bought
    tokens 1:1 to the caller, locked or not depending on the epoch; for the price-discovery contract
    this is an outgoing transfer of the bought amount, which is all the model records.
    No proofs in this file: the model must keep running when a proof breaks. *)
From MX Require Import Base.Prelude Gen.Params.

(** Token codes of payments: 1 = launched token, 2 = accepted token, anything else = foreign. *)
Definition TOK_L : Z := 1.
Definition TOK_A : Z := 2.
(** Redeem-token nonces (redeem_token.rs). *)
Definition NL : Z := PD_LAUNCHED_TOKEN_REDEEM_NONCE.
Definition NA : Z := PD_ACCEPTED_TOKEN_REDEEM_NONCE.
Definition MAXP : Z := PD_MAX_PERCENTAGE.

(** ------------------------------------------------------------------ storage *)
Record cfg := mkCfg {
  c_start : Z;                      (* start_block *)
  c_dn : Z; c_dl : Z; c_df : Z;     (* no_limit / linear_penalty / fixed_penalty phase durations *)
  c_pmin : Z; c_pmax : Z;           (* penalty_min_percentage, penalty_max_percentage *)
  c_pfix : Z;                       (* fixed_penalty_percentage *)
  c_minp : Z;                       (* min_launched_token_price *)
  c_prec : Z                        (* price_precision = 10 ^ launched_token_decimals *)
}.

Record pd := mkPd {
  p_cfg : cfg;
  p_block : Z;                      (* blockchain().get_block_nonce() *)
  p_lb : Z; p_ab : Z;               (* launched_token_balance, accepted_token_balance (tracked) *)
  p_rl : Z; p_ra : Z;               (* the contract account's real holdings of the two tokens *)
  p_s1 : Z; p_s2 : Z;               (* redeem_token_total_circulating_supply(1), (2) *)
  p_h1 : list (Z * Z);              (* redeem tokens nonce 1 held, by account id *)
  p_h2 : list (Z * Z)               (* redeem tokens nonce 2 held, by account id *)
}.

(** Side-indexed access: [true] = the launched side (token 1, nonce 1), [false] = the accepted side. *)
Definition bal_tr (s : pd) (l : bool) : Z := if l then p_lb s else p_ab s.
Definition bal_re (s : pd) (l : bool) : Z := if l then p_rl s else p_ra s.
Definition supply (s : pd) (l : bool) : Z := if l then p_s1 s else p_s2 s.
Definition hold (s : pd) (l : bool) : list (Z * Z) := if l then p_h1 s else p_h2 s.

Definition set_tr (s : pd) (l : bool) (v : Z) : pd :=
  if l then mkPd (p_cfg s) (p_block s) v (p_ab s) (p_rl s) (p_ra s) (p_s1 s) (p_s2 s) (p_h1 s) (p_h2 s)
  else mkPd (p_cfg s) (p_block s) (p_lb s) v (p_rl s) (p_ra s) (p_s1 s) (p_s2 s) (p_h1 s) (p_h2 s).
Definition set_re (s : pd) (l : bool) (v : Z) : pd :=
  if l then mkPd (p_cfg s) (p_block s) (p_lb s) (p_ab s) v (p_ra s) (p_s1 s) (p_s2 s) (p_h1 s) (p_h2 s)
  else mkPd (p_cfg s) (p_block s) (p_lb s) (p_ab s) (p_rl s) v (p_s1 s) (p_s2 s) (p_h1 s) (p_h2 s).
Definition set_supply (s : pd) (l : bool) (v : Z) : pd :=
  if l then mkPd (p_cfg s) (p_block s) (p_lb s) (p_ab s) (p_rl s) (p_ra s) v (p_s2 s) (p_h1 s) (p_h2 s)
  else mkPd (p_cfg s) (p_block s) (p_lb s) (p_ab s) (p_rl s) (p_ra s) (p_s1 s) v (p_h1 s) (p_h2 s).
Definition set_hold (s : pd) (l : bool) (h : list (Z * Z)) : pd :=
  if l then mkPd (p_cfg s) (p_block s) (p_lb s) (p_ab s) (p_rl s) (p_ra s) (p_s1 s) (p_s2 s) h (p_h2 s)
  else mkPd (p_cfg s) (p_block s) (p_lb s) (p_ab s) (p_rl s) (p_ra s) (p_s1 s) (p_s2 s) (p_h1 s) h.
Definition set_block (s : pd) (b : Z) : pd :=
  mkPd (p_cfg s) b (p_lb s) (p_ab s) (p_rl s) (p_ra s) (p_s1 s) (p_s2 s) (p_h1 s) (p_h2 s).

(** ------------------------------------------------------------------ lib.rs: init *)
(** [cur] is the block nonce at deployment.  The first line is the unsigned decoding of the
    arguments (u32 / u64 / BigUint), the rest are the [require!]s of [init] that concern the phase
    schedule, the penalty range and the price precision. *)
Definition init_pd (cur decimals minp start dn dl df pmin pmax pfix : Z) : result pd :=
  check (0 <=? cur) && (0 <=? decimals) && (0 <=? minp) && (0 <=? start) && (0 <=? dn) && (0 <=? dl)
        && (0 <=? df) && (0 <=? pmin) && (0 <=? pmax) && (0 <=? pfix) else EGuard;
  check (decimals <=? PD_MAX_TOKEN_DECIMALS) else EGuard;
  check (cur <? start) else EGuard;
  check (pmin <=? pmax) else EGuard;
  check (pmax <? MAXP) else EGuard;
  check (pfix <? MAXP) else EGuard;
  Ok (mkPd (mkCfg start dn dl df pmin pmax pfix minp (10 ^ decimals)) cur 0 0 0 0 0 0 [] []).

(** ------------------------------------------------------------------ phase.rs *)
Inductive phase :=
| PhIdle
| PhNoPenalty
| PhLinear (pct : Z)      (* LinearIncreasingPenalty { penalty_percentage } *)
| PhFixed (pct : Z)       (* OnlyWithdrawFixedPenalty { penalty_percentage } *)
| PhRedeem.

Definition phase_ix (ph : phase) : Z :=
  match ph with
  | PhIdle => PD_PHASE_Idle
  | PhNoPenalty => PD_PHASE_NoPenalty
  | PhLinear _ => PD_PHASE_LinearIncreasingPenalty
  | PhFixed _ => PD_PHASE_OnlyWithdrawFixedPenalty
  | PhRedeem => PD_PHASE_Redeem
  end.

(** Phase::get_penalty_percentage *)
Definition penalty_of (ph : phase) : Z :=
  match ph with PhLinear p => p | PhFixed p => p | _ => 0 end.

Definition get_current_phase (c : cfg) (b : Z) : result phase :=
  if b <? c_start c then Ok PhIdle else
  let no_limit_end := c_start c + c_dn c in
  if b <? no_limit_end then Ok PhNoPenalty else
  let linear_start := no_limit_end in
  let linear_end := linear_start + c_dl c in
  if b <? linear_end then
    do passed <- sub_chk b linear_start;
    do diff <- sub_chk (c_pmax c) (c_pmin c);
    let increase := if 1 <? c_dl c then diff * passed / (c_dl c - 1) else 0 in
    Ok (PhLinear (c_pmin c + increase))
  else
  let fixed_start := linear_end in
  let fixed_end := fixed_start + c_df c in
  if b <? fixed_end then Ok (PhFixed (c_pfix c)) else Ok PhRedeem.

Definition deposit_allowed (ph : phase) : bool :=
  match ph with PhIdle | PhFixed _ | PhRedeem => false | _ => true end.
Definition withdraw_allowed (ph : phase) : bool :=
  match ph with PhIdle | PhRedeem => false | _ => true end.
Definition redeem_allowed (ph : phase) : bool :=
  match ph with PhRedeem => true | _ => false end.

(** ------------------------------------------------------------------ lib.rs: calculate_price *)
Definition calculate_price (s : pd) : result Z :=
  check (0 <? p_lb s) else EGuard;
  div_chk (p_ab s * c_prec (p_cfg s)) (p_lb s).

Definition side_of_nonce (n : Z) : result bool :=
  if n =? NL then Ok true else if n =? NA then Ok false else Err EGuard.

Definition side_of_token (t : Z) : result bool :=
  if t =? TOK_A then Ok false else if t =? TOK_L then Ok true else Err EGuard.

Definition held (s : pd) (l : bool) (a : Z) : Z := aget (hold s l) a.

(** ------------------------------------------------------------------ operations *)
Inductive pdop :=
| Tick (d : Z)                      (* the chain advances by d >= 0 blocks *)
| Deposit (c tok amt : Z)           (* deposit, paying [amt] of token [tok] *)
| Withdraw (c nonce amt : Z)        (* withdraw, paying [amt] redeem tokens of [nonce] (other nonce = wrong token) *)
| Redeem (c nonce amt : Z)          (* redeem, paying [amt] redeem tokens of [nonce] *)
| Xfer (src dst nonce amt : Z).     (* plain transfer of redeem tokens between accounts *)

(** outputs: the amount of the returned payment *)
Definition outs := list Z.

Definition ep_tick (s : pd) (d : Z) : result (pd * outs) :=
  check (0 <=? d) else EGuard;
  Ok (set_block s (p_block s + d), []).

Definition ep_deposit (s : pd) (c tok amt : Z) : result (pd * outs) :=
  do ph <- get_current_phase (p_cfg s) (p_block s);
  check deposit_allowed ph else EState;
  check (0 <=? amt) else EGuard;
  do l <- side_of_token tok;
  let s1 := set_tr s l (bal_tr s l + amt) in                         (* increase_balance *)
  do price <- calculate_price s1;
  check (p_ab s1 =? 0) || (c_minp (p_cfg s) <=? price) || negb l else EGuard;
  (* mint_and_send_redeem_token *)
  let s2 := set_supply s1 l (supply s1 l + amt) in
  let s3 := set_hold s2 l (aset (hold s2 l) c (held s2 l c + amt)) in
  (* the payment itself stays in the contract account *)
  let s4 := set_re s3 l (bal_re s3 l + amt) in
  Ok (s4, [amt]).

Definition ep_withdraw (s : pd) (c nonce amt : Z) : result (pd * outs) :=
  do ph <- get_current_phase (p_cfg s) (p_block s);
  check withdraw_allowed ph else EState;
  check (0 <=? amt) else EGuard;
  do l <- side_of_nonce nonce;
  (* the caller pays with redeem tokens it owns ... *)
  do hb <- sub_chk (held s l c) amt;
  let s1 := set_hold s l (aset (hold s l) c hb) in
  (* ... which burn_redeem_token burns, decreasing the circulating supply *)
  do sup <- sub_chk (supply s1 l) amt;
  let s2 := set_supply s1 l sup in
  let pct := penalty_of ph in
  let penalty := amt * pct / MAXP in
  do w <- sub_chk amt penalty;
  do nb <- sub_chk (bal_tr s2 l) w;                                  (* decrease_balance *)
  let s3 := set_tr s2 l nb in
  do price <- calculate_price s3;
  check (c_minp (p_cfg s) <=? price) else EGuard;
  do rb <- sub_chk (bal_re s3 l) w;                                  (* send().direct *)
  Ok (set_re s3 l rb, [w]).

Definition ep_redeem (s : pd) (c nonce amt : Z) : result (pd * outs) :=
  do ph <- get_current_phase (p_cfg s) (p_block s);
  check redeem_allowed ph else EState;
  check (0 <=? amt) else EGuard;
  do l <- side_of_nonce nonce;
  do hb <- sub_chk (held s l c) amt;
  (* compute_bought_tokens: the opposite pool, pro rata to the nonce's circulating supply *)
  do q <- div_chk (bal_tr s (negb l) * amt) (supply s l);
  (* burn_redeem_token_without_supply_decrease *)
  let s1 := set_hold s l (aset (hold s l) c hb) in
  if 0 <? q then
    do rb <- sub_chk (bal_re s1 (negb l)) q;                         (* lock_tokens_and_forward *)
    Ok (set_re s1 (negb l) rb, [q])
  else Ok (s1, [q]).

Definition ep_xfer (s : pd) (src dst nonce amt : Z) : result (pd * outs) :=
  check (0 <=? amt) else EGuard;
  do l <- side_of_nonce nonce;
  do hb <- sub_chk (held s l src) amt;
  let s1 := set_hold s l (aset (hold s l) src hb) in
  Ok (set_hold s1 l (aset (hold s1 l) dst (held s1 l dst + amt)), []).

Definition step (s : pd) (op : pdop) : result (pd * outs) :=
  match op with
  | Tick d => ep_tick s d
  | Deposit c t a => ep_deposit s c t a
  | Withdraw c n a => ep_withdraw s c n a
  | Redeem c n a => ep_redeem s c n a
  | Xfer a b n x => ep_xfer s a b n x
  end.

(** A failed transaction reverts: the runner keeps the old state. *)
Definition step_total (s : pd) (op : pdop) : pd :=
  match step s op with Ok (s', _) => s' | Err _ => s end.

Definition run (s : pd) (ops : list pdop) : pd := fold_left step_total ops s.

(** ------------------------------------------------------------------ views *)
Definition view_phase (s : pd) : result phase := get_current_phase (p_cfg s) (p_block s).
Definition view_price (s : pd) : result Z := calculate_price s.
Definition view_supply (s : pd) (n : Z) : Z :=
  if n =? NL then p_s1 s else if n =? NA then p_s2 s else 0.

(** What redemptions of nonce [n] have paid out along a history (the returned payments). *)
Fixpoint paid (s : pd) (ops : list pdop) (n : Z) : Z :=
  match ops with
  | [] => 0
  | op :: t =>
      match step s op with
      | Ok (s', o) =>
          (match op with Redeem _ n' _ => if n' =? n then hd 0 o else 0 | _ => 0 end) + paid s' t n
      | Err _ => paid s t n
      end
  end.
