(** farm-staking as ONE closed model: Model/StakingPos.v (positions, attributes, user totals, capacity / APR accrual,
    reserve, unbond tokens — on Model/Staking.v) composed with the farm-boosted-yields module as farm-staking hosts it
    (Model/BoostedHosts.v on Model/Boosted.v on Model/Weekly.v).

    In the two open models the facts that belong to the other half are operation INPUTS:
      StakingPos.v    takes the boosted payout [b] of every operation (and the clock: block nonce, epoch);
      BoostedHosts.v  takes [pre] (host-level guards), [cur] (energy entry), [pos] (the user's
                      user_total_farm_position BEFORE the endpoint's own position update), [posa] (after unstakeFarm's
                      decrease), [full] (what this endpoint's generate_aggregated_rewards accrues) and [supply]
                      (farm_token_supply handed to set_farm_supply_for_current_week).
    Here they are COMPUTED, each from the other half's state, exactly where the Rust computes them:
      user   = the account whose boosted rewards the endpoint settles: the ORIGINAL caller for stakeFarm,
               stakeFarmThroughProxy, claimRewards, claimRewardsWithNewValue, unstakeFarm, unstakeFarmThroughProxy
               (stake_farm_common / claim_rewards_common / unstake_farm_common get [original_caller]); the caller for
               compoundRewards, mergeFarmTokens, claimBoostedRewards (without opt_user);
      pos    = user_total_farm_position(user) of the staking state before the operation
               (base_impl_wrapper.rs calculate_boosted_rewards reads it before check_and_update / increase / decrease);
      full   = FarmStakingWrapper::generate_aggregated_rewards' total_reward of THIS settlement:
               min(min(rate * blocks [if producing], supply * maxAPR / 10000 / BLOCKS_IN_YEAR * blocks), capacity - accumulated),
               0 if the block is not new — from the state before the operation (nothing that runs before
               generate_aggregated_rewards inside an endpoint touches rate, producing, last block, supply, APR, capacity,
               accumulated: the boosted payment of stakeFarm debits reserve, pools and balance only);
      b      = the total the boosted module pays for this operation (claim_boosted_yields_rewards);
      supply = storage_cache.farm_token_supply after the operation (as adjusted by claimRewardsWithNewValue);
      posa   = user_total_farm_position(user) after the operation (unstake_farm_common: clear_user_energy_if_needed);
      pre    = true: the host-level guards are the staking half's own, the transaction fails if either half fails;
      cur    = the energy factory's stored entry depleted to the current epoch, or a zero entry stamped with the
               current epoch when the factory has none (energy-query/src/lib.rs get_energy_entry).
    What remains an input is what another contract or the chain supplies: the factory's stored entry for the user at
    the time of the call ([raw]) and the clock ([SXTime]).

    As in Model/FarmFull.v the boosted payout does not depend on [supply] / [posa] (they are written after the claim),
    so the composition is evaluated in three steps: the module's claim (pass 1, gives [b]), the staking endpoint with that
    [b], the module again with the supply and position the staking endpoint produced (pass 2, gives the module's state).
    No proofs in this file. *)
From MX Require Import Base.Prelude Gen.Params Model.Weekly Model.Boosted Model.BoostedHosts Model.Staking Model.StakingPos.

Record sxstate := mkSX {
  sx_p : spos;         (* the staking farm proper *)
  sx_b : bst;          (* the boosted-yields module (its b_epoch is the chain's epoch) *)
  sx_blk : Z           (* the chain's block nonce *)
}.

Definition init_sx (dsc apr minub blk epoch : Z) : sxstate :=
  mkSX (init_sp dsc apr minub) (init_b epoch) blk.

(** ------------------------------------------------------------------ operations: the endpoints of farm-staking *)
Inductive sxop :=
| SXTime (dblk dep : Z)                                                      (* the chain moves on *)
| SXStake (c u amt : Z) (adds : list (Z * Z)) (raw : option en)             (* stakeFarm (with merge) *)
| SXStakeProxy (c u amt : Z) (adds : list (Z * Z)) (raw : option en)        (* stakeFarmThroughProxy *)
| SXClaim (c u : Z) (p : Z * Z) (raw : option en)                           (* claimRewards *)
| SXClaimNewValue (c u : Z) (p : Z * Z) (newv : Z) (raw : option en)        (* claimRewardsWithNewValue *)
| SXCompound (c : Z) (first : Z * Z) (adds : list (Z * Z)) (raw : option en) (* compoundRewards *)
| SXUnstake (c u : Z) (p : Z * Z) (raw : option en)                         (* unstakeFarm *)
| SXUnstakeProxy (c u : Z) (p : Z * Z) (t : Z) (raw : option en)            (* unstakeFarmThroughProxy *)
| SXUnbond (c n amt : Z)                                                    (* unbondFarm *)
| SXMerge (c : Z) (ps : list (Z * Z)) (raw : option en)                     (* mergeFarmTokens *)
| SXClaimBoosted (c : Z) (raw : option en)                                  (* claimBoostedRewards *)
| SXTransfer (n src dst amt : Z)                                            (* ESDT transfer of a position *)
| SXTransferUb (n src dst amt : Z)                                          (* ESDT transfer of an unbond token *)
| SXTopUp (c amt : Z)                                                       (* topUpRewards *)
| SXWithdraw (c w : Z)                                                      (* withdrawRewards *)
| SXSetRate (c r : Z)                                                       (* setPerBlockRewardAmount *)
| SXStart (c : Z)                                                           (* startProduceRewards *)
| SXEnd (c : Z)                                                             (* endProduceRewards *)
| SXSetApr (c a : Z)                                                        (* setMaxApr *)
| SXSetMinUnbond (c e : Z)                                                  (* setMinUnbondEpochs *)
| SXSetPct (c p : Z)                                                        (* setBoostedYieldsRewardsPercentage *)
| SXSetFactors (c : Z) (fa : factors)                                       (* setBoostedYieldsFactors *)
| SXSetState (c st : Z)                                                     (* pause / resume *)
| SXDonate (amt : Z)                                                        (* plain transfer of staking tokens *)
| SXCollect (c : Z)                                                         (* collectUndistributedBoostedRewards *)
| SXUpdateEnergy (c u : Z) (raw : option en).                               (* updateEnergyForUser(u), anybody *)

(** ------------------------------------------------------------------ the computed facts *)
(** energy-query get_energy_entry *)
Definition sx_entry (raw : option en) (epoch : Z) : en :=
  match raw with Some e => en_deplete e epoch | None => en_zero epoch end.

(** generate_aggregated_rewards: what the settlement at block [blk] accrues (total_reward) *)
Definition semission (s : stk) (blk : Z) : Z :=
  if blk <=? s_last s then 0 else
  let unb := if s_produce s then s_rate s * (blk - s_last s) else 0 in
  let aprb := apr_per_block s * (blk - s_last s) in
  Z.min (Z.min unb aprb) (s_cap s - s_acc s).

(** the account whose boosted rewards the endpoint settles (and whose total position clear_user_energy_if_needed reads) *)
Definition user_of (op : sxop) : Z :=
  match op with
  | SXStake _ u _ _ _ | SXStakeProxy _ u _ _ _ | SXClaim _ u _ _ | SXClaimNewValue _ u _ _ _
  | SXUnstake _ u _ _ | SXUnstakeProxy _ u _ _ _ => u
  | SXCompound c _ _ _ | SXMerge c _ _ | SXClaimBoosted c _ => c
  | _ => 0
  end.

(** the boosted module's part of the endpoint ([supply], [posa]: farm supply / the user's total position AFTER the
    staking part; irrelevant for the payout).  None = the endpoint does not touch the module. *)
Definition hop_of (s : sxstate) (op : sxop) (supply posa : Z) : option hop :=
  let sp := sx_p s in
  let ep := b_epoch (sx_b s) in
  let full := semission (p_s sp) (sx_blk s) in
  match op with
  | SXTime _ dep => Some (HBase (BAdvance dep))
  | SXStake _ u _ _ raw | SXStakeProxy _ u _ _ raw => Some (HBase (BEnter true u (sx_entry raw ep) (utot sp u) full supply))
  | SXClaim _ u _ raw | SXClaimNewValue _ u _ _ raw => Some (HSClaim true u (sx_entry raw ep) (utot sp u) full supply)
  | SXCompound c _ _ raw => Some (HSCompound true c (sx_entry raw ep) (utot sp c) full supply)
  | SXUnstake _ u _ raw | SXUnstakeProxy _ u _ _ raw => Some (HSUnstake true u (sx_entry raw ep) (utot sp u) posa full supply)
  | SXMerge c _ raw => Some (HBase (BMerge true c (sx_entry raw ep) (utot sp c)))
  | SXClaimBoosted c raw => Some (HBase (BClaimBoosted true c (sx_entry raw ep) (utot sp c) full supply))
  | SXWithdraw _ _ | SXSetRate _ _ | SXEnd _ | SXSetApr _ _ => Some (HBase (BSettle true full))
  | SXSetPct c p => Some (HBase (BSetPct c p full))
  | SXSetFactors c fa => Some (HBase (BSetFactors c fa))
  | SXCollect c => Some (HBase (BCollect c))
  | SXUpdateEnergy _ u raw => Some (HBase (BUpdateEnergy u (sx_entry raw ep)))
  | SXUnbond _ _ _ | SXTransfer _ _ _ _ | SXTransferUb _ _ _ _ | SXTopUp _ _ | SXStart _ | SXSetMinUnbond _ _
  | SXSetState _ _ | SXDonate _ => None
  end.

(** the staking farm's part of the endpoint, with the boosted payout [b] the module computed.
    None = the endpoint does not touch the staking farm proper. *)
Definition pop_of (s : sxstate) (op : sxop) (b : Z) : option pop :=
  let blk := sx_blk s in
  let ep := b_epoch (sx_b s) in
  match op with
  | SXTime _ _ => None
  | SXStake c u amt adds _ => Some (PStake blk ep c u amt adds b)
  | SXStakeProxy c u amt adds _ => Some (PStakeProxy blk ep c u amt adds b)
  | SXClaim c u p _ => Some (PClaim blk ep c u p b)
  | SXClaimNewValue c u p newv _ => Some (PClaimNewValue blk ep c u p newv b)
  | SXCompound c first adds _ => Some (PCompound blk ep c first adds b)
  | SXUnstake c u p _ => Some (PUnstake blk ep c u p b)
  | SXUnstakeProxy c u p t _ => Some (PUnstakeProxy blk ep c u p t b)
  | SXUnbond c n amt => Some (PUnbond ep c n amt)
  | SXMerge c ps _ => Some (PMerge blk ep c ps b)
  | SXClaimBoosted c _ => Some (PClaimBoosted blk ep c b)
  | SXTransfer n src dst amt => Some (PTransfer n src dst amt)
  | SXTransferUb n src dst amt => Some (PTransferUb n src dst amt)
  | SXTopUp c amt => Some (PAdmin (STopUp c amt))
  | SXWithdraw c w => Some (PAdmin (SWithdraw blk c w))
  | SXSetRate c r => Some (PAdmin (SSetRate blk c r))
  | SXStart c => Some (PAdmin (SStart blk c))
  | SXEnd c => Some (PAdmin (SEnd blk c))
  | SXSetApr c a => Some (PAdmin (SSetApr blk c a))
  | SXSetMinUnbond c e => Some (PAdmin (SSetMinUnbond c e))
  | SXSetPct c p => Some (PAdmin (SSetPct blk c p))
  | SXSetFactors c _ => Some (PAdmin (SSetFactors c))
  | SXSetState c st => Some (PAdmin (SSetState c st))
  | SXDonate amt => Some (PAdmin (SDonate amt))
  | SXCollect _ | SXUpdateEnergy _ _ _ => None
  end.

(** the block nonce after the operation *)
Definition sclock_of (s : sxstate) (op : sxop) : result Z :=
  match op with
  | SXTime dblk _ => check (0 <=? dblk) else EGuard; Ok (sx_blk s + dblk)
  | _ => Ok (sx_blk s)
  end.

Record sxout := mkSXO {
  so_b : Z;            (* the boosted payout the module computed = the staking part's input b *)
  so_p : souts;        (* what the staking endpoint returns (Model/StakingPos.v) *)
  so_m : bout          (* what the module hands back (Model/Boosted.v): payout, per-week breakdown, cut, sweeps *)
}.

Definition run_h (b : bst) (o : option hop) : result (bst * bout) :=
  match o with Some ho => hstep b ho | None => Ok (b, out0) end.

Definition run_p (sp : spos) (o : option pop) : result (spos * souts) :=
  match o with Some po => pstep sp po | None => Ok (sp, []) end.

Definition sfull_step (s : sxstate) (op : sxop) : result (sxstate * sxout) :=
  do blk' <- sclock_of s op;
  (* pass 1: the module's claim gives the boosted payout *)
  do (_, o1) <- run_h (sx_b s) (hop_of s op 0 0);
  (* the staking endpoint, paying that amount out of reserve and pools *)
  do (sp', po) <- run_p (sx_p s) (pop_of s op (o_b o1));
  (* pass 2: the module with the supply / position the staking endpoint left behind *)
  do (b', o2) <- run_h (sx_b s) (hop_of s op (s_supply (p_s sp')) (utot sp' (user_of op)));
  Ok (mkSX sp' b' blk', mkSXO (o_b o1) po o2).

(** A failed transaction reverts. *)
Definition sfull_step_total (s : sxstate) (op : sxop) : sxstate :=
  match sfull_step s op with Ok (s', _) => s' | Err _ => s end.

Definition sfull_run (s : sxstate) (ops : list sxop) : sxstate := fold_left sfull_step_total ops s.
