(** The farm-boosted-yields module as hosted by the OTHER two contracts that compile it in:
    dex/farm-with-locked-rewards and farm-staking/farm-staking.  Model/Boosted.v's twelve operations mirror how
    dex/farm calls the module; this file adds the host endpoints whose calling pattern differs, defined from
    Model/Boosted.v's own functions (Boosted.v is not touched), and one operation type [hop] for both hosts.

    Which endpoint calls what, in which order (source read: dex/farm-with-locked-rewards/src/lib.rs,
    dex/farm/src/base_functions.rs, farm-staking/farm-staking/src/{lib, base_impl_wrapper, stake_farm, unstake_farm,
    claim_stake_farm_rewards, compound_stake_farm_rewards, claim_only_boosted_staking_rewards, custom_rewards}.rs,
    common/modules/farm/farm_base_impl/src/*.rs).  [claim(pos)] = claim_boosted_yields_rewards(user,
    user_total_farm_position(user)) with the position read BEFORE check_and_update / increase / decrease;
    [slice] = take_reward_slice(emission) inside generate_aggregated_rewards; [sup] = set_farm_supply_for_current_week;
    [uep] = update_energy_and_progress; [clear] = clear_user_energy_if_needed.

    farm-with-locked-rewards  (every reward leaves through energy-factory lockVirtual, which RAISES the user's energy)
      enterFarm            claim(pos) ; lockVirtual(boosted) ; slice ; sup ; uep      uep re-reads the energy entry AFTER the
                                                                                      lock: two entries [cur], [cur2]  -> HLEnter
      claimRewards         slice ; claim(pos) ; sup ; lockVirtual(base+boosted)       = dex/farm                        -> BClaim
      exitFarm             slice ; claim(pos) ; sup ; lockVirtual ; clear             = dex/farm (clear reads no energy) -> BExit
      mergeFarmTokens      claim(pos) ; lockVirtual(boosted)                          = dex/farm                        -> BMerge
      claimBoostedRewards  slice ; claim(pos of opt_user) ; sup ; lockVirtual         = dex/farm                        -> BClaimBoosted
      (no compoundRewards endpoint); setPerBlockRewardAmount / endProduceRewards / percentage / factors / collect /
      updateEnergyForUser: the module's or dex/farm's own code                        -> BSettle BSetPct BSetFactors BCollect BUpdateEnergy

    farm-staking  (emission = min(rate*blocks, supply*APR/10000/BLOCKS_IN_YEAR*blocks, capacity - accumulated): an input)
      stakeFarm[ThroughProxy]       claim(pos) ; slice ; sup ; uep                    = dex/farm enterFarm              -> BEnter
      claimRewards[WithNewValue]    slice ; claim(pos) ; sup ; uep                    NOT dex/farm's claimRewards (no uep there):
                                                                                      the pattern of dex/farm compound  -> HSClaim
      compoundRewards               slice ; claim(pos) ; sup                          NOT dex/farm's compound (uep there):
                                                                                      the pattern of dex/farm claim     -> HSCompound
      unstakeFarm[ThroughProxy]     slice ; claim(pos) ; clear(pos after) ; sup       clear BEFORE sup (dex/farm: after)  -> HSUnstake
      mergeFarmTokens               claim(pos)                                        = dex/farm                        -> BMerge
      claimBoostedRewards           slice ; claim(pos of opt_user) ; sup              = dex/farm                        -> BClaimBoosted
      withdrawRewards / endProduceRewards / setPerBlockRewardAmount / setMaxApr       slice only                        -> BSettle
      setBoostedYieldsRewardsPercentage                                               slice ; set                       -> BSetPct

    Inputs as in Model/Boosted.v ([pre], [cur], [pos], [posa], [full], [supply]); [cur2] = get_energy_entry(user) as read
    by update_energy_and_progress at the end of the locked farm's enterFarm.  No proofs in this file. *)
From MX Require Import Base.Prelude Gen.Params Model.Weekly Model.Boosted.

(** farm-with-locked-rewards enterFarm: claim_only_boosted_payment with the OLD position and the energy entry [cur] ;
    send_to_lock_contract_non_zero (the factory adds the locked boosted reward to the user's energy) ;
    enter_farm (check_and_update, increase, generate_aggregated_rewards, set_farm_supply_for_current_week) ;
    update_energy_and_progress with the entry [cur2] the factory holds NOW *)
Definition ep_locked_enter (s : bst) (pre : bool) (u : Z) (cur cur2 : en) (pos full supply : Z) : result (bst * bout) :=
  check pre else EGuard;
  check wf_in cur pos full supply && (0 <=? en_tok cur2) else EGuard;
  do cw <- current_week s;
  do (h1, w1, det) <- claim_boosted (b_h s) (b_w s) u pos cw cur;
  do (h2, _, cut) <- take_reward_slice h1 cw full;
  let h3 := set_sup h2 cw supply in
  do w2 <- update_energy_and_progress w1 u cw cur2;
  Ok (with_hw s h3 w2, mkOut (pay_total det) det cut []).

(** farm-staking claimRewards / claimRewardsWithNewValue (claim_rewards_common): claim_rewards_base_no_farm_token_mint
    (generate_aggregated_rewards ; calculate_rewards = base + claim with the OLD position ; check_and_update) ;
    [new value: supply and user total adjusted] ; set_farm_supply_for_current_week ; update_energy_and_progress *)
Definition ep_stake_claim (s : bst) (pre : bool) (u : Z) (cur : en) (pos full supply : Z) : result (bst * bout) :=
  check pre else EGuard;
  check wf_in cur pos full supply else EGuard;
  do cw <- current_week s;
  do (h1, _, cut) <- take_reward_slice (b_h s) cw full;
  do (h2, w1, det) <- claim_boosted h1 (b_w s) u pos cw cur;
  let h3 := set_sup h2 cw supply in
  do w2 <- update_energy_and_progress w1 u cw cur;
  Ok (with_hw s h3 w2, mkOut (pay_total det) det cut []).

(** farm-staking compoundRewards: compound_rewards_base (generate_aggregated_rewards ; calculate_rewards with the OLD
    position ; check_and_update ; increase by the reward) ; set_farm_supply_for_current_week — no energy update *)
Definition ep_stake_compound (s : bst) (pre : bool) (u : Z) (cur : en) (pos full supply : Z) : result (bst * bout) :=
  check pre else EGuard;
  check wf_in cur pos full supply else EGuard;
  do cw <- current_week s;
  do (h1, _, cut) <- take_reward_slice (b_h s) cw full;
  do (h2, w1, det) <- claim_boosted h1 (b_w s) u pos cw cur;
  let h3 := set_sup h2 cw supply in
  Ok (with_hw s h3 w1, mkOut (pay_total det) det cut []).

(** farm-staking unstakeFarm / unstakeFarmThroughProxy (unstake_farm_common): exit_farm_base (generate_aggregated_rewards ;
    calculate_rewards with the OLD position ; decrease) ; clear_user_energy_if_needed (position AFTER the decrease) ;
    THEN set_farm_supply_for_current_week *)
Definition ep_unstake (s : bst) (pre : bool) (u : Z) (cur : en) (pos posa full supply : Z) : result (bst * bout) :=
  check pre else EGuard;
  check wf_in cur pos full supply && (0 <=? posa) else EGuard;
  do cw <- current_week s;
  do (h1, _, cut) <- take_reward_slice (b_h s) cw full;
  do (h2, w1, det) <- claim_boosted h1 (b_w s) u pos cw cur;
  do w2 <- clear_if_needed h2 w1 u cw (b_epoch s) posa;
  let h3 := set_sup h2 cw supply in
  Ok (with_hw s h3 w2, mkOut (pay_total det) det cut []).

(** ------------------------------------------------------------------ one operation type for both hosts *)
Inductive hop :=
| HBase (op : bop)            (* an endpoint that calls the module exactly as the dex/farm endpoint [op] does (table above) *)
| HLEnter (pre : bool) (u : Z) (cur cur2 : en) (pos full supply : Z)    (* farm-with-locked-rewards enterFarm *)
| HSClaim (pre : bool) (u : Z) (cur : en) (pos full supply : Z)         (* farm-staking claimRewards[WithNewValue] *)
| HSCompound (pre : bool) (u : Z) (cur : en) (pos full supply : Z)      (* farm-staking compoundRewards *)
| HSUnstake (pre : bool) (u : Z) (cur : en) (pos posa full supply : Z). (* farm-staking unstakeFarm[ThroughProxy] *)

Definition hstep (s : bst) (op : hop) : result (bst * bout) :=
  match op with
  | HBase b => step s b
  | HLEnter pre u cur cur2 pos full supply => ep_locked_enter s pre u cur cur2 pos full supply
  | HSClaim pre u cur pos full supply => ep_stake_claim s pre u cur pos full supply
  | HSCompound pre u cur pos full supply => ep_stake_compound s pre u cur pos full supply
  | HSUnstake pre u cur pos posa full supply => ep_unstake s pre u cur pos posa full supply
  end.

(** A failed transaction reverts. *)
Definition hstep_total (s : bst) (op : hop) : bst :=
  match hstep s op with Ok (s', _) => s' | Err _ => s end.

Definition hrun (s : bst) (ops : list hop) : bst := fold_left hstep_total ops s.

(** the dex/farm operation with the same module-level facts (user, energy entry at the claim, position, emission,
    supply): what the ghost ledger and the per-operation vocabulary of Proofs/BoostedProofs.v ([claim_of], [full_of],
    [fac_event]) are read from.  For every constructor but [HLEnter] it is also the SAME state transformer
    (Proofs/BoostedHostsProofs.v [hstep_base]); [HLEnter] with [cur2 = cur] is [BEnter]. *)
Definition base_of (op : hop) : bop :=
  match op with
  | HBase b => b
  | HLEnter pre u cur _ pos full supply => BEnter pre u cur pos full supply
  | HSClaim pre u cur pos full supply => BCompound pre u cur pos full supply
  | HSCompound pre u cur pos full supply => BClaim pre u cur pos full supply
  | HSUnstake pre u cur pos posa full supply => BExit pre u cur pos posa full supply
  end.
