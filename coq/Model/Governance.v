(** Executable model of energy-integration/governance-v2.

    Mirrors, function by function and guard by guard:
      governance-v2/src/lib.rs               (init, propose, vote, cancel, withdrawDeposit, refund_proposal_fee)
      governance-v2/src/views.rs             (getProposalStatus, vote_reached, vote_down_with_veto, quorum_reached,
                                              is_valid_proposal_id, proposal_exists)
      governance-v2/src/proposal.rs          (GovernanceProposal record, status enum)
      governance-v2/src/proposal_storage.rs  (ProposalVotes, clear_proposal, userVotedProposals)
      governance-v2/src/configurable.rs      (try_change_* guards, smoothing_function = BigUint::sqrt)
    plus the two pieces of environment the contract reads:
      energy-factory-mock  (setUserEnergy; energy read through energy_query::get_energy_amount)
      fees-collector       (getLastGlobalUpdateWeek / getTotalEnergyForWeek, moved by a user's
                            claimRewards: total := total - energy last seen for the user + current energy;
                            epoch held constant and no locked tokens, so nothing depletes).
    No proofs in this file: the model must keep running when a proof breaks. *)
From MX Require Import Base.Prelude Gen.Params.

(** Account ids: 0 = the governance contract itself; OWNER = deployer; SC_CALLER = a caller whose
    address is a smart-contract address; everything else is a plain user account. *)
Definition SELF : Z := 0.
Definition OWNER : Z := 100.
Definition SC_CALLER : Z := 50.

(** Payment token codes of [propose]: 0 = no payment attached, 1 = the fee token, >= 2 = another ESDT. *)
Definition NO_PAY : Z := 0.
Definition FEE_TOK : Z := 1.

Definition FULL : Z := GOV_FULL_PERCENTAGE.

(** GovernanceProposal (+ the ProposalVotes entry stored under the same id).
    [pr_live = false] after [clear_proposal] (VecMapper::clear_entry: the slot stays, the item is empty). *)
Record proposal := mkProp {
  pr_live : bool;
  pr_proposer : Z;
  pr_fee : Z;                                   (* fee_payment.amount (token = the fee token, nonce 0) *)
  pr_minq : Z; pr_delay : Z; pr_period : Z; pr_wpct : Z;   (* snapshots taken by propose *)
  pr_total : Z;                                 (* total_quorum: collector's total energy, taken at the first vote *)
  pr_start : Z;                                 (* proposal_start_block *)
  pr_withdrawn : bool;                          (* fee_withdrawn *)
  pr_up : Z; pr_down : Z; pr_veto : Z; pr_abstain : Z; pr_quorum : Z
}.

Definition pr_set_total (p : proposal) (t : Z) : proposal :=
  mkProp (pr_live p) (pr_proposer p) (pr_fee p) (pr_minq p) (pr_delay p) (pr_period p) (pr_wpct p)
         t (pr_start p) (pr_withdrawn p) (pr_up p) (pr_down p) (pr_veto p) (pr_abstain p) (pr_quorum p).
Definition pr_set_votes (p : proposal) (u d v a q : Z) : proposal :=
  mkProp (pr_live p) (pr_proposer p) (pr_fee p) (pr_minq p) (pr_delay p) (pr_period p) (pr_wpct p)
         (pr_total p) (pr_start p) (pr_withdrawn p) u d v a q.
Definition pr_set_withdrawn (p : proposal) : proposal :=
  mkProp (pr_live p) (pr_proposer p) (pr_fee p) (pr_minq p) (pr_delay p) (pr_period p) (pr_wpct p)
         (pr_total p) (pr_start p) true (pr_up p) (pr_down p) (pr_veto p) (pr_abstain p) (pr_quorum p).
(** clear_entry + proposal_votes.clear: everything decodes to the default again *)
Definition pr_cleared : proposal := mkProp false 0 0 0 0 0 0 0 0 false 0 0 0 0 0.

Record gov := mkGov {
  g_block : Z;                       (* current block nonce *)
  g_props : list proposal;           (* proposals(): position i holds id i+1 *)
  g_voted : list (Z * Z);            (* userVotedProposals: (voter, proposal id) in insertion order *)
  g_min_energy : Z; g_min_fee : Z; g_quorum : Z; g_delay : Z; g_period : Z; g_wpct : Z;
  g_energy : list (Z * Z);           (* energy factory: user -> energy amount *)
  g_synced : list (Z * Z);           (* fees collector: user -> energy it last saw for the user *)
  g_total : Z;                       (* fees collector: total energy of the last global update week *)
  g_bal : list (Z * Z);              (* fee-token balances by account id (SELF included) *)
  g_burned : Z                       (* fee tokens burned so far *)
}.

Definition set_block (g : gov) (b : Z) : gov :=
  mkGov b (g_props g) (g_voted g) (g_min_energy g) (g_min_fee g) (g_quorum g) (g_delay g) (g_period g)
        (g_wpct g) (g_energy g) (g_synced g) (g_total g) (g_bal g) (g_burned g).
Definition set_props (g : gov) (l : list proposal) : gov :=
  mkGov (g_block g) l (g_voted g) (g_min_energy g) (g_min_fee g) (g_quorum g) (g_delay g) (g_period g)
        (g_wpct g) (g_energy g) (g_synced g) (g_total g) (g_bal g) (g_burned g).
Definition set_voted (g : gov) (l : list (Z * Z)) : gov :=
  mkGov (g_block g) (g_props g) l (g_min_energy g) (g_min_fee g) (g_quorum g) (g_delay g) (g_period g)
        (g_wpct g) (g_energy g) (g_synced g) (g_total g) (g_bal g) (g_burned g).
Definition set_cfg (g : gov) (me mf q d p w : Z) : gov :=
  mkGov (g_block g) (g_props g) (g_voted g) me mf q d p w
        (g_energy g) (g_synced g) (g_total g) (g_bal g) (g_burned g).
Definition set_env (g : gov) (en sy : list (Z * Z)) (t : Z) : gov :=
  mkGov (g_block g) (g_props g) (g_voted g) (g_min_energy g) (g_min_fee g) (g_quorum g) (g_delay g) (g_period g)
        (g_wpct g) en sy t (g_bal g) (g_burned g).
Definition set_ledger (g : gov) (b : list (Z * Z)) (burned : Z) : gov :=
  mkGov (g_block g) (g_props g) (g_voted g) (g_min_energy g) (g_min_fee g) (g_quorum g) (g_delay g) (g_period g)
        (g_wpct g) (g_energy g) (g_synced g) (g_total g) b burned.

Definition init_gov (me mf q d p w blk : Z) (bals : list (Z * Z)) : gov :=
  mkGov blk [] [] me mf q d p w [] [] 0 bals 0.

(** ------------------------------------------------------------------ ledger of the fee token *)
Definition bal (g : gov) (a : Z) : Z := aget (g_bal g) a.

(** ESDT transfer: the VM aborts when the sender's balance is insufficient *)
Definition xfer (g : gov) (src dst amt : Z) : result gov :=
  do b <- sub_chk (bal g src) amt;
  let l1 := aset (g_bal g) src b in
  Ok (set_ledger g (aset l1 dst (aget l1 dst + amt)) (g_burned g)).

(** esdt_local_burn from the contract's own balance *)
Definition burn (g : gov) (amt : Z) : result gov :=
  do b <- sub_chk (bal g SELF) amt;
  Ok (set_ledger g (aset (g_bal g) SELF b) (g_burned g + amt)).

(** ------------------------------------------------------------------ proposals() access *)
Definition nprops (g : gov) : Z := Z.of_nat (length (g_props g)).

(** views.rs: is_valid_proposal_id *)
Definition valid_id (g : gov) (id : Z) : bool := (1 <=? id) && (id <=? nprops g).

Definition get_prop (g : gov) (id : Z) : option proposal :=
  if valid_id g id then nth_error (g_props g) (Z.to_nat (id - 1)) else None.

Fixpoint upd {A} (l : list A) (n : nat) (x : A) : list A :=
  match l, n with
  | [], _ => []
  | _ :: t, O => x :: t
  | h :: t, S n' => h :: upd t n' x
  end.

Definition put_prop (g : gov) (id : Z) (p : proposal) : gov :=
  set_props g (upd (g_props g) (Z.to_nat (id - 1)) p).

(** ------------------------------------------------------------------ views.rs: status *)
Definition vote_total (p : proposal) : Z := pr_up p + pr_down p + pr_veto p + pr_abstain p.

Definition vote_down_with_veto (p : proposal) : bool := vote_total p / 3 <? pr_veto p.

Definition vote_reached (p : proposal) : bool :=
  let third := vote_total p / 3 in
  let half := vote_total p / 2 in
  if third <? pr_veto p then false else half <? pr_up p.

Definition quorum_reached (p : proposal) : bool := pr_minq p * pr_total p <=? pr_quorum p * FULL.

Definition status_of (blk : Z) (p : proposal) : Z :=
  let voting_start := pr_start p + pr_delay p in
  let voting_end := voting_start + pr_period p in
  if blk <? voting_start then GOV_STATUS_Pending
  else if (voting_start <=? blk) && (blk <? voting_end) then GOV_STATUS_Active
  else if quorum_reached p && vote_reached p then GOV_STATUS_Succeeded
  else if vote_down_with_veto p then GOV_STATUS_DefeatedWithVeto
  else GOV_STATUS_Defeated.

(** getProposalStatus: None when the id is out of range or the entry was cleared *)
Definition view_status (g : gov) (id : Z) : Z :=
  match get_prop g id with
  | Some p => if pr_live p then status_of (g_block g) p else GOV_STATUS_None
  | None => GOV_STATUS_None
  end.

(** getProposalVotes: [up; down; veto; abstain; quorum]; the view fails ([]) for a missing entry *)
Definition view_votes (g : gov) (id : Z) : list Z :=
  match get_prop g id with
  | Some p => if pr_live p then [pr_up p; pr_down p; pr_veto p; pr_abstain p; pr_quorum p] else []
  | None => []
  end.

(** getUserVotedProposals *)
Definition view_voted (g : gov) (u : Z) : list Z :=
  map snd (filter (fun kv => fst kv =? u) (g_voted g)).

Definition pair_eqb (x y : Z * Z) : bool := (fst x =? fst y) && (snd x =? snd y).
Definition has_voted (g : gov) (u id : Z) : bool := existsb (pair_eqb (u, id)) (g_voted g).

(** configurable.rs: smoothing_function = BigUint::sqrt (floor square root) *)
Definition isqrt (x : Z) : Z := Z.sqrt x.

Definition energy_of (g : gov) (u : Z) : Z := aget (g_energy g) u.

(** ------------------------------------------------------------------ operations *)
Inductive gop :=
| Propose (c tok amt nact gas : Z)       (* nact actions, each with gas limit [gas] *)
| Vote (c id kind : Z)
| Cancel (c id : Z)
| Withdraw (c id : Z)
| Block (d : Z)                          (* the chain advances by d blocks *)
| SetEnergy (u e : Z)                    (* energy factory: the user's energy becomes e *)
| Sync (u : Z)                           (* the user calls claimRewards on the fees collector *)
| Donate (c amt : Z)                     (* plain transfer of the fee token to the contract *)
| ChangeMinEnergy (c v : Z)
| ChangeMinFee (c v : Z)
| ChangeQuorum (c v : Z)
| ChangeWithdrawPct (c v : Z)
| ChangeDelay (c v : Z)
| ChangePeriod (c v : Z).

Definition outs := list Z.

Definition is_sc (c : Z) : bool := (c =? SC_CALLER) || (c =? SELF).

(** configurable.rs guards *)
Definition ok_min_fee (v : Z) : bool :=
  (GOV_MIN_MIN_FEE_FOR_PROPOSE * GOV_DECIMALS_CONST <? v) && (v <? GOV_MAX_MIN_FEE_FOR_PROPOSE * GOV_DECIMALS_CONST).
Definition ok_quorum (v : Z) : bool := (GOV_MIN_QUORUM <=? v) && (v <? GOV_MAX_QUORUM).
Definition ok_delay (v : Z) : bool := (GOV_MIN_VOTING_DELAY <=? v) && (v <? GOV_MAX_VOTING_DELAY).
Definition ok_period (v : Z) : bool := (GOV_MIN_VOTING_PERIOD <=? v) && (v <? GOV_MAX_VOTING_PERIOD).
Definition ok_wpct (v : Z) : bool := (0 <=? v) && (v <=? FULL).

Definition ep_propose (g : gov) (c tok amt nact gas : Z) : result (gov * outs) :=
  check (0 <=? amt) && (0 <=? nact) && (0 <=? gas) else EGuard;
  check negb (is_sc c) else EGuard;
  check (nact <=? GOV_MAX_PROPOSAL_ACTIONS) else EGuard;
  check (g_min_energy g <=? energy_of g c) else EGuard;
  check negb (tok =? NO_PAY) else EGuard;                         (* call_value().single_esdt() *)
  check (tok =? FEE_TOK) else EGuard;
  check (g_min_fee g =? amt) else EGuard;
  check (nact =? 0) || (gas <? GOV_MAX_GAS_LIMIT_PER_BLOCK) else EGuard;
  check (nact * gas <? GOV_MAX_GAS_LIMIT_PER_BLOCK) else EGuard;
  do g1 <- xfer g c SELF amt;                                      (* the payment arrives with the call *)
  let p := mkProp true c amt (g_quorum g) (g_delay g) (g_period g) (g_wpct g) 0 (g_block g) false
                  0 0 0 0 0 in
  let g2 := set_props g1 (g_props g1 ++ [p]) in
  Ok (g2, [nprops g2]).

Definition add_vote (p : proposal) (kind w e : Z) : proposal :=
  if kind =? GOV_VOTE_UpVote then
    pr_set_votes p (pr_up p + w) (pr_down p) (pr_veto p) (pr_abstain p) (pr_quorum p + e)
  else if kind =? GOV_VOTE_DownVote then
    pr_set_votes p (pr_up p) (pr_down p + w) (pr_veto p) (pr_abstain p) (pr_quorum p + e)
  else if kind =? GOV_VOTE_DownVetoVote then
    pr_set_votes p (pr_up p) (pr_down p) (pr_veto p + w) (pr_abstain p) (pr_quorum p + e)
  else
    pr_set_votes p (pr_up p) (pr_down p) (pr_veto p) (pr_abstain p + w) (pr_quorum p + e).

Definition ep_vote (g : gov) (c id kind : Z) : result (gov * outs) :=
  check (0 <=? kind) && (kind <? GOV_VOTE_COUNT) else EGuard;      (* argument decoding *)
  check valid_id g id else EGuard;
  check (view_status g id =? GOV_STATUS_Active) else EState;
  check negb (has_voted g c id) else EGuard;                       (* user_voted_proposals.insert *)
  match get_prop g id with
  | None => Err EGuard
  | Some p =>
      (* first voter: snapshot the collector's total energy *)
      let p1 := if pr_quorum p =? 0 then pr_set_total p (g_total g) else p in
      let e := energy_of g c in
      check (0 <? e) else EGuard;                                  (* get_energy_amount_non_zero *)
      let w := isqrt e in
      let p2 := add_vote p1 kind w e in
      Ok (put_prop (set_voted g (g_voted g ++ [(c, id)])) id p2, [])
  end.

Definition ep_cancel (g : gov) (c id : Z) : result (gov * outs) :=
  let st := view_status g id in
  if st =? GOV_STATUS_None then Err EGuard
  else if st =? GOV_STATUS_Pending then
    match get_prop g id with
    | None => Err EGuard
    | Some p =>
        check (c =? pr_proposer p) else EPerm;
        do g1 <- xfer g SELF (pr_proposer p) (pr_fee p);
        Ok (put_prop g1 id pr_cleared, [])
    end
  else Err EState.

Definition ep_withdraw (g : gov) (c id : Z) : result (gov * outs) :=
  let st := view_status g id in
  if st =? GOV_STATUS_None then Err EGuard
  else if (st =? GOV_STATUS_Succeeded) || (st =? GOV_STATUS_Defeated) then
    match get_prop g id with
    | None => Err EGuard
    | Some p =>
        check (c =? pr_proposer p) else EPerm;
        check negb (pr_withdrawn p) else EState;
        do g1 <- xfer g SELF (pr_proposer p) (pr_fee p);
        Ok (put_prop g1 id (pr_set_withdrawn p), [])
    end
  else if st =? GOV_STATUS_DefeatedWithVeto then
    match get_prop g id with
    | None => Err EGuard
    | Some p =>
        check negb (pr_withdrawn p) else EState;
        let refund := pr_wpct p * pr_fee p / FULL in
        do remaining <- sub_chk (pr_fee p) refund;
        do g1 <- burn g remaining;
        do g2 <- xfer g1 SELF (pr_proposer p) refund;
        Ok (put_prop g2 id (pr_set_withdrawn p), [])
    end
  else Err EState.

Definition ep_block (g : gov) (d : Z) : result (gov * outs) :=
  check (0 <=? d) else EGuard;
  Ok (set_block g (g_block g + d), []).

Definition ep_set_energy (g : gov) (u e : Z) : result (gov * outs) :=
  check (0 <=? e) else EGuard;
  Ok (set_env g (aset (g_energy g) u e) (g_synced g) (g_total g), []).

(** fees collector claimRewards of a user: update_user_energy_for_current_week *)
Definition ep_sync (g : gov) (u : Z) : result (gov * outs) :=
  do t <- sub_chk (g_total g) (aget (g_synced g) u);
  let e := energy_of g u in
  Ok (set_env g (g_energy g) (aset (g_synced g) u e) (t + e), []).

Definition ep_donate (g : gov) (c amt : Z) : result (gov * outs) :=
  check (0 <? amt) && negb (c =? SELF) else EGuard;
  do g1 <- xfer g c SELF amt;
  Ok (g1, []).

Definition only_owner (c : Z) : bool := c =? OWNER.

Definition ep_change_min_energy (g : gov) (c v : Z) : result (gov * outs) :=
  check only_owner c else EPerm;
  check (0 <=? v) else EGuard;
  Ok (set_cfg g v (g_min_fee g) (g_quorum g) (g_delay g) (g_period g) (g_wpct g), []).
Definition ep_change_min_fee (g : gov) (c v : Z) : result (gov * outs) :=
  check only_owner c else EPerm;
  check ok_min_fee v else EGuard;
  Ok (set_cfg g (g_min_energy g) v (g_quorum g) (g_delay g) (g_period g) (g_wpct g), []).
Definition ep_change_quorum (g : gov) (c v : Z) : result (gov * outs) :=
  check only_owner c else EPerm;
  check ok_quorum v else EGuard;
  Ok (set_cfg g (g_min_energy g) (g_min_fee g) v (g_delay g) (g_period g) (g_wpct g), []).
Definition ep_change_wpct (g : gov) (c v : Z) : result (gov * outs) :=
  check only_owner c else EPerm;
  check ok_wpct v else EGuard;
  Ok (set_cfg g (g_min_energy g) (g_min_fee g) (g_quorum g) (g_delay g) (g_period g) v, []).
Definition ep_change_delay (g : gov) (c v : Z) : result (gov * outs) :=
  check only_owner c else EPerm;
  check ok_delay v else EGuard;
  Ok (set_cfg g (g_min_energy g) (g_min_fee g) (g_quorum g) v (g_period g) (g_wpct g), []).
Definition ep_change_period (g : gov) (c v : Z) : result (gov * outs) :=
  check only_owner c else EPerm;
  check ok_period v else EGuard;
  Ok (set_cfg g (g_min_energy g) (g_min_fee g) (g_quorum g) (g_delay g) v (g_wpct g), []).

Definition step (g : gov) (op : gop) : result (gov * outs) :=
  match op with
  | Propose c tok amt nact gas => ep_propose g c tok amt nact gas
  | Vote c id kind => ep_vote g c id kind
  | Cancel c id => ep_cancel g c id
  | Withdraw c id => ep_withdraw g c id
  | Block d => ep_block g d
  | SetEnergy u e => ep_set_energy g u e
  | Sync u => ep_sync g u
  | Donate c amt => ep_donate g c amt
  | ChangeMinEnergy c v => ep_change_min_energy g c v
  | ChangeMinFee c v => ep_change_min_fee g c v
  | ChangeQuorum c v => ep_change_quorum g c v
  | ChangeWithdrawPct c v => ep_change_wpct g c v
  | ChangeDelay c v => ep_change_delay g c v
  | ChangePeriod c v => ep_change_period g c v
  end.

(** A failed transaction reverts: the runner keeps the old state. *)
Definition step_total (g : gov) (op : gop) : gov :=
  match step g op with Ok (g', _) => g' | Err _ => g end.

Definition run (g : gov) (ops : list gop) : gov := fold_left step_total ops g.
