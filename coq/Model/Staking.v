(** Executable money-flow model of farm-staking (C12).

    Mirrors:
      farm-staking/farm-staking/src/base_impl_wrapper.rs   (mint_per_block_rewards with the APR bound,
                                                            generate_aggregated_rewards from capacity)
      farm-staking/farm-staking/src/custom_rewards.rs       (topUpRewards, withdrawRewards, setMaxApr, ...)
      farm-staking/farm-staking/src/{stake_farm,unstake_farm,unbond_farm,claim_stake_farm_rewards,
                                     compound_stake_farm_rewards,claim_only_boosted_staking_rewards,lib}.rs
      common/modules/farm/farm_base_impl (shared with dex/farm; its position algebra and reward-per-share
      accounting are modelled and proved in Model/Farm.v — C05/C06/C07)

    This model keeps what C12 is about: capacity, accrual under the APR cap, the staking-token
    balance identity, unbonding, admin withdrawal.  Position tokens are tracked only by total supply
    and by the shared nonce counter; the reward paid by an operation ([r], of which [b] boosted) and
    the amounts of the position payments are INPUTS, guarded exactly by the counters the real code
    guards them with (reserve, pools, supply).  No proofs in this file. *)
From MX Require Import Base.Prelude Gen.Params.

Definition OWNER : Z := 100.
Definition PROXY : Z := 50.          (* a whitelisted contract (farm-staking-proxy) *)
Definition MAXP : Z := STAKING_MAX_PERCENT.

Record stk := mkStk {
  s_supply : Z;      (* farm_token_supply *)
  s_virt : Z;        (* part of the supply staked through the proxy: never deposited here *)
  s_reserve : Z;     (* reward_reserve: accrued, not yet paid *)
  s_rps : Z; s_last : Z;
  s_rate : Z; s_produce : bool;
  s_apr : Z;         (* max_annual_percentage_rewards *)
  s_cap : Z;         (* reward_capacity *)
  s_acc : Z;         (* accumulatedRewards *)
  s_minub : Z;       (* minUnbondEpochs *)
  s_pct : Z; s_factors : bool; s_pool : Z;
  s_dsc : Z; s_state : Z;
  s_bal : Z;         (* the contract's real balance of the staking (= reward) token *)
  s_don : Z;         (* ghost: plain transfers received *)
  s_next : Z;        (* next nonce of the farm-token identifier (positions and unbond tokens share it) *)
  s_ub : list (Z * Z);     (* unbond nonce -> unlock epoch *)
  s_ubamt : list (Z * Z);  (* unbond nonce -> outstanding amount *)
  s_ubtot : Z              (* sum of outstanding unbond amounts *)
}.

Definition init_stk (dsc apr minub : Z) : stk :=
  mkStk 0 0 0 0 0 0 false apr 0 0 minub 0 false 0 dsc ST_Inactive 0 0 1 [] [] 0.

(* field updaters *)
Definition u_core (s : stk) (supply virt reserve rps last : Z) : stk :=
  mkStk supply virt reserve rps last (s_rate s) (s_produce s) (s_apr s) (s_cap s) (s_acc s) (s_minub s)
        (s_pct s) (s_factors s) (s_pool s) (s_dsc s) (s_state s) (s_bal s) (s_don s) (s_next s) (s_ub s) (s_ubamt s) (s_ubtot s).
Definition u_cfg (s : stk) (rate : Z) (produce : bool) (apr minub pct : Z) (factors : bool) (st : Z) : stk :=
  mkStk (s_supply s) (s_virt s) (s_reserve s) (s_rps s) (s_last s) rate produce apr (s_cap s) (s_acc s) minub
        pct factors (s_pool s) (s_dsc s) st (s_bal s) (s_don s) (s_next s) (s_ub s) (s_ubamt s) (s_ubtot s).
Definition u_money (s : stk) (cap acc pool bal don : Z) : stk :=
  mkStk (s_supply s) (s_virt s) (s_reserve s) (s_rps s) (s_last s) (s_rate s) (s_produce s) (s_apr s) cap acc (s_minub s)
        (s_pct s) (s_factors s) pool (s_dsc s) (s_state s) bal don (s_next s) (s_ub s) (s_ubamt s) (s_ubtot s).
Definition u_tok (s : stk) (next : Z) (ub ubamt : list (Z * Z)) (ubtot : Z) : stk :=
  mkStk (s_supply s) (s_virt s) (s_reserve s) (s_rps s) (s_last s) (s_rate s) (s_produce s) (s_apr s) (s_cap s) (s_acc s) (s_minub s)
        (s_pct s) (s_factors s) (s_pool s) (s_dsc s) (s_state s) (s_bal s) (s_don s) next ub ubamt ubtot.

Definition active (s : stk) : bool := s_state s =? ST_Active.
Definition is_admin (c : Z) : bool := c =? OWNER.

Definition boosted_cut (s : stk) (total : Z) : Z :=
  if (s_pct s =? 0) || negb (s_factors s) then 0 else total * s_pct s / MAXP.

(** get_amount_apr_bounded: per-block bound *)
Definition apr_per_block (s : stk) : Z := s_supply s * s_apr s / MAXP / BLOCKS_IN_YEAR.

(** FarmStakingWrapper::generate_aggregated_rewards *)
Definition settle (s : stk) (blk : Z) : result stk :=
  do remaining <- sub_chk (s_cap s) (s_acc s);
  if blk <=? s_last s then Ok s else
  let unb := if s_produce s then s_rate s * (blk - s_last s) else 0 in
  let aprb := apr_per_block s * (blk - s_last s) in
  let total := Z.min (Z.min unb aprb) remaining in
  let s1 := u_core s (s_supply s) (s_virt s) (s_reserve s) (s_rps s) blk in
  if total =? 0 then Ok s1 else
  let cut := boosted_cut s total in
  do inc <- (if s_supply s =? 0 then Ok 0 else div_chk ((total - cut) * s_dsc s) (s_supply s));
  let s2 := u_core s1 (s_supply s) (s_virt s) (s_reserve s + total) (s_rps s + inc) blk in
  Ok (u_money s2 (s_cap s) (s_acc s + total) (s_pool s + cut) (s_bal s) (s_don s)).

(** pay [r] out of the reserve and the balance, of which [b] from the boosted pools *)
Definition pay (s : stk) (r b : Z) : result stk :=
  check (0 <=? b) && (b <=? r) else EGuard;
  do res <- sub_chk (s_reserve s) r;
  do pool <- sub_chk (s_pool s) b;
  do bal <- sub_chk (s_bal s) r;
  let s1 := u_core s (s_supply s) (s_virt s) res (s_rps s) (s_last s) in
  Ok (u_money s1 (s_cap s) (s_acc s) pool bal (s_don s)).

Definition bump (s : stk) : stk := u_tok s (s_next s + 1) (s_ub s) (s_ubamt s) (s_ubtot s).

Definition mint_unbond (s : stk) (ep amt : Z) : stk * Z :=
  let n := s_next s in
  (u_tok s (n + 1) (s_ub s ++ [(n, ep + s_minub s)]) (aset (s_ubamt s) n amt) (s_ubtot s + amt), n).

Fixpoint find_z (l : list (Z * Z)) (k : Z) : option Z :=
  match l with [] => None | (k', v) :: t => if k' =? k then Some v else find_z t k end.

Inductive sop :=
| SStake (blk ep c amt adds b : Z)              (* adds = total amount of merged position payments *)
| SStakeProxy (blk ep amt adds b : Z)           (* stakeFarmThroughProxy: virtual principal *)
| SClaim (blk ep c x r b : Z)
| SClaimNewValue (blk ep x newv r b : Z)        (* claimRewardsWithNewValue by the proxy *)
| SCompound (blk ep c x adds r b : Z)
| SUnstake (blk ep c x r b : Z)
| SUnstakeProxy (blk ep x t r b : Z)            (* t = staking tokens sent along by the proxy *)
| SUnbond (ep c n amt : Z)
| SMerge (blk ep c b : Z)
| SClaimBoosted (blk ep c ut b : Z)            (* ut = the caller's user total farm position *)
| STopUp (c amt : Z)
| SWithdraw (blk c w : Z)
| SSetRate (blk c r : Z) | SStart (blk c : Z) | SEnd (blk c : Z)
| SSetApr (blk c a : Z) | SSetMinUnbond (c e : Z)
| SSetPct (blk c p : Z) | SSetFactors (c : Z) | SSetState (c st : Z)
| SDonate (amt : Z).

Definition souts := list Z.

Definition with_supply (s : stk) (supply virt : Z) : stk := u_core s supply virt (s_reserve s) (s_rps s) (s_last s).
Definition with_bal (s : stk) (bal : Z) : stk := u_money s (s_cap s) (s_acc s) (s_pool s) bal (s_don s).

Definition sstep (s : stk) (op : sop) : result (stk * souts) :=
  match op with
  | SStake blk ep c amt adds b =>
      check (0 <? amt) && (0 <=? adds) else EGuard;
      do s0 <- pay s b b;
      check active s0 else EState;
      check (adds <=? s_supply s0) else EGuard;
      do s1 <- settle s0 blk;
      let s2 := with_bal (with_supply s1 (s_supply s1 + amt) (s_virt s1)) (s_bal s1 + amt) in
      Ok (bump s2, [s_next s2; amt + adds; b])
  | SStakeProxy blk ep amt adds b =>
      check (0 <? amt) && (0 <=? adds) else EGuard;
      do s0 <- pay s b b;
      check active s0 else EState;
      check (adds <=? s_supply s0) else EGuard;
      do s1 <- settle s0 blk;
      let s2 := with_supply s1 (s_supply s1 + amt) (s_virt s1 + amt) in
      Ok (bump s2, [s_next s2; amt + adds; b])
  | SClaim blk ep c x r b =>
      check active s else EState;
      check (0 <? x) && (x <=? s_supply s) else EGuard;
      do s1 <- settle s blk;
      do s2 <- pay s1 r b;
      Ok (bump s2, [s_next s2; x; r])
  | SClaimNewValue blk ep x newv r b =>
      check active s else EState;
      check (0 <? x) && (x <=? s_supply s) && (0 <=? newv) else EGuard;
      do s1 <- settle s blk;
      do s2 <- pay s1 r b;
      do sup <- sub_chk (s_supply s2) x;
      do vir <- sub_chk (s_virt s2 + newv) x;
      let s3 := with_supply s2 (sup + newv) vir in
      Ok (bump s3, [s_next s3; newv; r])
  | SCompound blk ep c x adds r b =>
      check active s else EState;
      check (0 <? x) && (0 <=? adds) && (x + adds <=? s_supply s) else EGuard;
      do s1 <- settle s blk;
      do s2 <- pay s1 r b;
      (* the reward stays in the contract as principal *)
      let s3 := with_bal (with_supply s2 (s_supply s2 + r) (s_virt s2)) (s_bal s2 + r) in
      Ok (bump s3, [s_next s3; x + adds + r])
  | SUnstake blk ep c x r b =>
      check active s else EState;
      check (0 <? x) else EGuard;
      do s1 <- settle s blk;
      do s2 <- pay s1 r b;
      do sup <- sub_chk (s_supply s2) x;
      let s3 := with_supply s2 sup (s_virt s2) in
      let '(s4, n) := mint_unbond s3 ep x in
      Ok (s4, [n; x; r])
  | SUnstakeProxy blk ep x t r b =>
      check active s else EState;
      check (0 <? x) && (0 <? t) else EGuard;
      do s1 <- settle s blk;
      do s2 <- pay s1 r b;
      do sup <- sub_chk (s_supply s2) x;
      do vir <- sub_chk (s_virt s2) x;
      let s3 := with_bal (with_supply s2 sup vir) (s_bal s2 + t) in
      let '(s4, n) := mint_unbond s3 ep t in
      Ok (s4, [n; t; r])
  | SUnbond ep c n amt =>
      check active s else EState;
      check (0 <? amt) else EGuard;
      match find_z (s_ub s) n with
      | None => Err EGuard
      | Some unlock =>
          check (unlock <=? ep) else EGuard;
          do rest <- sub_chk (aget (s_ubamt s) n) amt;
          do bal <- sub_chk (s_bal s) amt;
          do tot <- sub_chk (s_ubtot s) amt;
          Ok (with_bal (u_tok s (s_next s) (s_ub s) (aset (s_ubamt s) n rest) tot) bal, [amt])
      end
  | SMerge blk ep c b =>
      check active s else EState;
      do s0 <- pay s b b;
      Ok (bump s0, [s_next s0; b])
  | SClaimBoosted blk ep c ut b =>
      check negb (ut =? 0) else EGuard;
      check active s else EState;
      do s1 <- settle s blk;
      do s2 <- pay s1 b b;
      Ok (s2, [b])
  | STopUp c amt =>
      check is_admin c else EPerm; check (0 <? amt) else EGuard;
      Ok (u_money s (s_cap s + amt) (s_acc s) (s_pool s) (s_bal s + amt) (s_don s), [])
  | SWithdraw blk c w =>
      check is_admin c else EPerm; check (0 <=? w) else EGuard;
      do s1 <- settle s blk;
      do remaining <- sub_chk (s_cap s1) (s_acc s1);
      check (w <=? remaining) else EGuard;
      do cap <- sub_chk (s_cap s1) w;
      do bal <- sub_chk (s_bal s1) w;
      Ok (u_money s1 cap (s_acc s1) (s_pool s1) bal (s_don s1), [])
  | SSetRate blk c r =>
      check is_admin c else EPerm; check (0 <? r) else EGuard;
      do s1 <- settle s blk;
      Ok (u_cfg s1 r (s_produce s1) (s_apr s1) (s_minub s1) (s_pct s1) (s_factors s1) (s_state s1), [])
  | SStart blk c =>
      check is_admin c else EPerm; check negb (s_rate s =? 0) else EGuard; check negb (s_produce s) else EGuard;
      let s1 := u_core s (s_supply s) (s_virt s) (s_reserve s) (s_rps s) blk in
      Ok (u_cfg s1 (s_rate s1) true (s_apr s1) (s_minub s1) (s_pct s1) (s_factors s1) (s_state s1), [])
  | SEnd blk c =>
      check is_admin c else EPerm;
      do s1 <- settle s blk;
      Ok (u_cfg s1 (s_rate s1) false (s_apr s1) (s_minub s1) (s_pct s1) (s_factors s1) (s_state s1), [])
  | SSetApr blk c a =>
      check is_admin c else EPerm; check (0 <? a) else EGuard;
      do s1 <- settle s blk;
      Ok (u_cfg s1 (s_rate s1) (s_produce s1) a (s_minub s1) (s_pct s1) (s_factors s1) (s_state s1), [])
  | SSetMinUnbond c e =>
      check is_admin c else EPerm; check (0 <=? e) && (e <=? MAX_MIN_UNBOND_EPOCHS) else EGuard;
      Ok (u_cfg s (s_rate s) (s_produce s) (s_apr s) e (s_pct s) (s_factors s) (s_state s), [])
  | SSetPct blk c p =>
      check is_admin c else EPerm; check (0 <=? p) && (p <=? MAXP) else EGuard;
      do s1 <- settle s blk;
      Ok (u_cfg s1 (s_rate s1) (s_produce s1) (s_apr s1) (s_minub s1) p (s_factors s1) (s_state s1), [])
  | SSetFactors c =>
      check is_admin c else EPerm;
      Ok (u_cfg s (s_rate s) (s_produce s) (s_apr s) (s_minub s) (s_pct s) true (s_state s), [])
  | SSetState c st =>
      check is_admin c else EPerm; check (st =? ST_Active) || (st =? ST_Inactive) else EGuard;
      Ok (u_cfg s (s_rate s) (s_produce s) (s_apr s) (s_minub s) (s_pct s) (s_factors s) st, [])
  | SDonate amt =>
      check (0 <? amt) else EGuard;
      Ok (u_money s (s_cap s) (s_acc s) (s_pool s) (s_bal s + amt) (s_don s + amt), [])
  end.

Definition sstep_total (s : stk) (op : sop) : stk :=
  match sstep s op with Ok (s', _) => s' | Err _ => s end.
Definition srun (s : stk) (ops : list sop) : stk := fold_left sstep_total ops s.
