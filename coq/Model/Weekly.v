(** Executable model of the weekly-rewards-splitting module shared by fees-collector, farm,
    farm-with-locked-rewards and farm-staking (boosted rewards).

    Mirrors, function by function and guard by guard:
      energy-integration/common-modules/weekly-rewards-splitting/src/lib.rs
          (ClaimProgress::advance_week / advance_multiple_weeks, claim_multi, claim_single)
      .../src/base_impl.rs            (collect_and_get_rewards_for_week, default get_user_rewards_for_week)
      .../src/global_info.rs          (update_global_amounts_for_current_week, perform_weekly_update,
                                       totals after a user energy update)
      .../src/locked_token_buckets.rs (shift_buckets_and_update_tokens_energy, reallocate_bucket_after_energy_update,
                                       get_bucket_id_for_energy, get_surplus_for_energy)
      .../src/update_claim_progress_energy.rs (update_energy_for_user, update_energy_and_progress,
                                       update_user_energy_for_current_week, clear_user_energy)
      energy-integration/common-modules/week-timekeeping/src/lib.rs  (get_week_for_epoch)
      locked-asset/energy-factory/src/energy.rs   (Energy: deplete, get_energy_amount — the part the module uses)

    Generic in the host contract: [H] is the host's own storage, [collect] its
    [collect_rewards_for_week], [hook] its [get_user_rewards_for_week] (the fees collector keeps the
    default one, the farms override it with the boosted-yields formula).
    No proofs in this file. *)
From MX Require Import Base.Prelude Gen.Params.

(** ------------------------------------------------------------------ Energy (energy.rs) *)
(** amount is a BigInt (goes negative once locks have expired), tokens a BigUint, epoch a u64 *)
Record en := mkEn { en_amt : Z; en_epoch : Z; en_tok : Z }.

Definition en_default : en := mkEn 0 0 0.                       (* Energy::default *)
Definition en_zero (epoch : Z) : en := mkEn 0 epoch 0.          (* Energy::new_zero_energy *)

(** get_energy_amount: the positive part *)
Definition en_amount (e : en) : Z := if 0 <? en_amt e then en_amt e else 0.

(** deplete: amount -= tokens * (epoch - last_update_epoch) when the epoch is later; always stamps the epoch *)
Definition en_deplete (e : en) (epoch : Z) : en :=
  if en_epoch e =? epoch then e
  else mkEn (if (0 <? en_tok e) && (en_epoch e <? epoch)
             then en_amt e - en_tok e * (epoch - en_epoch e) else en_amt e)
            epoch (en_tok e).

(** ------------------------------------------------------------------ week-timekeeping *)
Definition week_for_epoch (first_epoch epoch : Z) : result Z :=
  check (first_epoch <=? epoch) else EGuard;
  Ok ((epoch - first_epoch) / EPOCHS_IN_WEEK + 1).

(** ------------------------------------------------------------------ ClaimProgress (lib.rs) *)
Record progress := mkProg { pr_en : en; pr_week : Z }.

Definition advance_week (p : progress) : progress :=
  mkProg (en_deplete (pr_en p) (en_epoch (pr_en p) + EPOCHS_IN_WEEK)) (pr_week p + 1).

Definition advance_multiple_weeks (p : progress) (n : Z) : progress :=
  mkProg (en_deplete (pr_en p) (en_epoch (pr_en p) + EPOCHS_IN_WEEK * n)) (pr_week p + n).

(** ------------------------------------------------------------------ storage *)
(** maps with list values (a week's reward payments, a week's per-token amounts); absent = [] *)
Fixpoint rget (l : list (Z * list (Z * Z))) (k : Z) : list (Z * Z) :=
  match l with
  | [] => []
  | (k', v) :: t => if k' =? k then v else rget t k
  end.

Fixpoint rset (l : list (Z * list (Z * Z))) (k : Z) (v : list (Z * Z)) : list (Z * list (Z * Z)) :=
  match l with
  | [] => [(k, v)]
  | (k', v') :: t => if k' =? k then (k, v) :: t else (k', v') :: rset t k v
  end.

(** currentClaimProgress(user): absent = empty mapper *)
Fixpoint pfind (l : list (Z * progress)) (u : Z) : option progress :=
  match l with
  | [] => None
  | (u', p) :: t => if u' =? u then Some p else pfind t u
  end.

Fixpoint pset (l : list (Z * progress)) (u : Z) (p : progress) : list (Z * progress) :=
  match l with
  | [] => [(u, p)]
  | (u', p') :: t => if u' =? u then (u, p) :: t else (u', p') :: pset t u p
  end.

Definition pdel (l : list (Z * progress)) (u : Z) : list (Z * progress) :=
  filter (fun kv => negb (fst kv =? u)) l.

Record wstate := mkW {
  w_prog : list (Z * progress);          (* currentClaimProgress *)
  w_energy : list (Z * Z);               (* totalEnergyForWeek *)
  w_tokens : list (Z * Z);               (* totalLockedTokensForWeek *)
  w_last : Z;                            (* lastGlobalUpdateWeek *)
  w_first : Z;                           (* firstBucketId *)
  w_btok : list (Z * Z);                 (* lockedTokensInBucket(id).token_amount *)
  w_bsur : list (Z * Z);                 (* lockedTokensInBucket(id).surplus_energy_amount *)
  w_rewards : list (Z * list (Z * Z))    (* totalRewardsForWeek: (token, amount) list; [] = empty mapper *)
}.

Definition init_w : wstate := mkW [] [] [] 0 0 [] [] [].

Definition set_prog (s : wstate) (l : list (Z * progress)) : wstate :=
  mkW l (w_energy s) (w_tokens s) (w_last s) (w_first s) (w_btok s) (w_bsur s) (w_rewards s).
Definition set_energy (s : wstate) (l : list (Z * Z)) : wstate :=
  mkW (w_prog s) l (w_tokens s) (w_last s) (w_first s) (w_btok s) (w_bsur s) (w_rewards s).
Definition set_tokens (s : wstate) (l : list (Z * Z)) : wstate :=
  mkW (w_prog s) (w_energy s) l (w_last s) (w_first s) (w_btok s) (w_bsur s) (w_rewards s).
Definition set_last (s : wstate) (x : Z) : wstate :=
  mkW (w_prog s) (w_energy s) (w_tokens s) x (w_first s) (w_btok s) (w_bsur s) (w_rewards s).
Definition set_buckets (s : wstate) (f : Z) (bt bs : list (Z * Z)) : wstate :=
  mkW (w_prog s) (w_energy s) (w_tokens s) (w_last s) f bt bs (w_rewards s).
Definition set_rewards (s : wstate) (l : list (Z * list (Z * Z))) : wstate :=
  mkW (w_prog s) (w_energy s) (w_tokens s) (w_last s) (w_first s) (w_btok s) (w_bsur s) l.

(** ------------------------------------------------------------------ locked_token_buckets.rs *)
(** math::safe_sub *)
Definition safe_sub (a b : Z) : Z := if b <? a then a - b else 0.

Definition bucket_id_for (first : Z) (e : en) : option Z :=
  if en_tok e =? 0 then None
  else if en_amount e =? 0 then None
  else Some (en_amount e / en_tok e / EPOCHS_IN_WEEK + first).

Definition surplus_for (e : en) : Z :=
  if en_tok e =? 0 then 0 else en_amount e mod (en_tok e * EPOCHS_IN_WEEK).

(** one iteration per week passed: take the first bucket, drop its tokens from the total, deplete the
    total energy by a week of the remaining tokens plus the expiring bucket's surplus *)
Fixpoint shift_buckets (n : nat) (first : Z) (bt bs : list (Z * Z)) (tokens energy : Z)
  : result (Z * list (Z * Z) * list (Z * Z) * Z * Z) :=
  match n with
  | O => Ok (first, bt, bs, tokens, energy)
  | S n' =>
      do tokens' <- sub_chk tokens (aget bt first);
      let deplete := tokens' * EPOCHS_IN_WEEK + aget bs first in
      shift_buckets n' (first + 1) (aset bt first 0) (aset bs first 0) tokens' (safe_sub energy deplete)
  end.

(** reallocate_bucket_after_energy_update: returns the state and (had_prev, has_current) *)
Definition reallocate_bucket (s : wstate) (orig_prev depl_prev cur : en) : result (wstate * bool * bool) :=
  let ob := bucket_id_for (w_first s) depl_prev in
  do s1 <- match ob with
           | Some b =>
               do t <- sub_chk (aget (w_btok s) b) (en_tok orig_prev);
               do x <- sub_chk (aget (w_bsur s) b) (surplus_for orig_prev);
               Ok (set_buckets s (w_first s) (aset (w_btok s) b t) (aset (w_bsur s) b x))
           | None => Ok s
           end;
  let nb := bucket_id_for (w_first s1) cur in
  let s2 := match nb with
            | Some b =>
                set_buckets s1 (w_first s1) (aset (w_btok s1) b (aget (w_btok s1) b + en_tok cur))
                            (aset (w_bsur s1) b (aget (w_bsur s1) b + surplus_for cur))
            | None => s1
            end in
  Ok (s2, match ob with Some _ => true | None => false end, match nb with Some _ => true | None => false end).

(** ------------------------------------------------------------------ global_info.rs *)
Definition perform_weekly_update (s : wstate) (cw : Z) : result wstate :=
  if w_last s =? cw then Ok s else
  let s0 := set_last s cw in
  if w_last s =? 0 then Ok s0 else
  let lw := w_last s in
  let te := aget (w_energy s) lw in
  let tt := aget (w_tokens s) lw in
  check (lw <=? cw) else EArith;                                    (* usize subtraction *)
  do (f, bt, bs, tt', te') <- shift_buckets (Z.to_nat (cw - lw)) (w_first s) (w_btok s) (w_bsur s) tt te;
  let s1 := set_buckets s0 f bt bs in
  let s2 := set_energy s1 (aset (w_energy s1) cw te') in
  let s3 := set_tokens s2 (aset (aset (w_tokens s2) lw 0) cw tt') in          (* take() ... set() *)
  if USER_MAX_CLAIM_WEEKS + 1 <? cw then
    let iw := cw - USER_MAX_CLAIM_WEEKS - 1 in
    Ok (set_energy (set_rewards s3 (rset (w_rewards s3) iw [])) (aset (w_energy s3) iw 0))
  else Ok s3.

Definition update_global_amounts (s : wstate) (cw last_active : Z) (prev cur : en) : result wstate :=
  do s1 <- perform_weekly_update s cw;
  check (last_active <=? cw) else EArith;                           (* usize subtraction *)
  let prev_upd := if cw =? last_active then prev
                  else en_deplete prev (en_epoch prev + (cw - last_active) * EPOCHS_IN_WEEK) in
  do (s2, had_prev, has_cur) <- reallocate_bucket s1 prev prev_upd cur;
  let tl := aget (w_tokens s2) cw in
  do tl' <- (if had_prev && has_cur then sub_chk (tl + en_tok cur) (en_tok prev_upd)
             else if had_prev then sub_chk tl (en_tok prev_upd)
             else if has_cur then Ok (tl + en_tok cur)
             else Ok tl);
  let s3 := set_tokens s2 (aset (w_tokens s2) cw tl') in
  do te <- sub_chk (aget (w_energy s3) cw) (en_amount prev_upd);
  Ok (set_energy s3 (aset (w_energy s3) cw (te + en_amount cur))).

(** ------------------------------------------------------------------ update_claim_progress_energy.rs *)
Definition update_user_energy (s : wstate) (cw : Z) (cur : en) (op : option progress) : result wstate :=
  let '(last_active, prev) := match op with
                              | Some p => (pr_week p, pr_en p)
                              | None => (0, en_default)
                              end in
  update_global_amounts s cw last_active prev cur.

Definition store_progress (s : wstate) (user cw : Z) (cur : en) : wstate :=
  if 0 <? en_amount cur then set_prog s (pset (w_prog s) user (mkProg cur cw))
  else set_prog s (pdel (w_prog s) user).

Definition update_energy_and_progress (s : wstate) (user cw : Z) (cur : en) : result wstate :=
  do s1 <- update_user_energy s cw cur (pfind (w_prog s) user);
  Ok (store_progress s1 user cw cur).

(** endpoint updateEnergyForUser *)
Definition update_energy_for_user (s : wstate) (user cw : Z) (cur : en) : result wstate :=
  check (match pfind (w_prog s) user with Some p => pr_week p =? cw | None => true end) else EGuard;
  update_energy_and_progress s user cw cur.

(** clear_user_energy (used by the farms when a position falls below the minimum) *)
Definition clear_user_energy (s : wstate) (user cw epoch remaining min_amount : Z) : result wstate :=
  if min_amount <=? remaining then Ok s else
  do s1 <- update_user_energy s cw (en_zero epoch) (pfind (w_prog s) user);
  Ok (set_prog s1 (pdel (w_prog s1) user)).

(** ------------------------------------------------------------------ base_impl.rs + lib.rs *)
Section Host.
  Variable H : Type.
  (** collect_rewards_for_week: what the host hands over as the week's total, once *)
  Variable collect : H -> Z -> H * list (Z * Z).

  Definition collect_and_get (h : H) (s : wstate) (week : Z) : H * wstate * list (Z * Z) :=
    match rget (w_rewards s) week with
    | [] => let '(h', r) := collect h week in (h', set_rewards s (rset (w_rewards s) week r), r)
    | r => (h, s, r)
    end.

  (** amount * energy / total_energy per reward token, zero amounts dropped *)
  Fixpoint shares (tot : list (Z * Z)) (e E : Z) : list (Z * Z) :=
    match tot with
    | [] => []
    | (t, a) :: tl => let r := a * e / E in
                      if 0 <? r then (t, r) :: shares tl e E else shares tl e E
    end.

  (** default get_user_rewards_for_week (division only behind the total_energy == 0 return) *)
  Definition default_user_rewards (h : H) (s : wstate) (week e E : Z) : result (H * wstate * list (Z * Z)) :=
    if (e =? 0) || (E =? 0) then Ok (h, s, []) else
    let '(h', s', tot) := collect_and_get h s week in
    Ok (h', s', shares tot e E).
End Host.

Section Claim.
  Variable H : Type.
  (** get_user_rewards_for_week of the host: state, week, user energy amount, total energy of the week *)
  Variable hook : H -> wstate -> Z -> Z -> Z -> result (H * wstate * list (Z * Z)).

  Definition claim_single (h : H) (s : wstate) (p : progress)
    : result (H * wstate * progress * list (Z * Z)) :=
    let te := aget (w_energy s) (pr_week p) in
    do (h', s', r) <- hook h s (pr_week p) (en_amount (pr_en p)) te;
    Ok (h', s', advance_week p, r).

  (** the claim loop; returns the per-week breakdown (week, payments) — the endpoint returns the
      concatenation of the non-empty ones *)
  Fixpoint claim_weeks (n : nat) (h : H) (s : wstate) (p : progress)
    : result (H * wstate * progress * list (Z * list (Z * Z))) :=
    match n with
    | O => Ok (h, s, p, [])
    | S n' =>
        do (h1, s1, p1, r) <- claim_single h s p;
        do (h2, s2, p2, rs) <- claim_weeks n' h1 s1 p1;
        Ok (h2, s2, p2, (pr_week p, r) :: rs)
    end.

  (** [cur] = get_energy_entry(user): the factory's entry depleted to the current epoch *)
  Definition claim_multi (h : H) (s : wstate) (user cw : Z) (cur : en)
    : result (H * wstate * list (Z * list (Z * Z))) :=
    let op := pfind (w_prog s) user in
    let cp := match op with Some p => p | None => mkProg cur cw end in
    do s1 <- update_user_energy s cw cur op;
    check (pr_week cp <=? cw) else EArith;                          (* usize subtraction *)
    let total := cw - pr_week cp in
    let cp1 := if USER_MAX_CLAIM_WEEKS <? total
               then advance_multiple_weeks cp (total - USER_MAX_CLAIM_WEEKS) else cp in
    let n := Z.min total USER_MAX_CLAIM_WEEKS in
    do (h2, s2, _, detail) <- claim_weeks (Z.to_nat n) h s1 cp1;
    Ok (h2, store_progress s2 user cw cur, detail).
End Claim.

Definition flat_rewards (detail : list (Z * list (Z * Z))) : list (Z * Z) := concat (map snd detail).
