(** Executable model of the proxy DEX contract with SEVERAL intermediated pairs (property C16,
    continuation of Model/ProxyDex.v).

    Model/ProxyDex.v has one intermediated pair: every wrapped LP token records the same
    [lp_token_id], so the merge guard of
      locked-asset/proxy_dex/src/wrapped_lp_attributes.rs  (can_be_merged_externally_with:
                                                             same lp_token_id && same locked token id)
    can never fire there.  This file is the same contract, endpoint by endpoint and guard by guard,
    with
      - two intermediated pairs (pair ids 0 and 1; each has its own LP token and its own second
        token: [TK_OTHER] / [TK_OTHER2]); [m_lp] is the proxy's LP balance PER LP TOKEN ID;
      - [WrappedLpTokenAttributes.lp_token_id] ([ml_pair]) and the id of the locked token recorded
        ([ml_lid]) in every wrapped LP position;
      - the guards that compare them, exactly where the Rust evaluates them:
          wrapped_lp_attributes.rs    merge_wrapped_lp_tokens: every further token is compared with the
                                      FIRST one (error_if_not_externally_mergeable); the merged token takes
                                      the first token's lp_token_id and the sum of the LP amounts
          wrapped_lp_token_merge.rs   merge_wrapped_lp_tokens_with_virtual_pos: the first one is the new position
          wrapped_farm_attributes.rs  merge_wrapped_farm_tokens: same farm token id && same proxy farming token id,
                                      against the first; wrapped LP farming tokens go through merge_wrapped_lp_tokens
          proxy_pair.rs               removeLiquidityProxy sends the recorded lp_token_id to the pair named by the
                                      caller (the pair refuses another pair's LP token: a failing nested call)
          proxy_farm.rs               enterFarmProxy sends the recorded lp_token_id to the farm (the LP farm's
                                      farming token is pair 0's LP token).
    [ml_user] is the part of a wrapped LP nonce's supply that is in users' hands (total supply minus
    the proxy's own balance of the nonce): it is what the per-pair backing invariant sums.

    Everything that does not depend on the pair is taken from Model/ProxyDex.v unchanged: payments,
    energy arithmetic, rule_of_three, the environment record [env], the effect record [eff], wrapped
    farm positions [wfm], merge items.  Environment, transit convention and what is not modelled: as
    in Model/ProxyDex.v.  No proofs in this file. *)
From MX Require Import Base.Prelude Gen.Params Model.ProxyDex.

Definition TK_OTHER2 : Z := 5.    (* the second pool's other token *)
Definition other_tok (pid : Z) : Z := if pid =? 0 then TK_OTHER else TK_OTHER2.

(** ------------------------------------------------------------------ state *)
Record mwlp := mkMWlp {
  ml_pair : Z;     (* lp_token_id: the pair whose LP token is recorded *)
  ml_lid : Z;      (* locked_tokens.token_identifier (token code) *)
  ml_T : Z;        (* lp_token_amount recorded = supply at creation *)
  ml_k : Z;        (* locked token nonce recorded *)
  ml_L : Z;        (* locked token amount recorded *)
  ml_live : Z;     (* outstanding supply that can still be redeemed *)
  ml_dead : Z;     (* supply left unburned in the proxy after its content was re-wrapped *)
  ml_user : Z      (* supply in users' hands *)
}.

Record mstate := mkMSt {
  m_wlp : list mwlp;           (* wrapped LP nonce n is element n-1 *)
  m_wfm : list wfm;            (* wrapped farm nonce m is element m-1 *)
  m_hlp : list (Z * Z);        (* holders of wrapped LP tokens: key nonce*16 + account *)
  m_hfm : list (Z * Z);        (* holders of wrapped farm tokens *)
  m_base : Z;                  (* proxy's balance of the base asset *)
  m_other : Z;                 (* ... of the pools' other tokens *)
  m_lp : list (Z * Z);         (* ... of LP tokens, per pair id *)
  m_farm : list (Z * Z);       (* ... of farm tokens: key nonce*2 + farm *)
  m_locked : list (Z * Z);     (* ... of locked tokens per nonce *)
  m_pwlp : list (Z * Z);       (* ... of wrapped LP tokens per nonce *)
  m_pair0_ok : bool; m_pair1_ok : bool;     (* intermediated pairs *)
  m_farm0_ok : bool; m_farm1_ok : bool
}.

Definition minit : mstate := mkMSt [] [] [] [] 0 0 [] [] [] [] true true true true.

(** ------------------------------------------------------------------ record updates *)
Definition mu_wlp (s : mstate) (v : list mwlp) : mstate :=
  mkMSt v (m_wfm s) (m_hlp s) (m_hfm s) (m_base s) (m_other s) (m_lp s) (m_farm s) (m_locked s) (m_pwlp s)
        (m_pair0_ok s) (m_pair1_ok s) (m_farm0_ok s) (m_farm1_ok s).
Definition mu_wfm (s : mstate) (v : list wfm) : mstate :=
  mkMSt (m_wlp s) v (m_hlp s) (m_hfm s) (m_base s) (m_other s) (m_lp s) (m_farm s) (m_locked s) (m_pwlp s)
        (m_pair0_ok s) (m_pair1_ok s) (m_farm0_ok s) (m_farm1_ok s).
Definition mu_hlp (s : mstate) (v : list (Z * Z)) : mstate :=
  mkMSt (m_wlp s) (m_wfm s) v (m_hfm s) (m_base s) (m_other s) (m_lp s) (m_farm s) (m_locked s) (m_pwlp s)
        (m_pair0_ok s) (m_pair1_ok s) (m_farm0_ok s) (m_farm1_ok s).
Definition mu_hfm (s : mstate) (v : list (Z * Z)) : mstate :=
  mkMSt (m_wlp s) (m_wfm s) (m_hlp s) v (m_base s) (m_other s) (m_lp s) (m_farm s) (m_locked s) (m_pwlp s)
        (m_pair0_ok s) (m_pair1_ok s) (m_farm0_ok s) (m_farm1_ok s).
Definition mu_lp (s : mstate) (v : list (Z * Z)) : mstate :=
  mkMSt (m_wlp s) (m_wfm s) (m_hlp s) (m_hfm s) (m_base s) (m_other s) v (m_farm s) (m_locked s) (m_pwlp s)
        (m_pair0_ok s) (m_pair1_ok s) (m_farm0_ok s) (m_farm1_ok s).
Definition mu_farm (s : mstate) (v : list (Z * Z)) : mstate :=
  mkMSt (m_wlp s) (m_wfm s) (m_hlp s) (m_hfm s) (m_base s) (m_other s) (m_lp s) v (m_locked s) (m_pwlp s)
        (m_pair0_ok s) (m_pair1_ok s) (m_farm0_ok s) (m_farm1_ok s).
Definition mu_locked (s : mstate) (v : list (Z * Z)) : mstate :=
  mkMSt (m_wlp s) (m_wfm s) (m_hlp s) (m_hfm s) (m_base s) (m_other s) (m_lp s) (m_farm s) v (m_pwlp s)
        (m_pair0_ok s) (m_pair1_ok s) (m_farm0_ok s) (m_farm1_ok s).
Definition mu_pwlp (s : mstate) (v : list (Z * Z)) : mstate :=
  mkMSt (m_wlp s) (m_wfm s) (m_hlp s) (m_hfm s) (m_base s) (m_other s) (m_lp s) (m_farm s) (m_locked s) v
        (m_pair0_ok s) (m_pair1_ok s) (m_farm0_ok s) (m_farm1_ok s).
Definition mu_flags (s : mstate) (p0 p1 f0 f1 : bool) : mstate :=
  mkMSt (m_wlp s) (m_wfm s) (m_hlp s) (m_hfm s) (m_base s) (m_other s) (m_lp s) (m_farm s) (m_locked s) (m_pwlp s)
        p0 p1 f0 f1.

Definition w_live (w : mwlp) (v : Z) : mwlp :=
  mkMWlp (ml_pair w) (ml_lid w) (ml_T w) (ml_k w) (ml_L w) v (ml_dead w) (ml_user w).
Definition w_dead (w : mwlp) (v : Z) : mwlp :=
  mkMWlp (ml_pair w) (ml_lid w) (ml_T w) (ml_k w) (ml_L w) (ml_live w) v (ml_user w).
Definition w_user (w : mwlp) (v : Z) : mwlp :=
  mkMWlp (ml_pair w) (ml_lid w) (ml_T w) (ml_k w) (ml_L w) (ml_live w) (ml_dead w) v.

Definition pair_ok (s : mstate) (pid : Z) : bool :=
  if pid =? 0 then m_pair0_ok s else if pid =? 1 then m_pair1_ok s else false.
Definition mfarm_ok (s : mstate) (farm : Z) : bool :=
  if farm =? 0 then m_farm0_ok s else if farm =? 1 then m_farm1_ok s else false.

(** ------------------------------------------------------------------ primitive ledger moves *)
Definition mlocked_out (s : mstate) (k a : Z) : result mstate :=
  do l <- bal_sub (m_locked s) k a; Ok (mu_locked s l).
Definition mlocked_in (s : mstate) (k a : Z) : mstate := mu_locked s (bal_add (m_locked s) k a).

(** WrappedLpTokenAttributes::into_part: the locked tokens that go with [a] wrapped LP tokens *)
Definition mpart_wlp (w : mwlp) (a : Z) : result Z := rule3 (ml_T w) a (ml_L w).

(** [a] wrapped LP tokens of nonce [n] are redeemed out of the live supply: their locked tokens are
    taken into the proxy's hand.  Returns the attributes and the locked amount. *)
Definition mrelease_wlp (s : mstate) (n a : Z) : result (mstate * (mwlp * Z)) :=
  match getn (m_wlp s) n with
  | None => Err EGuard
  | Some w =>
      check 0 <? a else EGuard;
      do lp <- mpart_wlp w a;
      do live <- sub_chk (ml_live w) a;
      let s1 := mu_wlp s (setn (m_wlp s) n (w_live w live)) in
      do s2 <- mlocked_out s1 (ml_k w) lp;
      Ok (s2, (w, lp))
  end.

(** a user pays [a] wrapped LP tokens of nonce [n]: they leave the users' hands, and the LP tokens
    behind them -- LP tokens of the pair RECORDED in the attributes -- are taken into the proxy's hand *)
Definition wlp_from_user (s : mstate) (u n a : Z) : result (mstate * mwlp) :=
  match getn (m_wlp s) n with
  | None => Err EGuard
  | Some w =>
      do h <- bal_sub (m_hlp s) (hkey n u) a;
      do l <- bal_sub (m_lp s) (ml_pair w) a;
      Ok (mu_lp (mu_wlp (mu_hlp s h) (setn (m_wlp s) n (w_user w (ml_user w - a)))) l, w)
  end.

(** [a] wrapped LP tokens of the existing nonce [n] are handed to user [u]; [lpa] LP tokens of the
    recorded pair are deposited *)
Definition wlp_to_user (s : mstate) (u n a lpa : Z) : result mstate :=
  match getn (m_wlp s) n with
  | None => Err EGuard
  | Some w =>
      Ok (mu_lp (mu_wlp (mu_hlp s (bal_add (m_hlp s) (hkey n u) a)) (setn (m_wlp s) n (w_user w (ml_user w + a))))
                (bal_add (m_lp s) (ml_pair w) lpa))
  end.

(** the payment is burned (now or later in the transaction); LP tokens and locked tokens behind it
    are in the proxy's hand *)
Definition mtake_wlp_user (s : mstate) (u n a : Z) : result (mstate * (mwlp * Z)) :=
  do r <- wlp_from_user s u n a;
  let '(s1, _) := r in
  mrelease_wlp s1 n a.

(** wrapped LP tokens the proxy holds stay in its balance unburned while their content is re-wrapped *)
Definition mkill_wlp (s : mstate) (n a : Z) : result (mstate * (mwlp * Z)) :=
  do r <- mrelease_wlp s n a;
  let '(s1, wl) := r in
  match getn (m_wlp s1) n with
  | None => Err EGuard
  | Some w =>
      let s2 := mu_wlp s1 (setn (m_wlp s1) n (w_dead w (ml_dead w + a))) in
      Ok (mu_pwlp s2 (bal_add (m_pwlp s2) n a), wl)
  end.

(** nft_create of a wrapped LP token with attributes (pair, T, (lid, k, L)), [usr] of it going to users;
    the locked tokens are deposited.  Returns the new nonce. *)
Definition mmint_wlp (s : mstate) (pid lid T k L usr : Z) : mstate * Z :=
  let n := next_nonce (m_wlp s) in
  (mlocked_in (mu_wlp s (m_wlp s ++ [mkMWlp pid lid T k L T 0 usr])) k L, n).

(** ... sent to a user; [lpa] LP tokens of pair [pid] are deposited as well *)
Definition mmint_wlp_to (s : mstate) (u pid lid T k L lpa : Z) : mstate * Z :=
  let '(s1, n) := mmint_wlp s pid lid T k L T in
  (mu_lp (mu_hlp s1 (bal_add (m_hlp s1) (hkey n u) T)) (bal_add (m_lp s1) pid lpa), n).

(** ... the LP tokens recorded *)
Definition mmint_wlp_user (s : mstate) (u pid lid T k L : Z) : mstate * Z := mmint_wlp_to s u pid lid T k L T.

(** a user pays [a] wrapped farm tokens of nonce [m] *)
Definition mtake_wfm (s : mstate) (u m a : Z) : result (mstate * (wfm * Z)) :=
  match getn (m_wfm s) m with
  | None => Err EGuard
  | Some w =>
      check 0 <? a else EGuard;
      do h <- bal_sub (m_hfm s) (hkey m u) a;
      do pp <- part_wfm w a;
      do sup <- sub_chk (wf_sup w) a;
      do fb <- bal_sub (m_farm s) (fkey (wf_f w) (wf_farm w)) a;
      let s1 := mu_farm (mu_hfm (mu_wfm s (setn (m_wfm s) m
                  (mkWfm (wf_farm w) (wf_f w) (wf_T w) (wf_kind w) (wf_pn w) (wf_P w) sup))) h) fb in
      do s2 <- (if wf_kind w =? 0 then mlocked_out s1 (wf_pn w) pp
                else do l <- bal_sub (m_pwlp s1) (wf_pn w) pp; Ok (mu_pwlp s1 l));
      Ok (s2, (w, pp))
  end.

Definition mmint_wfm (s : mstate) (u farm f T kind pn P : Z) : mstate * Z :=
  let m := next_nonce (m_wfm s) in
  let s1 := mu_wfm s (m_wfm s ++ [mkWfm farm f T kind pn P T]) in
  let s2 := mu_farm (mu_hfm s1 (bal_add (m_hfm s1) (hkey m u) T)) (bal_add (m_farm s1) (fkey f farm) T) in
  (if kind =? 0 then mlocked_in s2 pn P else mu_pwlp s2 (bal_add (m_pwlp s2) pn P), m).

(** ------------------------------------------------------------------ merging *)
(** ExternallyMergeable for WrappedLpTokenAttributes, against the first token of the merge
    ([None]: this IS the first token) *)
Definition mergeable (fst : option (Z * Z)) (w : mwlp) : bool :=
  match fst with
  | None => true
  | Some (pid, lid) => (ml_pair w =? pid) && (ml_lid w =? lid)
  end.
Definition first_of (fst : option (Z * Z)) (w : mwlp) : option (Z * Z) :=
  match fst with None => Some (ml_pair w, ml_lid w) | Some _ => fst end.

(** burn the wrapped LP payments of a merge one by one; accumulates (LP total, locked parts total) *)
Fixpoint mtake_wlp_list (s : mstate) (u : Z) (fst : option (Z * Z)) (ps : list pay) : result (mstate * (Z * Z)) :=
  match ps with
  | [] => Ok (s, (0, 0))
  | p :: t =>
      check p_tok p =? TK_WLP else EGuard;
      do r <- mtake_wlp_user s u (p_non p) (p_amt p);
      let '(s1, (w, lp)) := r in
      check mergeable fst w else EGuard;               (* error_if_not_externally_mergeable *)
      do r2 <- mtake_wlp_list s1 u (first_of fst w) t;
      let '(s2, (ta, tl)) := r2 in
      Ok (s2, (p_amt p + ta, lp + tl))
  end.

Fixpoint mtake_wfm_list (s : mstate) (u : Z) (ps : list pay) : result (mstate * list item) :=
  match ps with
  | [] => Ok (s, [])
  | p :: t =>
      check p_tok p =? TK_WFM else EGuard;
      do r <- mtake_wfm s u (p_non p) (p_amt p);
      let '(s1, (w, pp)) := r in
      do r2 <- mtake_wfm_list s1 u t;
      let '(s2, its) := r2 in
      Ok (s2, mk_item (wf_farm w) (p_amt p) (wf_kind w) (wf_pn w) pp :: its)
  end.

(** merge_wrapped_lp_tokens over wrapped LP tokens the proxy holds (they die) *)
Fixpoint mkill_items (s : mstate) (fst : option (Z * Z)) (its : list item) : result (mstate * (Z * Z)) :=
  match its with
  | [] => Ok (s, (0, 0))
  | (_, _, _, pn, pp) :: t =>
      do r <- mkill_wlp s pn pp;
      let '(s1, (w, lq)) := r in
      check mergeable fst w else EGuard;
      do r2 <- mkill_items s1 (first_of fst w) t;
      let '(s2, (ta, tl)) := r2 in
      Ok (s2, (pp + ta, lq + tl))
  end.

(** merge_wrapped_farm_tokens: all items are in the proxy's hand *)
Definition mmerge_items (s : mstate) (u farm : Z) (its : list item) (e : env)
  : result (mstate * (Z * Z * bool)) :=
  match its with
  | [] => Err EGuard
  | (fa, _, kind, pn0, _) :: _ =>
      check items_same fa kind its else EGuard;       (* same farm token id && same proxy farming token id *)
      check fa =? farm else EExt;                     (* the farm only takes its own farm token *)
      check v_ok e else EExt;
      let '(kf, lf) := v_fact e in
      let '(f', F') := v_fmerge e in
      if kind =? 0 then
        let '(s1, m) := mmint_wfm s u farm f' F' 0 kf lf in
        Ok (s1, (m, F', (lf =? items_pp_total its) && (F' =? items_farm_total its)))
      else
        match getn (m_wlp s) pn0 with
        | None => Err EGuard
        | Some w0 =>
            do r <- mkill_items s None its;
            let '(s1, (tw, tl)) := r in
            let '(s2, n) := mmint_wlp s1 (ml_pair w0) (ml_lid w0) tw kf lf 0 in
            let '(s3, m) := mmint_wfm s2 u farm f' F' 1 n tw in
            Ok (s3, (m, F', (lf =? tl) && (F' =? items_farm_total its)))
        end
  end.

(** ------------------------------------------------------------------ endpoints *)
Definition mep_add_liq (s : mstate) (u pairid : Z) (p1 p2 : pay) (extra : list pay) (e : env)
  : result (mstate * eff) :=
  check pair_ok s pairid else EGuard;
  let l1 := p_tok p1 =? TK_LOCKED in
  let l2 := p_tok p2 =? TK_LOCKED in
  check xorb l1 l2 else EGuard;
  check (0 <? p_amt p1) && (0 <? p_amt p2) else EGuard;
  let pl := if l1 then p1 else p2 in
  let minted := p_amt pl in
  check v_ok e else EExt;
  let '(lp, used1, used2) := v_pair e in
  do left1 <- sub_chk (p_amt p1) used1;
  do left2 <- sub_chk (p_amt p2) used2;
  let locked_used := if l1 then used1 else used2 in
  let lleft := if l1 then left1 else left2 in
  let oleft := if l1 then left2 else left1 in
  let law := (0 <? lp) && (0 <=? locked_used) in
  match extra with
  | [] =>
      let '(s1, n) := mmint_wlp_user s u pairid (p_tok pl) lp (p_non pl) locked_used in
      Ok (s1, mkEff [(TK_WLP, n, lp); (TK_LOCKED, p_non pl, lleft); (other_tok pairid, 0, oleft)]
                    minted lleft (0, 0) None law)
  | _ =>
      (* the first token of the merge is the new (virtual) position: lp_token_id of THIS pair *)
      do r <- mtake_wlp_list s u (Some (pairid, p_tok pl)) extra;
      let '(s1, (ta, tl)) := r in
      do _ <- rule3 lp lp locked_used;
      let '(kf, lf) := v_fact e in
      let '(s2, n) := mmint_wlp_user s1 u pairid (p_tok pl) (lp + ta) kf lf in
      Ok (s2, mkEff [(TK_WLP, n, lp + ta); (TK_LOCKED, p_non pl, lleft); (other_tok pairid, 0, oleft)]
                    minted lleft (0, 0) None (law && (lf =? locked_used + tl)))
  end.

Definition mep_remove_liq (s : mstate) (u pairid : Z) (p : pay) (e : env) : result (mstate * eff) :=
  check pair_ok s pairid else EGuard;
  check p_tok p =? TK_WLP else EGuard;
  do r <- mtake_wlp_user s u (p_non p) (p_amt p);
  let '(s1, (w, lp)) := r in
  check ml_pair w =? pairid else EExt;                (* the pair only takes its own LP token *)
  check v_ok e else EExt;
  let '(_, rb, ro) := v_pair e in
  let k := ml_k w in
  if lp <? rb then
    Ok (s1, mkEff [(TK_BASE, 0, rb - lp); (TK_LOCKED, k, lp); (other_tok pairid, 0, ro)] 0 lp (0, 0) None true)
  else
    let extra := lp - rb in
    do en <- burn_energy e extra;
    Ok (s1, mkEff [(TK_LOCKED, k, rb); (other_tok pairid, 0, ro)] 0 rb (k, extra) en (0 <=? rb)).

Definition mep_enter_farm (s : mstate) (u farm : Z) (p : pay) (extra : list pay) (e : env)
  : result (mstate * eff) :=
  check mfarm_ok s farm else EGuard;
  check 0 <? p_amt p else EGuard;
  let a := p_amt p in
  do r0 <- (if p_tok p =? TK_LOCKED then
              check farm =? 0 else EExt;
              Ok (s, 0, a)
            else if p_tok p =? TK_WLP then
              match getn (m_wlp s) (p_non p) with
              | None => Err EGuard
              | Some w =>
                  do _ <- mpart_wlp w a;
                  do r <- wlp_from_user s u (p_non p) a;          (* the LP tokens go to the farm *)
                  let '(s1, _) := r in
                  (* the LP farm's farming token is pair 0's LP token *)
                  check (farm =? 1) && (ml_pair w =? 0) else EExt;
                  Ok (s1, 1, 0)
              end
            else Err EGuard);
  let '(s1, kind, minted) := r0 in
  check v_ok e else EExt;
  let '(f, F) := v_farm e in
  let '(rk, ra) := v_rew e in
  match extra with
  | [] =>
      let '(s2, m) := mmint_wfm s1 u farm f F kind (p_non p) a in
      Ok (s2, mkEff [(TK_WFM, m, F); (TK_LOCKED, rk, ra)] minted 0 (0, 0) None (F =? a))
  | _ =>
      do r <- mtake_wfm_list s1 u extra;
      let '(s2, its) := r in
      do _ <- rule3 F F a;
      do r2 <- mmerge_items s2 u farm (mk_item farm F kind (p_non p) a :: its) e;
      let '(s5, (m, amt, law)) := r2 in
      Ok (s5, mkEff [(TK_WFM, m, amt); (TK_LOCKED, rk, ra)] minted 0 (0, 0) None ((F =? a) && law))
  end.

Definition mep_exit_farm (s : mstate) (u farm : Z) (p : pay) (e : env) : result (mstate * eff) :=
  check mfarm_ok s farm else EGuard;
  check p_tok p =? TK_WFM else EGuard;
  let a := p_amt p in
  do r <- mtake_wfm s u (p_non p) a;
  let '(s1, (w, pp)) := r in
  check wf_farm w =? farm else EExt;
  check v_ok e else EExt;
  let F := snd (v_farm e) in
  let '(rk, ra) := v_rew e in
  let bburn := if farm =? 0 then F else 0 in
  check F <=? a else EGuard;
  if F =? a then
    if wf_kind w =? 0 then
      Ok (s1, mkEff [(TK_LOCKED, wf_pn w, pp); (TK_LOCKED, rk, ra)] 0 bburn (0, 0) None (0 <=? F))
    else
      (* the recorded wrapped LP tokens go back to the caller; the farm returned the LP tokens *)
      do s2 <- wlp_to_user s1 u (wf_pn w) pp F;
      Ok (s2, mkEff [(TK_WLP, wf_pn w, pp); (TK_LOCKED, rk, ra)] 0 bburn (0, 0) None (0 <=? F))
  else
    let pen := a - F in
    do rem <- sub_chk pp pen;
    if wf_kind w =? 0 then
      do en <- burn_energy e pen;
      Ok (s1, mkEff [(TK_LOCKED, wf_pn w, rem); (TK_LOCKED, rk, ra)] 0 bburn (wf_pn w, pen) en (0 <=? F))
    else
      match getn (m_wlp s1) (wf_pn w) with
      | None => Err EGuard
      | Some wl =>
          do lnew <- mpart_wlp wl rem;
          do r2 <- mkill_wlp s1 (wf_pn w) pp;
          let '(s2, (_, lold)) := r2 in
          do extra <- sub_chk lold lnew;
          do en <- burn_energy e extra;
          let k := ml_k wl in
          (* a new wrapped LP token for what is left goes to the caller; the farm returned F LP tokens *)
          let '(s3, n) := mmint_wlp_to s2 u (ml_pair wl) (ml_lid wl) rem k lnew F in
          Ok (s3, mkEff [(TK_WLP, n, rem); (TK_LOCKED, rk, ra)] 0 bburn (k, extra) en (0 <=? F))
      end.

Definition mep_claim (s : mstate) (u farm : Z) (p : pay) (e : env) : result (mstate * eff) :=
  check mfarm_ok s farm else EGuard;
  check p_tok p =? TK_WFM else EGuard;
  do r <- mtake_wfm s u (p_non p) (p_amt p);
  let '(s1, (w, pp)) := r in
  check wf_farm w =? farm else EExt;
  check v_ok e else EExt;
  let '(f, F) := v_farm e in
  let '(rk, ra) := v_rew e in
  let '(s2, m) := mmint_wfm s1 u farm f F (wf_kind w) (wf_pn w) pp in
  Ok (s2, no_eff [(TK_WFM, m, F); (TK_LOCKED, rk, ra)] (F =? p_amt p)).

(** mergeWrappedLpTokens: the merged token takes the FIRST token's lp_token_id *)
Definition mep_merge_wlp (s : mstate) (u : Z) (ps : list pay) (e : env) : result (mstate * eff) :=
  check PROXY_MIN_MERGE_PAYMENTS <=? Z.of_nat (length ps) else EGuard;
  match ps with
  | [] => Err EGuard
  | p0 :: _ =>
      match getn (m_wlp s) (p_non p0) with
      | None => Err EGuard
      | Some w0 =>
          do r <- mtake_wlp_list s u None ps;
          let '(s1, (ta, tl)) := r in
          check v_ok e else EExt;
          let '(kf, lf) := v_fact e in
          let '(s2, n) := mmint_wlp_user s1 u (ml_pair w0) (ml_lid w0) ta kf lf in
          Ok (s2, no_eff [(TK_WLP, n, ta)] (lf =? tl))
      end
  end.

Definition mep_merge_wfm (s : mstate) (u farm : Z) (ps : list pay) (e : env) : result (mstate * eff) :=
  check mfarm_ok s farm else EGuard;
  check PROXY_MIN_MERGE_PAYMENTS <=? Z.of_nat (length ps) else EGuard;
  do r <- mtake_wfm_list s u ps;
  let '(s1, its) := r in
  do r2 <- mmerge_items s1 u farm its e;
  let '(s2, (m, amt, law)) := r2 in
  let '(rk, ra) := v_rew e in
  Ok (mlocked_in s2 rk ra, no_eff [(TK_WFM, m, amt)] (law && (0 <=? ra))).

Definition mep_inc_lp (s : mstate) (u : Z) (p : pay) (e : env) : result (mstate * eff) :=
  check p_tok p =? TK_WLP else EGuard;
  do r <- mtake_wlp_user s u (p_non p) (p_amt p);
  let '(s1, (w, lp)) := r in
  check v_ok e else EExt;
  let '(kf, lf) := v_fact e in
  let '(s2, n) := mmint_wlp_user s1 u (ml_pair w) (ml_lid w) (p_amt p) kf lf in
  Ok (s2, no_eff [(TK_WLP, n, p_amt p)] (lf =? lp)).

Definition mep_inc_fm (s : mstate) (u : Z) (p : pay) (e : env) : result (mstate * eff) :=
  check p_tok p =? TK_WFM else EGuard;
  let a := p_amt p in
  do r <- mtake_wfm s u (p_non p) a;
  let '(s1, (w, pp)) := r in
  let '(kf, lf) := v_fact e in
  if wf_kind w =? 0 then
    check v_ok e else EExt;
    let '(s2, m) := mmint_wfm s1 u (wf_farm w) (wf_f w) a 0 kf lf in
    Ok (s2, no_eff [(TK_WFM, m, a)] (lf =? pp))
  else
    do r2 <- mrelease_wlp s1 (wf_pn w) pp;
    let '(s2, (wl, lq)) := r2 in
    check v_ok e else EExt;
    let '(s3, n) := mmint_wlp s2 (ml_pair wl) (ml_lid wl) pp kf lf 0 in
    let '(s4, m) := mmint_wfm s3 u (wf_farm w) (wf_f w) a 1 n pp in
    Ok (s4, no_eff [(TK_WFM, m, a)] (lf =? lq)).

Definition mep_xfer_wlp (s : mstate) (src dst n a : Z) : result (mstate * eff) :=
  check 0 <? a else EGuard;
  do h <- bal_sub (m_hlp s) (hkey n src) a;
  Ok (mu_hlp s (bal_add h (hkey n dst) a), no_eff [] true).

Definition mep_xfer_wfm (s : mstate) (src dst n a : Z) : result (mstate * eff) :=
  check 0 <? a else EGuard;
  do h <- bal_sub (m_hfm s) (hkey n src) a;
  Ok (mu_hfm s (bal_add h (hkey n dst) a), no_eff [] true).

Inductive mop :=
| MAddLiq (u pairid : Z) (p1 p2 : pay) (extra : list pay) (e : env)
| MRemoveLiq (u pairid : Z) (p : pay) (e : env)
| MEnterFarm (u farm : Z) (p : pay) (extra : list pay) (e : env)
| MExitFarm (u farm : Z) (p : pay) (e : env)
| MClaimRew (u farm : Z) (p : pay) (e : env)
| MMergeWlp (u : Z) (ps : list pay) (e : env)
| MMergeWfm (u farm : Z) (ps : list pay) (e : env)
| MIncLp (u : Z) (p : pay) (e : env)
| MIncFm (u : Z) (p : pay) (e : env)
| MSetPair (u pairid : Z) (b : bool)
| MSetFarm (u farm : Z) (b : bool)
| MXferWlp (src dst n a : Z)
| MXferWfm (src dst n a : Z).

Definition mstep (s : mstate) (o : mop) : result (mstate * eff) :=
  match o with
  | MAddLiq u pid p1 p2 extra e => mep_add_liq s u pid p1 p2 extra e
  | MRemoveLiq u pid p e => mep_remove_liq s u pid p e
  | MEnterFarm u farm p extra e => mep_enter_farm s u farm p extra e
  | MExitFarm u farm p e => mep_exit_farm s u farm p e
  | MClaimRew u farm p e => mep_claim s u farm p e
  | MMergeWlp u ps e => mep_merge_wlp s u ps e
  | MMergeWfm u farm ps e => mep_merge_wfm s u farm ps e
  | MIncLp u p e => mep_inc_lp s u p e
  | MIncFm u p e => mep_inc_fm s u p e
  | MSetPair u pid b =>
      check u =? OWNER else EPerm;
      check (pid =? 0) || (pid =? 1) else EGuard;
      check b || pair_ok s pid else EGuard;            (* removeIntermediatedPair requires membership *)
      Ok (if pid =? 0 then mu_flags s b (m_pair1_ok s) (m_farm0_ok s) (m_farm1_ok s)
          else mu_flags s (m_pair0_ok s) b (m_farm0_ok s) (m_farm1_ok s), no_eff [] true)
  | MSetFarm u farm b =>
      check u =? OWNER else EPerm;
      check (farm =? 0) || (farm =? 1) else EGuard;
      check b || mfarm_ok s farm else EGuard;
      Ok (if farm =? 0 then mu_flags s (m_pair0_ok s) (m_pair1_ok s) b (m_farm1_ok s)
          else mu_flags s (m_pair0_ok s) (m_pair1_ok s) (m_farm0_ok s) b, no_eff [] true)
  | MXferWlp src dst n a => mep_xfer_wlp s src dst n a
  | MXferWfm src dst n a => mep_xfer_wfm s src dst n a
  end.

(** a failed transaction leaves the state unchanged *)
Definition mstep_total (s : mstate) (o : mop) : mstate :=
  match mstep s o with Ok (s', _) => s' | Err _ => s end.

Definition mrun (s : mstate) (ops : list mop) : mstate := fold_left mstep_total ops s.

(** a run all of whose nested responses obey the interface laws *)
Fixpoint mlawful (s : mstate) (ops : list mop) : bool :=
  match ops with
  | [] => true
  | o :: t =>
      match mstep s o with
      | Ok (s', x) => x_law x && mlawful s' t
      | Err _ => mlawful s t
      end
  end.
