(** CLOSED composition of the metastaking system: ONE model in which the answers the farm-staking-proxy gets from
    its callees are COMPUTED by the callee models instead of being inputs.

      proxy            Model/MetaStaking.v   (state [MS.st]; its endpoints are run on the computed answers)
      LP farm          Model/FarmLocked.v    (farm-with-locked-rewards over Model/Farm.v - the LP farm of the C15 world,
                                              tools/sys_metastaking.py)
      staking farm     Model/StakingPos.v    (position-level farm-staking over Model/Staking.v)
      pair             Model/Pair.v          (removeLiquidity; the LP-token ledger [p_lp] carries the LP tokens between
                                              users, the LP farm and the proxy)
      permissions hub  Model/Access.v        ([Access.hub], for the on-behalf endpoints)

    Every proxy endpoint (stakeFarmTokens, claimDualYield, unstakeFarmTokens and - by the composition of
    Model/MetaBehalf.v - stakeFarmOnBehalf, claimDualYieldOnBehalf) performs the callee calls of
    external_contracts_interactions.rs ON THE CALLEE MODELS, decodes their outputs into the answer record of
    Model/MetaStaking.v with the [answer_of_...] functions (Proofs/LawsC15.v for the staking farm; the LP farm's and the
    pair's are defined here the same way) and runs the MetaStaking step on that record.

    THE ORIGINAL CALLER.  The proxy calls both farms with the USER as original caller.
      * Model/StakingPos.v has the argument: [PStakeProxy / PClaimNewValue / PUnstakeProxy blk ep PROXY u ...].
      * Model/Farm.v / FarmLocked.v do NOT have it (position owner = caller = payer = receiver).  The call
        "claimRewards(Some(u)) by the proxy with token t" is composed as in Model/FarmBehalf.v:
            FTransfer t PROXY -> u ; the user's own claimRewards ; FTransfer new token u -> PROXY            [lp_via_user]
        which is exact on the farm's state (burn from the call value, check_and_update_user_farm_position(u),
        boosted rewards / energy / claim progress of u, new position with original_owner = u); what differs in the real
        contract is only the RECEIVER of the rewards (the proxy, which forwards them to the user in the same transaction)
        - the model's receipts name the user directly.
    WHAT STAYS AN INPUT (and why):
      * the pair's safe-price answer [spa] (updateAndGetTokensForGivenPositionWithSafePrice) and whether the pair has a
        price at all [fail]: the observation ring of Model/SafePrice.v and the reserves of Model/Pair.v are two separate
        models with no common state (the ring is fed by the start-of-round reserves of every pair operation); law L6
        (shape) is checked where the answer is consumed, L7 (= C13's time-weighted average) is Props/C15.v's
        [C15_safe_twap], stated on Model/SafePrice.v;
      * the boosted payouts [bs] (staking farm) and [bl] (LP farm) of each call: inputs of Model/Farm.v / StakingPos.v
        themselves (computed by Model/Boosted.v on the weekly module state; the closed farm model is Model/FarmFull.v),
        guarded by the farms' own pool counters;
      * block nonce and epoch of each transaction.

    Accounts: users 1..9, PROXY = 50 (the farm-staking-proxy in all three callee models), LPFARM = 60 (the LP farm as a
    holder of LP tokens in the pair's ledger), OWNER = 100.  LP tokens: enterFarm moves them user -> LPFARM, exitFarm
    LPFARM -> receiver; the early-exit penalty is BURNED by the farm (pair address zero in the world's set-up:
    esdt_local_burn) - outside the pair, whose lp_token_supply does not move.  No proofs in this file. *)
From MX Require Import Base.Prelude Gen.Params.
From MX Require Model.MetaStaking Model.Farm Model.FarmLocked Model.FarmBehalf Model.Staking Model.StakingPos Model.Pair Model.Access.
From MX Require Proofs.LawsC15.

Module MS := MX.Model.MetaStaking.
Module F := MX.Model.Farm.
Module FL := MX.Model.FarmLocked.
Module FB := MX.Model.FarmBehalf.
Module ST := MX.Model.Staking.
Module SP := MX.Model.StakingPos.
Module PR := MX.Model.Pair.
Module AC := MX.Model.Access.
Module L15 := MX.Proofs.LawsC15.

Definition PX : Z := ST.PROXY.
Definition LPFARM : Z := 60.

Record cst := mkC {
  c_ms : MS.st;            (* the proxy *)
  c_lf : FL.lfarm;         (* the LP farm *)
  c_sp : SP.spos;          (* the staking farm *)
  c_pair : PR.pair;        (* the pair *)
  c_hub : AC.hub;          (* the permissions hub *)
  c_stkfirst : bool        (* the staking token is the pair's first token *)
}.

Definition with_ms (cs : cst) (ms : MS.st) : cst := mkC ms (c_lf cs) (c_sp cs) (c_pair cs) (c_hub cs) (c_stkfirst cs).

Definition opt {A} (o : option A) : result A := match o with Some a => Ok a | None => Err EExt end.

(** ------------------------------------------------------------------ decoding the callees' outputs *)
(** the LP farm's claimRewards returns (new farm token, rewards) *)
Definition answer_of_lp_claimRewards (rest : MS.env_claim) (o : F.fouts) : option MS.env_claim :=
  match o with
  | [n; amt; r] => Some (MS.mkEC (MS.ec_fail rest) (MS.ec_sp rest) n amt r (MS.ec_sfn rest) (MS.ec_sfa rest) (MS.ec_rs rest))
  | _ => None
  end.

(** the LP farm's mergeFarmTokens returns (merged farm token, boosted rewards) *)
Definition answer_of_lp_mergeFarmTokens (rest : MS.env_stake) (o : F.fouts) : option MS.env_stake :=
  match o with
  | [n; amt; r] => Some (MS.mkES (MS.es_fail rest) (MS.es_sp rest) (MS.es_sfn rest) (MS.es_sfa rest) (MS.es_bs rest) n amt r)
  | _ => None
  end.

(** the LP farm's exitFarm returns (farming tokens, rewards) *)
Definition answer_of_lp_exitFarm (rest : MS.env_unstake) (o : F.fouts) : option MS.env_unstake :=
  match o with
  | [out; r] => Some (MS.mkEU (MS.eu_fail rest) out r (MS.eu_rm rest) (MS.eu_ubn rest) (MS.eu_uba rest) (MS.eu_rs rest))
  | _ => None
  end.

(** the pair's removeLiquidity returns (first pool token, second pool token); the token codes of Model/MetaStaking.v *)
Definition tok_code (stkfirst : bool) (t : Z) : Z :=
  if t =? PR.T1 then (if stkfirst then MS.TK_STK else MS.TK_OTH) else (if stkfirst then MS.TK_OTH else MS.TK_STK).

Definition answer_of_pair_removeLiquidity (stkfirst : bool) (rest : MS.env_unstake) (o : PR.outs) : option MS.env_unstake :=
  match o with
  | [x1; x2] => Some (MS.mkEU (MS.eu_fail rest) (MS.eu_lp rest) (MS.eu_rl rest)
                              (tok_code stkfirst PR.T1, x1, tok_code stkfirst PR.T2, x2)
                              (MS.eu_ubn rest) (MS.eu_uba rest) (MS.eu_rs rest))
  | _ => None
  end.

(** ------------------------------------------------------------------ the proxy's calls to the LP farm *)
(** a call with original caller [u] and the position payments [toks] (held by the proxy); [back]: the first two results
    are a position token, which returns to the proxy *)
Definition lp_via_user (lf : FL.lfarm) (u : Z) (toks : list (Z * Z)) (op : F.fop) (back : bool)
  : result (FL.lfarm * F.fouts * list FL.receipt) :=
  do lf1 <- FB.lseq lf (map (FB.xfer PX u) toks);
  do r <- FL.lstep lf1 (FL.LF op);
  let '(lf2, o, rc) := r in
  if back then
    do r' <- FL.lstep lf2 (FL.LF (F.FTransfer (nth 0 o 0) u PX (nth 1 o 0)));
    Ok (fst (fst r'), o, rc)
  else Ok (lf2, o, rc).

Definition sf_toks (parts : list MS.dattr) : list (Z * Z) := map (fun p => (MS.d_sfn p, MS.d_sfa p)) parts.
Definition lp_toks (parts : list MS.dattr) : list (Z * Z) := map (fun p => (MS.d_lpn p, MS.d_lpa p)) parts.

Definition rest_stake (spa : MS.two) : MS.env_stake := MS.mkES false spa 0 0 0 0 0 0.
Definition rest_claim (spa : MS.two) : MS.env_claim := MS.mkEC false spa 0 0 0 0 0 0.
Definition rest_unstake : MS.env_unstake := MS.mkEU false 0 0 (0, 0, 0, 0) 0 0 0.

(** ------------------------------------------------------------------ the proxy's endpoints *)
(** stake_farm_tokens_common: [pc] sent the LP-farm token, [u] is the original caller (and pays the dual-yield tokens);
    [fail] / [spa]: the pair has no safe price / its answer;  [bs] [bl]: boosted payouts of the two farm calls *)
Definition c_stake (cs : cst) (blk ep pc u : Z) (pays : list MS.pay) (fail : bool) (spa : MS.two) (bs bl : Z)
  : result (cst * MS.outs * list MS.call * MS.env_stake) :=
  match pays with
  | [] => Err EGuard
  | first :: adds =>
      check (MS.p_tok first =? MS.TK_LPF) else EGuard;
      check forallb MS.is_dy adds else EGuard;
      let k := MS.p_nonce first in
      let a := MS.p_amt first in
      (* the LP-farm payment arrives at the proxy *)
      do r0 <- FL.lstep (c_lf cs) (FL.LF (F.FTransfer k pc PX a));
      let lf0 := fst (fst r0) in
      do rp <- MS.release_all (c_ms cs) u adds;
      let parts := snd rp in
      check negb fail else EExt;
      do pk <- MS.pick_staking spa;
      let v := fst (fst pk) in
      (* staking_farm_enter *)
      do rs <- SP.pstep (c_sp cs) (SP.PStakeProxy blk ep PX u v (sf_toks parts) bs);
      do e1 <- opt (L15.answer_of_stakeFarmThroughProxy (rest_stake spa) (snd rs));
      (* merge_lp_farm_tokens *)
      do rm <- match adds with
               | [] => Ok (lf0, e1)
               | _ =>
                   let toks := lp_toks parts ++ [(k, a)] in
                   do r <- lp_via_user lf0 u toks (F.FMerge blk ep u toks bl) true;
                   do e <- opt (answer_of_lp_mergeFarmTokens e1 (snd (fst r)));
                   Ok (fst (fst r), e)
               end;
      let '(lf1, e2) := rm in
      do rr <- MS.step (c_ms cs) (MS.Stake u false pays e2);
      let '(ms', o, calls) := rr in
      Ok (mkC ms' lf1 (fst rs) (c_pair cs) (c_hub cs) (c_stkfirst cs), o, calls, e2)
  end.

(** claim_dual_yield_common *)
Definition c_claim (cs : cst) (blk ep u : Z) (pays : list MS.pay) (fail : bool) (spa : MS.two) (bl bs : Z)
  : result (cst * MS.outs * list MS.call * MS.env_claim) :=
  match pays with
  | [p] =>
      check (MS.p_tok p =? MS.TK_DY) else EGuard;
      do rp <- MS.release (c_ms cs) u (MS.p_nonce p) (MS.p_amt p);
      let part := snd rp in
      check negb fail else EExt;
      do pk <- MS.pick_staking spa;
      let v := fst (fst pk) in
      let tok := (MS.d_lpn part, MS.d_lpa part) in
      (* lp_farm_claim_rewards *)
      do rl <- lp_via_user (c_lf cs) u [tok] (F.FClaim blk ep u tok [] bl) true;
      do e1 <- opt (answer_of_lp_claimRewards (rest_claim spa) (snd (fst rl)));
      (* staking_farm_claim_rewards *)
      do rs <- SP.pstep (c_sp cs) (SP.PClaimNewValue blk ep PX u (MS.d_sfn part, MS.d_sfa part) v bs);
      do e2 <- opt (L15.answer_of_claimRewardsWithNewValue e1 (snd rs));
      do rr <- MS.step (c_ms cs) (MS.Claim u false pays e2);
      let '(ms', o, calls) := rr in
      Ok (mkC ms' (fst (fst rl)) (fst rs) (c_pair cs) (c_hub cs) (c_stkfirst cs), o, calls, e2)
  | _ => Err EGuard
  end.

(** the LP tokens of an exitFarm: [amt] leave the farm's principal, [out] reach [dst], the penalty is burned *)
Definition lp_exit_flow (p : PR.pair) (dst amt out : Z) : result PR.pair :=
  do p1 <- PR.lp_debit p LPFARM amt;
  Ok (PR.lp_credit p1 dst out).

(** unstakeFarmTokens *)
Definition c_unstake (cs : cst) (blk ep u : Z) (pays : list MS.pay) (m1 m2 bl bs : Z)
  : result (cst * MS.outs * list MS.call * MS.env_unstake) :=
  match pays with
  | [p] =>
      check (MS.p_tok p =? MS.TK_DY) else EGuard;
      do rp <- MS.release (c_ms cs) u (MS.p_nonce p) (MS.p_amt p);
      let part := snd rp in
      let tok := (MS.d_lpn part, MS.d_lpa part) in
      (* lp_farm_exit *)
      do rl <- lp_via_user (c_lf cs) u [tok] (F.FExit blk ep u tok bl) false;
      do e1 <- opt (answer_of_lp_exitFarm rest_unstake (snd (fst rl)));
      do p1 <- lp_exit_flow (c_pair cs) PX (MS.d_lpa part) (MS.eu_lp e1);
      (* pair_remove_liquidity *)
      do rq <- PR.step p1 (PR.Remove PX (MS.eu_lp e1) m1 m2);
      do e2 <- opt (answer_of_pair_removeLiquidity (c_stkfirst cs) e1 (snd (fst rq)));
      do pk <- MS.pick_staking (MS.eu_rm e2);
      let stk := fst (fst pk) in
      (* staking_farm_unstake; the unbond token is handed on to the user *)
      do rs <- SP.pstep (c_sp cs) (SP.PUnstakeProxy blk ep PX u (MS.d_sfn part, MS.d_sfa part) stk bs);
      do e3 <- opt (L15.answer_of_unstakeFarmThroughProxy e2 (snd rs));
      do rt <- SP.pstep (fst rs) (SP.PTransferUb (MS.eu_ubn e3) PX u (MS.eu_uba e3));
      do rr <- MS.step (c_ms cs) (MS.Unstake u false pays m1 m2 e3);
      let '(ms', o, calls) := rr in
      Ok (mkC ms' (fst (fst rl)) (fst rt) (fst (fst rq)) (c_hub cs) (c_stkfirst cs), o, calls, e3)
  | _ => Err EGuard
  end.

(** ------------------------------------------------------------------ on-behalf endpoints (Model/MetaBehalf.v, with the
    recorded owners READ from the callee models) *)
Definition lp_owner (cs : cst) (k : Z) : result Z := do a <- F.get_attrs (FL.l_f (c_lf cs)) k; Ok (F.a_owner a).
Definition sf_owner (cs : cst) (k : Z) : result Z := do a <- SP.get_attrs (c_sp cs) k; Ok (SP.sa_owner a).

(** get_underlying_positions_original_owner *)
Definition c_underlying_owner (cs : cst) (p : MS.pay) : result Z :=
  check (MS.p_tok p =? MS.TK_DY) else EGuard;
  do a <- MS.get_attr (c_ms cs) (MS.p_nonce p);
  do part <- MS.dy_part a (MS.p_amt p);
  do lo <- lp_owner cs (MS.d_lpn part);
  check negb (lo =? 0) else EGuard;
  do so <- sf_owner cs (MS.d_sfn part);
  check (lo =? so) else EGuard;
  Ok lo.

Fixpoint c_owners_all (cs : cst) (u : Z) (ps : list MS.pay) : result unit :=
  match ps with
  | [] => Ok tt
  | p :: t => do o <- c_underlying_owner cs p; check (o =? u) else EPerm; c_owners_all cs u t
  end.

Fixpoint xfer_all (s : MS.st) (src dst : Z) (ps : list MS.pay) : result MS.st :=
  match ps with
  | [] => Ok s
  | p :: t => do r <- MS.ep_xfer s src dst (MS.p_nonce p) (MS.p_amt p); xfer_all (fst (fst r)) src dst t
  end.

Definition c_stake_ob (cs : cst) (blk ep a u : Z) (pays : list MS.pay) (fail : bool) (spa : MS.two) (bs bl : Z)
  : result (cst * MS.outs * list MS.call * MS.env_stake) :=
  check AC.is_whitelisted (c_hub cs) u a else EPerm;
  match pays with
  | [] => Err EGuard
  | first :: adds =>
      check (MS.p_tok first =? MS.TK_LPF) else EGuard;
      do w <- lp_owner cs (MS.p_nonce first);
      check (w =? u) else EPerm;
      do _ <- c_owners_all cs u adds;
      do s1 <- xfer_all (c_ms cs) a u adds;
      do r <- c_stake (with_ms cs s1) blk ep a u pays fail spa bs bl;
      let '(cs2, o, calls, e) := r in
      do r3 <- MS.ep_xfer (c_ms cs2) u a (nth 0 o 0) (nth 1 o 0);
      Ok (with_ms cs2 (fst (fst r3)), o, calls, e)
  end.

Definition c_claim_ob (cs : cst) (blk ep a : Z) (pays : list MS.pay) (fail : bool) (spa : MS.two) (bl bs : Z)
  : result (cst * MS.outs * list MS.call * MS.env_claim * Z) :=
  match pays with
  | [p] =>
      do u <- c_underlying_owner cs p;
      check AC.is_whitelisted (c_hub cs) u a else EPerm;
      do s1 <- xfer_all (c_ms cs) a u [p];
      do r <- c_claim (with_ms cs s1) blk ep u pays fail spa bl bs;
      let '(cs2, o, calls, e) := r in
      do r3 <- MS.ep_xfer (c_ms cs2) u a (nth 2 o 0) (nth 3 o 0);
      Ok (with_ms cs2 (fst (fst r3)), o, calls, e, u)
  | _ => Err EGuard
  end.

(** ------------------------------------------------------------------ direct operations on the callees *)
(** a user's own operation on the LP farm, with the LP tokens it moves *)
Definition c_lp_direct (cs : cst) (op : FL.lop) : result (cst * list Z) :=
  do r <- FL.lstep (c_lf cs) op;
  let '(lf', o, _) := r in
  do p' <- match op with
           | FL.LF (F.FEnter _ _ c amt _ _) => do r <- PR.ep_lp_transfer (c_pair cs) c LPFARM amt; Ok (fst (fst r))
           | FL.LF (F.FExit _ _ c p _) => lp_exit_flow (c_pair cs) c (snd p) (nth 0 o 0)
           | _ => Ok (c_pair cs)
           end;
  Ok (mkC (c_ms cs) lf' (c_sp cs) p' (c_hub cs) (c_stkfirst cs), o).

Inductive cop :=
| CStake (blk ep c : Z) (pays : list MS.pay) (fail : bool) (spa : MS.two) (bs bl : Z)
| CClaim (blk ep c : Z) (pays : list MS.pay) (fail : bool) (spa : MS.two) (bl bs : Z)
| CUnstake (blk ep c : Z) (pays : list MS.pay) (m1 m2 bl bs : Z)
| CXfer (src dst n amt : Z)
| CStakeOB (blk ep a u : Z) (pays : list MS.pay) (fail : bool) (spa : MS.two) (bs bl : Z)
| CClaimOB (blk ep a : Z) (pays : list MS.pay) (fail : bool) (spa : MS.two) (bl bs : Z)
| CHub (op : AC.hub_op)
| CLp (op : FL.lop)            (* enterFarm / claimRewards / exitFarm / ... / transfers / admin of the LP farm, by users and its owner *)
| CStk (op : SP.pop)           (* the staking farm's own endpoints, by users and its owner *)
| CPair (op : PR.pop).         (* swaps, add / remove liquidity, LP transfers, admin of the pair *)

Definition cstep (cs : cst) (op : cop) : result (cst * list Z * list MS.call) :=
  match op with
  | CStake blk ep c pays fail spa bs bl =>
      do r <- c_stake cs blk ep c c pays fail spa bs bl; Ok (fst r)
  | CClaim blk ep c pays fail spa bl bs =>
      do r <- c_claim cs blk ep c pays fail spa bl bs; Ok (fst r)
  | CUnstake blk ep c pays m1 m2 bl bs =>
      do r <- c_unstake cs blk ep c pays m1 m2 bl bs; Ok (fst r)
  | CXfer src dst n amt =>
      do r <- MS.step (c_ms cs) (MS.Xfer src dst n amt);
      Ok (with_ms cs (fst (fst r)), [], [])
  | CStakeOB blk ep a u pays fail spa bs bl =>
      do r <- c_stake_ob cs blk ep a u pays fail spa bs bl; Ok (fst r)
  | CClaimOB blk ep a pays fail spa bl bs =>
      do r <- c_claim_ob cs blk ep a pays fail spa bl bs; Ok (fst (fst r))
  | CHub op =>
      do h' <- AC.hub_step (c_hub cs) op;
      Ok (mkC (c_ms cs) (c_lf cs) (c_sp cs) (c_pair cs) h' (c_stkfirst cs), [], [])
  | CLp op => do r <- c_lp_direct cs op; Ok (fst r, snd r, [])
  | CStk op =>
      do r <- SP.pstep (c_sp cs) op;
      Ok (mkC (c_ms cs) (c_lf cs) (fst r) (c_pair cs) (c_hub cs) (c_stkfirst cs), snd r, [])
  | CPair op =>
      do r <- PR.step (c_pair cs) op;
      Ok (mkC (c_ms cs) (c_lf cs) (c_sp cs) (fst (fst r)) (c_hub cs) (c_stkfirst cs), snd (fst r), [])
  end.

(** A failed transaction reverts every contract: the runner keeps the old state. *)
Definition cstep_total (cs : cst) (op : cop) : cst :=
  match cstep cs op with Ok (cs', _, _) => cs' | Err _ => cs end.

Definition crun (cs : cst) (ops : list cop) : cst := fold_left cstep_total ops cs.

Definition init_c (lp_dsc : Z) (opts : list Z) (lock stk_dsc apr minub fee sfee : Z) (stkfirst : bool) (hub_owner : Z) : cst :=
  mkC MS.init_st (FL.init_locked lp_dsc false opts lock) (SP.init_sp stk_dsc apr minub) (PR.init_pair fee sfee None)
      (AC.mkHub [] [] hub_owner) stkfirst.

(** the answer record a successful proxy endpoint was run on (for the trace checker and the theorems) *)
Inductive answers :=
| AStake (e : MS.env_stake) | AClaim (e : MS.env_claim) | AUnstake (e : MS.env_unstake) | ANone.

Definition canswers (cs : cst) (op : cop) : answers :=
  match op with
  | CStake blk ep c pays fail spa bs bl =>
      match c_stake cs blk ep c c pays fail spa bs bl with Ok r => AStake (snd r) | Err _ => ANone end
  | CClaim blk ep c pays fail spa bl bs =>
      match c_claim cs blk ep c pays fail spa bl bs with Ok r => AClaim (snd r) | Err _ => ANone end
  | CUnstake blk ep c pays m1 m2 bl bs =>
      match c_unstake cs blk ep c pays m1 m2 bl bs with Ok r => AUnstake (snd r) | Err _ => ANone end
  | CStakeOB blk ep a u pays fail spa bs bl =>
      match c_stake_ob cs blk ep a u pays fail spa bs bl with Ok r => AStake (snd r) | Err _ => ANone end
  | CClaimOB blk ep a pays fail spa bl bs =>
      match c_claim_ob cs blk ep a pays fail spa bl bs with Ok r => AClaim (snd (fst r)) | Err _ => ANone end
  | _ => ANone
  end.
