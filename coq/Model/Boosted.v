(* placeholder; being written *)
