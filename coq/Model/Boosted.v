(** Executable model of the farm-boosted-yields module as hosted by dex/farm, on top of
    [Model.Weekly] (the weekly-rewards-splitting module it instantiates).

    Mirrors, function by function and guard by guard:
      energy-integration/farm-boosted-yields/src/boosted_yields_factors.rs
          (BoostedYieldsConfig::new / update / get_factors_for_week / get_latest_factors,
           setBoostedYieldsFactors, try_get_boosted_yields_config, update_boosted_yields_config)
      energy-integration/farm-boosted-yields/src/lib.rs
          (take_reward_slice, claim_boosted_yields_rewards, set_farm_supply_for_current_week,
           clear_user_energy_if_needed, collectUndistributedBoostedRewards,
           FarmBoostedYieldsWrapper::collect_rewards_for_week / get_user_rewards_for_week)
      energy-integration/common-modules/weekly-rewards-splitting/src/base_impl.rs
          (collect_and_get_rewards_for_week with this wrapper's collect)
      dex/farm/src/lib.rs, dex/farm/src/base_functions.rs, common/modules/farm/farm_base_impl/src/*.rs
          (which endpoint calls which module function, in which order, with which position amount)

    Modelling style (the same as Model/Farm.v's input [b]): facts that belong to the farm proper are
    operation INPUTS taken from the real observation —
      [pre]    the farm-level guards of the endpoint hold (contract active, payments well formed, ...)
      [cur]    get_energy_entry(user): the factory's entry depleted to the current epoch
      [pos]    user_total_farm_position(user) at the moment the endpoint reads it for the boosted claim
               (i.e. BEFORE check_and_update_user_farm_position / increase / decrease)
      [posa]   user_total_farm_position(user) after exitFarm's decrease (clear_user_energy_if_needed)
      [full]   the emission minted by this operation's generate_aggregated_rewards (0 if none)
      [supply] farm_token_supply handed to set_farm_supply_for_current_week.
    The model's output [o_b] (total boosted payout) is exactly Model/Farm.v's input [b].
    No proofs in this file. *)
From MX Require Import Base.Prelude Gen.Params Model.Weekly.

Definition ADMIN : Z := 100.                        (* owner / admin of the farm *)
Definition RTOK : Z := 1.                           (* code of the reward token in payment lists *)
(** BOOSTED_YIELDS_FACTORS_ARRAY_LEN = USER_MAX_CLAIM_WEEKS + 1 (boosted_yields_factors.rs:9) *)
Definition NSLOTS : Z := USER_MAX_CLAIM_WEEKS + 1.
(** collect_rewards_offset = USER_MAX_CLAIM_WEEKS + 1usize (lib.rs:52) *)
Definition COLLECT_OFFSET : Z := USER_MAX_CLAIM_WEEKS + 1.

(** ------------------------------------------------------------------ boosted_yields_factors.rs *)
Record factors := mkFac {
  fa_max : Z;      (* max_rewards_factor *)
  fa_ce : Z;       (* user_rewards_energy_const *)
  fa_cf : Z;       (* user_rewards_farm_const *)
  fa_mine : Z;     (* min_energy_amount *)
  fa_minf : Z      (* min_farm_amount *)
}.
Definition fac0 : factors := mkFac 0 0 0 0 0.

(** factors_per_week: slot NSLOTS-1 is the week [c_last], slot NSLOTS-1-k the week [c_last - k] *)
Record bconfig := mkCfg { c_last : Z; c_slots : list factors }.

Definition cfg_new (cw : Z) (f : factors) : bconfig := mkCfg cw (repeat f (Z.to_nat NSLOTS)).

Definition last_slot (c : bconfig) : factors := nth (Z.to_nat (NSLOTS - 1)) (c_slots c) fac0.   (* get_latest_factors *)

Definition cfg_update (c : bconfig) (cw : Z) (nf : option factors) : result bconfig :=
  check (c_last c <=? cw) else EGuard;                                    (* Invalid config week *)
  let d := Z.min (cw - c_last c) NSLOTS in
  if d =? 0 then
    Ok (match nf with
        | Some f => mkCfg (c_last c) (firstn (Z.to_nat (NSLOTS - 1)) (c_slots c) ++ [f])
        | None => c
        end)
  else
    let cl := last_slot c in
    let latest := match nf with Some f => f | None => cl end in
    (* drain(0..d); push d-1 copies of the current last; push the latest *)
    Ok (mkCfg cw (skipn (Z.to_nat d) (c_slots c) ++ repeat cl (Z.to_nat (d - 1)) ++ [latest])).

Definition get_factors_for_week (c : bconfig) (week : Z) : result factors :=
  check (week <? c_last c) else EGuard;
  let off := c_last c - week in
  check (off <? NSLOTS) else EGuard;
  Ok (nth (Z.to_nat (NSLOTS - 1 - off)) (c_slots c) fac0).

(** ------------------------------------------------------------------ the module's own storage *)
Record bhost := mkBH {
  bh_acc : list (Z * Z);          (* accumulatedRewardsForWeek *)
  bh_rem : list (Z * Z);          (* remainingBoostedRewardsToDistribute *)
  bh_sup : list (Z * Z);          (* farmSupplyForWeek *)
  bh_und : Z;                     (* undistributedBoostedRewards *)
  bh_lastcol : Z;                 (* lastUndistributedBoostedRewardsCollectWeek *)
  bh_pct : Z;                     (* boostedYieldsRewardsPercentage *)
  bh_cfg : option bconfig         (* boostedYieldsConfig; None = empty mapper *)
}.

Definition init_bh : bhost := mkBH [] [] [] 0 0 0 None.

Definition set_acc (h : bhost) (w v : Z) : bhost :=
  mkBH (aset (bh_acc h) w v) (bh_rem h) (bh_sup h) (bh_und h) (bh_lastcol h) (bh_pct h) (bh_cfg h).
Definition set_rem (h : bhost) (w v : Z) : bhost :=
  mkBH (bh_acc h) (aset (bh_rem h) w v) (bh_sup h) (bh_und h) (bh_lastcol h) (bh_pct h) (bh_cfg h).
Definition set_sup (h : bhost) (w v : Z) : bhost :=
  mkBH (bh_acc h) (bh_rem h) (aset (bh_sup h) w v) (bh_und h) (bh_lastcol h) (bh_pct h) (bh_cfg h).
Definition set_und (h : bhost) (v : Z) : bhost :=
  mkBH (bh_acc h) (bh_rem h) (bh_sup h) v (bh_lastcol h) (bh_pct h) (bh_cfg h).
Definition set_lastcol (h : bhost) (v : Z) : bhost :=
  mkBH (bh_acc h) (bh_rem h) (bh_sup h) (bh_und h) v (bh_pct h) (bh_cfg h).
Definition set_pct (h : bhost) (v : Z) : bhost :=
  mkBH (bh_acc h) (bh_rem h) (bh_sup h) (bh_und h) (bh_lastcol h) v (bh_cfg h).
Definition set_cfg (h : bhost) (c : option bconfig) : bhost :=
  mkBH (bh_acc h) (bh_rem h) (bh_sup h) (bh_und h) (bh_lastcol h) (bh_pct h) c.

(** try_get_boosted_yields_config: the stored config brought to the current week, NOT written back *)
Definition try_get_cfg (h : bhost) (cw : Z) : result (option bconfig) :=
  match bh_cfg h with
  | None => Ok None
  | Some c => do c' <- cfg_update c cw None; Ok (Some c')
  end.

(** ------------------------------------------------------------------ lib.rs: take_reward_slice *)
(** returns (storage, base_farm, boosted_farm) *)
Definition take_reward_slice (h : bhost) (cw full : Z) : result (bhost * Z * Z) :=
  if (bh_pct h =? 0) || (match bh_cfg h with None => true | Some _ => false end) then Ok (h, full, 0) else
  let cut := full * bh_pct h / BOOSTED_MAX_PERCENT in
  if 0 <? cut then
    let h1 := set_acc h cw (aget (bh_acc h) cw + cut) in
    do base <- sub_chk full cut;
    Ok (h1, base, cut)
  else Ok (h, full, cut).

(** ------------------------------------------------------------------ the wrapper *)
(** collect_rewards_for_week: write back the updated config, accumulated(week).take() -> remaining(week).set *)
Definition b_collect (cw : Z) (h : bhost) (week : Z) : result (bhost * list (Z * Z)) :=
  match bh_cfg h with
  | None => Err EGuard                                                   (* "No config" *)
  | Some c =>
      do c' <- cfg_update c cw None;
      let total := aget (bh_acc h) week in
      Ok (set_rem (set_acc (set_cfg h (Some c')) week 0) week total, [(RTOK, total)])
  end.

(** base_impl.rs collect_and_get_rewards_for_week *)
Definition b_collect_and_get (cw : Z) (h : bhost) (s : wstate) (week : Z)
  : result (bhost * wstate * list (Z * Z)) :=
  match rget (w_rewards s) week with
  | [] => do (h', r) <- b_collect cw h week; Ok (h', set_rewards s (rset (w_rewards s) week r), r)
  | r => Ok (h, s, r)
  end.

(** the formula of get_user_rewards_for_week, with its intermediate values *)
Definition max_rewards (fa : factors) (R f F : Z) : Z := fa_max fa * R * f / F.
Definition by_energy (fa : factors) (R e E : Z) : Z := R * fa_ce fa * e / E.
Definition by_tokens (fa : factors) (R f F : Z) : Z := R * fa_cf fa * f / F.

(** get_user_rewards_for_week; [pos] and [cfg] are the wrapper's fields (user_farm_amount and the
    config as updated by try_get at the start of claim_boosted_yields_rewards) *)
Definition boosted_hook (pos : Z) (cfg : bconfig) (cw : Z)
  (h : bhost) (s : wstate) (week e E : Z) : result (bhost * wstate * list (Z * Z)) :=
  let F := aget (bh_sup h) week in
  if (E =? 0) || (F =? 0) then Ok (h, s, []) else
  do fa <- get_factors_for_week cfg week;
  if (e <? fa_mine fa) || (pos <? fa_minf fa) then Ok (h, s, []) else
  do (h1, s1, tot) <- b_collect_and_get cw h s week;
  match tot with
  | [] => Ok (h1, s1, [])
  | [(t, R)] =>
      if R =? 0 then Ok (h1, s1, []) else
      let mx := max_rewards fa R pos F in
      let be := by_energy fa R e E in
      let bt := by_tokens fa R pos F in
      do amt <- div_chk (be + bt) (fa_ce fa + fa_cf fa);
      let ur := Z.min mx amt in
      if 0 <? ur then
        do rem <- sub_chk (aget (bh_rem h1) week) ur;
        Ok (set_rem h1 week rem, s1, [(t, ur)])
      else Ok (h1, s1, [])
  | _ => Err EGuard                                                      (* "Invalid boosted yields rewards" *)
  end.

(** claim_boosted_yields_rewards: per-week breakdown; the endpoint adds the amounts up *)
Definition claim_boosted (h : bhost) (s : wstate) (user pos cw : Z) (cur : en)
  : result (bhost * wstate * list (Z * list (Z * Z))) :=
  do oc <- try_get_cfg h cw;
  match oc with
  | None => Ok (h, s, [])
  | Some cfg => claim_multi bhost (boosted_hook pos cfg cw) h s user cw cur
  end.

Definition pay_total (det : list (Z * list (Z * Z))) : Z :=
  fold_right (fun p acc => snd p + acc) 0 (flat_rewards det).

(** clear_user_energy_if_needed *)
Definition clear_if_needed (h : bhost) (s : wstate) (user cw epoch posa : Z) : result wstate :=
  do oc <- try_get_cfg h cw;
  match oc with
  | None => Ok s
  | Some cfg => clear_user_energy s user cw epoch posa (fa_minf (last_slot cfg))
  end.

(** the weeks first..last swept by collectUndistributedBoostedRewards: (week, amount taken) *)
Fixpoint sweep (n : nat) (week : Z) (h : bhost) : bhost * list (Z * Z) :=
  match n with
  | O => (h, [])
  | S n' =>
      let x := aget (bh_rem h) week + aget (bh_acc h) week in
      let h1 := set_und (set_acc (set_rem h week 0) week 0) (bh_und h + x) in
      let '(h2, l) := sweep n' (week + 1) h1 in
      (h2, (week, x) :: l)
  end.

(** ------------------------------------------------------------------ the hosting farm *)
Record bst := mkB {
  b_h : bhost;
  b_w : wstate;
  b_first : Z;            (* firstWeekStartEpoch *)
  b_epoch : Z             (* current block epoch *)
}.

Definition init_b (epoch : Z) : bst := mkB init_bh init_w epoch epoch.

Definition with_hw (s : bst) (h : bhost) (w : wstate) : bst := mkB h w (b_first s) (b_epoch s).

Definition current_week (s : bst) : result Z := week_for_epoch (b_first s) (b_epoch s).

Inductive bop :=
| BAdvance (n : Z)                                              (* the chain moves on by n epochs *)
| BEnter (pre : bool) (u : Z) (cur : en) (pos full supply : Z)  (* enterFarm *)
| BClaim (pre : bool) (u : Z) (cur : en) (pos full supply : Z)  (* claimRewards *)
| BCompound (pre : bool) (u : Z) (cur : en) (pos full supply : Z)      (* compoundRewards *)
| BExit (pre : bool) (u : Z) (cur : en) (pos posa full supply : Z)     (* exitFarm *)
| BMerge (pre : bool) (u : Z) (cur : en) (pos : Z)              (* mergeFarmTokens *)
| BClaimBoosted (pre : bool) (u : Z) (cur : en) (pos full supply : Z)  (* claimBoostedRewards *)
| BSettle (pre : bool) (full : Z)        (* setPerBlockRewardAmount / endProduceRewards: generate_aggregated_rewards only *)
| BSetPct (c p full : Z)                                        (* setBoostedYieldsRewardsPercentage *)
| BSetFactors (c : Z) (f : factors)                             (* setBoostedYieldsFactors *)
| BCollect (c : Z)                                              (* collectUndistributedBoostedRewards *)
| BUpdateEnergy (u : Z) (cur : en).                             (* updateEnergyForUser *)

(** what an operation hands back: total boosted payout (Model/Farm.v's [b]), its per-week breakdown,
    the cut take_reward_slice moved into the running week's pool, the weeks swept into undistributed *)
Record bout := mkOut {
  o_b : Z;
  o_det : list (Z * list (Z * Z));
  o_cut : Z;
  o_swept : list (Z * Z)
}.
Definition out0 : bout := mkOut 0 [] 0 [].

(** operation inputs are BigUints *)
Definition wf_in (cur : en) (pos full supply : Z) : bool :=
  (0 <=? en_tok cur) && (0 <=? pos) && (0 <=? full) && (0 <=? supply).

Definition admin (c : Z) : bool := c =? ADMIN.

Definition ep_advance (s : bst) (n : Z) : result (bst * bout) :=
  check (0 <=? n) else EGuard;
  Ok (mkB (b_h s) (b_w s) (b_first s) (b_epoch s + n), out0).

(** enterFarm: claim_only_boosted_payment (old position) ; enter_farm_base (position update, then
    generate_aggregated_rewards) ; set_farm_supply_for_current_week ; update_energy_and_progress *)
Definition ep_enter (s : bst) (pre : bool) (u : Z) (cur : en) (pos full supply : Z) : result (bst * bout) :=
  check pre else EGuard;
  check wf_in cur pos full supply else EGuard;
  do cw <- current_week s;
  do (h1, w1, det) <- claim_boosted (b_h s) (b_w s) u pos cw cur;
  do (h2, _, cut) <- take_reward_slice h1 cw full;
  let h3 := set_sup h2 cw supply in
  do w2 <- update_energy_and_progress w1 u cw cur;
  Ok (with_hw s h3 w2, mkOut (pay_total det) det cut []).

(** claimRewards: generate_aggregated_rewards ; calculate_rewards (boosted claim with the old position) ;
    check_and_update_user_farm_position ; set_farm_supply_for_current_week *)
Definition ep_claim (s : bst) (pre : bool) (u : Z) (cur : en) (pos full supply : Z) : result (bst * bout) :=
  check pre else EGuard;
  check wf_in cur pos full supply else EGuard;
  do cw <- current_week s;
  do (h1, _, cut) <- take_reward_slice (b_h s) cw full;
  do (h2, w1, det) <- claim_boosted h1 (b_w s) u pos cw cur;
  let h3 := set_sup h2 cw supply in
  Ok (with_hw s h3 w1, mkOut (pay_total det) det cut []).

(** compoundRewards: as claimRewards, then update_energy_and_progress *)
Definition ep_compound (s : bst) (pre : bool) (u : Z) (cur : en) (pos full supply : Z) : result (bst * bout) :=
  check pre else EGuard;
  check wf_in cur pos full supply else EGuard;
  do cw <- current_week s;
  do (h1, _, cut) <- take_reward_slice (b_h s) cw full;
  do (h2, w1, det) <- claim_boosted h1 (b_w s) u pos cw cur;
  let h3 := set_sup h2 cw supply in
  do w2 <- update_energy_and_progress w1 u cw cur;
  Ok (with_hw s h3 w2, mkOut (pay_total det) det cut []).

(** exitFarm: as claimRewards (position decreased afterwards), then clear_user_energy_if_needed *)
Definition ep_exit (s : bst) (pre : bool) (u : Z) (cur : en) (pos posa full supply : Z) : result (bst * bout) :=
  check pre else EGuard;
  check wf_in cur pos full supply && (0 <=? posa) else EGuard;
  do cw <- current_week s;
  do (h1, _, cut) <- take_reward_slice (b_h s) cw full;
  do (h2, w1, det) <- claim_boosted h1 (b_w s) u pos cw cur;
  let h3 := set_sup h2 cw supply in
  do w2 <- clear_if_needed h3 w1 u cw (b_epoch s) posa;
  Ok (with_hw s h3 w2, mkOut (pay_total det) det cut []).

(** mergeFarmTokens: claim_only_boosted_payment (old position) ; no settlement, no supply update *)
Definition ep_merge (s : bst) (pre : bool) (u : Z) (cur : en) (pos : Z) : result (bst * bout) :=
  check pre else EGuard;
  check wf_in cur pos 0 0 else EGuard;
  do cw <- current_week s;
  do (h1, w1, det) <- claim_boosted (b_h s) (b_w s) u pos cw cur;
  Ok (with_hw s h1 w1, mkOut (pay_total det) det 0 []).

(** claimBoostedRewards: user_total_farm_position must not be empty ; generate_aggregated_rewards ;
    boosted claim ; set_farm_supply_for_current_week *)
Definition ep_claim_boosted (s : bst) (pre : bool) (u : Z) (cur : en) (pos full supply : Z) : result (bst * bout) :=
  check pre else EGuard;
  check wf_in cur pos full supply else EGuard;
  check negb (pos =? 0) else EGuard;
  do cw <- current_week s;
  do (h1, _, cut) <- take_reward_slice (b_h s) cw full;
  do (h2, w1, det) <- claim_boosted h1 (b_w s) u pos cw cur;
  let h3 := set_sup h2 cw supply in
  Ok (with_hw s h3 w1, mkOut (pay_total det) det cut []).

Definition ep_settle (s : bst) (pre : bool) (full : Z) : result (bst * bout) :=
  check pre else EGuard;
  check (0 <=? full) else EGuard;
  do cw <- current_week s;
  do (h1, _, cut) <- take_reward_slice (b_h s) cw full;
  Ok (with_hw s h1 (b_w s), mkOut 0 [] cut []).

Definition ep_set_pct (s : bst) (c p full : Z) : result (bst * bout) :=
  check admin c else EPerm;
  check (0 <=? p) && (p <=? BOOSTED_MAX_PERCENT) else EGuard;
  check (0 <=? full) else EGuard;
  do cw <- current_week s;
  do (h1, _, cut) <- take_reward_slice (b_h s) cw full;
  Ok (with_hw s (set_pct h1 p) (b_w s), mkOut 0 [] cut []).

Definition ep_set_factors (s : bst) (c : Z) (f : factors) : result (bst * bout) :=
  check admin c else EPerm;
  check (0 <=? fa_max f) && (0 <=? fa_ce f) && (0 <=? fa_cf f) else EGuard;       (* BigUint arguments *)
  check (0 <? fa_mine f) && (0 <? fa_minf f) else EGuard;                         (* "Min amounts must be greater than 0" *)
  check (0 <? fa_ce f) || (0 <? fa_cf f) else EGuard;                             (* "Rewards constants cannot both be 0" *)
  do cw <- current_week s;
  do c' <- match bh_cfg (b_h s) with
           | Some cfg => cfg_update cfg cw (Some f)
           | None => Ok (cfg_new cw f)
           end;
  Ok (with_hw s (set_cfg (b_h s) (Some c')) (b_w s), out0).

Definition ep_collect (s : bst) (c : Z) : result (bst * bout) :=
  check admin c else EPerm;
  do cw <- current_week s;
  check (COLLECT_OFFSET <? cw) else EGuard;               (* "Current week must be higher than the week offset" *)
  let first := bh_lastcol (b_h s) + 1 in
  let last := cw - COLLECT_OFFSET in
  if last <? first then Ok (s, out0) else
  let '(h1, l) := sweep (Z.to_nat (last - first + 1)) first (b_h s) in
  Ok (with_hw s (set_lastcol h1 last) (b_w s), mkOut 0 [] 0 l).

Definition ep_update_energy (s : bst) (u : Z) (cur : en) : result (bst * bout) :=
  check (0 <=? en_tok cur) else EGuard;
  do cw <- current_week s;
  do w' <- update_energy_for_user (b_w s) u cw cur;
  Ok (with_hw s (b_h s) w', out0).

Definition step (s : bst) (op : bop) : result (bst * bout) :=
  match op with
  | BAdvance n => ep_advance s n
  | BEnter pre u cur pos full supply => ep_enter s pre u cur pos full supply
  | BClaim pre u cur pos full supply => ep_claim s pre u cur pos full supply
  | BCompound pre u cur pos full supply => ep_compound s pre u cur pos full supply
  | BExit pre u cur pos posa full supply => ep_exit s pre u cur pos posa full supply
  | BMerge pre u cur pos => ep_merge s pre u cur pos
  | BClaimBoosted pre u cur pos full supply => ep_claim_boosted s pre u cur pos full supply
  | BSettle pre full => ep_settle s pre full
  | BSetPct c p full => ep_set_pct s c p full
  | BSetFactors c f => ep_set_factors s c f
  | BCollect c => ep_collect s c
  | BUpdateEnergy u cur => ep_update_energy s u cur
  end.

(** A failed transaction reverts: the runner keeps the old state. *)
Definition step_total (s : bst) (op : bop) : bst :=
  match step s op with Ok (s', _) => s' | Err _ => s end.

Definition run (s : bst) (ops : list bop) : bst := fold_left step_total ops s.

(** ------------------------------------------------------------------ views *)
Definition view_acc (s : bst) (w : Z) : Z := aget (bh_acc (b_h s)) w.        (* getAccumulatedRewardsForWeek *)
Definition view_rem (s : bst) (w : Z) : Z := aget (bh_rem (b_h s)) w.        (* getRemainingBoostedRewardsToDistribute *)
Definition view_sup (s : bst) (w : Z) : Z := aget (bh_sup (b_h s)) w.        (* getFarmSupplyForWeek *)
Definition view_und (s : bst) : Z := bh_und (b_h s).                         (* getUndistributedBoostedRewards *)
Definition view_lastcol (s : bst) : Z := bh_lastcol (b_h s).
Definition view_pct (s : bst) : Z := bh_pct (b_h s).                         (* getBoostedYieldsRewardsPercentage *)
Definition view_factors (s : bst) : option factors :=                        (* getBoostedYieldsFactors *)
  match bh_cfg (b_h s) with Some c => Some (last_slot c) | None => None end.
Definition view_total_rewards (s : bst) (w : Z) : list (Z * Z) := rget (w_rewards (b_w s)) w.   (* getTotalRewardsForWeek *)
Definition view_total_energy (s : bst) (w : Z) : Z := aget (w_energy (b_w s)) w.               (* getTotalEnergyForWeek *)
Definition view_progress (s : bst) (u : Z) : option progress := pfind (w_prog (b_w s)) u.      (* getCurrentClaimProgress *)
Definition view_last_global (s : bst) : Z := w_last (b_w s).                                   (* getLastGlobalUpdateWeek *)
