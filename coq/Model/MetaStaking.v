(** Executable model of farm-staking/farm-staking-proxy (metastaking: dual-yield tokens).

    Mirrors, function by function and guard by guard:
      farm-staking/farm-staking-proxy/src/dual_yield_token.rs          (DualYieldTokenAttributes, into_part,
                                                                         create_dual_yield_tokens)
      common/traits/fixed-supply-token/src/lib.rs                      (rule_of_three, rule_of_three_non_zero_result)
      common/modules/utils/src/lib.rs                                  (get_attributes_as_part_of_fixed_supply)
      common/modules/sc_whitelist_module/src/sc_whitelist_module.rs    (get_orig_caller_from_opt)
      farm-staking/farm-staking-proxy/src/lp_farm_token.rs             (get_lp_tokens_in_farm_position)
      farm-staking/farm-staking-proxy/src/proxy_actions/stake.rs       (stakeFarmTokens)
      farm-staking/farm-staking-proxy/src/proxy_actions/claim.rs       (claimDualYield)
      farm-staking/farm-staking-proxy/src/proxy_actions/unstake.rs     (unstakeFarmTokens)
      farm-staking/farm-staking-proxy/src/external_contracts_interactions.rs
                                                                        (the eight calls to the LP farm, the staking
                                                                         farm and the pair; which side of the pair's
                                                                         answers is the staking token)
      farm-staking/farm-staking-proxy/src/result_types.rs              (send_and_return: what goes back to the caller)

    ASSUME / GUARANTEE.  The LP farm, the staking farm and the pair are an ENVIRONMENT: what they
    answer in one transaction is the [env_*] argument of the operation (one record per endpoint, one
    field per returned payment).  The model is the proxy's own code plus its own ledger:
      - the dual-yield token: attributes per nonce, outstanding supply, holders;
      - the proxy account's balances of LP-farm tokens, staking-farm tokens (by nonce) and of every
        fungible token that passes through it.
    The only thing assumed about a callee inside this file is L0: a payment a callee reports as
    returned was really transferred to the proxy (the model credits it).  The interface laws L1-L7
    are the boolean predicates at the end of the file; theorems state which law each clause needs,
    and the correspondence run evaluates every law on every real answer.

    [e_fail] = a callee rejects the call (slippage in the pair, no safe price available, ...): the
    nested error aborts the whole transaction.

    Ghost field [s_rel]: LP-farm amount released so far per dual-yield nonce (history variable of
    property C15, "parts released over the token's life").  No proofs in this file. *)
From MX Require Import Base.Prelude Gen.Params.

(** token codes *)
Definition TK_LP : Z := 0.       (* the pair's LP token *)
Definition TK_STK : Z := 1.      (* staking token = reward token of the staking farm *)
Definition TK_OTH : Z := 2.      (* the other pool token *)
Definition TK_REW : Z := 3.      (* LP-farm reward (locked) token *)
Definition TK_LPF : Z := 10.     (* LP-farm position token *)
Definition TK_SF : Z := 11.      (* staking-farm position token; unbond tokens are nonces of the same token *)
Definition TK_DY : Z := 12.      (* dual-yield token *)

(** DualYieldTokenAttributes *)
Record dattr := mkDA { d_lpn : Z; d_lpa : Z; d_sfn : Z; d_sfa : Z }.

(** a payment: (token code, nonce, amount) *)
Definition pay := (Z * Z * Z)%type.
Definition p_tok (p : pay) : Z := fst (fst p).
Definition p_nonce (p : pay) : Z := snd (fst p).
Definition p_amt (p : pay) : Z := snd p.

Record st := mkSt {
  s_attrs : list (Z * dattr);   (* dual-yield nonce -> attributes, every nonce ever created, oldest first *)
  s_sup : list (Z * Z);         (* dual-yield nonce -> outstanding supply *)
  s_rel : list (Z * Z);         (* ghost: dual-yield nonce -> LP-farm amount released for it so far *)
  s_hold : list (Z * Z);        (* nonce*1000 + holder -> dual-yield amount held *)
  s_next : Z;                   (* nonce of the last dual-yield token created *)
  s_lpf : list (Z * Z);         (* proxy's balance of LP-farm tokens by nonce *)
  s_sf : list (Z * Z);          (* proxy's balance of staking-farm tokens by nonce *)
  s_fung : list (Z * Z)         (* proxy's balance of the other tokens by token code *)
}.

Definition init_st : st := mkSt [] [] [] [] 0 [] [] [].

Definition set_dy (s : st) (at_ : list (Z * dattr)) (sup rel hold : list (Z * Z)) (next : Z) : st :=
  mkSt at_ sup rel hold next (s_lpf s) (s_sf s) (s_fung s).
Definition set_lpf (s : st) (l : list (Z * Z)) : st :=
  mkSt (s_attrs s) (s_sup s) (s_rel s) (s_hold s) (s_next s) l (s_sf s) (s_fung s).
Definition set_sf (s : st) (l : list (Z * Z)) : st :=
  mkSt (s_attrs s) (s_sup s) (s_rel s) (s_hold s) (s_next s) (s_lpf s) l (s_fung s).
Definition set_fung (s : st) (l : list (Z * Z)) : st :=
  mkSt (s_attrs s) (s_sup s) (s_rel s) (s_hold s) (s_next s) (s_lpf s) (s_sf s) l.

Definition hkey (n h : Z) : Z := n * 1000 + h.
Definition hold (s : st) (n h : Z) : Z := aget (s_hold s) (hkey n h).
Definition sup (s : st) (n : Z) : Z := aget (s_sup s) n.
Definition rel (s : st) (n : Z) : Z := aget (s_rel s) n.
Definition lpf_bal (s : st) (k : Z) : Z := aget (s_lpf s) k.
Definition sf_bal (s : st) (k : Z) : Z := aget (s_sf s) k.
Definition fbal (s : st) (t : Z) : Z := aget (s_fung s) t.

Fixpoint find_attr (l : list (Z * dattr)) (n : Z) : option dattr :=
  match l with
  | [] => None
  | (k, a) :: t => if k =? n then Some a else find_attr t n
  end.

Definition get_attr (s : st) (n : Z) : result dattr :=
  match find_attr (s_attrs s) n with Some a => Ok a | None => Err EGuard end.

(** ------------------------------------------------------------------ the proxy account's ledger *)
Definition credit_lpf (s : st) (k x : Z) : st := set_lpf s (aset (s_lpf s) k (lpf_bal s k + x)).
Definition credit_sf (s : st) (k x : Z) : st := set_sf s (aset (s_sf s) k (sf_bal s k + x)).
Definition credit_f (s : st) (t x : Z) : st := set_fung s (aset (s_fung s) t (fbal s t + x)).
(** outgoing transfers: the VM aborts when the balance is insufficient *)
Definition debit_lpf (s : st) (k x : Z) : result st :=
  do b <- sub_chk (lpf_bal s k) x; Ok (set_lpf s (aset (s_lpf s) k b)).
Definition debit_sf (s : st) (k x : Z) : result st :=
  do b <- sub_chk (sf_bal s k) x; Ok (set_sf s (aset (s_sf s) k b)).
Definition debit_f (s : st) (t x : Z) : result st :=
  do b <- sub_chk (fbal s t) x; Ok (set_fung s (aset (s_fung s) t b)).

(** ------------------------------------------------------------------ fixed-supply-token *)
(** rule_of_three_non_zero_result: full * part / total, "Zero amount" when the result is 0 *)
Definition rule3_nz (total part full : Z) : result Z :=
  do r <- (if part =? total then Ok full else div_chk (full * part) total);
  check negb (r =? 0) else EGuard;
  Ok r.

(** DualYieldTokenAttributes::into_part (total supply = staking_farm_token_amount) *)
Definition dy_part (a : dattr) (p : Z) : result dattr :=
  if p =? d_sfa a then Ok a else
  do l <- rule3_nz (d_sfa a) p (d_lpa a);
  Ok (mkDA (d_lpn a) l (d_sfn a) p).

(** One dual-yield payment (n, p) of caller [c], as every endpoint treats it:
    the payment arrives (the VM rejects zero amounts and insufficient balances),
    get_attributes_as_part_of_fixed_supply reads the attributes of the nonce and takes the part,
    the payment is burned, and the farm tokens of the part leave the proxy's balance (they are
    attached to the farm calls made later in the same transaction; a failing transfer reverts the
    transaction, so the position inside the transaction is not observable). *)
Definition release (s : st) (c n p : Z) : result (st * dattr) :=
  check (0 <? p) else EGuard;
  do h <- sub_chk (hold s n c) p;
  do su <- sub_chk (sup s n) p;
  do a <- get_attr s n;
  do part <- dy_part a p;
  let s1 := set_dy s (s_attrs s) (aset (s_sup s) n su) (aset (s_rel s) n (rel s n + d_lpa part))
                   (aset (s_hold s) (hkey n c) h) (s_next s) in
  do s2 <- debit_lpf s1 (d_lpn part) (d_lpa part);
  do s3 <- debit_sf s2 (d_sfn part) (d_sfa part);
  Ok (s3, part).

Fixpoint release_all (s : st) (c : Z) (ps : list pay) : result (st * list dattr) :=
  match ps with
  | [] => Ok (s, [])
  | p :: t =>
      do (s1, part) <- release s c (p_nonce p) (p_amt p);
      do (s2, parts) <- release_all s1 c t;
      Ok (s2, part :: parts)
  end.

(** create_dual_yield_tokens: nft_create of [d_sfa a] units with attributes [a] (the VM rejects a zero
    quantity), sent to [c].  The farm tokens recorded in [a] are in the proxy's balance from here on
    (L0: the callee that reported them transferred them). *)
Definition mint_dy (s : st) (c : Z) (a : dattr) : result (st * Z) :=
  check (0 <? d_sfa a) else EGuard;
  let n := s_next s + 1 in
  let s1 := set_dy s (s_attrs s ++ [(n, a)]) (aset (s_sup s) n (sup s n + d_sfa a)) (s_rel s)
                   (aset (s_hold s) (hkey n c) (hold s n c + d_sfa a)) n in
  Ok (credit_sf (credit_lpf s1 (d_lpn a) (d_lpa a)) (d_sfn a) (d_sfa a), n).

(** ------------------------------------------------------------------ environment answers *)
(** the pair answers with two payments (first pool token, second pool token): (token, amount, token, amount) *)
Definition two := (Z * Z * Z * Z)%type.

(** external_contracts_interactions.rs picks the staking-token side of a pair answer:
    (staking amount, other token, other amount), "Invalid ..." when neither side is the staking token *)
Definition pick_staking (r : two) : result (Z * Z * Z) :=
  let '(t1, a1, t2, a2) := r in
  if t1 =? TK_STK then Ok (a1, t2, a2)
  else if t2 =? TK_STK then Ok (a2, t1, a1)
  else Err EGuard.

Record env_stake := mkES {
  es_fail : bool;
  es_sp : two;                          (* updateAndGetTokensForGivenPositionWithSafePrice *)
  es_sfn : Z; es_sfa : Z; es_bs : Z;    (* stakeFarmThroughProxy: new staking-farm token, boosted rewards *)
  es_lpn : Z; es_lpa : Z; es_bl : Z     (* mergeFarmTokens of the LP farm: merged token, boosted rewards *)
}.
Record env_claim := mkEC {
  ec_fail : bool;
  ec_sp : two;
  ec_lpn : Z; ec_lpa : Z; ec_rl : Z;    (* LP farm claimRewards: new farm token, rewards *)
  ec_sfn : Z; ec_sfa : Z; ec_rs : Z     (* claimRewardsWithNewValue: new staking-farm token, rewards *)
}.
Record env_unstake := mkEU {
  eu_fail : bool;
  eu_lp : Z; eu_rl : Z;                 (* LP farm exitFarm: LP tokens, rewards *)
  eu_rm : two;                          (* pair removeLiquidity *)
  eu_ubn : Z; eu_uba : Z; eu_rs : Z     (* unstakeFarmThroughProxy: unbond token, rewards *)
}.

(** calls made to the environment, with the arguments that matter to C15 *)
Inductive call :=
| CSafePrice (liq : Z)                               (* pair.updateAndGetTokensForGivenPositionWithSafePrice *)
| CStkEnter (value : Z) (toks : list (Z * Z))         (* staking.stakeFarmThroughProxy(value) + farm tokens *)
| CLpMerge (toks : list (Z * Z))                      (* lpfarm.mergeFarmTokens *)
| CLpClaim (n a : Z)                                  (* lpfarm.claimRewards *)
| CStkClaim (n a value : Z)                           (* staking.claimRewardsWithNewValue(value) *)
| CLpExit (n a : Z)                                   (* lpfarm.exitFarm *)
| CPairRemove (lp m1 m2 : Z)                          (* pair.removeLiquidity *)
| CStkUnstake (stk n a : Z).                          (* staking.unstakeFarmThroughProxy: staking tokens + farm token *)

Definition outs := list Z.

(** ------------------------------------------------------------------ operations *)
Inductive mop :=
| Stake (c : Z) (oc : bool) (pays : list pay) (e : env_stake)
| Claim (c : Z) (oc : bool) (pays : list pay) (e : env_claim)
| Unstake (c : Z) (oc : bool) (pays : list pay) (m1 m2 : Z) (e : env_unstake)
| Xfer (src dst n amt : Z).

(** get_orig_caller_from_opt: an explicit original caller is accepted from whitelisted contracts
    only; the accounts of this model are plain users *)
Definition orig_caller_ok (oc : bool) : bool := negb oc.

Definition is_dy (p : pay) : bool := p_tok p =? TK_DY.

(** stakeFarmTokens.  outputs: [new dual-yield nonce; amount; staking boosted rewards; LP-farm boosted rewards] *)
Definition ep_stake (s : st) (c : Z) (oc : bool) (pays : list pay) (e : env_stake)
  : result (st * outs * list call) :=
  check orig_caller_ok oc else EPerm;
  match pays with
  | [] => Err EGuard                                              (* get_non_empty_payments *)
  | first :: adds =>
      check forallb (fun p => 0 <? p_amt p) pays else EGuard;      (* VM: no zero-amount transfers *)
      check (p_tok first =? TK_LPF) else EGuard;                   (* "Invalid first payment" *)
      check forallb is_dy adds else EGuard;                        (* require_all_same_token *)
      let k := p_nonce first in
      let a := p_amt first in
      do (s1, parts) <- release_all s c adds;
      let liq := a in        (* get_lp_tokens_in_farm_position: into_part(a).current_farm_amount = a *)
      check negb (es_fail e) else EExt;
      do (v, _, _) <- pick_staking (es_sp e);                      (* get_lp_tokens_safe_price *)
      let sf_toks := map (fun p => (d_sfn p, d_sfa p)) parts in
      let lp_toks := map (fun p => (d_lpn p, d_lpa p)) parts in
      (* staking_farm_enter: answer credited (L0) *)
      let s2 := credit_f s1 TK_STK (es_bs e) in
      (* merge_lp_farm_tokens: without additional tokens the base token is kept as it is *)
      let '(s3, lpn, lpa, bl, mcall) :=
        match adds with
        | [] => (s2, k, a, 0, [])
        | _ => (credit_f s2 TK_REW (es_bl e), es_lpn e, es_lpa e, es_bl e, [CLpMerge (lp_toks ++ [(k, a)])])
        end in
      do (s4, n) <- mint_dy s3 c (mkDA lpn lpa (es_sfn e) (es_sfa e));
      (* send_and_return *)
      do s5 <- debit_f s4 TK_STK (es_bs e);
      do s6 <- debit_f s5 TK_REW bl;
      Ok (s6, [n; es_sfa e; es_bs e; bl], [CSafePrice liq; CStkEnter v sf_toks] ++ mcall)
  end.

(** claimDualYield.  outputs: [LP-farm rewards; staking rewards; new dual-yield nonce; amount] *)
Definition ep_claim (s : st) (c : Z) (oc : bool) (pays : list pay) (e : env_claim)
  : result (st * outs * list call) :=
  check orig_caller_ok oc else EPerm;
  match pays with
  | [p] =>                                                         (* single_esdt *)
      check (p_tok p =? TK_DY) else EGuard;                        (* require_same_token *)
      do (s1, part) <- release s c (p_nonce p) (p_amt p);
      let liq := d_lpa part in                                     (* get_lp_tokens_in_farm_position *)
      check negb (ec_fail e) else EExt;
      do (v, _, _) <- pick_staking (ec_sp e);
      let s2 := credit_f (credit_f s1 TK_REW (ec_rl e)) TK_STK (ec_rs e) in
      do (s3, n) <- mint_dy s2 c (mkDA (ec_lpn e) (ec_lpa e) (ec_sfn e) (ec_sfa e));
      do s4 <- debit_f s3 TK_REW (ec_rl e);
      do s5 <- debit_f s4 TK_STK (ec_rs e);
      Ok (s5, [ec_rl e; ec_rs e; n; ec_sfa e],
          [CSafePrice liq; CLpClaim (d_lpn part) (d_lpa part); CStkClaim (d_sfn part) (d_sfa part) v])
  | _ => Err EGuard
  end.

(** unstakeFarmTokens.  outputs: [other pool token amount; LP-farm rewards; staking rewards; unbond nonce; unbond amount] *)
Definition ep_unstake (s : st) (c : Z) (oc : bool) (pays : list pay) (m1 m2 : Z) (e : env_unstake)
  : result (st * outs * list call) :=
  check orig_caller_ok oc else EPerm;
  match pays with
  | [p] =>
      check (p_tok p =? TK_DY) else EGuard;
      do (s1, part) <- release s c (p_nonce p) (p_amt p);
      check negb (eu_fail e) else EExt;
      (* lp_farm_exit *)
      let s2 := credit_f (credit_f s1 TK_LP (eu_lp e)) TK_REW (eu_rl e) in
      (* pair_remove_liquidity *)
      do s3 <- debit_f s2 TK_LP (eu_lp e);
      let '(t1, a1, t2, a2) := eu_rm e in
      let s4 := credit_f (credit_f s3 t1 a1) t2 a2 in
      do (stk, ot, oa) <- pick_staking (eu_rm e);
      (* staking_farm_unstake: staking tokens + the farm token of the part (already debited) *)
      do s5 <- debit_f s4 TK_STK stk;
      let s6 := credit_f (credit_sf s5 (eu_ubn e) (eu_uba e)) TK_STK (eu_rs e) in
      (* send_and_return *)
      do s7 <- debit_f s6 ot oa;
      do s8 <- debit_f s7 TK_REW (eu_rl e);
      do s9 <- debit_f s8 TK_STK (eu_rs e);
      do s10 <- debit_sf s9 (eu_ubn e) (eu_uba e);
      Ok (s10, [oa; eu_rl e; eu_rs e; eu_ubn e; eu_uba e],
          [CLpExit (d_lpn part) (d_lpa part); CPairRemove (eu_lp e) m1 m2; CStkUnstake stk (d_sfn part) (d_sfa part)])
  | _ => Err EGuard
  end.

(** plain ESDT transfer of dual-yield tokens between two accounts *)
Definition ep_xfer (s : st) (src dst n amt : Z) : result (st * outs * list call) :=
  check (0 <? amt) else EGuard;
  do h <- sub_chk (hold s n src) amt;
  let l := aset (s_hold s) (hkey n src) h in
  let s1 := set_dy s (s_attrs s) (s_sup s) (s_rel s) l (s_next s) in
  Ok (set_dy s1 (s_attrs s1) (s_sup s1) (s_rel s1) (aset (s_hold s1) (hkey n dst) (hold s1 n dst + amt)) (s_next s1), [], []).

Definition step (s : st) (op : mop) : result (st * outs * list call) :=
  match op with
  | Stake c oc pays e => ep_stake s c oc pays e
  | Claim c oc pays e => ep_claim s c oc pays e
  | Unstake c oc pays m1 m2 e => ep_unstake s c oc pays m1 m2 e
  | Xfer src dst n amt => ep_xfer s src dst n amt
  end.

(** A failed transaction reverts: the runner keeps the old state. *)
Definition step_total (s : st) (op : mop) : st :=
  match step s op with Ok (s', _, _) => s' | Err _ => s end.

Definition run (s : st) (ops : list mop) : st := fold_left step_total ops s.

(** ------------------------------------------------------------------ interface laws
    Evaluated on every real answer by Run/MetaStakingRun.v and tools/props/c15.py; hypotheses of the
    theorems that need them (Props/C15.v says which). *)
Definition sum_sfa (parts : list dattr) : Z := fold_right (fun p acc => d_sfa p + acc) 0 parts.
Definition sum_lpa (parts : list dattr) : Z := fold_right (fun p acc => d_lpa p + acc) 0 parts.

(** L1  LP farm claimRewards returns one farm token of the amount it was given *)
Definition law_L1 (part : dattr) (e : env_claim) : bool := ec_lpa e =? d_lpa part.
(** L2  LP farm mergeFarmTokens returns one farm token whose amount is the sum of the amounts given *)
Definition law_L2 (a : Z) (parts : list dattr) (e : env_stake) : bool := es_lpa e =? a + sum_lpa parts.
(** L3  stakeFarmThroughProxy(v, toks) returns a farm token of amount v + sum toks *)
Definition law_L3 (v : Z) (parts : list dattr) (e : env_stake) : bool := es_sfa e =? v + sum_sfa parts.
(** L4  claimRewardsWithNewValue(v) returns a farm token of amount v *)
Definition law_L4 (v : Z) (e : env_claim) : bool := ec_sfa e =? v.
(** L5  unstakeFarmThroughProxy returns an unbond token of exactly the staking-token payment *)
Definition law_L5 (stk : Z) (e : env_unstake) : bool := eu_uba e =? stk.
(** L6  the pair answers with one payment per pool token, the staking token being one of them *)
Definition law_L6 (r : two) : bool :=
  let '(t1, _, t2, _) := r in
  ((t1 =? TK_STK) && (t2 =? TK_OTH)) || ((t1 =? TK_OTH) && (t2 =? TK_STK)).
(** L7  the safe-price answer is the function of Model/SafePrice.v characterised by C13
        ([QLpDef liq]); stated in Proofs/MetaStakingProofs.v where that model is imported. *)

(** amounts are BigUint: never negative *)
Definition two_nonneg (r : two) : bool := let '(_, a1, _, a2) := r in (0 <=? a1) && (0 <=? a2).
Definition env_nonneg (op : mop) : bool :=
  match op with
  | Stake _ _ _ e => two_nonneg (es_sp e) && (0 <=? es_sfa e) && (0 <=? es_bs e) && (0 <=? es_lpa e) && (0 <=? es_bl e)
  | Claim _ _ _ e => two_nonneg (ec_sp e) && (0 <=? ec_lpa e) && (0 <=? ec_rl e) && (0 <=? ec_sfa e) && (0 <=? ec_rs e)
  | Unstake _ _ _ _ _ e => two_nonneg (eu_rm e) && (0 <=? eu_lp e) && (0 <=? eu_rl e) && (0 <=? eu_uba e) && (0 <=? eu_rs e)
  | Xfer _ _ _ _ => true
  end.

(** net staking value registered in the staking farm by the calls of one transaction (the change of
    the staking farm's farm-token supply when the farm obeys L3 / L4): the harness compares it with
    the real change *)
Fixpoint registered (cs : list call) : Z :=
  match cs with
  | [] => 0
  | CStkEnter v _ :: t => v + registered t
  | CStkClaim _ a v :: t => v - a + registered t
  | CStkUnstake _ _ a :: t => registered t - a
  | _ :: t => registered t
  end.
