(** Executable model of the ON-BEHALF endpoints of farm-staking-proxy over Model/MetaStaking.v, with the
    permissions hub as part of the state (C15 over histories that mix ordinary, transfer, hub and on-behalf
    operations; C19 "acting on behalf requires the user's explicit, non-blacklisted authorisation").

    Mirrors:
      farm-staking/farm-staking-proxy/src/proxy_actions/external_interaction.rs
          stakeFarmOnBehalf(original_owner), claimDualYieldOnBehalf(), check_stake_farm_payments,
          get_underlying_positions_original_owner
      farm-staking/farm-staking-proxy/src/proxy_actions/{stake,claim}.rs   stake_farm_tokens_common / claim_dual_yield_common
                                                                            (= [MetaStaking.ep_stake] / [ep_claim], reused unchanged)
      common/modules/permissions_hub_module/src/lib.rs                     require_user_whitelisted
      dex/permissions-hub/src/lib.rs                                       (= [Access.hub_step], reused unchanged)

    The endpoints are modelled BY COMPOSITION with the ordinary operations.  An authorised agent [a] calls for
    user [u] with an LP-farm position and dual-yield tokens [a] HOLDS:

      stakeFarmOnBehalf(u) {LP-farm token, dual-yield adds} =
          guards ; Xfer adds a -> u ; Stake by u (the same payments, the same environment answers) ; Xfer new token u -> a
      claimDualYieldOnBehalf() {dual-yield token} =
          guards (the user is READ from the underlying positions) ; Xfer a -> u ; Claim by u ; Xfer new token u -> a

    Why this is exact on the proxy's state (checked against the source):
      * the endpoint bodies are stake_farm_tokens_common(original_owner, payments) / claim_dual_yield_common(original_owner,
        payment): the same code as the ordinary endpoints with orig_caller := user - every call to the LP farm / the staking
        farm carries the USER as original caller (OptionalValue::Some(user) / the explicit argument of the ...ThroughProxy
        endpoints), exactly as when the user calls stakeFarmTokens / claimDualYield;
      * the dual-yield payments are burned from the call value whoever sent them: the model debits [a]'s holding by moving
        it to [u] first; the LP-farm payment is not a ledger of this model (it just arrives, as in [ep_stake]);
      * create_dual_yield_tokens mints in the proxy's own account; send_payment_non_zero(&caller, dual_yield_tokens) hands
        the new token to the CALLER: mint for [u], then transfer to [a];
      * both rewards are sent to the USER (send_payment_non_zero(&original_owner, ..)), never to [a]: ghost ledgers
        [mb_rl] (LP-farm rewards, LOCKED) and [mb_rs] (staking rewards) per account.

    Guards (order as in the source; only Ok/Err is compared):
      stake: require_user_whitelisted(user, caller) (the hub's isWhitelisted: listed by the user, not blacklisted);
             get_non_empty_payments; "Invalid first payment"; the LP-farm token's recorded original_owner = user;
             for every additional payment get_underlying_positions_original_owner(payment) = user;
      claim: single_esdt; get_underlying_positions_original_owner(payment) =: user; require_user_whitelisted(user, caller).
      get_underlying_positions_original_owner: the payment is a dual-yield token, its part is taken
      (get_attributes_as_part_of_fixed_supply: "Zero amount" possible), the LP-farm nonce's recorded owner is non-zero
      ("LP Token original owner incorrect") and equals the staking-farm nonce's recorded owner.

    ORIGINAL OWNERS.  The recorded original_owner of an LP-farm / staking-farm position is an attribute the FARMS write.
    In this model (callee answers are inputs) the owners are tracked per nonce in [mb_lpo] / [mb_sfo] under interface law
      L8  a position token a farm returns for a call with original caller [x] records original_owner = [x]
          (claimRewards / mergeFarmTokens of the LP farm; stakeFarmThroughProxy / claimRewardsWithNewValue of the staking
          farm) - a theorem of Model/Farm.v and Model/StakingPos.v (Proofs/MetaBehalfProofs.v, section L8), checked on
          every real token by the correspondence run;
    the owner [w] of the LP-farm position PAID IN as first payment comes from outside the proxy and is an input of the
    operation (read from the real token's attributes by the harness).
    0 = the zero address (a position without recorded owner).  No proofs in this file. *)
From MX Require Import Base.Prelude Gen.Params Model.MetaStaking.
From MX Require Model.Access.

Record bst := mkMB {
  mb_s : st;                   (* the proxy, exactly the state of Model/MetaStaking.v *)
  mb_hub : Access.hub;         (* the permissions hub the proxy is configured with *)
  mb_lpo : list (Z * Z);       (* LP-farm nonce -> recorded original owner, for every nonce recorded in a dual-yield token *)
  mb_sfo : list (Z * Z);       (* staking-farm nonce -> recorded original owner *)
  mb_rl : list (Z * Z);        (* ghost: LP-farm rewards each account has received through the proxy *)
  mb_rs : list (Z * Z)         (* ghost: staking rewards each account has received through the proxy *)
}.

Definition init_mb (hub_owner : Z) : bst := mkMB init_st (Access.mkHub [] [] hub_owner) [] [] [] [].

Definition lpo (s : bst) (k : Z) : Z := aget (mb_lpo s) k.
Definition sfo (s : bst) (k : Z) : Z := aget (mb_sfo s) k.
Definition acredit (l : list (Z * Z)) (k v : Z) : list (Z * Z) := aset l k (aget l k + v).

(** get_underlying_positions_original_owner *)
Definition underlying_owner (s : bst) (p : pay) : result Z :=
  check (p_tok p =? TK_DY) else EGuard;
  do a <- get_attr (mb_s s) (p_nonce p);
  do part <- dy_part a (p_amt p);
  let lo := lpo s (d_lpn part) in
  check negb (lo =? 0) else EGuard;
  check (lo =? sfo s (d_sfn part)) else EGuard;
  Ok lo.

Fixpoint owners_all (s : bst) (u : Z) (ps : list pay) : result unit :=
  match ps with
  | [] => Ok tt
  | p :: t => do o <- underlying_owner s p; check (o =? u) else EPerm; owners_all s u t
  end.

(** plain transfers of the dual-yield payments [ps] from [src] to [dst] *)
Fixpoint xfer_all (s : st) (src dst : Z) (ps : list pay) : result st :=
  match ps with
  | [] => Ok s
  | p :: t => do r <- ep_xfer s src dst (p_nonce p) (p_amt p); xfer_all (fst (fst r)) src dst t
  end.

(** the attributes of the dual-yield nonce an operation has just created: which farm nonces it records *)
Definition rec_owners (s : bst) (ms' : st) (n olp osf : Z) : list (Z * Z) * list (Z * Z) :=
  match find_attr (s_attrs ms') n with
  | Some a => (aset (mb_lpo s) (d_lpn a) olp, aset (mb_sfo s) (d_sfn a) osf)
  | None => (mb_lpo s, mb_sfo s)
  end.

(** an ordinary operation of Model/MetaStaking.v by anybody; [w] = recorded owner of the LP-farm token paid in
    (used by Stake only).  Law L8: the farm tokens returned record the original caller = the caller. *)
Definition ord_step (s : bst) (op : mop) (w : Z) : result (bst * outs * list call) :=
  do r <- step (mb_s s) op;
  let '(ms', o, cs) := r in
  match op with
  | Stake c _ pays _ =>
      let olp := match pays with [_] => w | _ => c end in      (* without additional tokens the LP-farm token is kept *)
      let '(lo, so) := rec_owners s ms' (nth 0 o 0) olp c in
      Ok (mkMB ms' (mb_hub s) lo so (acredit (mb_rl s) c (nth 3 o 0)) (acredit (mb_rs s) c (nth 2 o 0)), o, cs)
  | Claim c _ _ _ =>
      let '(lo, so) := rec_owners s ms' (nth 2 o 0) c c in
      Ok (mkMB ms' (mb_hub s) lo so (acredit (mb_rl s) c (nth 0 o 0)) (acredit (mb_rs s) c (nth 1 o 0)), o, cs)
  | Unstake c _ _ _ _ _ =>
      Ok (mkMB ms' (mb_hub s) (mb_lpo s) (mb_sfo s) (acredit (mb_rl s) c (nth 1 o 0)) (acredit (mb_rs s) c (nth 2 o 0)), o, cs)
  | Xfer _ _ _ _ => Ok (mkMB ms' (mb_hub s) (mb_lpo s) (mb_sfo s) (mb_rl s) (mb_rs s), o, cs)
  end.

(** stakeFarmOnBehalf(u) called by [a]; results as stakeFarmTokens *)
Definition mob_stake (s : bst) (a u : Z) (pays : list pay) (e : env_stake) (w : Z) : result (bst * outs * list call) :=
  check Access.is_whitelisted (mb_hub s) u a else EPerm;
  match pays with
  | [] => Err EGuard
  | first :: adds =>
      check (p_tok first =? TK_LPF) else EGuard;
      check (w =? u) else EPerm;
      do _ <- owners_all s u adds;
      do s1 <- xfer_all (mb_s s) a u adds;
      do r <- step s1 (Stake u false pays e);
      let '(s2, o, cs) := r in
      do r3 <- ep_xfer s2 u a (nth 0 o 0) (nth 1 o 0);
      let s3 := fst (fst r3) in
      let olp := match adds with [] => w | _ => u end in
      let '(lo, so) := rec_owners s s3 (nth 0 o 0) olp u in
      Ok (mkMB s3 (mb_hub s) lo so (acredit (mb_rl s) u (nth 3 o 0)) (acredit (mb_rs s) u (nth 2 o 0)), o, cs)
  end.

(** claimDualYieldOnBehalf() called by [a]; results as claimDualYield; also the user *)
Definition mob_claim (s : bst) (a : Z) (pays : list pay) (e : env_claim) : result (bst * outs * list call * Z) :=
  match pays with
  | [p] =>
      do u <- underlying_owner s p;
      check Access.is_whitelisted (mb_hub s) u a else EPerm;
      do s1 <- xfer_all (mb_s s) a u [p];
      do r <- step s1 (Claim u false pays e);
      let '(s2, o, cs) := r in
      do r3 <- ep_xfer s2 u a (nth 2 o 0) (nth 3 o 0);
      let s3 := fst (fst r3) in
      let '(lo, so) := rec_owners s s3 (nth 2 o 0) u u in
      Ok (mkMB s3 (mb_hub s) lo so (acredit (mb_rl s) u (nth 0 o 0)) (acredit (mb_rs s) u (nth 1 o 0)), o, cs, u)
  | _ => Err EGuard
  end.

Inductive mbop :=
| MBOrd (op : mop) (w : Z)                                           (* stakeFarmTokens / claimDualYield / unstakeFarmTokens / transfer *)
| MBHub (op : Access.hub_op)                                         (* whitelist / removeWhitelist / blacklist / removeBlacklist *)
| MBStakeOB (a u : Z) (pays : list pay) (e : env_stake) (w : Z)      (* stakeFarmOnBehalf(u) called by a *)
| MBClaimOB (a : Z) (pays : list pay) (e : env_claim).               (* claimDualYieldOnBehalf() called by a *)

Definition mbstep (s : bst) (op : mbop) : result (bst * outs * list call) :=
  match op with
  | MBOrd op w => ord_step s op w
  | MBHub op =>
      do h' <- Access.hub_step (mb_hub s) op;
      Ok (mkMB (mb_s s) h' (mb_lpo s) (mb_sfo s) (mb_rl s) (mb_rs s), [], [])
  | MBStakeOB a u pays e w => mob_stake s a u pays e w
  | MBClaimOB a pays e => do r <- mob_claim s a pays e; Ok (fst r)
  end.

(** A failed transaction reverts: the runner keeps the old state. *)
Definition mbstep_total (s : bst) (op : mbop) : bst :=
  match mbstep s op with Ok (s', _, _) => s' | Err _ => s end.

Definition mbrun (s : bst) (ops : list mbop) : bst := fold_left mbstep_total ops s.

(** the environment answers of an operation are amounts (BigUint) *)
Definition mb_nonneg (op : mbop) : bool :=
  match op with
  | MBOrd op _ => env_nonneg op
  | MBHub _ => true
  | MBStakeOB _ u pays e _ => env_nonneg (Stake u false pays e)
  | MBClaimOB _ pays e => env_nonneg (Claim 0 false pays e)
  end.
