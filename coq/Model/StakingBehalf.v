(** Executable model of the ON-BEHALF endpoints of farm-staking over the position-level model
    Model/StakingPos.v, with the permissions hub as part of the state.

    Mirrors:
      farm-staking/farm-staking/src/external_interaction.rs     stakeFarmOnBehalf(user), claimRewardsOnBehalf()
      common/modules/original_owner_helper/src/lib.rs           get_claim_original_owner, check_additional_payments_original_owner
      common/modules/permissions_hub_module/src/lib.rs          require_user_whitelisted
      dex/permissions-hub/src/lib.rs                            (= [Access.hub_step], reused unchanged)

    stakeFarmOnBehalf(u) by an authorised agent [a] is the body of stake_farm_common with original_caller := user
    and the boosted rewards sent to the USER: modelled as the composition
        guards ; PTransfer adds a -> u ; PStake by u for u (amt, adds, b) ; PTransfer new position u -> a
    (exact on the contract's state for the reasons given in Model/FarmBehalf.v; the staking tokens [amt] are the
    call value of [a]).

    claimRewardsOnBehalf() is NOT the user's claimRewards: the ordinary endpoint takes exactly one payment
    (call_value().single_esdt()), the on-behalf endpoint passes get_non_empty_payments() to
    claim_rewards_base_no_farm_token_mint, so additional position payments are accepted and merged into the
    re-minted position (merge_attributes_from_payments), with the reward computed on the first payment only.
    The needed extra step is [ep_claim_multi] (= StakingPos.ep_claim for one payment, see
    Proofs/BehalfProofs.v [claim_multi_single]); the endpoint is then
        guards ; PTransfer (first :: adds) a -> u ; ep_claim_multi by u for u ; PTransfer new position u -> a.
    Ledgers added on top of Model/StakingPos.v (ghost counters per account): reward tokens received,
    staking tokens paid in (stake; the proxy's unstake), staking tokens received by unbonding.
    No proofs in this file. *)
From MX Require Import Base.Prelude Gen.Params Model.Staking Model.StakingPos.
From MX Require Model.Access.

Fixpoint sowners_of (sp : spos) (ps : list (Z * Z)) : result (list Z) :=
  match ps with
  | [] => Ok []
  | p :: t => do a <- get_attrs sp (fst p); do r <- sowners_of sp t; Ok (sa_owner a :: r)
  end.

Definition pxfer (src dst : Z) (p : Z * Z) : pop := PTransfer (fst p) src dst (snd p).

Definition acredit (l : list (Z * Z)) (k v : Z) : list (Z * Z) := aset l k (aget l k + v).

Fixpoint pseq (sp : spos) (ops : list pop) : result spos :=
  match ops with
  | [] => Ok sp
  | op :: t => do r <- pstep sp op; pseq (fst r) t
  end.

(** claim_rewards_base_no_farm_token_mint with several payments: caller [c] pays, [u] is the original caller *)
Definition ep_claim_multi (sp : spos) (blk ep c u : Z) (first : Z * Z) (adds : list (Z * Z)) (b : Z)
  : result (spos * souts) :=
  do sp1 <- pay_all sp c (first :: adds);
  check active (p_s sp1) else EState;
  do sp2 <- psettle sp1 blk;
  do a <- get_attrs sp2 (fst first);
  do part <- sinto_part a (snd first);
  do base <- base_reward sp2 part (snd first);
  do sp3 <- ppay sp2 (base + b) b;
  do sp4 <- check_update sp3 u (first :: adds);
  do m <- merge_payments sp4 (mkSA (s_rps (p_s sp4)) (sa_comp part) (sa_amt part) u) adds;
  let '(sp5, n) := mint_pos sp4 m c in
  Ok (sp5, [n; sa_amt m; base + b]).

Definition sob_stake (h : Access.hub) (sp : spos) (blk ep a u amt : Z) (adds : list (Z * Z)) (b : Z)
  : result (spos * souts) :=
  do owners <- sowners_of sp adds;
  do _ <- Access.enter_on_behalf h a u owners;
  do sp1 <- pseq sp (map (pxfer a u) adds);
  do r <- pstep sp1 (PStake blk ep u u amt adds b);
  do r' <- pstep (fst r) (PTransfer (nth 0 (snd r) 0) u a (nth 1 (snd r) 0));
  Ok (fst r', snd r).

Definition sob_claim (h : Access.hub) (sp : spos) (blk ep a : Z) (first : Z * Z) (adds : list (Z * Z)) (b : Z)
  : result (spos * souts * Z) :=
  do owners <- sowners_of sp (first :: adds);
  do u <- Access.claim_original_owner owners None;
  check Access.is_whitelisted h u a else EPerm;
  do sp1 <- pseq sp (map (pxfer a u) (first :: adds));
  do r <- ep_claim_multi sp1 blk ep u u first adds b;
  do r' <- pstep (fst r) (PTransfer (nth 0 (snd r) 0) u a (nth 1 (snd r) 0));
  Ok (fst r', snd r, u).

Record sbst := mkSB {
  sb_p : spos;
  sb_hub : Access.hub;
  sb_rew : list (Z * Z);       (* ghost: reward tokens each account has received from the contract *)
  sb_out : list (Z * Z);       (* ghost: staking tokens each account has received by unbonding *)
  sb_in : list (Z * Z)         (* ghost: staking tokens each account has paid in *)
}.

Definition init_sb (dsc apr minub hub_owner : Z) : sbst :=
  mkSB (init_sp dsc apr minub) (Access.mkHub [] [] hub_owner) [] [] [].

Inductive sbop :=
| SBP (op : pop)
| SBHub (op : Access.hub_op)
| SBStakeOB (blk ep a u amt : Z) (adds : list (Z * Z)) (b : Z)
| SBClaimOB (blk ep a : Z) (first : Z * Z) (adds : list (Z * Z)) (b : Z).

Definition pcaller (op : pop) : Z :=
  match op with
  | PStake _ _ c _ _ _ _ | PStakeProxy _ _ c _ _ _ _ | PClaim _ _ c _ _ _ | PClaimNewValue _ _ c _ _ _ _
  | PCompound _ _ c _ _ _ | PUnstake _ _ c _ _ _ | PUnstakeProxy _ _ c _ _ _ _ | PUnbond _ c _ _
  | PMerge _ _ c _ _ | PClaimBoosted _ _ c _ => c
  | _ => 0
  end.

Definition preward (op : pop) (o : souts) : Z :=
  match op with
  | PStake _ _ _ _ _ _ _ | PStakeProxy _ _ _ _ _ _ _ | PClaim _ _ _ _ _ _ | PClaimNewValue _ _ _ _ _ _ _
  | PUnstake _ _ _ _ _ _ | PUnstakeProxy _ _ _ _ _ _ _ | PMerge _ _ _ _ _ => nth 2 o 0
  | PClaimBoosted _ _ _ _ => nth 0 o 0
  | _ => 0
  end.

Definition pin (op : pop) : Z :=
  match op with PStake _ _ _ _ amt _ _ => amt | PUnstakeProxy _ _ _ _ _ t _ => t | _ => 0 end.
Definition pout (op : pop) (o : souts) : Z := match op with PUnbond _ _ _ _ => nth 0 o 0 | _ => 0 end.

Definition sbstep (s : sbst) (op : sbop) : result (sbst * souts) :=
  match op with
  | SBP op =>
      do r <- pstep (sb_p s) op;
      let c := pcaller op in
      Ok (mkSB (fst r) (sb_hub s) (acredit (sb_rew s) c (preward op (snd r)))
               (acredit (sb_out s) c (pout op (snd r))) (acredit (sb_in s) c (pin op)), snd r)
  | SBHub op =>
      do h' <- Access.hub_step (sb_hub s) op;
      Ok (mkSB (sb_p s) h' (sb_rew s) (sb_out s) (sb_in s), [])
  | SBStakeOB blk ep a u amt adds b =>
      do r <- sob_stake (sb_hub s) (sb_p s) blk ep a u amt adds b;
      Ok (mkSB (fst r) (sb_hub s) (acredit (sb_rew s) u (nth 2 (snd r) 0)) (sb_out s) (acredit (sb_in s) a amt), snd r)
  | SBClaimOB blk ep a first adds b =>
      do r <- sob_claim (sb_hub s) (sb_p s) blk ep a first adds b;
      let '(sp', o, u) := r in
      Ok (mkSB sp' (sb_hub s) (acredit (sb_rew s) u (nth 2 o 0)) (sb_out s) (sb_in s), o)
  end.

Definition sbstep_total (s : sbst) (op : sbop) : sbst :=
  match sbstep s op with Ok (s', _) => s' | Err _ => s end.

Definition sbrun (s : sbst) (ops : list sbop) : sbst := fold_left sbstep_total ops s.
