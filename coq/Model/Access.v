(** Access model for C19 (authorisation and pause across all contracts).

    Two layers, both executable (no proofs in this file):

    1. Guard primitives, for ALL callers: a caller is described by [facts] (is it the chain owner,
       which [Permissions] bits does it hold in the contract, which configured counterparties is it,
       is it authorised / blacklisted in the permissions hub); [guard_ok] mirrors the code of the
       guard modules (permissions_module::require_caller_any_of, #[only_owner],
       sc_whitelist_module / WhitelistMapper, permissions_hub_module::require_user_whitelisted,
       the `caller == configured address` comparisons), [state_ok] mirrors the state checks
       (pausable::State, multiversx_sc_modules::pause, pair is_state_active / can_swap,
       base_farm_validation).  Small state machines for the permissions module + pausable module
       ([pm_step]) and for dex/permissions-hub ([hub_step]) mirror those contracts' endpoints.

    2. The access table: one row per externally callable function (and per "acting for somebody
       else" argument variant) of every contract in scope, giving its guard, its state requirement
       and its kind.  [verdict] is what a call of that row must do for a caller role in a contract
       state; tools/sys_access.py executes every cell on the real contracts and Run/AccessRun.v
       compares.  Gen/Endpoints.v (regenerated from the Rust sources on every run) is the inventory
       the table must cover (Proofs/AccessProofs.v: inventory_covered). *)
From Coq Require Import ZArith List Bool String.
From MX Require Import Base.Prelude Gen.Params Gen.Endpoints.
Import ListNotations.
Open Scope Z_scope.

(** ------------------------------------------------------------------ contracts *)
Inductive contract :=
| CPair | CRouter | CFarm | CFarmLocked | CStaking | CStakingProxy | CEnergy | CUnstake | CLkmex
| CWrapper | CProxyDex | CSimpleLock | CFees | CGov | CPriceDisc | CHub.

Definition all_contracts : list contract :=
  [CPair; CRouter; CFarm; CFarmLocked; CStaking; CStakingProxy; CEnergy; CUnstake; CLkmex;
   CWrapper; CProxyDex; CSimpleLock; CFees; CGov; CPriceDisc; CHub].

(** the code name used by the executor and by Gen/Endpoints.v *)
Definition contract_name (c : contract) : string :=
  match c with
  | CPair => "pair" | CRouter => "router" | CFarm => "farm"
  | CFarmLocked => "farm-with-locked-rewards" | CStaking => "farm-staking"
  | CStakingProxy => "farm-staking-proxy" | CEnergy => "energy-factory"
  | CUnstake => "token-unstake" | CLkmex => "lkmex-transfer" | CWrapper => "locked-token-wrapper"
  | CProxyDex => "proxy_dex" | CSimpleLock => "simple-lock" | CFees => "fees-collector"
  | CGov => "governance-v2" | CPriceDisc => "price-discovery" | CHub => "permissions-hub"
  end%string.

Definition contract_id (c : contract) : Z :=
  match c with
  | CPair => 0 | CRouter => 1 | CFarm => 2 | CFarmLocked => 3 | CStaking => 4 | CStakingProxy => 5
  | CEnergy => 6 | CUnstake => 7 | CLkmex => 8 | CWrapper => 9 | CProxyDex => 10 | CSimpleLock => 11
  | CFees => 12 | CGov => 13 | CPriceDisc => 14 | CHub => 15
  end.

Definition contract_eqb (a b : contract) : bool := contract_id a =? contract_id b.

(** ------------------------------------------------------------------ callers *)
(** Configured counterparties: addresses a contract compares the caller with (or keeps in a
    whitelist of contracts). *)
Inductive party :=
| PWhitelistedSC   (* sc_whitelist_module::scWhitelistAddresses; the pair's own `whitelist` *)
| PRouter          (* pair: router_address (holds OWNER|PAUSE permission bits, is not the chain owner) *)
| PUnstakeSC       (* energy factory: token_unstake_sc_address *)
| POldFactory      (* energy factory: old_locked_asset_factory_address *)
| PTransferSC      (* energy factory: token_transfer_whitelist *)
| PEnergyFactory   (* token-unstake: energy_factory_address *)
| PKnownContract   (* fees collector: known_contracts *)
| PAdder           (* pair: initial_liquidity_adder *)
| PProposer.       (* governance: the proposal's proposer *)

Definition party_id (p : party) : Z :=
  match p with
  | PWhitelistedSC => 0 | PRouter => 1 | PUnstakeSC => 2 | POldFactory => 3 | PTransferSC => 4
  | PEnergyFactory => 5 | PKnownContract => 6 | PAdder => 7 | PProposer => 8
  end.
Definition party_eqb (a b : party) : bool := party_id a =? party_id b.

(** The caller roles of the executed matrix.  [RAgentAuth] was whitelisted in the permissions hub by
    the position owner; [RAgentRevoked] was whitelisted and then removed by the owner;
    [RAgentBlack] is whitelisted by the owner but blacklisted by the hub's owner. *)
Inductive role :=
| ROwner | RAdmin | RPauser | RUser | RAgentAuth | RAgentRevoked | RAgentBlack
| RParty (p : party).

Definition role_id (r : role) : Z :=
  match r with
  | ROwner => 0 | RAdmin => 1 | RPauser => 2 | RUser => 3 | RAgentAuth => 4 | RAgentRevoked => 5
  | RAgentBlack => 6 | RParty p => 10 + party_id p
  end.
Definition role_eqb (a b : role) : bool := role_id a =? role_id b.

Definition base_roles : list role := [ROwner; RAdmin; RPauser; RUser; RAgentAuth; RAgentRevoked; RAgentBlack].

(** what a guard can see of a caller *)
Record facts := mkFacts {
  cf_chain_owner : bool;          (* blockchain().get_owner_address() == caller *)
  cf_perms : Z;                   (* permissions(caller), a bit set of PERM_OWNER / PERM_ADMIN / PERM_PAUSE *)
  cf_party : party -> bool;       (* caller == the configured counterparty / is in that whitelist *)
  cf_hub_listed : bool;           (* caller is in whitelist(user) of the permissions hub *)
  cf_hub_black : bool             (* caller is in the hub's blacklist *)
}.

(** Recorded original owner of a paid position, relative to the user a caller acts for: the user
    itself, or another user — who may have authorised the caller too, may have revoked it, or may
    never have authorised it (the three cases are told apart only to show that they do not matter). *)
Inductive other_auth := OAlsoAuthorised | ORevoked | ONeverAuthorised.
Definition other_auth_id (a : other_auth) : Z :=
  match a with OAlsoAuthorised => 0 | ORevoked => 1 | ONeverAuthorised => 2 end.
Inductive owner_tag := OUser | OOther (a : other_auth).
Definition is_user_tag (t : owner_tag) : bool := match t with OUser => true | OOther _ => false end.
(** original_owner_helper: every paid position must carry the user as its original owner *)
Definition all_owned_by_user (l : list owner_tag) : bool := forallb is_user_tag l.

(** ------------------------------------------------------------------ guards *)
Inductive guard :=
| GLifecycle           (* init / upgrade: reachable only through deployment / upgrade (protocol rule) *)
| GOnlyOwner           (* #[only_owner] *)
| GPerm (mask : Z)     (* permissions_module::require_caller_any_of(mask) *)
| GParty (p : party)   (* caller must be that counterparty *)
| GOwnerOrOpen         (* router: the owner, or anybody once pair creation is enabled *)
| GHub                 (* permissions_hub_module::require_user_whitelisted(user, caller) *)
| GHubOwned (l : list owner_tag)
                       (* ... plus original_owner_helper::check_additional_payments_original_owner /
                          get_claim_original_owner / farm-staking-proxy check_stake_farm_payments over the
                          paid positions [l] (main position first, then the additional ones) *)
| GNobody              (* allow_external_claim(user): a flag no endpoint can set *)
| GQuery               (* require_queried: caller == the contract itself (VM query) *)
| GAnyone.

(** permissions_module::require_caller_any_of — `caller_permissions.intersects(permissions)` *)
Definition intersects (caller_perms mask : Z) : bool := negb (Z.land caller_perms mask =? 0).
Definition require_any_of (caller_perms mask : Z) : result unit :=
  check intersects caller_perms mask else EPerm; Ok tt.

(** permissions hub: dex/permissions-hub is_whitelisted *)
Definition hub_authorised (f : facts) : bool := negb (cf_hub_black f) && cf_hub_listed f.

(** pair creation by non-owners is a configuration flag of the router (false after init) *)
Definition guard_ok (open : bool) (g : guard) (f : facts) : bool :=
  match g with
  | GLifecycle => false
  | GOnlyOwner => cf_chain_owner f
  | GPerm m => intersects (cf_perms f) m
  | GParty p => cf_party f p
  | GOwnerOrOpen => cf_chain_owner f || open
  | GHub => hub_authorised f
  | GHubOwned l => all_owned_by_user l && hub_authorised f
  | GNobody => false
  | GQuery => false
  | GAnyone => true
  end.

(** Acting for another user [u]: either the `opt_orig_caller` argument (get_orig_caller_from_opt:
    the caller must be a whitelisted contract) or an ...OnBehalf endpoint (hub rule). *)
Inductive behalf_path := ViaOrigCallerArg | ViaOnBehalfEndpoint.
Definition behalf_guard (p : behalf_path) : guard :=
  match p with ViaOrigCallerArg => GParty PWhitelistedSC | ViaOnBehalfEndpoint => GHub end.
Definition act_on_behalf (p : behalf_path) (f : facts) : result unit :=
  check guard_ok false (behalf_guard p) f else EPerm; Ok tt.

(** ------------------------------------------------------------------ contract states *)
(** [Inactive]: as deployed, never activated (pair: no liquidity yet; energy factory: paused by init).
    [Paused]: paused after having been live (same stored value as Inactive, but with positions). *)
Inductive cstate := Inactive | PartialActive | Active | Paused.
Definition cstate_id (s : cstate) : Z :=
  match s with Inactive => 0 | PartialActive => 2 | Active => 1 | Paused => 3 end.
Definition cstate_eqb (a b : cstate) : bool := cstate_id a =? cstate_id b.

(** the stored pausable::State discriminant of a contract state *)
Definition stored_state (s : cstate) : Z :=
  match s with Inactive => ST_Inactive | Paused => ST_Inactive | Active => ST_Active
             | PartialActive => ST_PartialActive end.

Inductive sreq :=
| SAny
| SActive        (* farms / staking: validate_contract_state; pair: can_swap; pause module: not_paused *)
| SLiquidity     (* pair: is_state_active = Active or PartialActive *)
| SBootstrap     (* pair addInitialLiquidity: !is_state_active and lp supply = 0 *)
| SPausedOnly.   (* pause module: require_paused *)

Definition is_state_active (st : Z) : bool := (st =? ST_Active) || (st =? ST_PartialActive).
Definition can_swap (st : Z) : bool := st =? ST_Active.

(** [fresh]: no liquidity has been added yet (only in [Inactive]) *)
Definition fresh (s : cstate) : bool := cstate_eqb s Inactive.

Definition state_ok (r : sreq) (s : cstate) : bool :=
  match r with
  | SAny => true
  | SActive => can_swap (stored_state s)
  | SLiquidity => is_state_active (stored_state s)
  | SBootstrap => negb (is_state_active (stored_state s)) && fresh s
  | SPausedOnly => stored_state s =? ST_Inactive
  end.

(** ------------------------------------------------------------------ classes *)
Inductive kind :=
| KLifecycle | KView | KConfig | KUserFunds | KUserNoFunds | KContractEntry | KOnBehalf.
Definition kind_id (k : kind) : Z :=
  match k with KLifecycle => 0 | KView => 1 | KConfig => 2 | KUserFunds => 3 | KUserNoFunds => 4
             | KContractEntry => 5 | KOnBehalf => 6 end.
Definition kind_eqb (a b : kind) : bool := kind_id a =? kind_id b.

Record class := mkClass { c_guard : guard; c_sreq : sreq; c_kind : kind }.

Definition Lifecycle := mkClass GLifecycle SAny KLifecycle.
Definition View := mkClass GAnyone SAny KView.
Definition ViewQueryOnly := mkClass GQuery SAny KView.
Definition OnlyOwnerAttr := mkClass GOnlyOwner SAny KConfig.
Definition OnlyOwnerActive := mkClass GOnlyOwner SActive KConfig.       (* router: also `require!(is_active)` *)
Definition OnlyOwnerPaused := mkClass GOnlyOwner SPausedOnly KConfig.   (* energy factory: require_paused *)
Definition OwnerPerm := mkClass (GPerm PERM_OWNER) SAny KConfig.
Definition OwnerOrAdmin := mkClass (GPerm (Z.lor PERM_OWNER PERM_ADMIN)) SAny KConfig.
Definition AdminPerm := mkClass (GPerm PERM_ADMIN) SAny KConfig.
Definition Pauser := mkClass (GPerm PERM_PAUSE) SAny KConfig.
Definition OwnerOrOpen (s : sreq) := mkClass GOwnerOrOpen s KConfig.
Definition WhitelistedSC (s : sreq) := mkClass (GParty PWhitelistedSC) s KContractEntry.
Definition UnstakeSC (s : sreq) := mkClass (GParty PUnstakeSC) s KContractEntry.
Definition OldFactory (s : sreq) := mkClass (GParty POldFactory) s KContractEntry.
Definition TransferSC (s : sreq) := mkClass (GParty PTransferSC) s KContractEntry.
Definition EnergyFactoryOnly (s : sreq) := mkClass (GParty PEnergyFactory) s KContractEntry.
Definition KnownContract (s : sreq) := mkClass (GParty PKnownContract) s KContractEntry.
Definition UserFunds (s : sreq) := mkClass GAnyone s KUserFunds.
Definition UserNoFunds (s : sreq) := mkClass GAnyone s KUserNoFunds.
Definition Bootstrap := mkClass (GParty PAdder) SBootstrap KUserFunds.
Definition AdderOnly (s : sreq) := mkClass (GParty PAdder) s KUserFunds.
Definition ProposerOnly := mkClass (GParty PProposer) SAny KUserFunds.
Definition OnBehalf (s : sreq) := mkClass (behalf_guard ViaOnBehalfEndpoint) s KOnBehalf.
Definition OrigCaller (s : sreq) := mkClass (behalf_guard ViaOrigCallerArg) s KOnBehalf.
Definition ExternalClaim (s : sreq) := mkClass GNobody s KOnBehalf.

(** argument variants of one endpoint that select a different guard *)
Inductive variant :=
| VPlain
| VOrigCaller    (* the optional original-caller argument is given (another user's address) *)
| VForOther      (* claimBoostedRewards for another user's address *)
| VMultiOwn      (* on behalf, three position payments, all recorded for the user acted for *)
| VForeignOwner (k : Z) (o : other_auth).
                 (* on behalf, three position payments; payment k (0 = main, 1 / 2 = first / second
                    additional) is recorded for ANOTHER user, whose relation to the caller is [o] *)
Definition variant_id (v : variant) : Z :=
  match v with
  | VPlain => 0 | VOrigCaller => 1 | VForOther => 2 | VMultiOwn => 3
  | VForeignOwner k o => 10 + 3 * k + other_auth_id o
  end.

(** the recorded owners of the paid positions of a multi-payment on-behalf variant *)
Definition tag_at (k : Z) (o : other_auth) (i : Z) : owner_tag := if i =? k then OOther o else OUser.
Definition payments_of (v : variant) : list owner_tag :=
  match v with
  | VMultiOwn => [OUser; OUser; OUser]
  | VForeignOwner k o => [tag_at k o 0; tag_at k o 1; tag_at k o 2]
  | _ => [OUser]
  end.

(** on behalf with several position payments: allowed only if every paid position's recorded owner is
    the user acted for and that user authorised the caller *)
Definition OnBehalfMulti (s : sreq) := mkClass (GHubOwned (payments_of VMultiOwn)) s KOnBehalf.
Definition ForeignOwner (k : Z) (o : other_auth) (s : sreq) :=
  mkClass (GHubOwned (payments_of (VForeignOwner k o))) s KOnBehalf.
Definition variant_eqb (a b : variant) : bool := variant_id a =? variant_id b.

Definition row := (contract * string * variant * class)%type.
Definition row_contract (r : row) : contract := fst (fst (fst r)).
Definition row_endpoint (r : row) : string := snd (fst (fst r)).
Definition row_variant (r : row) : variant := snd (fst r).
Definition row_class (r : row) : class := snd r.

(** ------------------------------------------------------------------ the table *)
Open Scope string_scope.
Definition access_table : list row := [
  (* ---- pair *)
  (CPair, "init", VPlain, Lifecycle);
  (CPair, "upgrade", VPlain, Lifecycle);
  (CPair, "setLpTokenIdentifier", VPlain, OwnerPerm);
  (CPair, "getFeeState", VPlain, View);
  (CPair, "whitelist", VPlain, OwnerPerm);
  (CPair, "removeWhitelist", VPlain, OwnerPerm);
  (CPair, "addTrustedSwapPair", VPlain, OwnerPerm);
  (CPair, "removeTrustedSwapPair", VPlain, OwnerPerm);
  (CPair, "setupFeesCollector", VPlain, OwnerPerm);
  (CPair, "setFeeOn", VPlain, OwnerPerm);
  (CPair, "getFeeDestinations", VPlain, View);
  (CPair, "getTrustedSwapPairs", VPlain, View);
  (CPair, "getWhitelistedManagedAddresses", VPlain, View);
  (CPair, "getFeesCollectorAddress", VPlain, View);
  (CPair, "getFeesCollectorCutPercentage", VPlain, View);
  (CPair, "setStateActiveNoSwaps", VPlain, OwnerPerm);
  (CPair, "setFeePercents", VPlain, OwnerOrAdmin);
  (CPair, "getLpTokenIdentifier", VPlain, View);
  (CPair, "getTotalFeePercent", VPlain, View);
  (CPair, "getSpecialFee", VPlain, View);
  (CPair, "getRouterManagedAddress", VPlain, View);
  (CPair, "getFirstTokenId", VPlain, View);
  (CPair, "getSecondTokenId", VPlain, View);
  (CPair, "getTotalSupply", VPlain, View);
  (CPair, "getInitialLiquidtyAdder", VPlain, View);
  (CPair, "getReserve", VPlain, View);
  (CPair, "getSafePriceCurrentIndex", VPlain, View);
  (CPair, "getLpTokensSafePriceByDefaultOffset", VPlain, View);
  (CPair, "getLpTokensSafePriceByRoundOffset", VPlain, View);
  (CPair, "getLpTokensSafePriceByTimestampOffset", VPlain, View);
  (CPair, "getLpTokensSafePrice", VPlain, View);
  (CPair, "getSafePriceByDefaultOffset", VPlain, View);
  (CPair, "getSafePriceByRoundOffset", VPlain, View);
  (CPair, "getSafePriceByTimestampOffset", VPlain, View);
  (CPair, "getSafePrice", VPlain, View);
  (CPair, "getPriceObservation", VPlain, View);
  (CPair, "updateAndGetTokensForGivenPositionWithSafePrice", VPlain, UserNoFunds SAny);
  (CPair, "updateAndGetSafePrice", VPlain, UserNoFunds SAny);
  (CPair, "setLockingDeadlineEpoch", VPlain, OwnerPerm);
  (CPair, "setLockingScAddress", VPlain, OwnerPerm);
  (CPair, "setUnlockEpoch", VPlain, OwnerPerm);
  (CPair, "getLockingScAddress", VPlain, View);
  (CPair, "getUnlockEpoch", VPlain, View);
  (CPair, "getLockingDeadlineEpoch", VPlain, View);
  (CPair, "addAdmin", VPlain, OwnerPerm);
  (CPair, "removeAdmin", VPlain, OwnerPerm);
  (CPair, "updateOwnerOrAdmin", VPlain, OnlyOwnerAttr);
  (CPair, "getPermissions", VPlain, View);
  (CPair, "addToPauseWhitelist", VPlain, OwnerPerm);
  (CPair, "removeFromPauseWhitelist", VPlain, OwnerPerm);
  (CPair, "pause", VPlain, Pauser);
  (CPair, "resume", VPlain, Pauser);
  (CPair, "getState", VPlain, View);
  (CPair, "addInitialLiquidity", VPlain, Bootstrap);
  (CPair, "addLiquidity", VPlain, UserFunds SLiquidity);
  (CPair, "removeLiquidity", VPlain, UserFunds SLiquidity);
  (CPair, "removeLiquidityAndBuyBackAndBurnToken", VPlain, WhitelistedSC SAny);
  (CPair, "swapNoFeeAndForward", VPlain, WhitelistedSC SActive);
  (CPair, "swapTokensFixedInput", VPlain, UserFunds SActive);
  (CPair, "swapTokensFixedOutput", VPlain, UserFunds SActive);
  (CPair, "getTokensForGivenPosition", VPlain, View);
  (CPair, "getReservesAndTotalSupply", VPlain, View);
  (CPair, "getAmountOut", VPlain, View);
  (CPair, "getAmountIn", VPlain, View);
  (CPair, "getEquivalent", VPlain, View);
  (* ---- router *)
  (CRouter, "init", VPlain, Lifecycle);
  (CRouter, "upgrade", VPlain, Lifecycle);
  (CRouter, "pause", VPlain, OnlyOwnerAttr);
  (CRouter, "resume", VPlain, OnlyOwnerAttr);
  (CRouter, "createPair", VPlain, OwnerOrOpen SActive);
  (CRouter, "upgradePair", VPlain, OnlyOwnerActive);
  (CRouter, "issueLpToken", VPlain, OwnerOrOpen SActive);
  (CRouter, "setLocalRoles", VPlain, UserNoFunds SActive);
  (CRouter, "removePair", VPlain, OnlyOwnerActive);
  (CRouter, "setFeeOn", VPlain, OnlyOwnerActive);
  (CRouter, "setFeeOff", VPlain, OnlyOwnerActive);
  (CRouter, "setPairCreationEnabled", VPlain, OnlyOwnerAttr);
  (CRouter, "getPairCreationEnabled", VPlain, View);
  (CRouter, "getState", VPlain, View);
  (CRouter, "getOwner", VPlain, View);
  (CRouter, "setTemporaryOwnerPeriod", VPlain, OnlyOwnerAttr);
  (CRouter, "setPairTemplateAddress", VPlain, OnlyOwnerAttr);
  (CRouter, "getPairTemplateAddress", VPlain, View);
  (CRouter, "getTemporaryOwnerPeriod", VPlain, View);
  (CRouter, "getCommonTokensForUserPairs", VPlain, View);
  (CRouter, "getAllPairsManagedAddresses", VPlain, View);
  (CRouter, "getAllPairTokens", VPlain, View);
  (CRouter, "getAllPairContractMetadata", VPlain, View);
  (CRouter, "getPair", VPlain, View);
  (CRouter, "clearPairTemporaryOwnerStorage", VPlain, OnlyOwnerAttr);
  (CRouter, "multiPairSwap", VPlain, UserFunds SActive);
  (CRouter, "configEnableByUserParameters", VPlain, OnlyOwnerAttr);
  (CRouter, "addCommonTokensForUserPairs", VPlain, OnlyOwnerAttr);
  (CRouter, "removeCommonTokensForUserPairs", VPlain, OnlyOwnerAttr);
  (CRouter, "setSwapEnabledByUser", VPlain, AdderOnly SActive);
  (CRouter, "getEnableSwapByUserConfig", VPlain, View);
  (* ---- farm *)
  (CFarm, "init", VPlain, Lifecycle);
  (CFarm, "upgrade", VPlain, Lifecycle);
  (CFarm, "enterFarm", VPlain, UserFunds SActive);
  (CFarm, "enterFarm", VOrigCaller, OrigCaller SActive);
  (CFarm, "claimRewards", VPlain, UserFunds SActive);
  (CFarm, "claimRewards", VOrigCaller, OrigCaller SActive);
  (CFarm, "compoundRewards", VPlain, UserFunds SActive);
  (CFarm, "compoundRewards", VOrigCaller, OrigCaller SActive);
  (CFarm, "exitFarm", VPlain, UserFunds SActive);
  (CFarm, "exitFarm", VOrigCaller, OrigCaller SActive);
  (CFarm, "mergeFarmTokens", VPlain, UserFunds SActive);
  (CFarm, "mergeFarmTokens", VOrigCaller, OrigCaller SActive);
  (CFarm, "claimBoostedRewards", VPlain, UserFunds SActive);
  (CFarm, "claimBoostedRewards", VForOther, ExternalClaim SActive);
  (CFarm, "startProduceRewards", VPlain, AdminPerm);
  (CFarm, "endProduceRewards", VPlain, AdminPerm);
  (CFarm, "setPerBlockRewardAmount", VPlain, AdminPerm);
  (CFarm, "setBoostedYieldsRewardsPercentage", VPlain, AdminPerm);
  (CFarm, "calculateRewardsForGivenPosition", VPlain, ViewQueryOnly);
  (CFarm, "getRewardPerShare", VPlain, View);
  (CFarm, "getRewardReserve", VPlain, View);
  (CFarm, "getFarmingTokenId", VPlain, View);
  (CFarm, "getRewardTokenId", VPlain, View);
  (CFarm, "getPerBlockRewardAmount", VPlain, View);
  (CFarm, "getLastRewardBlockNonce", VPlain, View);
  (CFarm, "getDivisionSafetyConstant", VPlain, View);
  (CFarm, "getUserTotalFarmPosition", VPlain, View);
  (CFarm, "getAllowExternalClaim", VPlain, View);
  (CFarm, "getFarmPositionMigrationNonce", VPlain, View);
  (CFarm, "registerFarmToken", VPlain, OwnerOrAdmin);
  (CFarm, "getFarmTokenId", VPlain, View);
  (CFarm, "getFarmTokenSupply", VPlain, View);
  (CFarm, "addToPauseWhitelist", VPlain, OwnerPerm);
  (CFarm, "removeFromPauseWhitelist", VPlain, OwnerPerm);
  (CFarm, "pause", VPlain, Pauser);
  (CFarm, "resume", VPlain, Pauser);
  (CFarm, "getState", VPlain, View);
  (CFarm, "addAdmin", VPlain, OwnerPerm);
  (CFarm, "removeAdmin", VPlain, OwnerPerm);
  (CFarm, "updateOwnerOrAdmin", VPlain, OnlyOwnerAttr);
  (CFarm, "getPermissions", VPlain, View);
  (CFarm, "setPermissionsHubAddress", VPlain, OnlyOwnerAttr);
  (CFarm, "addSCAddressToWhitelist", VPlain, OnlyOwnerAttr);
  (CFarm, "removeSCAddressFromWhitelist", VPlain, OnlyOwnerAttr);
  (CFarm, "isSCAddressWhitelisted", VPlain, View);
  (CFarm, "set_penalty_percent", VPlain, OnlyOwnerAttr);
  (CFarm, "set_minimum_farming_epochs", VPlain, AdminPerm);
  (CFarm, "set_burn_gas_limit", VPlain, OnlyOwnerAttr);
  (CFarm, "getPenaltyPercent", VPlain, View);
  (CFarm, "getMinimumFarmingEpoch", VPlain, View);
  (CFarm, "getBurnGasLimit", VPlain, View);
  (CFarm, "getPairContractManagedAddress", VPlain, View);
  (CFarm, "enterFarmOnBehalf", VPlain, OnBehalf SActive);
  (CFarm, "enterFarmOnBehalf", VMultiOwn, OnBehalfMulti SActive);
  (CFarm, "enterFarmOnBehalf", VForeignOwner 1 OAlsoAuthorised, ForeignOwner 1 OAlsoAuthorised SActive);
  (CFarm, "enterFarmOnBehalf", VForeignOwner 1 ORevoked, ForeignOwner 1 ORevoked SActive);
  (CFarm, "enterFarmOnBehalf", VForeignOwner 1 ONeverAuthorised, ForeignOwner 1 ONeverAuthorised SActive);
  (CFarm, "enterFarmOnBehalf", VForeignOwner 2 OAlsoAuthorised, ForeignOwner 2 OAlsoAuthorised SActive);
  (CFarm, "enterFarmOnBehalf", VForeignOwner 2 ORevoked, ForeignOwner 2 ORevoked SActive);
  (CFarm, "enterFarmOnBehalf", VForeignOwner 2 ONeverAuthorised, ForeignOwner 2 ONeverAuthorised SActive);
  (CFarm, "claimRewardsOnBehalf", VPlain, OnBehalf SActive);
  (CFarm, "claimRewardsOnBehalf", VMultiOwn, OnBehalfMulti SActive);
  (CFarm, "claimRewardsOnBehalf", VForeignOwner 0 OAlsoAuthorised, ForeignOwner 0 OAlsoAuthorised SActive);
  (CFarm, "claimRewardsOnBehalf", VForeignOwner 0 ORevoked, ForeignOwner 0 ORevoked SActive);
  (CFarm, "claimRewardsOnBehalf", VForeignOwner 0 ONeverAuthorised, ForeignOwner 0 ONeverAuthorised SActive);
  (CFarm, "claimRewardsOnBehalf", VForeignOwner 1 OAlsoAuthorised, ForeignOwner 1 OAlsoAuthorised SActive);
  (CFarm, "claimRewardsOnBehalf", VForeignOwner 1 ORevoked, ForeignOwner 1 ORevoked SActive);
  (CFarm, "claimRewardsOnBehalf", VForeignOwner 1 ONeverAuthorised, ForeignOwner 1 ONeverAuthorised SActive);
  (CFarm, "claimRewardsOnBehalf", VForeignOwner 2 OAlsoAuthorised, ForeignOwner 2 OAlsoAuthorised SActive);
  (CFarm, "claimRewardsOnBehalf", VForeignOwner 2 ORevoked, ForeignOwner 2 ORevoked SActive);
  (CFarm, "claimRewardsOnBehalf", VForeignOwner 2 ONeverAuthorised, ForeignOwner 2 ONeverAuthorised SActive);
  (CFarm, "collectUndistributedBoostedRewards", VPlain, AdminPerm);
  (CFarm, "getBoostedYieldsRewardsPercentage", VPlain, View);
  (CFarm, "getAccumulatedRewardsForWeek", VPlain, View);
  (CFarm, "getFarmSupplyForWeek", VPlain, View);
  (CFarm, "getRemainingBoostedRewardsToDistribute", VPlain, View);
  (CFarm, "getUndistributedBoostedRewards", VPlain, View);
  (CFarm, "setBoostedYieldsFactors", VPlain, AdminPerm);
  (CFarm, "getBoostedYieldsFactors", VPlain, View);
  (CFarm, "getCurrentWeek", VPlain, View);
  (CFarm, "getFirstWeekStartEpoch", VPlain, View);
  (CFarm, "getLastActiveWeekForUser", VPlain, View);
  (CFarm, "getUserEnergyForWeek", VPlain, View);
  (CFarm, "getLastGlobalUpdateWeek", VPlain, View);
  (CFarm, "getTotalRewardsForWeek", VPlain, View);
  (CFarm, "getTotalEnergyForWeek", VPlain, View);
  (CFarm, "getTotalLockedTokensForWeek", VPlain, View);
  (CFarm, "updateEnergyForUser", VPlain, UserNoFunds SAny);
  (CFarm, "getCurrentClaimProgress", VPlain, View);
  (CFarm, "setEnergyFactoryAddress", VPlain, OnlyOwnerAttr);
  (CFarm, "getEnergyFactoryAddress", VPlain, View);
  (* ---- farm-with-locked-rewards *)
  (CFarmLocked, "init", VPlain, Lifecycle);
  (CFarmLocked, "upgrade", VPlain, Lifecycle);
  (CFarmLocked, "enterFarm", VPlain, UserFunds SActive);
  (CFarmLocked, "enterFarm", VOrigCaller, OrigCaller SActive);
  (CFarmLocked, "claimRewards", VPlain, UserFunds SActive);
  (CFarmLocked, "claimRewards", VOrigCaller, OrigCaller SActive);
  (CFarmLocked, "exitFarm", VPlain, UserFunds SActive);
  (CFarmLocked, "exitFarm", VOrigCaller, OrigCaller SActive);
  (CFarmLocked, "mergeFarmTokens", VPlain, UserFunds SActive);
  (CFarmLocked, "mergeFarmTokens", VOrigCaller, OrigCaller SActive);
  (CFarmLocked, "claimBoostedRewards", VPlain, UserFunds SActive);
  (CFarmLocked, "claimBoostedRewards", VForOther, ExternalClaim SActive);
  (CFarmLocked, "startProduceRewards", VPlain, AdminPerm);
  (CFarmLocked, "endProduceRewards", VPlain, AdminPerm);
  (CFarmLocked, "setPerBlockRewardAmount", VPlain, AdminPerm);
  (CFarmLocked, "setBoostedYieldsRewardsPercentage", VPlain, AdminPerm);
  (CFarmLocked, "calculateRewardsForGivenPosition", VPlain, ViewQueryOnly);
  (CFarmLocked, "getRewardPerShare", VPlain, View);
  (CFarmLocked, "getRewardReserve", VPlain, View);
  (CFarmLocked, "getFarmingTokenId", VPlain, View);
  (CFarmLocked, "getRewardTokenId", VPlain, View);
  (CFarmLocked, "getPerBlockRewardAmount", VPlain, View);
  (CFarmLocked, "getLastRewardBlockNonce", VPlain, View);
  (CFarmLocked, "getDivisionSafetyConstant", VPlain, View);
  (CFarmLocked, "getUserTotalFarmPosition", VPlain, View);
  (CFarmLocked, "getAllowExternalClaim", VPlain, View);
  (CFarmLocked, "getFarmPositionMigrationNonce", VPlain, View);
  (CFarmLocked, "setLockingScAddress", VPlain, OnlyOwnerAttr);
  (CFarmLocked, "setLockEpochs", VPlain, OnlyOwnerAttr);
  (CFarmLocked, "getLockingScAddress", VPlain, View);
  (CFarmLocked, "getLockEpochs", VPlain, View);
  (CFarmLocked, "registerFarmToken", VPlain, OwnerOrAdmin);
  (CFarmLocked, "getFarmTokenId", VPlain, View);
  (CFarmLocked, "getFarmTokenSupply", VPlain, View);
  (CFarmLocked, "addToPauseWhitelist", VPlain, OwnerPerm);
  (CFarmLocked, "removeFromPauseWhitelist", VPlain, OwnerPerm);
  (CFarmLocked, "pause", VPlain, Pauser);
  (CFarmLocked, "resume", VPlain, Pauser);
  (CFarmLocked, "getState", VPlain, View);
  (CFarmLocked, "addAdmin", VPlain, OwnerPerm);
  (CFarmLocked, "removeAdmin", VPlain, OwnerPerm);
  (CFarmLocked, "updateOwnerOrAdmin", VPlain, OnlyOwnerAttr);
  (CFarmLocked, "getPermissions", VPlain, View);
  (CFarmLocked, "setPermissionsHubAddress", VPlain, OnlyOwnerAttr);
  (CFarmLocked, "addSCAddressToWhitelist", VPlain, OnlyOwnerAttr);
  (CFarmLocked, "removeSCAddressFromWhitelist", VPlain, OnlyOwnerAttr);
  (CFarmLocked, "isSCAddressWhitelisted", VPlain, View);
  (CFarmLocked, "set_penalty_percent", VPlain, OnlyOwnerAttr);
  (CFarmLocked, "set_minimum_farming_epochs", VPlain, AdminPerm);
  (CFarmLocked, "set_burn_gas_limit", VPlain, OnlyOwnerAttr);
  (CFarmLocked, "getPenaltyPercent", VPlain, View);
  (CFarmLocked, "getMinimumFarmingEpoch", VPlain, View);
  (CFarmLocked, "getBurnGasLimit", VPlain, View);
  (CFarmLocked, "getPairContractManagedAddress", VPlain, View);
  (CFarmLocked, "enterFarmOnBehalf", VPlain, OnBehalf SActive);
  (CFarmLocked, "enterFarmOnBehalf", VMultiOwn, OnBehalfMulti SActive);
  (CFarmLocked, "enterFarmOnBehalf", VForeignOwner 1 OAlsoAuthorised, ForeignOwner 1 OAlsoAuthorised SActive);
  (CFarmLocked, "enterFarmOnBehalf", VForeignOwner 1 ORevoked, ForeignOwner 1 ORevoked SActive);
  (CFarmLocked, "enterFarmOnBehalf", VForeignOwner 1 ONeverAuthorised, ForeignOwner 1 ONeverAuthorised SActive);
  (CFarmLocked, "enterFarmOnBehalf", VForeignOwner 2 OAlsoAuthorised, ForeignOwner 2 OAlsoAuthorised SActive);
  (CFarmLocked, "enterFarmOnBehalf", VForeignOwner 2 ORevoked, ForeignOwner 2 ORevoked SActive);
  (CFarmLocked, "enterFarmOnBehalf", VForeignOwner 2 ONeverAuthorised, ForeignOwner 2 ONeverAuthorised SActive);
  (CFarmLocked, "claimRewardsOnBehalf", VPlain, OnBehalf SActive);
  (CFarmLocked, "claimRewardsOnBehalf", VMultiOwn, OnBehalfMulti SActive);
  (CFarmLocked, "claimRewardsOnBehalf", VForeignOwner 0 OAlsoAuthorised, ForeignOwner 0 OAlsoAuthorised SActive);
  (CFarmLocked, "claimRewardsOnBehalf", VForeignOwner 0 ORevoked, ForeignOwner 0 ORevoked SActive);
  (CFarmLocked, "claimRewardsOnBehalf", VForeignOwner 0 ONeverAuthorised, ForeignOwner 0 ONeverAuthorised SActive);
  (CFarmLocked, "claimRewardsOnBehalf", VForeignOwner 1 OAlsoAuthorised, ForeignOwner 1 OAlsoAuthorised SActive);
  (CFarmLocked, "claimRewardsOnBehalf", VForeignOwner 1 ORevoked, ForeignOwner 1 ORevoked SActive);
  (CFarmLocked, "claimRewardsOnBehalf", VForeignOwner 1 ONeverAuthorised, ForeignOwner 1 ONeverAuthorised SActive);
  (CFarmLocked, "claimRewardsOnBehalf", VForeignOwner 2 OAlsoAuthorised, ForeignOwner 2 OAlsoAuthorised SActive);
  (CFarmLocked, "claimRewardsOnBehalf", VForeignOwner 2 ORevoked, ForeignOwner 2 ORevoked SActive);
  (CFarmLocked, "claimRewardsOnBehalf", VForeignOwner 2 ONeverAuthorised, ForeignOwner 2 ONeverAuthorised SActive);
  (CFarmLocked, "collectUndistributedBoostedRewards", VPlain, AdminPerm);
  (CFarmLocked, "getBoostedYieldsRewardsPercentage", VPlain, View);
  (CFarmLocked, "getAccumulatedRewardsForWeek", VPlain, View);
  (CFarmLocked, "getFarmSupplyForWeek", VPlain, View);
  (CFarmLocked, "getRemainingBoostedRewardsToDistribute", VPlain, View);
  (CFarmLocked, "getUndistributedBoostedRewards", VPlain, View);
  (CFarmLocked, "setBoostedYieldsFactors", VPlain, AdminPerm);
  (CFarmLocked, "getBoostedYieldsFactors", VPlain, View);
  (CFarmLocked, "getCurrentWeek", VPlain, View);
  (CFarmLocked, "getFirstWeekStartEpoch", VPlain, View);
  (CFarmLocked, "getLastActiveWeekForUser", VPlain, View);
  (CFarmLocked, "getUserEnergyForWeek", VPlain, View);
  (CFarmLocked, "getLastGlobalUpdateWeek", VPlain, View);
  (CFarmLocked, "getTotalRewardsForWeek", VPlain, View);
  (CFarmLocked, "getTotalEnergyForWeek", VPlain, View);
  (CFarmLocked, "getTotalLockedTokensForWeek", VPlain, View);
  (CFarmLocked, "updateEnergyForUser", VPlain, UserNoFunds SAny);
  (CFarmLocked, "getCurrentClaimProgress", VPlain, View);
  (CFarmLocked, "setEnergyFactoryAddress", VPlain, OnlyOwnerAttr);
  (CFarmLocked, "getEnergyFactoryAddress", VPlain, View);
  (* ---- farm-staking *)
  (CStaking, "init", VPlain, Lifecycle);
  (CStaking, "upgrade", VPlain, Lifecycle);
  (CStaking, "mergeFarmTokens", VPlain, UserFunds SActive);
  (CStaking, "setBoostedYieldsRewardsPercentage", VPlain, AdminPerm);
  (CStaking, "calculateRewardsForGivenPosition", VPlain, ViewQueryOnly);
  (CStaking, "topUpRewards", VPlain, AdminPerm);
  (CStaking, "withdrawRewards", VPlain, AdminPerm);
  (CStaking, "endProduceRewards", VPlain, AdminPerm);
  (CStaking, "setPerBlockRewardAmount", VPlain, AdminPerm);
  (CStaking, "setMaxApr", VPlain, AdminPerm);
  (CStaking, "setMinUnbondEpochs", VPlain, AdminPerm);
  (CStaking, "startProduceRewards", VPlain, AdminPerm);
  (CStaking, "getAccumulatedRewards", VPlain, View);
  (CStaking, "getRewardCapacity", VPlain, View);
  (CStaking, "getAnnualPercentageRewards", VPlain, View);
  (CStaking, "getMinUnbondEpochs", VPlain, View);
  (CStaking, "getRewardPerShare", VPlain, View);
  (CStaking, "getRewardReserve", VPlain, View);
  (CStaking, "getFarmingTokenId", VPlain, View);
  (CStaking, "getRewardTokenId", VPlain, View);
  (CStaking, "getPerBlockRewardAmount", VPlain, View);
  (CStaking, "getLastRewardBlockNonce", VPlain, View);
  (CStaking, "getDivisionSafetyConstant", VPlain, View);
  (CStaking, "getUserTotalFarmPosition", VPlain, View);
  (CStaking, "getAllowExternalClaim", VPlain, View);
  (CStaking, "getFarmPositionMigrationNonce", VPlain, View);
  (CStaking, "registerFarmToken", VPlain, OwnerOrAdmin);
  (CStaking, "getFarmTokenId", VPlain, View);
  (CStaking, "getFarmTokenSupply", VPlain, View);
  (CStaking, "addSCAddressToWhitelist", VPlain, OnlyOwnerAttr);
  (CStaking, "removeSCAddressFromWhitelist", VPlain, OnlyOwnerAttr);
  (CStaking, "isSCAddressWhitelisted", VPlain, View);
  (CStaking, "addToPauseWhitelist", VPlain, OwnerPerm);
  (CStaking, "removeFromPauseWhitelist", VPlain, OwnerPerm);
  (CStaking, "pause", VPlain, Pauser);
  (CStaking, "resume", VPlain, Pauser);
  (CStaking, "getState", VPlain, View);
  (CStaking, "addAdmin", VPlain, OwnerPerm);
  (CStaking, "removeAdmin", VPlain, OwnerPerm);
  (CStaking, "updateOwnerOrAdmin", VPlain, OnlyOwnerAttr);
  (CStaking, "getPermissions", VPlain, View);
  (CStaking, "setPermissionsHubAddress", VPlain, OnlyOwnerAttr);
  (CStaking, "setBurnRoleForAddress", VPlain, OnlyOwnerAttr);
  (CStaking, "stakeFarmThroughProxy", VPlain, WhitelistedSC SActive);
  (CStaking, "stakeFarm", VPlain, UserFunds SActive);
  (CStaking, "stakeFarm", VOrigCaller, OrigCaller SActive);
  (CStaking, "claimRewards", VPlain, UserFunds SActive);
  (CStaking, "claimRewards", VOrigCaller, OrigCaller SActive);
  (CStaking, "claimRewardsWithNewValue", VPlain, WhitelistedSC SActive);
  (CStaking, "compoundRewards", VPlain, UserFunds SActive);
  (CStaking, "unstakeFarm", VPlain, UserFunds SActive);
  (CStaking, "unstakeFarm", VOrigCaller, OrigCaller SActive);
  (CStaking, "unstakeFarmThroughProxy", VPlain, WhitelistedSC SActive);
  (CStaking, "unbondFarm", VPlain, UserFunds SActive);
  (CStaking, "stakeFarmOnBehalf", VPlain, OnBehalf SActive);
  (CStaking, "stakeFarmOnBehalf", VMultiOwn, OnBehalfMulti SActive);
  (CStaking, "stakeFarmOnBehalf", VForeignOwner 1 OAlsoAuthorised, ForeignOwner 1 OAlsoAuthorised SActive);
  (CStaking, "stakeFarmOnBehalf", VForeignOwner 1 ORevoked, ForeignOwner 1 ORevoked SActive);
  (CStaking, "stakeFarmOnBehalf", VForeignOwner 1 ONeverAuthorised, ForeignOwner 1 ONeverAuthorised SActive);
  (CStaking, "stakeFarmOnBehalf", VForeignOwner 2 OAlsoAuthorised, ForeignOwner 2 OAlsoAuthorised SActive);
  (CStaking, "stakeFarmOnBehalf", VForeignOwner 2 ORevoked, ForeignOwner 2 ORevoked SActive);
  (CStaking, "stakeFarmOnBehalf", VForeignOwner 2 ONeverAuthorised, ForeignOwner 2 ONeverAuthorised SActive);
  (CStaking, "claimRewardsOnBehalf", VPlain, OnBehalf SActive);
  (CStaking, "claimRewardsOnBehalf", VMultiOwn, OnBehalfMulti SActive);
  (CStaking, "claimRewardsOnBehalf", VForeignOwner 0 OAlsoAuthorised, ForeignOwner 0 OAlsoAuthorised SActive);
  (CStaking, "claimRewardsOnBehalf", VForeignOwner 0 ORevoked, ForeignOwner 0 ORevoked SActive);
  (CStaking, "claimRewardsOnBehalf", VForeignOwner 0 ONeverAuthorised, ForeignOwner 0 ONeverAuthorised SActive);
  (CStaking, "claimRewardsOnBehalf", VForeignOwner 1 OAlsoAuthorised, ForeignOwner 1 OAlsoAuthorised SActive);
  (CStaking, "claimRewardsOnBehalf", VForeignOwner 1 ORevoked, ForeignOwner 1 ORevoked SActive);
  (CStaking, "claimRewardsOnBehalf", VForeignOwner 1 ONeverAuthorised, ForeignOwner 1 ONeverAuthorised SActive);
  (CStaking, "claimRewardsOnBehalf", VForeignOwner 2 OAlsoAuthorised, ForeignOwner 2 OAlsoAuthorised SActive);
  (CStaking, "claimRewardsOnBehalf", VForeignOwner 2 ORevoked, ForeignOwner 2 ORevoked SActive);
  (CStaking, "claimRewardsOnBehalf", VForeignOwner 2 ONeverAuthorised, ForeignOwner 2 ONeverAuthorised SActive);
  (CStaking, "claimBoostedRewards", VPlain, UserFunds SActive);
  (CStaking, "claimBoostedRewards", VForOther, ExternalClaim SActive);
  (CStaking, "collectUndistributedBoostedRewards", VPlain, AdminPerm);
  (CStaking, "getBoostedYieldsRewardsPercentage", VPlain, View);
  (CStaking, "getAccumulatedRewardsForWeek", VPlain, View);
  (CStaking, "getFarmSupplyForWeek", VPlain, View);
  (CStaking, "getRemainingBoostedRewardsToDistribute", VPlain, View);
  (CStaking, "getUndistributedBoostedRewards", VPlain, View);
  (CStaking, "setBoostedYieldsFactors", VPlain, AdminPerm);
  (CStaking, "getBoostedYieldsFactors", VPlain, View);
  (CStaking, "getCurrentWeek", VPlain, View);
  (CStaking, "getFirstWeekStartEpoch", VPlain, View);
  (CStaking, "getLastActiveWeekForUser", VPlain, View);
  (CStaking, "getUserEnergyForWeek", VPlain, View);
  (CStaking, "getLastGlobalUpdateWeek", VPlain, View);
  (CStaking, "getTotalRewardsForWeek", VPlain, View);
  (CStaking, "getTotalEnergyForWeek", VPlain, View);
  (CStaking, "getTotalLockedTokensForWeek", VPlain, View);
  (CStaking, "updateEnergyForUser", VPlain, UserNoFunds SAny);
  (CStaking, "getCurrentClaimProgress", VPlain, View);
  (CStaking, "setEnergyFactoryAddress", VPlain, OnlyOwnerAttr);
  (CStaking, "getEnergyFactoryAddress", VPlain, View);
  (* ---- farm-staking-proxy *)
  (CStakingProxy, "init", VPlain, Lifecycle);
  (CStakingProxy, "upgrade", VPlain, Lifecycle);
  (CStakingProxy, "registerDualYieldToken", VPlain, OnlyOwnerAttr);
  (CStakingProxy, "getDualYieldTokenId", VPlain, View);
  (CStakingProxy, "getLpFarmAddress", VPlain, View);
  (CStakingProxy, "getStakingFarmAddress", VPlain, View);
  (CStakingProxy, "getPairAddress", VPlain, View);
  (CStakingProxy, "getStakingTokenId", VPlain, View);
  (CStakingProxy, "getFarmTokenId", VPlain, View);
  (CStakingProxy, "getLpTokenId", VPlain, View);
  (CStakingProxy, "getLpFarmTokenId", VPlain, View);
  (CStakingProxy, "setPermissionsHubAddress", VPlain, OnlyOwnerAttr);
  (CStakingProxy, "setEnergyFactoryAddress", VPlain, OnlyOwnerAttr);
  (CStakingProxy, "getEnergyFactoryAddress", VPlain, View);
  (CStakingProxy, "addSCAddressToWhitelist", VPlain, OnlyOwnerAttr);
  (CStakingProxy, "removeSCAddressFromWhitelist", VPlain, OnlyOwnerAttr);
  (CStakingProxy, "isSCAddressWhitelisted", VPlain, View);
  (CStakingProxy, "stakeFarmTokens", VPlain, UserFunds SAny);
  (CStakingProxy, "stakeFarmTokens", VOrigCaller, OrigCaller SAny);
  (CStakingProxy, "claimDualYield", VPlain, UserFunds SAny);
  (CStakingProxy, "claimDualYield", VOrigCaller, OrigCaller SAny);
  (CStakingProxy, "unstakeFarmTokens", VPlain, UserFunds SAny);
  (CStakingProxy, "unstakeFarmTokens", VOrigCaller, OrigCaller SAny);
  (CStakingProxy, "stakeFarmOnBehalf", VPlain, OnBehalf SAny);
  (CStakingProxy, "stakeFarmOnBehalf", VMultiOwn, OnBehalfMulti SAny);
  (CStakingProxy, "stakeFarmOnBehalf", VForeignOwner 0 OAlsoAuthorised, ForeignOwner 0 OAlsoAuthorised SAny);
  (CStakingProxy, "stakeFarmOnBehalf", VForeignOwner 0 ORevoked, ForeignOwner 0 ORevoked SAny);
  (CStakingProxy, "stakeFarmOnBehalf", VForeignOwner 0 ONeverAuthorised, ForeignOwner 0 ONeverAuthorised SAny);
  (CStakingProxy, "stakeFarmOnBehalf", VForeignOwner 1 OAlsoAuthorised, ForeignOwner 1 OAlsoAuthorised SAny);
  (CStakingProxy, "stakeFarmOnBehalf", VForeignOwner 1 ORevoked, ForeignOwner 1 ORevoked SAny);
  (CStakingProxy, "stakeFarmOnBehalf", VForeignOwner 1 ONeverAuthorised, ForeignOwner 1 ONeverAuthorised SAny);
  (CStakingProxy, "stakeFarmOnBehalf", VForeignOwner 2 OAlsoAuthorised, ForeignOwner 2 OAlsoAuthorised SAny);
  (CStakingProxy, "stakeFarmOnBehalf", VForeignOwner 2 ORevoked, ForeignOwner 2 ORevoked SAny);
  (CStakingProxy, "stakeFarmOnBehalf", VForeignOwner 2 ONeverAuthorised, ForeignOwner 2 ONeverAuthorised SAny);
  (CStakingProxy, "claimDualYieldOnBehalf", VPlain, OnBehalf SAny);
  (* ---- energy-factory *)
  (CEnergy, "init", VPlain, Lifecycle);
  (CEnergy, "upgrade", VPlain, Lifecycle);
  (CEnergy, "lockTokens", VPlain, UserFunds SActive);
  (CEnergy, "unlockTokens", VPlain, UserFunds SActive);
  (CEnergy, "extendLockPeriod", VPlain, TransferSC SActive);
  (CEnergy, "adjustUserEnergy", VPlain, OnlyOwnerAttr);
  (CEnergy, "issueLockedToken", VPlain, OnlyOwnerAttr);
  (CEnergy, "getLockedTokenId", VPlain, View);
  (CEnergy, "getBaseAssetTokenId", VPlain, View);
  (CEnergy, "getLegacyLockedTokenId", VPlain, View);
  (CEnergy, "getEnergyEntryForUser", VPlain, View);
  (CEnergy, "getEnergyAmountForUser", VPlain, View);
  (CEnergy, "addLockOptions", VPlain, OnlyOwnerAttr);
  (CEnergy, "getLockOptions", VPlain, View);
  (CEnergy, "unlockEarly", VPlain, UserFunds SActive);
  (CEnergy, "reduceLockPeriod", VPlain, UserFunds SActive);
  (CEnergy, "getPenaltyAmount", VPlain, View);
  (CEnergy, "setTokenUnstakeAddress", VPlain, OnlyOwnerAttr);
  (CEnergy, "revertUnstake", VPlain, UnstakeSC SActive);
  (CEnergy, "getTokenUnstakeScAddress", VPlain, View);
  (CEnergy, "setEnergyForOldTokens", VPlain, OnlyOwnerPaused);
  (CEnergy, "updateEnergyAfterOldTokenUnlock", VPlain, OldFactory SActive);
  (CEnergy, "migrateOldTokens", VPlain, UserFunds SActive);
  (CEnergy, "pause", VPlain, OnlyOwnerAttr);
  (CEnergy, "unpause", VPlain, OnlyOwnerAttr);
  (CEnergy, "isPaused", VPlain, View);
  (CEnergy, "setTransferRoleLockedToken", VPlain, OnlyOwnerAttr);
  (CEnergy, "setBurnRoleLockedToken", VPlain, OnlyOwnerAttr);
  (CEnergy, "mergeTokens", VPlain, UserFunds SActive);
  (CEnergy, "mergeTokens", VOrigCaller, OrigCaller SActive);
  (CEnergy, "lockVirtual", VPlain, WhitelistedSC SActive);
  (CEnergy, "addSCAddressToWhitelist", VPlain, OnlyOwnerAttr);
  (CEnergy, "removeSCAddressFromWhitelist", VPlain, OnlyOwnerAttr);
  (CEnergy, "isSCAddressWhitelisted", VPlain, View);
  (CEnergy, "addToTokenTransferWhitelist", VPlain, OnlyOwnerAttr);
  (CEnergy, "removeFromTokenTransferWhitelist", VPlain, OnlyOwnerAttr);
  (CEnergy, "setUserEnergyAfterLockedTokenTransfer", VPlain, TransferSC SActive);
  (* ---- token-unstake *)
  (CUnstake, "init", VPlain, Lifecycle);
  (CUnstake, "upgrade", VPlain, Lifecycle);
  (CUnstake, "getUnbondEpochs", VPlain, View);
  (CUnstake, "getUnlockedTokensForUser", VPlain, View);
  (CUnstake, "claimUnlockedTokens", VPlain, UserFunds SAny);
  (CUnstake, "cancelUnbond", VPlain, UserFunds SAny);
  (CUnstake, "depositUserTokens", VPlain, EnergyFactoryOnly SAny);
  (CUnstake, "depositFees", VPlain, EnergyFactoryOnly SAny);
  (CUnstake, "setFeesBurnPercentage", VPlain, OnlyOwnerAttr);
  (CUnstake, "getFeesBurnPercentage", VPlain, View);
  (CUnstake, "getFeesCollectorAddress", VPlain, View);
  (CUnstake, "setEnergyFactoryAddress", VPlain, OnlyOwnerAttr);
  (CUnstake, "getEnergyFactoryAddress", VPlain, View);
  (* ---- lkmex-transfer *)
  (CLkmex, "init", VPlain, Lifecycle);
  (CLkmex, "upgrade", VPlain, Lifecycle);
  (CLkmex, "withdraw", VPlain, UserFunds SAny);
  (CLkmex, "cancelTransfer", VPlain, AdminPerm);
  (CLkmex, "lockFunds", VPlain, UserFunds SAny);
  (CLkmex, "getScheduledTransfers", VPlain, View);
  (CLkmex, "getAllSenders", VPlain, View);
  (CLkmex, "setEnergyFactoryAddress", VPlain, OnlyOwnerAttr);
  (CLkmex, "getEnergyFactoryAddress", VPlain, View);
  (CLkmex, "addAdmin", VPlain, OwnerPerm);
  (CLkmex, "removeAdmin", VPlain, OwnerPerm);
  (CLkmex, "updateOwnerOrAdmin", VPlain, OnlyOwnerAttr);
  (CLkmex, "getPermissions", VPlain, View);
  (* ---- locked-token-wrapper *)
  (CWrapper, "init", VPlain, Lifecycle);
  (CWrapper, "upgrade", VPlain, Lifecycle);
  (CWrapper, "wrapLockedToken", VPlain, UserFunds SAny);
  (CWrapper, "unwrapLockedToken", VPlain, UserFunds SAny);
  (CWrapper, "issueWrappedToken", VPlain, OnlyOwnerAttr);
  (CWrapper, "setTransferRoleWrappedToken", VPlain, OnlyOwnerAttr);
  (CWrapper, "unsetTransferRoleWrappedToken", VPlain, OnlyOwnerAttr);
  (CWrapper, "getWrappedTokenId", VPlain, View);
  (CWrapper, "setEnergyFactoryAddress", VPlain, OnlyOwnerAttr);
  (CWrapper, "getEnergyFactoryAddress", VPlain, View);
  (* ---- proxy_dex *)
  (CProxyDex, "init", VPlain, Lifecycle);
  (CProxyDex, "upgrade", VPlain, Lifecycle);
  (CProxyDex, "registerProxyPair", VPlain, OnlyOwnerAttr);
  (CProxyDex, "setTransferRoleWrappedLpToken", VPlain, OnlyOwnerAttr);
  (CProxyDex, "registerProxyFarm", VPlain, OnlyOwnerAttr);
  (CProxyDex, "setTransferRoleWrappedFarmToken", VPlain, OnlyOwnerAttr);
  (CProxyDex, "getAssetTokenId", VPlain, View);
  (CProxyDex, "getLockedTokenIds", VPlain, View);
  (CProxyDex, "getOldLockedTokenId", VPlain, View);
  (CProxyDex, "getOldFactoryAddress", VPlain, View);
  (CProxyDex, "getWrappedLpTokenId", VPlain, View);
  (CProxyDex, "getWrappedFarmTokenId", VPlain, View);
  (CProxyDex, "addPairToIntermediate", VPlain, OnlyOwnerAttr);
  (CProxyDex, "removeIntermediatedPair", VPlain, OnlyOwnerAttr);
  (CProxyDex, "addFarmToIntermediate", VPlain, OnlyOwnerAttr);
  (CProxyDex, "removeIntermediatedFarm", VPlain, OnlyOwnerAttr);
  (CProxyDex, "getIntermediatedPairs", VPlain, View);
  (CProxyDex, "getIntermediatedFarms", VPlain, View);
  (CProxyDex, "addLiquidityProxy", VPlain, UserFunds SAny);
  (CProxyDex, "removeLiquidityProxy", VPlain, UserFunds SAny);
  (CProxyDex, "increaseProxyPairTokenEnergy", VPlain, UserFunds SAny);
  (CProxyDex, "enterFarmProxy", VPlain, UserFunds SAny);
  (CProxyDex, "enterFarmProxy", VOrigCaller, OrigCaller SAny);
  (CProxyDex, "exitFarmProxy", VPlain, UserFunds SAny);
  (CProxyDex, "exitFarmProxy", VOrigCaller, OrigCaller SAny);
  (CProxyDex, "claimRewardsProxy", VPlain, UserFunds SAny);
  (CProxyDex, "claimRewardsProxy", VOrigCaller, OrigCaller SAny);
  (CProxyDex, "increaseProxyFarmTokenEnergy", VPlain, UserFunds SAny);
  (CProxyDex, "mergeWrappedFarmTokens", VPlain, UserFunds SAny);
  (CProxyDex, "mergeWrappedLpTokens", VPlain, UserFunds SAny);
  (CProxyDex, "setEnergyFactoryAddress", VPlain, OnlyOwnerAttr);
  (CProxyDex, "getEnergyFactoryAddress", VPlain, View);
  (CProxyDex, "addSCAddressToWhitelist", VPlain, OnlyOwnerAttr);
  (CProxyDex, "removeSCAddressFromWhitelist", VPlain, OnlyOwnerAttr);
  (CProxyDex, "isSCAddressWhitelisted", VPlain, View);
  (* ---- simple-lock *)
  (CSimpleLock, "init", VPlain, Lifecycle);
  (CSimpleLock, "upgrade", VPlain, Lifecycle);
  (CSimpleLock, "lockTokens", VPlain, UserFunds SAny);
  (CSimpleLock, "unlockTokens", VPlain, UserFunds SAny);
  (CSimpleLock, "issueLockedToken", VPlain, OnlyOwnerAttr);
  (CSimpleLock, "getLockedTokenId", VPlain, View);
  (CSimpleLock, "issueLpProxyToken", VPlain, OnlyOwnerAttr);
  (CSimpleLock, "addLpToWhitelist", VPlain, OnlyOwnerAttr);
  (CSimpleLock, "removeLpFromWhitelist", VPlain, OnlyOwnerAttr);
  (CSimpleLock, "addLiquidityLockedToken", VPlain, UserFunds SAny);
  (CSimpleLock, "removeLiquidityLockedToken", VPlain, UserFunds SAny);
  (CSimpleLock, "getKnownLiquidityPools", VPlain, View);
  (CSimpleLock, "getLpProxyTokenId", VPlain, View);
  (CSimpleLock, "issueFarmProxyToken", VPlain, OnlyOwnerAttr);
  (CSimpleLock, "addFarmToWhitelist", VPlain, OnlyOwnerAttr);
  (CSimpleLock, "removeFarmFromWhitelist", VPlain, OnlyOwnerAttr);
  (CSimpleLock, "enterFarmLockedToken", VPlain, UserFunds SAny);
  (CSimpleLock, "exitFarmLockedToken", VPlain, UserFunds SAny);
  (CSimpleLock, "farmClaimRewardsLockedToken", VPlain, UserFunds SAny);
  (CSimpleLock, "getKnownFarms", VPlain, View);
  (CSimpleLock, "getFarmProxyTokenId", VPlain, View);
  (* ---- fees-collector *)
  (CFees, "init", VPlain, Lifecycle);
  (CFees, "upgrade", VPlain, Lifecycle);
  (CFees, "claimRewards", VPlain, UserFunds SActive);
  (CFees, "claimRewards", VOrigCaller, OrigCaller SActive);
  (CFees, "claimBoostedRewards", VPlain, UserFunds SActive);
  (CFees, "claimBoostedRewards", VForOther, ExternalClaim SActive);
  (CFees, "addKnownContracts", VPlain, OnlyOwnerAttr);
  (CFees, "removeKnownContracts", VPlain, OnlyOwnerAttr);
  (CFees, "addKnownTokens", VPlain, OnlyOwnerAttr);
  (CFees, "removeKnownTokens", VPlain, OnlyOwnerAttr);
  (CFees, "getLockedTokenId", VPlain, View);
  (CFees, "getAllTokens", VPlain, View);
  (CFees, "getAllKnownContracts", VPlain, View);
  (CFees, "getAllowExternalClaimRewards", VPlain, View);
  (CFees, "getLastActiveWeekForUser", VPlain, View);
  (CFees, "getUserEnergyForWeek", VPlain, View);
  (CFees, "getLastGlobalUpdateWeek", VPlain, View);
  (CFees, "getTotalRewardsForWeek", VPlain, View);
  (CFees, "getTotalEnergyForWeek", VPlain, View);
  (CFees, "getTotalLockedTokensForWeek", VPlain, View);
  (CFees, "updateEnergyForUser", VPlain, UserNoFunds SAny);
  (CFees, "getCurrentClaimProgress", VPlain, View);
  (CFees, "depositSwapFees", VPlain, KnownContract SAny);
  (CFees, "getAccumulatedFees", VPlain, View);
  (CFees, "setLockedTokensPerBlock", VPlain, OnlyOwnerAttr);
  (CFees, "getLastLockedTokensAddWeek", VPlain, View);
  (CFees, "getLockedTokensPerBlock", VPlain, View);
  (CFees, "setLockingScAddress", VPlain, OnlyOwnerAttr);
  (CFees, "setLockEpochs", VPlain, OnlyOwnerAttr);
  (CFees, "getLockingScAddress", VPlain, View);
  (CFees, "getLockEpochs", VPlain, View);
  (CFees, "setEnergyFactoryAddress", VPlain, OnlyOwnerAttr);
  (CFees, "getEnergyFactoryAddress", VPlain, View);
  (CFees, "getCurrentWeek", VPlain, View);
  (CFees, "getFirstWeekStartEpoch", VPlain, View);
  (CFees, "pause", VPlain, OnlyOwnerAttr);
  (CFees, "unpause", VPlain, OnlyOwnerAttr);
  (CFees, "isPaused", VPlain, View);
  (CFees, "addSCAddressToWhitelist", VPlain, OnlyOwnerAttr);
  (CFees, "removeSCAddressFromWhitelist", VPlain, OnlyOwnerAttr);
  (CFees, "isSCAddressWhitelisted", VPlain, View);
  (* ---- governance-v2 *)
  (CGov, "init", VPlain, Lifecycle);
  (CGov, "upgrade", VPlain, Lifecycle);
  (CGov, "propose", VPlain, UserFunds SAny);
  (CGov, "vote", VPlain, UserNoFunds SAny);
  (CGov, "cancel", VPlain, ProposerOnly);
  (CGov, "withdrawDeposit", VPlain, ProposerOnly);
  (CGov, "changeMinEnergyForProposal", VPlain, OnlyOwnerAttr);
  (CGov, "changeMinFeeForProposal", VPlain, OnlyOwnerAttr);
  (CGov, "changeQuorumPercentage", VPlain, OnlyOwnerAttr);
  (CGov, "changeWithdrawPercentage", VPlain, OnlyOwnerAttr);
  (CGov, "changeVotingDelayInBlocks", VPlain, OnlyOwnerAttr);
  (CGov, "changeVotingPeriodInBlocks", VPlain, OnlyOwnerAttr);
  (CGov, "getMinEnergyForPropose", VPlain, View);
  (CGov, "getMinFeeForPropose", VPlain, View);
  (CGov, "getQuorum", VPlain, View);
  (CGov, "getVotingDelayInBlocks", VPlain, View);
  (CGov, "getVotingPeriodInBlocks", VPlain, View);
  (CGov, "getFeeTokenId", VPlain, View);
  (CGov, "getWithdrawPercentageDefeated", VPlain, View);
  (CGov, "getProposals", VPlain, View);
  (CGov, "getUserVotedProposals", VPlain, View);
  (CGov, "getProposalVotes", VPlain, View);
  (CGov, "getProposalStatus", VPlain, View);
  (CGov, "changeFeesCollectorAddress", VPlain, OnlyOwnerAttr);
  (CGov, "getFeesCollectorAddress", VPlain, View);
  (CGov, "setEnergyFactoryAddress", VPlain, OnlyOwnerAttr);
  (CGov, "getEnergyFactoryAddress", VPlain, View);
  (CGov, "addAdmin", VPlain, OwnerPerm);
  (CGov, "removeAdmin", VPlain, OwnerPerm);
  (CGov, "updateOwnerOrAdmin", VPlain, OnlyOwnerAttr);
  (CGov, "getPermissions", VPlain, View);
  (* ---- price-discovery *)
  (CPriceDisc, "init", VPlain, Lifecycle);
  (CPriceDisc, "upgrade", VPlain, Lifecycle);
  (CPriceDisc, "deposit", VPlain, UserFunds SAny);
  (CPriceDisc, "withdraw", VPlain, UserFunds SAny);
  (CPriceDisc, "redeem", VPlain, UserFunds SAny);
  (CPriceDisc, "getCurrentPrice", VPlain, View);
  (CPriceDisc, "getMinLaunchedTokenPrice", VPlain, View);
  (CPriceDisc, "getPricePrecision", VPlain, View);
  (CPriceDisc, "getLaunchedTokenId", VPlain, View);
  (CPriceDisc, "getAcceptedTokenId", VPlain, View);
  (CPriceDisc, "getLaunchedTokenBalance", VPlain, View);
  (CPriceDisc, "getAcceptedTokenBalance", VPlain, View);
  (CPriceDisc, "getStartBlock", VPlain, View);
  (CPriceDisc, "getEndBlock", VPlain, View);
  (CPriceDisc, "setLockingScAddress", VPlain, OnlyOwnerAttr);
  (CPriceDisc, "setUnlockEpoch", VPlain, OnlyOwnerAttr);
  (CPriceDisc, "getLockingScAddress", VPlain, View);
  (CPriceDisc, "getUnlockEpoch", VPlain, View);
  (CPriceDisc, "getCurrentPhase", VPlain, View);
  (CPriceDisc, "getNoLimitPhaseDurationBlocks", VPlain, View);
  (CPriceDisc, "getLinearPenaltyPhaseDurationBlocks", VPlain, View);
  (CPriceDisc, "getFixedPenaltyPhaseDurationBlocks", VPlain, View);
  (CPriceDisc, "getPenaltyMinPercentage", VPlain, View);
  (CPriceDisc, "getPenaltyMaxPercentage", VPlain, View);
  (CPriceDisc, "getFixedPenaltyPercentage", VPlain, View);
  (CPriceDisc, "issueRedeemToken", VPlain, OnlyOwnerAttr);
  (CPriceDisc, "createInitialRedeemTokens", VPlain, OnlyOwnerAttr);
  (CPriceDisc, "getRedeemTokenId", VPlain, View);
  (CPriceDisc, "getRedeemTokenTotalCirculatingSupply", VPlain, View);
  (* ---- permissions-hub *)
  (CHub, "init", VPlain, Lifecycle);
  (CHub, "upgrade", VPlain, Lifecycle);
  (CHub, "whitelist", VPlain, UserNoFunds SAny);
  (CHub, "removeWhitelist", VPlain, UserNoFunds SAny);
  (CHub, "blacklist", VPlain, OnlyOwnerAttr);
  (CHub, "removeBlacklist", VPlain, OnlyOwnerAttr);
  (CHub, "isWhitelisted", VPlain, View);
  (CHub, "getBlacklistedAddresses", VPlain, View)
].
Close Scope string_scope.

(** ------------------------------------------------------------------ the executed configuration *)
(** Permission bits each role holds in each contract, as the contracts' [init] functions and the
    set-up calls of tools/sys_access.py (addAdmin, addToPauseWhitelist) leave them:
    pair init (with admins): router and router owner get OWNER|PAUSE; farms / staking
    (base_farm_init): owner OWNER|PAUSE, admins ADMIN; lkmex-transfer init: deployer OWNER;
    governance-v2 init grants nothing, so nobody ever holds OWNER there (addAdmin cannot succeed). *)
Definition has_pausable (c : contract) : bool :=
  match c with CPair | CFarm | CFarmLocked | CStaking => true | _ => false end.

Definition perms (c : contract) (r : role) : Z :=
  match c, r with
  | (CPair | CFarm | CFarmLocked | CStaking), ROwner => Z.lor PERM_OWNER PERM_PAUSE
  | (CPair | CFarm | CFarmLocked | CStaking), RAdmin => PERM_ADMIN
  | (CPair | CFarm | CFarmLocked | CStaking), RPauser => PERM_PAUSE
  | CPair, RParty PRouter => Z.lor PERM_OWNER PERM_PAUSE
  | CLkmex, ROwner => PERM_OWNER
  | CLkmex, RAdmin => PERM_ADMIN
  | _, _ => 0
  end.

(** counterparties that exist in the executed deployment of each contract *)
Definition parties_of (c : contract) : list party :=
  match c with
  | CPair => [PWhitelistedSC; PRouter; PAdder]
  | CRouter => [PAdder]
  | CFarm | CFarmLocked | CStaking | CStakingProxy | CProxyDex => [PWhitelistedSC]
  | CEnergy => [PWhitelistedSC; PUnstakeSC; POldFactory; PTransferSC]
  | CUnstake => [PEnergyFactory]
  | CFees => [PWhitelistedSC; PKnownContract]
  | CGov => [PProposer]
  | _ => []
  end.

Definition roles_of (c : contract) : list role := base_roles ++ map RParty (parties_of c).

Definition states_of (c : contract) : list cstate :=
  match c with
  | CPair => [Inactive; PartialActive; Active; Paused]
  | CFarm | CFarmLocked | CStaking | CEnergy => [Inactive; Active; Paused]
  | CRouter | CFees => [Active; Paused]
  | _ => [Active]
  end.

(** contracts whose pause / inactive state the property talks about *)
Definition pausable_contract (c : contract) : bool :=
  match c with CPair | CFarm | CFarmLocked | CStaking | CEnergy => true | _ => false end.

Definition facts_of (c : contract) (r : role) : facts :=
  mkFacts (role_eqb r ROwner) (perms c r)
          (fun p => role_eqb r (RParty p))
          (role_eqb r RAgentAuth || role_eqb r RAgentBlack)
          (role_eqb r RAgentBlack).

Definition pair_creation_open : bool := false.

(** ------------------------------------------------------------------ verdicts *)
Inductive verdict :=
| VAllowed        (* must not be rejected for permission or state reasons *)
| VPerm           (* must fail with a permission error *)
| VState          (* must fail with a state error *)
| VPermOrState.   (* must fail; either error may come first *)
Definition verdict_id (v : verdict) : Z :=
  match v with VAllowed => 0 | VPerm => 1 | VState => 2 | VPermOrState => 3 end.

Definition decide (g s : bool) : verdict :=
  match g, s with
  | true, true => VAllowed | false, true => VPerm | true, false => VState | false, false => VPermOrState
  end.

Definition verdict_of (c : contract) (cl : class) (r : role) (st : cstate) : verdict :=
  decide (guard_ok pair_creation_open (c_guard cl) (facts_of c r)) (state_ok (c_sreq cl) st).

Definition allowed (cl : class) (c : contract) (r : role) (st : cstate) : bool :=
  match verdict_of c cl r st with VAllowed => true | _ => false end.

(** observed outcome classes of a call on the real contract *)
Inductive outcome := OOk | OPermErr | OStateErr | OOtherErr.
Definition outcome_id (o : outcome) : Z :=
  match o with OOk => 0 | OPermErr => 1 | OStateErr => 2 | OOtherErr => 3 end.

(** (a) a caller that is not allowed never succeeds and fails with the permission / state class;
    (b) an allowed caller is never rejected for permission / state reasons (it may still fail for
    other reasons: arguments, amounts). *)
Definition agrees (v : verdict) (o : outcome) : bool :=
  match v, o with
  | VAllowed, (OOk | OOtherErr) => true
  | VPerm, OPermErr => true
  | VState, OStateErr => true
  | VPermOrState, (OPermErr | OStateErr) => true
  | _, _ => false
  end.

Definition lookup (c : contract) (e : string) (v : variant) : option class :=
  match find (fun r => contract_eqb (row_contract r) c && String.eqb (row_endpoint r) e
                       && variant_eqb (row_variant r) v) access_table with
  | Some r => Some (row_class r)
  | None => None
  end.

(** ------------------------------------------------------------------ permissions + pausable modules
    State: permission bits per address (association list on address ids) and the stored State.
    [OWNER_ADDR] is the chain owner (for #[only_owner]). *)
Record pm_state := mkPm { pm_perms : list (Z * Z); pm_state_val : Z; pm_chain_owner : Z }.

Inductive pm_op :=
| PmAddAdmin (caller a : Z)
| PmRemoveAdmin (caller a : Z)
| PmUpdateOwnerOrAdmin (caller prev : Z)
| PmAddPauser (caller a : Z)          (* addToPauseWhitelist with one address *)
| PmRemovePauser (caller a : Z)
| PmPause (caller : Z)
| PmResume (caller : Z)
| PmSetStateActiveNoSwaps (caller : Z).   (* pair config *)

Definition pm_get (s : pm_state) (a : Z) : Z := aget (pm_perms s) a.
Definition pm_set (s : pm_state) (a v : Z) : pm_state := mkPm (aset (pm_perms s) a v) (pm_state_val s) (pm_chain_owner s).
Definition pm_set_state (s : pm_state) (v : Z) : pm_state := mkPm (pm_perms s) v (pm_chain_owner s).

Definition pm_step (s : pm_state) (op : pm_op) : result pm_state :=
  match op with
  | PmAddAdmin c a =>
      do _ <- require_any_of (pm_get s c) PERM_OWNER;
      Ok (pm_set s a (Z.lor (pm_get s a) PERM_ADMIN))
  | PmRemoveAdmin c a =>
      do _ <- require_any_of (pm_get s c) PERM_OWNER;
      Ok (pm_set s a (Z.ldiff (pm_get s a) PERM_ADMIN))
  | PmUpdateOwnerOrAdmin c prev =>
      check (c =? pm_chain_owner s) else EPerm;
      let p := pm_get s prev in
      Ok (pm_set (pm_set s prev 0) c p)
  | PmAddPauser c a =>
      do _ <- require_any_of (pm_get s c) PERM_OWNER;
      Ok (pm_set s a (Z.lor (pm_get s a) PERM_PAUSE))
  | PmRemovePauser c a =>
      do _ <- require_any_of (pm_get s c) PERM_OWNER;
      Ok (pm_set s a (Z.ldiff (pm_get s a) PERM_PAUSE))
  | PmPause c =>
      do _ <- require_any_of (pm_get s c) PERM_PAUSE;
      Ok (pm_set_state s ST_Inactive)
  | PmResume c =>
      do _ <- require_any_of (pm_get s c) PERM_PAUSE;
      Ok (pm_set_state s ST_Active)
  | PmSetStateActiveNoSwaps c =>
      do _ <- require_any_of (pm_get s c) PERM_OWNER;
      Ok (pm_set_state s ST_PartialActive)
  end.

Definition pm_caller (op : pm_op) : Z :=
  match op with
  | PmAddAdmin c _ | PmRemoveAdmin c _ | PmUpdateOwnerOrAdmin c _ | PmAddPauser c _ | PmRemovePauser c _
  | PmPause c | PmResume c | PmSetStateActiveNoSwaps c => c
  end.

Definition pm_step_total (s : pm_state) (op : pm_op) : pm_state :=
  match pm_step s op with Ok s' => s' | Err _ => s end.
Definition pm_run (s : pm_state) (ops : list pm_op) : pm_state := fold_left pm_step_total ops s.

(** ------------------------------------------------------------------ permissions hub
    whitelist: pairs (user, agent); blacklist: agents.  Mirrors dex/permissions-hub/src/lib.rs
    (one address per call). *)
Record hub := mkHub { h_wl : list (Z * Z); h_black : list Z; h_owner : Z }.

Definition pair_eqb (a b : Z * Z) : bool := (fst a =? fst b) && (snd a =? snd b).
Definition zmem (x : Z) (l : list Z) : bool := existsb (Z.eqb x) l.
Definition pmem (x : Z * Z) (l : list (Z * Z)) : bool := existsb (pair_eqb x) l.
Definition zremove (x : Z) (l : list Z) : list Z := filter (fun y => negb (y =? x)) l.
Definition premove (x : Z * Z) (l : list (Z * Z)) : list (Z * Z) := filter (fun y => negb (pair_eqb y x)) l.

Inductive hub_op :=
| HWhitelist (caller a : Z)
| HRemoveWhitelist (caller a : Z)
| HBlacklist (caller a : Z)
| HRemoveBlacklist (caller a : Z).

Definition hub_step (h : hub) (op : hub_op) : result hub :=
  match op with
  | HWhitelist c a =>
      check negb (pmem (c, a) (h_wl h)) else EGuard;          (* "Address is already whitelisted" *)
      Ok (mkHub ((c, a) :: h_wl h) (h_black h) (h_owner h))
  | HRemoveWhitelist c a =>
      check pmem (c, a) (h_wl h) else EGuard;                 (* "Address is not whitelisted" *)
      Ok (mkHub (premove (c, a) (h_wl h)) (h_black h) (h_owner h))
  | HBlacklist c a =>
      check (c =? h_owner h) else EPerm;
      Ok (mkHub (h_wl h) (if zmem a (h_black h) then h_black h else a :: h_black h) (h_owner h))
  | HRemoveBlacklist c a =>
      check (c =? h_owner h) else EPerm;
      Ok (mkHub (h_wl h) (zremove a (h_black h)) (h_owner h))
  end.

Definition hub_step_total (h : hub) (op : hub_op) : hub :=
  match hub_step h op with Ok h' => h' | Err _ => h end.
Definition hub_run (h : hub) (ops : list hub_op) : hub := fold_left hub_step_total ops h.

(** the hub's view isWhitelisted(user, agent) *)
Definition is_whitelisted (h : hub) (user agent : Z) : bool :=
  negb (zmem agent (h_black h)) && pmem (user, agent) (h_wl h).

(** what a farm sees of a caller [c] acting for [user]: hub answer + its own contract whitelist *)
Definition hub_facts (h : hub) (sc_whitelist : list Z) (user c : Z) : facts :=
  mkFacts false 0 (fun p => match p with PWhitelistedSC => zmem c sc_whitelist | _ => false end)
          (pmem (user, c) (h_wl h)) (zmem c (h_black h)).

(** ------------------------------------------------------------------ claiming on behalf
    external_interaction.rs (farm, farm-with-locked-rewards, farm-staking) claim_rewards_on_behalf:
    the user is read from the paid positions (original_owner_helper::get_claim_original_owner: every
    payment must carry the same, non-zero original owner — 0 stands for a legacy position without
    owner), the caller must be authorised by that user in the hub, the new position token goes back
    to the caller and the rewards are sent to the user.  [owners] are the original-owner fields of
    the paid positions; the result lists the reward transfers (recipient, amount). *)
Fixpoint claim_original_owner (owners : list Z) (acc : option Z) : result Z :=
  match owners with
  | [] => match acc with Some o => Ok o | None => Err EGuard end
  | o :: t =>
      check negb (o =? 0) else EGuard;
      match acc with
      | Some a => check (a =? o) else EGuard; claim_original_owner t acc
      | None => claim_original_owner t (Some o)
      end
  end.

Definition claim_on_behalf (h : hub) (caller : Z) (owners : list Z) (reward : Z) : result (list (Z * Z)) :=
  do user <- claim_original_owner owners None;
  check is_whitelisted h user caller else EPerm;
  Ok [(user, reward)].

(** ------------------------------------------------------------------ several positions on behalf
    The on-behalf endpoints that accept several position payments, with the payment positions that
    carry a recorded owner (0 = main payment, 1 / 2 = additional payments).  For enterFarmOnBehalf /
    stakeFarmOnBehalf of the farms the main payment is the farming token, which has no owner.
    (farm-staking-proxy claimDualYieldOnBehalf takes exactly one payment: call_value().single_esdt().) *)
Definition multi_payment_on_behalf : list (contract * string * list Z) :=
  [(CFarm, "enterFarmOnBehalf", [1; 2]); (CFarm, "claimRewardsOnBehalf", [0; 1; 2]);
   (CFarmLocked, "enterFarmOnBehalf", [1; 2]); (CFarmLocked, "claimRewardsOnBehalf", [0; 1; 2]);
   (CStaking, "stakeFarmOnBehalf", [1; 2]); (CStaking, "claimRewardsOnBehalf", [0; 1; 2]);
   (CStakingProxy, "stakeFarmOnBehalf", [0; 1; 2])]%string.

(** enterFarmOnBehalf / stakeFarmOnBehalf (farms: check_additional_payments_original_owner;
    farm-staking-proxy: check_stake_farm_payments): the user is an argument, the caller must be
    authorised by that user, and every paid position that records an owner must record that user.
    [owners]: the recorded owners of the paid positions, in payment order. *)
Definition enter_on_behalf (h : hub) (caller user : Z) (owners : list Z) : result unit :=
  check is_whitelisted h user caller else EPerm;
  check forallb (fun o => o =? user) owners else EPerm;
  Ok tt.
