(* placeholder: to be written *)
