(** Executable model of the locking subsystem (property C09): energy-factory lock / unlock /
    early-unlock / reduce, the penalty function, token-unstake's unbond queue and fee split.

    Mirrors, function by function and guard by guard:
      common/modules/math/src/lib.rs                          (linear_interpolation)
      locked-asset/energy-factory/src/lock_options.rs         (is-listed, unlock_epoch_to_start_of_month)
      locked-asset/energy-factory/src/lock_options_endpoints.rs (addLockOptions: sort, no duplicates, increasing percentages)
      locked-asset/energy-factory/src/penalty.rs              (calculate_penalty_percentage_full_unlock)
      locked-asset/energy-factory/src/unlock_with_penalty.rs  (getPenaltyAmount, partial percentage, unlockEarly, reduceLockPeriod)
      locked-asset/energy-factory/src/lib.rs, extend_lock.rs, virtual_lock.rs   (lockTokens, unlockTokens, lockVirtual)
      locked-asset/energy-factory/src/energy.rs               (only the BigUint field total_locked_tokens: its subtractions can abort)
      locked-asset/energy-factory/src/unstake.rs              (depositUserTokens / depositFees / revertUnstake plumbing)
      locked-asset/simple-lock/src/basic_lock_unlock.rs       (lock_tokens, unlock_tokens, unlock_tokens_unchecked)
      locked-asset/token-unstake/src/{fees_handler,unbond_tokens,cancel_unstake}.rs
      energy-integration/fees-collector/src/fees_accumulation.rs (depositSwapFees: burns the locked tokens it receives, accumulates the amount)
    No proofs in this file. *)
From MX Require Import Base.Prelude Gen.Params.

Definition MAXP : Z := MAX_PENALTY_PERCENTAGE.               (* energy-factory *)
Definition MAXPU : Z := UNSTAKE_MAX_PENALTY_PERCENTAGE.      (* token-unstake *)

(** ------------------------------------------------------------------ math::linear_interpolation *)
Definition lin_interp (min_in max_in cur min_out max_out : Z) : result Z :=
  check negb ((cur <? min_in) || (max_in <? cur)) else EGuard;
  do w1 <- sub_chk max_in cur;
  do w2 <- sub_chk cur min_in;
  do d <- sub_chk max_in min_in;
  div_chk (min_out * w1 + max_out * w2) d.

(** ------------------------------------------------------------------ lock options *)
(** (lock_epochs, penalty_start_percentage), kept sorted by lock_epochs *)
Notation opt := (Z * Z)%type (only parsing).

Definition start_of_month (e : Z) : Z := e - e mod EPOCHS_PER_MONTH.

Definition is_listed (opts : list opt) (le : Z) : bool := existsb (fun o => fst o =? le) opts.

Fixpoint insert_opt (o : opt) (l : list opt) : list opt :=
  match l with
  | [] => [o]
  | h :: t => if fst o <=? fst h then o :: l else h :: insert_opt o t
  end.
Definition sort_opts (l : list opt) : list opt := fold_right insert_opt [] l.

Fixpoint no_dup_epochs (l : list opt) : bool :=
  match l with
  | a :: ((b :: _) as t) => negb (fst a =? fst b) && no_dup_epochs t
  | _ => true
  end.

Fixpoint valid_pcts (l : list opt) : bool :=
  match l with
  | a :: ((b :: _) as t) => (snd a <? snd b) && valid_pcts t
  | _ => true
  end.

(** addLockOptions (also run by init).  Arguments are u64: negative values cannot be encoded. *)
Definition add_lock_options (old new : list opt) : result (list opt) :=
  check (Z.of_nat (length old + length new) <=? MAX_LOCK_OPTIONS) else EGuard;
  check forallb (fun o => (EPOCHS_PER_YEAR <=? fst o) && (0 <=? snd o) && (snd o <=? MAXP)) new else EGuard;
  let l := sort_opts (old ++ new) in
  check negb (match l with [] => true | _ => false end) else EArith;      (* len() - 1 on an empty ArrayVec *)
  check no_dup_epochs l else EGuard;
  check valid_pcts l else EGuard;
  Ok l.

(** ------------------------------------------------------------------ penalty.rs *)
Definition last_opt (opts : list opt) : opt := last opts (0, 0).

(** the [for i in first_index..last_index] loop: first i with e_i <= x <= e_(i+1); both options stay
    at LockOption::default() when the loop ends without a match *)
Fixpoint find_seg (l : list opt) (x : Z) : opt * opt :=
  match l with
  | a :: ((b :: _) as t) => if (fst a <=? x) && (x <=? fst b) then (a, b) else find_seg t x
  | _ => ((0, 0), (0, 0))
  end.

Definition pct_full (opts : list opt) (x : Z) : result Z :=
  match opts with
  | [] => Err EGuard                                                       (* "no lock options available" *)
  | first :: rest =>
      check (x <=? fst (last_opt opts)) else EGuard;                       (* "Invalid lock epochs" *)
      let '(prev, next) :=
        if negb (match rest with [] => true | _ => false end) && (fst first <? x)
        then find_seg opts x
        else ((0, 0), first) in
      lin_interp (fst prev) (fst next) x (snd prev) (snd next)
  end.

(** unlock_with_penalty.rs: calculate_penalty_percentage_partial_unlock (u64 arithmetic) *)
Definition pct_partial (opts : list opt) (prev new : Z) : result Z :=
  do po <- pct_full opts prev;
  do pn <- pct_full opts new;
  do d <- sub_chk po pn;
  do den <- sub_chk MAXP pn;
  div_chk (d * MAXP) den.

(** view getPenaltyAmount = calculate_penalty_amount *)
Definition penalty_pct (opts : list opt) (prev new : Z) : result Z :=
  check (0 <? prev) else EGuard;
  check (new <? prev) else EGuard;
  if new =? 0 then pct_full opts prev else pct_partial opts prev new.

Definition penalty_amount (opts : list opt) (amt prev new : Z) : result Z :=
  do pct <- penalty_pct opts prev new;
  Ok (amt * pct / MAXP).

(** ------------------------------------------------------------------ token ledger
    One ledger for every ESDT balance the subsystem moves, as a log of signed deltas
    (holder, token, delta).  token 0 = the base asset; token e >= 1 = the LOCKED meta-ESDT whose
    attributes carry unlock_epoch = e (get_or_create_nonce_for_attributes: one nonce per unlock
    epoch, the original token always being the base asset). *)
Definition ledger := list (Z * Z * Z).

Fixpoint tot (f : Z -> Z -> bool) (L : ledger) : Z :=
  match L with
  | [] => 0
  | (h, t, d) :: r => (if f h t then d else 0) + tot f r
  end.

Definition bal (L : ledger) (h t : Z) : Z := tot (fun h' t' => (h' =? h) && (t' =? t)) L.
Definition credit (L : ledger) (h t a : Z) : ledger := (h, t, a) :: L.
(** outgoing transfer / burn: the VM aborts when the balance is insufficient *)
Definition debit (L : ledger) (h t a : Z) : result ledger :=
  check (a <=? bal L h t) else EGuard;
  Ok ((h, t, - a) :: L).

Definition is_base (h t : Z) : bool := t =? 0.
Definition is_locked (h t : Z) : bool := 0 <? t.

(** Holder ids: the token-unstake contract (escrow); users are any other id.  OWNER owns both
    contracts; WLSC is the smart contract whitelisted for lockVirtual. *)
Definition UNSTAKE : Z := 50.
Definition WLSC : Z := 60.
Definition OWNER : Z := 100.

(** ------------------------------------------------------------------ state *)
Record uentry := mkE {          (* token-unstake UnstakePair, with the owner of the queue it sits in *)
  en_user : Z;
  en_release : Z;               (* unlock_epoch = deposit epoch + unbond_epochs *)
  en_epoch : Z;                 (* the locked token's own unlock epoch (its nonce) *)
  en_lk : Z;                    (* locked_tokens.amount *)
  en_un : Z                     (* unlocked_tokens.amount = locked amount - penalty *)
}.

Record cfg := mkCfg { c_opts : list opt; c_unbond : Z; c_burn : Z; c_paused : bool }.

(** ghost counters: every ESDT mint / burn the contracts perform *)
Record ghost := mkG {
  g_bmint : Z;            (* base asset minted by unlockTokens and unlockEarly *)
  g_bburn_lock : Z;       (* base asset burned by lockTokens *)
  g_bburn_cancel : Z;     (* base asset burned by cancelUnbond *)
  g_lmint : Z;            (* LOCKED minted (all paths) *)
  g_lburn : Z;            (* LOCKED burned (all paths, the fees collector's burn included) *)
  g_penburn : Z;          (* part of g_lburn: penalty burned by burn_penalty *)
  g_emit : Z              (* part of g_lmint: LOCKED created by lockVirtual without burning base *)
}.

Record lst := mkL {
  l_cfg : cfg;
  l_now : Z;                    (* block epoch *)
  l_led : ledger;               (* users' and the unstake contract's balances *)
  l_tl : ledger;                (* energy entries: (user, 0, delta of total_locked_tokens) *)
  l_q : list uentry;            (* all users' unbond queues, oldest first *)
  l_fees : Z;                   (* fees collector: accumulatedFees(LOCKED), summed over weeks *)
  l_g : ghost
}.

Definition set_cfg (s : lst) (c : cfg) : lst := mkL c (l_now s) (l_led s) (l_tl s) (l_q s) (l_fees s) (l_g s).
Definition set_now (s : lst) (n : Z) : lst := mkL (l_cfg s) n (l_led s) (l_tl s) (l_q s) (l_fees s) (l_g s).
Definition set_led (s : lst) (L : ledger) : lst := mkL (l_cfg s) (l_now s) L (l_tl s) (l_q s) (l_fees s) (l_g s).
Definition set_tl (s : lst) (L : ledger) : lst := mkL (l_cfg s) (l_now s) (l_led s) L (l_q s) (l_fees s) (l_g s).
Definition set_q (s : lst) (q : list uentry) : lst := mkL (l_cfg s) (l_now s) (l_led s) (l_tl s) q (l_fees s) (l_g s).
Definition set_fees (s : lst) (f : Z) : lst := mkL (l_cfg s) (l_now s) (l_led s) (l_tl s) (l_q s) f (l_g s).
Definition set_g (s : lst) (g : ghost) : lst := mkL (l_cfg s) (l_now s) (l_led s) (l_tl s) (l_q s) (l_fees s) g.

Definition opts (s : lst) : list opt := c_opts (l_cfg s).
Definition paused (s : lst) : bool := c_paused (l_cfg s).

Definition g_add_bmint (g : ghost) (a : Z) := mkG (g_bmint g + a) (g_bburn_lock g) (g_bburn_cancel g) (g_lmint g) (g_lburn g) (g_penburn g) (g_emit g).
Definition g_add_bburn_lock (g : ghost) (a : Z) := mkG (g_bmint g) (g_bburn_lock g + a) (g_bburn_cancel g) (g_lmint g) (g_lburn g) (g_penburn g) (g_emit g).
Definition g_add_bburn_cancel (g : ghost) (a : Z) := mkG (g_bmint g) (g_bburn_lock g) (g_bburn_cancel g + a) (g_lmint g) (g_lburn g) (g_penburn g) (g_emit g).
Definition g_add_lmint (g : ghost) (a : Z) := mkG (g_bmint g) (g_bburn_lock g) (g_bburn_cancel g) (g_lmint g + a) (g_lburn g) (g_penburn g) (g_emit g).
Definition g_add_lburn (g : ghost) (a : Z) := mkG (g_bmint g) (g_bburn_lock g) (g_bburn_cancel g) (g_lmint g) (g_lburn g + a) (g_penburn g) (g_emit g).
Definition g_add_penburn (g : ghost) (a : Z) := mkG (g_bmint g) (g_bburn_lock g) (g_bburn_cancel g) (g_lmint g) (g_lburn g) (g_penburn g + a) (g_emit g).
Definition g_add_emit (g : ghost) (a : Z) := mkG (g_bmint g) (g_bburn_lock g) (g_bburn_cancel g) (g_lmint g) (g_lburn g) (g_penburn g) (g_emit g + a).

(** elementary moves on the whole state *)
Definition s_credit (s : lst) (h t a : Z) : lst := set_led s (credit (l_led s) h t a).
Definition s_debit (s : lst) (h t a : Z) : result lst :=
  do L <- debit (l_led s) h t a; Ok (set_led s L).
Definition tl_of (s : lst) (u : Z) : Z := bal (l_tl s) u 0.
Definition tl_add (s : lst) (u a : Z) : lst := set_tl s (credit (l_tl s) u 0 a).
(** [total_locked_tokens -= amount] on a BigUint *)
Definition tl_sub (s : lst) (u a : Z) : result lst :=
  do _ <- sub_chk (tl_of s u) a; Ok (set_tl s (credit (l_tl s) u 0 (- a))).

Definition init_cfg (os : list opt) (unbond burn : Z) : result cfg :=
  do l <- add_lock_options [] os;
  check (0 <=? unbond) else EGuard;
  check (0 <=? burn) && (burn <=? MAXPU) else EGuard;                     (* token-unstake init: "Invalid percentage" *)
  Ok (mkCfg l unbond burn false).

(** deployment as the harness performs it: factory initialised and un-paused, unstake contract
    and collector wired, users funded with base asset *)
Definition init_state (c : cfg) (now : Z) (funds : list (Z * Z)) : lst :=
  mkL c now (map (fun ub => (fst ub, 0, snd ub)) funds) [] [] 0 (mkG 0 0 0 0 0 0 0).

(** ------------------------------------------------------------------ token-unstake: fees_handler.rs burn_penalty
    [pen] LOCKED tokens held by the unstake contract: a share is burned, the rest goes to the fees
    collector, which burns what it receives and adds the amount to accumulatedFees. *)
Definition split_penalty (burnpct pen : Z) : result (Z * Z) :=
  let b := pen * burnpct / MAXPU in
  do rest <- sub_chk pen b;
  Ok (b, rest).

Definition burn_penalty (s : lst) (pen : Z) : result lst :=
  do (b, rest) <- split_penalty (c_burn (l_cfg s)) pen;
  let s1 := set_g s (g_add_penburn (g_add_lburn (l_g s) pen) b) in
  Ok (set_fees s1 (l_fees s1 + rest)).

(** ------------------------------------------------------------------ energy-factory endpoints *)
Definition outs := list Z.

(** A user id is never the escrow contract: token-unstake has no code path calling these endpoints. *)
Definition is_user (c : Z) : bool := negb (c =? UNSTAKE).

(** lockTokens paying the base asset.  Output: [unlock epoch of the LOCKED nonce; amount]. *)
Definition ep_lock (s : lst) (c amt le dest : Z) : result (lst * outs) :=
  check is_user c && is_user dest else EGuard;
  check negb (paused s) else EState;
  check is_listed (opts s) le else EGuard;
  check (0 <? amt) else EGuard;
  do s1 <- s_debit s c 0 amt;                                             (* the payment *)
  let unlock := start_of_month (l_now s + le) in
  check (l_now s <? unlock) else EGuard;
  (* lock_base_asset: lock_tokens mints LOCKED 1:1, energy of dest grows; then the payment is burned *)
  let s2 := tl_add s1 dest amt in
  let s3 := s_credit s2 dest unlock amt in
  Ok (set_g s3 (g_add_bburn_lock (g_add_lmint (l_g s3) amt) amt), [unlock; amt]).

(** lockTokens paying a LOCKED token: extend to a listed option (destination must be the caller) *)
Definition ep_extend (s : lst) (c e amt le : Z) : result (lst * outs) :=
  check is_user c else EGuard;
  check negb (paused s) else EState;
  check is_listed (opts s) le else EGuard;
  check (0 <? e) && (0 <? amt) else EGuard;
  do s1 <- s_debit s c e amt;
  let unlock := start_of_month (l_now s + le) in
  check (l_now s <? unlock) else EGuard;
  check (e <? unlock) else EGuard;                                        (* "New lock period must be longer" *)
  do s2 <- tl_sub s1 c amt;                                               (* update_after_unlock_any *)
  let s3 := tl_add s2 c amt in                                            (* add_after_token_lock *)
  let s4 := s_credit s3 c unlock amt in
  Ok (set_g s4 (g_add_lburn (g_add_lmint (l_g s4) amt) amt), [unlock; amt]).

(** lockVirtual: only the whitelisted contract; LOCKED created without a base-asset payment
    (reward emission).  Destination and energy address coincide (how farms / the fees collector use it). *)
Definition ep_lock_virtual (s : lst) (c amt le dest : Z) : result (lst * outs) :=
  check is_user dest else EGuard;
  check negb (paused s) else EState;
  check (0 <? amt) else EGuard;
  check is_listed (opts s) le else EGuard;
  check (c =? WLSC) else EPerm;
  let unlock := start_of_month (l_now s + le) in
  check (l_now s <? unlock) else EGuard;
  let s2 := tl_add s dest amt in
  let s3 := s_credit s2 dest unlock amt in
  Ok (set_g s3 (g_add_emit (g_add_lmint (l_g s3) amt) amt), [unlock; amt]).

(** unlockTokens: any number of LOCKED payments, each must have reached its unlock epoch.
    The VM moves all payments before the endpoint body runs and the endpoint mints the total after
    its loop; a failure anywhere reverts everything, and the checks on one payment do not depend on
    another payment's processing (debits concern LOCKED nonces, the credit the base asset), so
    handling payment by payment gives the same result and the same final state. *)
Definition unlock_one (s : lst) (c : Z) (p : Z * Z) : result lst :=
  let '(e, amt) := p in
  check (0 <? e) && (0 <? amt) else EGuard;
  do s0 <- s_debit s c e amt;                                             (* the payment; nft_burn *)
  check (e <=? l_now s) else EGuard;                                      (* "Cannot unlock yet" *)
  do s1 <- tl_sub s0 c amt;                                               (* refund_after_token_unlock *)
  Ok (set_g (s_credit s1 c 0 amt) (g_add_bmint (g_add_lburn (l_g s1) amt) amt)).

Fixpoint unlock_all (s : lst) (c : Z) (ps : list (Z * Z)) : result lst :=
  match ps with
  | [] => Ok s
  | p :: t => do s1 <- unlock_one s c p; unlock_all s1 c t
  end.

Definition pay_total (ps : list (Z * Z)) : Z := fold_right (fun p acc => snd p + acc) 0 ps.

Definition ep_unlock (s : lst) (c : Z) (ps : list (Z * Z)) : result (lst * outs) :=
  check is_user c else EGuard;
  check negb (paused s) else EState;
  check negb (match ps with [] => true | _ => false end) else EGuard;
  do s1 <- unlock_all s c ps;
  Ok (s1, [pay_total ps]).

(** reduce_lock_period_common: returns the state after the energy update, the unlocked amount
    (payment - penalty) and the new lock epochs *)
Definition reduce_common (s : lst) (c e amt : Z) (new_le : option Z) : result (lst * Z * Z) :=
  check negb (paused s) else EState;
  check (l_now s <? e) else EGuard;                                       (* "Token can be unlocked already" *)
  let new_lock :=
    match new_le with
    | Some le => let tentative := l_now s + le in le - (tentative - start_of_month tentative)
    | None => 0
    end in
  let prev := e - l_now s in
  check (new_lock <? prev) else EGuard;                                   (* "Invalid reduce choice" *)
  do s1 <- tl_sub s c amt;                                                (* deplete_after_early_unlock *)
  do pen <- penalty_amount (opts s) amt prev new_lock;
  check (0 <? amt) else EGuard;
  check (pen <? amt) else EGuard;                                         (* "No tokens remaining after penalty is applied" *)
  Ok (s1, amt - pen, new_lock).

(** unlockEarly: base asset for (amount - penalty) is minted now and parked, together with the
    LOCKED payment, in the unstake contract *)
Definition ep_unlock_early (s : lst) (c e amt : Z) : result (lst * outs) :=
  check is_user c else EGuard;
  check negb (paused s) else EState;
  check (0 <? e) && (0 <? amt) else EGuard;
  do s0 <- s_debit s c e amt;
  do (s1, un, _) <- reduce_common s0 c e amt None;
  let s2 := set_g s1 (g_add_bmint (l_g s1) un) in
  let s3 := s_credit (s_credit s2 UNSTAKE e amt) UNSTAKE 0 un in
  Ok (set_q s3 (l_q s3 ++ [mkE c (l_now s + c_unbond (l_cfg s)) e amt un]), []).

(** reduceLockPeriod: penalty leaves at once through depositFees -> burn_penalty.
    Output: [new unlock epoch; new LOCKED amount]. *)
Definition ep_reduce (s : lst) (c e amt le : Z) : result (lst * outs) :=
  check is_user c else EGuard;
  check negb (paused s) else EState;
  check is_listed (opts s) le else EGuard;
  check (0 <? e) && (0 <? amt) else EGuard;
  do s0 <- s_debit s c e amt;
  do (s1, un, new_lock) <- reduce_common s0 c e amt (Some le);
  let new_unlock := l_now s + new_lock in
  do pen <- sub_chk amt un;
  (* lock_tokens would hand the base-asset payment back unchanged if the new epoch were not in the
     future; the factory holds no base asset, so the transaction cannot complete *)
  check (l_now s <? new_unlock) else EGuard;
  do burned <- sub_chk amt pen;
  let s2 := set_g s1 (g_add_lburn (g_add_lmint (l_g s1) un) burned) in
  do s3 <- (if 0 <? pen then burn_penalty s2 pen else Ok s2);
  let s4 := tl_add s3 c un in
  Ok (s_credit s4 c new_unlock un, [new_unlock; un]).

(** ------------------------------------------------------------------ token-unstake endpoints *)
Fixpoint q_first (q : list uentry) (c : Z) : option uentry :=
  match q with
  | [] => None
  | en :: t => if en_user en =? c then Some en else q_first t c
  end.

Fixpoint q_remove_first (q : list uentry) (c : Z) : list uentry :=
  match q with
  | [] => []
  | en :: t => if en_user en =? c then t else en :: q_remove_first t c
  end.

(** one iteration of claimUnlockedTokens's loop (burn_penalty is called after the loop in the code;
    within one transaction the order is not observable) *)
Definition claim_one (s : lst) (c : Z) (en : uentry) : result lst :=
  do s1 <- s_debit s UNSTAKE (en_epoch en) (en_un en);                    (* esdt_local_burn(locked, unlocked.amount) *)
  let s2 := set_g s1 (g_add_lburn (l_g s1) (en_un en)) in
  do pen <- sub_chk (en_lk en) (en_un en);
  do s3 <- (if 0 <? pen then
              do s' <- s_debit s2 UNSTAKE (en_epoch en) pen; burn_penalty s' pen
            else Ok s2);
  do s4 <- s_debit s3 UNSTAKE 0 (en_un en);                               (* direct_multi to the caller *)
  Ok (set_q (s_credit s4 c 0 (en_un en)) (q_remove_first (l_q s4) c)).

Fixpoint claim_loop (n : nat) (s : lst) (c : Z) (acc : outs) : result (lst * outs) :=
  match n with
  | O => Ok (s, acc)
  | S n' =>
      match q_first (l_q s) c with
      | None => Ok (s, acc)
      | Some en =>
          if l_now s <? en_release en then Ok (s, acc)
          else do s' <- claim_one s c en; claim_loop n' s' c (acc ++ [en_un en])
      end
  end.

Definition ep_claim (s : lst) (c : Z) : result (lst * outs) :=
  check is_user c else EGuard;
  do (s', o) <- claim_loop (Z.to_nat MAX_CLAIM_UNLOCKED_TOKENS) s c [];
  check negb (match o with [] => true | _ => false end) else EGuard;      (* "Nothing to unbond" *)
  Ok (s', o).

(** cancelUnbond: every entry of the caller, whatever its age; the factory's revertUnstake requires
    the factory not to be paused *)
Definition cancel_one (s : lst) (c : Z) (en : uentry) : result lst :=
  let s1 := tl_add s c (en_lk en) in                                      (* add_after_token_lock / add_energy_raw *)
  do s2 <- s_debit s1 UNSTAKE 0 (en_un en);                               (* esdt_local_burn(unlocked) *)
  let s3 := set_g s2 (g_add_bburn_cancel (l_g s2) (en_un en)) in
  do s4 <- s_debit s3 UNSTAKE (en_epoch en) (en_lk en);
  Ok (set_q (s_credit s4 c (en_epoch en) (en_lk en)) (q_remove_first (l_q s4) c)).

Fixpoint cancel_loop (n : nat) (s : lst) (c : Z) (acc : outs) : result (lst * outs) :=
  match n with
  | O => Ok (s, acc)
  | S n' =>
      match q_first (l_q s) c with
      | None => Ok (s, acc)
      | Some en => do s' <- cancel_one s c en; cancel_loop n' s' c (acc ++ [en_epoch en; en_lk en])
      end
  end.

Definition ep_cancel (s : lst) (c : Z) : result (lst * outs) :=
  check is_user c else EGuard;
  check negb (match q_first (l_q s) c with None => true | _ => false end) else EGuard;   (* "No tokens to unbond" *)
  do (s', o) <- cancel_loop (length (l_q s)) s c [];
  check negb (paused s) else EState;                                      (* revertUnstake: require_not_paused *)
  Ok (s', o).

(** ------------------------------------------------------------------ administration, time *)
Definition ep_add_options (s : lst) (c : Z) (new : list opt) : result (lst * outs) :=
  check (c =? OWNER) else EPerm;
  do l <- add_lock_options (opts s) new;
  Ok (set_cfg s (mkCfg l (c_unbond (l_cfg s)) (c_burn (l_cfg s)) (paused s)), []).

Definition ep_set_burn (s : lst) (c pct : Z) : result (lst * outs) :=
  check (c =? OWNER) else EPerm;
  check (0 <=? pct) && (pct <=? MAXPU) else EGuard;
  Ok (set_cfg s (mkCfg (opts s) (c_unbond (l_cfg s)) pct (paused s)), []).

Definition ep_set_paused (s : lst) (c : Z) (b : bool) : result (lst * outs) :=
  check (c =? OWNER) else EPerm;
  Ok (set_cfg s (mkCfg (opts s) (c_unbond (l_cfg s)) (c_burn (l_cfg s)) b), []).

Definition ep_advance (s : lst) (d : Z) : result (lst * outs) :=
  check (0 <=? d) else EGuard;
  Ok (set_now s (l_now s + d), []).

Inductive lop :=
| Lock (c amt le dest : Z)
| Extend (c e amt le : Z)
| LockVirtual (c amt le dest : Z)
| Unlock (c : Z) (ps : list (Z * Z))
| UnlockEarly (c e amt : Z)
| Reduce (c e amt le : Z)
| Claim (c : Z)
| Cancel (c : Z)
| AddOptions (c : Z) (new : list opt)
| SetBurn (c pct : Z)
| SetPaused (c : Z) (b : bool)
| Advance (d : Z).

Definition step (s : lst) (op : lop) : result (lst * outs) :=
  match op with
  | Lock c amt le dest => ep_lock s c amt le dest
  | Extend c e amt le => ep_extend s c e amt le
  | LockVirtual c amt le dest => ep_lock_virtual s c amt le dest
  | Unlock c ps => ep_unlock s c ps
  | UnlockEarly c e amt => ep_unlock_early s c e amt
  | Reduce c e amt le => ep_reduce s c e amt le
  | Claim c => ep_claim s c
  | Cancel c => ep_cancel s c
  | AddOptions c new => ep_add_options s c new
  | SetBurn c pct => ep_set_burn s c pct
  | SetPaused c b => ep_set_paused s c b
  | Advance d => ep_advance s d
  end.

(** A failed transaction reverts: the runner keeps the old state. *)
Definition step_total (s : lst) (op : lop) : lst :=
  match step s op with Ok (s', _) => s' | Err _ => s end.

Definition run (s : lst) (ops : list lop) : lst := fold_left step_total ops s.

(** ------------------------------------------------------------------ views *)
(** getUnlockedTokensForUser *)
Definition view_queue (s : lst) (c : Z) : list uentry := filter (fun en => en_user en =? c) (l_q s).
(** total base-asset / LOCKED held by users and the escrow *)
Definition base_supply (s : lst) : Z := tot is_base (l_led s).
Definition locked_supply (s : lst) : Z := tot is_locked (l_led s).
Definition held_locked (s : lst) (h : Z) : Z := tot (fun h' t => (h' =? h) && (0 <? t)) (l_led s).
