(** Executable POSITION-LEVEL model of farm-staking (C05 / C06 / C07 for the staking farm).

    Mirrors:
      farm-staking/farm-staking/src/lib.rs                      (mergeFarmTokens, merge_and_update_farm_tokens)
      farm-staking/farm-staking/src/base_impl_wrapper.rs        (calculate_base_farm_rewards, create_*_initial_attributes,
                                                                 check_and_update / increase / decrease_user_farm_position)
      farm-staking/farm-staking/src/token_attributes.rs         (StakingFarmTokenAttributes: into_part, merge_with; UnbondSftAttributes)
      farm-staking/farm-staking/src/{stake_farm,unstake_farm,unbond_farm,claim_stake_farm_rewards,
                                     compound_stake_farm_rewards,claim_only_boosted_staking_rewards}.rs
      common/modules/farm/farm_base_impl/src/{enter_farm,claim_rewards,compound_rewards,exit_farm}.rs
      common/modules/farm/contexts/src/*.rs                     (first payment / additional payments, storage cache)
      common/modules/utils/src/lib.rs                           (merge_attributes_from_payments, merge_from_payments_and_burn)
      common/modules/math/src/lib.rs, common/traits/fixed-supply-token/src/lib.rs
                                                                (weighted_average_round_up, rule_of_three: the SAME definitions
                                                                 as Model/Farm.v [ceil_avg], [rule3] - shared code, shared model)
      common/modules/sc_whitelist_module                        (get_orig_caller_from_opt, require_sc_address_whitelisted)

    The money-flow part of the state IS the record [stk] of Model/Staking.v; accrual ([settle], with the APR
    bound and the capacity), reward payment ([pay]), unbond tokens ([mint_unbond]) and every admin endpoint
    ([sstep] on the admin constructors of [sop]) are reused from there unchanged.  What this model adds is what
    Model/Staking.v takes as inputs: the position tokens (attributes, who holds how much of which nonce), the
    per-user total farm position, and the reward of an operation, which is now COMPUTED from the position
    (floor(amount * (rps_now - rps_entry) / DSC)) - only the boosted payout [b] stays an input, as in Model/Farm.v.

    Accounts: users, OWNER = 100, PROXY = 50 (the whitelisted farm-staking-proxy).  An operation has the caller
    [c] (who pays the tokens in and receives the results) and the original caller [u] (whose farm position is
    booked): u = c unless c is whitelisted.  Position migration nonce at its default (no "old" positions).
    No proofs in this file. *)
From MX Require Import Base.Prelude Gen.Params Model.Staking.
From MX Require Model.Farm.

(** StakingFarmTokenAttributes *)
Record sattrs := mkSA { sa_rps : Z; sa_comp : Z; sa_amt : Z; sa_owner : Z }.

Record spos := mkSP {
  p_s : stk;                      (* everything Model/Staking.v tracks (supply, reserve, index, capacity, unbond tokens, ...) *)
  p_attrs : list (Z * sattrs);    (* nonce -> attributes of every position ever minted *)
  p_held : list (Z * Z);          (* key nonce*1000+holder -> amount of that POSITION nonce the holder has *)
  p_ubheld : list (Z * Z);        (* key nonce*1000+holder -> amount of that UNBOND nonce the holder has *)
  p_utot : list (Z * Z);          (* userTotalFarmPosition *)
  p_paid : Z                      (* ghost: rewards paid out of the reserve so far (incl. compounded) *)
}.

Definition init_sp (dsc apr minub : Z) : spos := mkSP (init_stk dsc apr minub) [] [] [] [] 0.

Definition with_s (sp : spos) (s : stk) : spos := mkSP s (p_attrs sp) (p_held sp) (p_ubheld sp) (p_utot sp) (p_paid sp).
Definition with_held (sp : spos) (h : list (Z * Z)) : spos := mkSP (p_s sp) (p_attrs sp) h (p_ubheld sp) (p_utot sp) (p_paid sp).
Definition with_ubheld (sp : spos) (h : list (Z * Z)) : spos := mkSP (p_s sp) (p_attrs sp) (p_held sp) h (p_utot sp) (p_paid sp).
Definition with_paid (sp : spos) (s : stk) (paid : Z) : spos := mkSP s (p_attrs sp) (p_held sp) (p_ubheld sp) (p_utot sp) paid.

(** ------------------------------------------------------------------ attributes algebra (token_attributes.rs) *)
(** into_part: rule_of_three on the compounded reward, index unchanged *)
Definition sinto_part (a : sattrs) (x : Z) : result sattrs :=
  if x =? sa_amt a then Ok a else
  do c <- Farm.rule3 (sa_amt a) x (sa_comp a);
  Ok (mkSA (sa_rps a) c x (sa_owner a)).

(** merge_with: weighted_average_round_up of the indexes by the amounts; compounded and amounts add up *)
Definition smerge_with (a b : sattrs) : result sattrs :=
  do r <- Farm.ceil_avg (sa_rps a) (sa_amt a) (sa_rps b) (sa_amt b);
  Ok (mkSA r (sa_comp a + sa_comp b) (sa_amt a + sa_amt b) (sa_owner a)).

Fixpoint find_sattrs (l : list (Z * sattrs)) (n : Z) : option sattrs :=
  match l with
  | [] => None
  | (k, a) :: t => if k =? n then Some a else find_sattrs t n
  end.

(** decoding the attributes of a payment: fails for a nonce that is not a position (e.g. an unbond token) *)
Definition get_attrs (sp : spos) (n : Z) : result sattrs :=
  match find_sattrs (p_attrs sp) n with Some a => Ok a | None => Err EGuard end.

(** merge_attributes_from_payments *)
Fixpoint merge_payments (sp : spos) (base : sattrs) (ps : list (Z * Z)) : result sattrs :=
  match ps with
  | [] => Ok base
  | (n, x) :: t =>
      do a <- get_attrs sp n;
      do p <- sinto_part a x;
      do m <- smerge_with base p;
      merge_payments sp m t
  end.

(** ------------------------------------------------------------------ token ledger *)
Definition hkey (n h : Z) : Z := n * 1000 + h.
Definition nonce_of (k : Z) : Z := k / 1000.
Definition holder_of (k : Z) : Z := k mod 1000.
Definition held (sp : spos) (n h : Z) : Z := aget (p_held sp) (hkey n h).
Definition ubheld (sp : spos) (n h : Z) : Z := aget (p_ubheld sp) (hkey n h).
Definition utot (sp : spos) (u : Z) : Z := aget (p_utot sp) u.

(** caller [c] pays amount [x] of position nonce [n]: the VM rejects insufficient balance (and zero amounts);
    every endpoint burns what it receives *)
Definition pay_in (sp : spos) (c : Z) (p : Z * Z) : result spos :=
  let '(n, x) := p in
  check (0 <? x) else EGuard;
  do b <- sub_chk (held sp n c) x;
  Ok (with_held sp (aset (p_held sp) (hkey n c) b)).

Fixpoint pay_all (sp : spos) (c : Z) (ps : list (Z * Z)) : result spos :=
  match ps with
  | [] => Ok sp
  | p :: t => do sp1 <- pay_in sp c p; pay_all sp1 c t
  end.

(** nft_create: the next nonce of the farm-token identifier (shared with the unbond tokens), whole amount to [dst] *)
Definition mint_pos (sp : spos) (a : sattrs) (dst : Z) : spos * Z :=
  let n := s_next (p_s sp) in
  (mkSP (bump (p_s sp)) (p_attrs sp ++ [(n, a)]) (aset (p_held sp) (hkey n dst) (held sp n dst + sa_amt a))
        (p_ubheld sp) (p_utot sp) (p_paid sp), n).

Definition set_utot (sp : spos) (u v : Z) : spos :=
  mkSP (p_s sp) (p_attrs sp) (p_held sp) (p_ubheld sp) (aset (p_utot sp) u v) (p_paid sp).

(** decrease_user_farm_position: saturating, on the position's RECORDED owner *)
Definition decrease_user (sp : spos) (p : Z * Z) : result spos :=
  let '(n, x) := p in
  do a <- get_attrs sp n;
  let t := utot sp (sa_owner a) in
  Ok (if x <? t then set_utot sp (sa_owner a) (t - x) else set_utot sp (sa_owner a) 0).

Definition increase_user (sp : spos) (u x : Z) : spos := set_utot sp u (utot sp u + x).

(** check_and_update_user_farm_position *)
Fixpoint check_update (sp : spos) (u : Z) (ps : list (Z * Z)) : result spos :=
  match ps with
  | [] => Ok sp
  | (n, x) :: t =>
      do a <- get_attrs sp n;
      if sa_owner a =? u then check_update sp u t
      else do sp1 <- decrease_user sp (n, x);
           check_update (increase_user sp1 u x) u t
  end.

(** ------------------------------------------------------------------ rewards *)
(** FarmStakingWrapper::generate_aggregated_rewards = Staking.settle *)
Definition psettle (sp : spos) (blk : Z) : result spos :=
  do s1 <- settle (p_s sp) blk; Ok (with_s sp s1).

(** [r] leaves the reserve (and the balance), [b] of it out of the boosted pools = Staking.pay *)
Definition ppay (sp : spos) (r b : Z) : result spos :=
  do s1 <- pay (p_s sp) r b; Ok (with_paid sp s1 (p_paid sp + r)).

(** calculate_base_farm_rewards *)
Definition base_reward (sp : spos) (a : sattrs) (x : Z) : result Z :=
  if sa_rps a <? s_rps (p_s sp) then div_chk (x * (s_rps (p_s sp) - sa_rps a)) (s_dsc (p_s sp)) else Ok 0.

Definition whitelisted (c : Z) : bool := c =? PROXY.
(** get_orig_caller_from_opt: another original caller only from a whitelisted contract *)
Definition auth (c u : Z) : bool := (c =? u) || whitelisted c.

(** ------------------------------------------------------------------ operations *)
Inductive pop :=
| PStake (blk ep c u amt : Z) (adds : list (Z * Z)) (b : Z)          (* stakeFarm *)
| PStakeProxy (blk ep c u amt : Z) (adds : list (Z * Z)) (b : Z)     (* stakeFarmThroughProxy: amt is virtual *)
| PClaim (blk ep c u : Z) (p : Z * Z) (b : Z)                        (* claimRewards *)
| PClaimNewValue (blk ep c u : Z) (p : Z * Z) (newv b : Z)           (* claimRewardsWithNewValue *)
| PCompound (blk ep c : Z) (first : Z * Z) (adds : list (Z * Z)) (b : Z)
| PUnstake (blk ep c u : Z) (p : Z * Z) (b : Z)                      (* unstakeFarm *)
| PUnstakeProxy (blk ep c u : Z) (p : Z * Z) (t b : Z)               (* unstakeFarmThroughProxy: t staking tokens sent along *)
| PUnbond (ep c n amt : Z)
| PMerge (blk ep c : Z) (ps : list (Z * Z)) (b : Z)
| PClaimBoosted (blk ep c b : Z)
| PTransfer (n src dst amt : Z)                                      (* position tokens between accounts *)
| PTransferUb (n src dst amt : Z)                                    (* unbond tokens between accounts *)
| PAdmin (a : sop).                                                  (* topUp / withdraw / rate / start / end / APR / unbond epochs /
                                                                        boosted percentage / factors / pause / plain donation *)

(** stake_farm_common over enter_farm_base *)
Definition ep_stake (virtual : bool) (sp : spos) (blk ep c u amt : Z) (adds : list (Z * Z)) (b : Z)
  : result (spos * souts) :=
  check (if virtual then whitelisted c else auth c u) else EPerm;
  check (0 <? amt) else EGuard;
  do sp1 <- pay_all sp c adds;
  (* claim_only_boosted_payment: direct storage debit, no live cache yet *)
  do sp2 <- ppay sp1 b b;
  check active (p_s sp2) else EState;
  (* "the order is important - first check and update, then increase position" *)
  do sp3 <- check_update sp2 u adds;
  let sp4 := increase_user sp3 u amt in
  do sp5 <- psettle sp4 blk;
  let s5 := p_s sp5 in
  let s6 := if virtual then with_supply s5 (s_supply s5 + amt) (s_virt s5 + amt)
            else with_bal (with_supply s5 (s_supply s5 + amt) (s_virt s5)) (s_bal s5 + amt) in
  let sp6 := with_s sp5 s6 in
  do m <- merge_payments sp6 (mkSA (s_rps s6) 0 amt u) adds;
  let '(sp7, n) := mint_pos sp6 m c in
  Ok (sp7, [n; sa_amt m; b]).

(** claim_rewards_common over claim_rewards_base_no_farm_token_mint (single payment) *)
Definition ep_claim (sp : spos) (blk ep c u : Z) (p : Z * Z) (newv : option Z) (b : Z) : result (spos * souts) :=
  check (match newv with Some _ => whitelisted c | None => auth c u end) else EPerm;
  check (match newv with Some v => 0 <=? v | None => true end) else EGuard;
  do sp1 <- pay_all sp c [p];
  check active (p_s sp1) else EState;
  do sp2 <- psettle sp1 blk;
  do a <- get_attrs sp2 (fst p);
  do part <- sinto_part a (snd p);
  do base <- base_reward sp2 part (snd p);
  do sp3 <- ppay sp2 (base + b) b;
  do sp4 <- check_update sp3 u [p];
  (* create_claim_rewards_initial_attributes: the position is re-minted at the current index *)
  let m0 := mkSA (s_rps (p_s sp4)) (sa_comp part) (sa_amt part) u in
  match newv with
  | None =>
      let '(sp5, n) := mint_pos sp4 m0 c in
      Ok (sp5, [n; sa_amt m0; base + b])
  | Some v =>
      let s4 := p_s sp4 in
      do sup <- sub_chk (s_supply s4) (sa_amt m0);
      do ut <- sub_chk (utot sp4 u) (sa_amt m0);
      let sp5 := set_utot (with_s sp4 (with_supply s4 (sup + v) (s_virt s4 + v - sa_amt m0))) u (ut + v) in
      let '(sp6, n) := mint_pos sp5 (mkSA (sa_rps m0) (sa_comp m0) v u) c in
      Ok (sp6, [n; v; base + b])
  end.

(** compound_rewards_base: the reward joins the principal (it never leaves the contract) *)
Definition ep_compound (sp : spos) (blk ep c : Z) (first : Z * Z) (adds : list (Z * Z)) (b : Z) : result (spos * souts) :=
  do sp1 <- pay_all sp c (first :: adds);
  check active (p_s sp1) else EState;
  do sp2 <- psettle sp1 blk;
  do a <- get_attrs sp2 (fst first);
  do part <- sinto_part a (snd first);
  do base <- base_reward sp2 part (snd first);
  let r := base + b in
  do sp3 <- ppay sp2 r b;
  let s3 := p_s sp3 in
  let sp3' := with_s sp3 (with_bal (with_supply s3 (s_supply s3 + r) (s_virt s3)) (s_bal s3 + r)) in
  do sp4 <- check_update sp3' c (first :: adds);
  do m <- merge_payments sp4 (mkSA (s_rps (p_s sp4)) (sa_comp part + r) (sa_amt part + r) c) adds;
  let '(sp5, n) := mint_pos sp4 m c in
  Ok (increase_user sp5 c r, [n; sa_amt m]).

Definition credit_ub (sp : spos) (n c x : Z) : spos := with_ubheld sp (aset (p_ubheld sp) (hkey n c) (ubheld sp n c + x)).

(** unstake_farm_common over exit_farm_base; an unbond token {unlock_epoch} is minted for the caller *)
Definition ep_unstake (sp : spos) (blk ep c u : Z) (p : Z * Z) (t : option Z) (b : Z) : result (spos * souts) :=
  check (match t with Some _ => whitelisted c | None => auth c u end) else EPerm;
  check (match t with Some v => 0 <? v | None => true end) else EGuard;
  do sp1 <- pay_all sp c [p];
  check active (p_s sp1) else EState;
  do sp2 <- psettle sp1 blk;
  do a <- get_attrs sp2 (fst p);
  do part <- sinto_part a (snd p);
  do base <- base_reward sp2 part (snd p);
  do sp3 <- ppay sp2 (base + b) b;
  do sp4 <- decrease_user sp3 p;
  let s4 := p_s sp4 in
  do sup <- sub_chk (s_supply s4) (sa_amt part);
  let s5 := match t with
            | None => with_supply s4 sup (s_virt s4)
            | Some v => with_bal (with_supply s4 sup (s_virt s4 - sa_amt part)) (s_bal s4 + v)
            end in
  let ubamt := match t with None => sa_amt part | Some v => v end in
  let '(s6, n) := mint_unbond s5 ep ubamt in
  Ok (credit_ub (with_s sp4 s6) n c ubamt, [n; ubamt; base + b]).

Definition debit_ub (sp : spos) (c : Z) (p : Z * Z) : result spos :=
  let '(n, x) := p in
  check (0 <? x) else EGuard;
  do b <- sub_chk (ubheld sp n c) x;
  Ok (with_ubheld sp (aset (p_ubheld sp) (hkey n c) b)).

Definition ep_unbond (sp : spos) (ep c n amt : Z) : result (spos * souts) :=
  do sp1 <- debit_ub sp c (n, amt);
  do so <- sstep (p_s sp1) (SUnbond ep c n amt);
  Ok (with_s sp1 (fst so), snd so).

(** mergeFarmTokens (with the F2 repair: contract state validated first) *)
Definition ep_merge (sp : spos) (blk ep c : Z) (ps : list (Z * Z)) (b : Z) : result (spos * souts) :=
  match ps with
  | [] => Err EGuard
  | first :: rest =>
      do sp1 <- pay_all sp c ps;
      check active (p_s sp1) else EState;
      do sp2 <- ppay sp1 b b;
      do sp3 <- check_update sp2 c ps;
      do a <- get_attrs sp3 (fst first);
      do part <- sinto_part a (snd first);
      do m0 <- merge_payments sp3 part rest;
      let m := mkSA (sa_rps m0) (sa_comp m0) (sa_amt m0) c in
      let '(sp4, n) := mint_pos sp3 m c in
      Ok (sp4, [n; sa_amt m; b])
  end.

(** claimBoostedRewards (with the F1 repair: the cached reserve is debited) *)
Definition ep_claim_boosted (sp : spos) (blk ep c b : Z) : result (spos * souts) :=
  check negb (utot sp c =? 0) else EGuard;
  check active (p_s sp) else EState;
  do sp1 <- psettle sp blk;
  do sp2 <- ppay sp1 b b;
  Ok (sp2, [b]).

Definition ep_transfer (sp : spos) (n src dst amt : Z) : result (spos * souts) :=
  do sp1 <- pay_in sp src (n, amt);
  Ok (with_held sp1 (aset (p_held sp1) (hkey n dst) (held sp1 n dst + amt)), []).

Definition ep_transfer_ub (sp : spos) (n src dst amt : Z) : result (spos * souts) :=
  do sp1 <- debit_ub sp src (n, amt);
  Ok (credit_ub sp1 n dst amt, []).

Definition is_admin_op (a : sop) : bool :=
  match a with
  | STopUp _ _ | SWithdraw _ _ _ | SSetRate _ _ _ | SStart _ _ | SEnd _ _ | SSetApr _ _ _ | SSetMinUnbond _ _
  | SSetPct _ _ _ | SSetFactors _ | SSetState _ _ | SDonate _ => true
  | _ => false
  end.

Definition pstep (sp : spos) (op : pop) : result (spos * souts) :=
  match op with
  | PStake blk ep c u amt adds b => ep_stake false sp blk ep c u amt adds b
  | PStakeProxy blk ep c u amt adds b => ep_stake true sp blk ep c u amt adds b
  | PClaim blk ep c u p b => ep_claim sp blk ep c u p None b
  | PClaimNewValue blk ep c u p newv b => ep_claim sp blk ep c u p (Some newv) b
  | PCompound blk ep c first adds b => ep_compound sp blk ep c first adds b
  | PUnstake blk ep c u p b => ep_unstake sp blk ep c u p None b
  | PUnstakeProxy blk ep c u p t b => ep_unstake sp blk ep c u p (Some t) b
  | PUnbond ep c n amt => ep_unbond sp ep c n amt
  | PMerge blk ep c ps b => ep_merge sp blk ep c ps b
  | PClaimBoosted blk ep c b => ep_claim_boosted sp blk ep c b
  | PTransfer n s d a => ep_transfer sp n s d a
  | PTransferUb n s d a => ep_transfer_ub sp n s d a
  | PAdmin a =>
      check is_admin_op a else EGuard;
      do so <- sstep (p_s sp) a;
      Ok (with_s sp (fst so), snd so)
  end.

Definition pstep_total (sp : spos) (op : pop) : spos :=
  match pstep sp op with Ok (sp', _) => sp' | Err _ => sp end.

Definition prun (sp : spos) (ops : list pop) : spos := fold_left pstep_total ops sp.
