(** Common definitions for all models: result monad with guarded arithmetic, floor-division
    lemmas used by every rounding argument, association lists on Z keys. *)
From Coq Require Export ZArith List Bool Lia Psatz.
Export ListNotations.
Open Scope Z_scope.

(** Coarse error classes.  Only [Ok]/[Err] (and, where a property is about it, the class) is
    compared with the implementation; never message text. *)
Inductive err :=
| EGuard      (* a [require!] on arguments, payments, tokens *)
| ESlippage   (* caller-supplied bound not met *)
| EState      (* contract state (paused / inactive / phase) forbids the operation *)
| EPerm       (* caller lacks the role *)
| EArith      (* BigUint subtraction below zero / division by zero: the VM aborts *)
| EExt.       (* a nested call failed *)

Inductive result (A : Type) :=
| Ok (a : A)
| Err (e : err).
Arguments Ok {A} a.
Arguments Err {A} e.

Definition bind {A B} (r : result A) (f : A -> result B) : result B :=
  match r with Ok a => f a | Err e => Err e end.

Notation "'do' x <- r ; k" := (bind r (fun x => k))
  (at level 200, x pattern, r at level 100, k at level 200, right associativity).
Notation "'check' b 'else' e ; k" := (if b then k else Err e)
  (at level 200, b at level 100, e at level 0, k at level 200, right associativity).

Definition is_ok {A} (r : result A) : bool := match r with Ok _ => true | Err _ => false end.

(** BigUint subtraction: aborts below zero. *)
Definition sub_chk (a b : Z) : result Z := if a <? b then Err EArith else Ok (a - b).
(** BigUint division: aborts on a zero divisor (never Coq's x/0 = 0). *)
Definition div_chk (a b : Z) : result Z := if b =? 0 then Err EArith else Ok (a / b).

Lemma bind_ok {A B} (r : result A) (f : A -> result B) b :
  bind r f = Ok b -> exists a, r = Ok a /\ f a = Ok b.
Proof. destruct r; simpl; intros H; [eauto | discriminate]. Qed.

Lemma sub_chk_ok a b c : sub_chk a b = Ok c -> b <= a /\ c = a - b.
Proof. unfold sub_chk. destruct (a <? b) eqn:E; intros H; inversion H. apply Z.ltb_ge in E. lia. Qed.

Lemma div_chk_ok a b c : div_chk a b = Ok c -> b <> 0 /\ c = a / b.
Proof. unfold div_chk. destruct (b =? 0) eqn:E; intros H; inversion H. apply Z.eqb_neq in E. auto. Qed.

(** Floor division bounds: the only facts about [/] the rounding proofs need. *)
Lemma div_lo a b : 0 < b -> a / b * b <= a.
Proof. intros. pose proof (Z.mul_div_le a b H). lia. Qed.

Lemma div_hi a b : 0 < b -> a < a / b * b + b.
Proof. intros. pose proof (Z.mod_pos_bound a b H). pose proof (Z.div_mod a b). lia. Qed.

Lemma div_nonneg a b : 0 <= a -> 0 < b -> 0 <= a / b.
Proof. intros. apply Z.div_pos; lia. Qed.

Lemma div_char a b q : 0 < b -> (q = a / b <-> q * b <= a < q * b + b).
Proof.
  intros Hb. split.
  - intros ->. split; [apply div_lo | apply div_hi]; assumption.
  - intros [H1 H2]. apply Z.div_unique with (r := a - q * b); lia.
Qed.

(** Association lists keyed by Z (accounts, nonces, weeks). *)
Fixpoint aget (l : list (Z * Z)) (k : Z) : Z :=
  match l with
  | [] => 0
  | (k', v) :: t => if k' =? k then v else aget t k
  end.

Fixpoint aset (l : list (Z * Z)) (k v : Z) : list (Z * Z) :=
  match l with
  | [] => [(k, v)]
  | (k', v') :: t => if k' =? k then (k, v) :: t else (k', v') :: aset t k v
  end.

Fixpoint asum (l : list (Z * Z)) : Z :=
  match l with [] => 0 | (_, v) :: t => v + asum t end.

Definition akeys (l : list (Z * Z)) : list Z := map fst l.

Lemma aget_aset_same l k v : aget (aset l k v) k = v.
Proof.
  induction l as [|[k' v'] t IH]; simpl.
  - rewrite Z.eqb_refl. reflexivity.
  - destruct (k' =? k) eqn:E; simpl.
    + rewrite Z.eqb_refl. reflexivity.
    + rewrite E. exact IH.
Qed.

Lemma aget_aset_other l k k2 v : k <> k2 -> aget (aset l k v) k2 = aget l k2.
Proof.
  intros Hne. induction l as [|[k' v'] t IH]; simpl.
  - destruct (k =? k2) eqn:E; [apply Z.eqb_eq in E; contradiction | reflexivity].
  - destruct (k' =? k) eqn:E; simpl.
    + apply Z.eqb_eq in E. subst k'.
      destruct (k =? k2) eqn:E2; [apply Z.eqb_eq in E2; contradiction | reflexivity].
    + destruct (k' =? k2); [reflexivity | exact IH].
Qed.

(** Keys are kept unique by [aset]; the sum then moves by exactly the change of one entry. *)
Lemma asum_aset l k v : NoDup (akeys l) -> asum (aset l k v) = asum l - aget l k + v.
Proof.
  induction l as [|[k' v'] t IH]; simpl; intros Hnd.
  - lia.
  - inversion Hnd as [|? ? Hnin Hnd']; subst.
    destruct (k' =? k) eqn:E; simpl.
    + lia.
    + rewrite IH by assumption. lia.
Qed.

Lemma akeys_aset_in l k v x : In x (akeys (aset l k v)) -> x = k \/ In x (akeys l).
Proof.
  induction l as [|[k' v'] t IH]; simpl.
  - intros [H|[]]; auto.
  - destruct (k' =? k) eqn:E; simpl.
    + apply Z.eqb_eq in E. subst. intros [H|H]; auto.
    + intros [H|H]; auto. destruct (IH H); auto.
Qed.

Lemma nodup_aset l k v : NoDup (akeys l) -> NoDup (akeys (aset l k v)).
Proof.
  induction l as [|[k' v'] t IH]; simpl; intros Hnd.
  - constructor; [intros [] | constructor].
  - inversion Hnd as [|? ? Hnin Hnd']; subst.
    destruct (k' =? k) eqn:E; simpl.
    + apply Z.eqb_eq in E. subst. constructor; assumption.
    + constructor; [|apply IH; assumption].
      intros Hin. apply akeys_aset_in in Hin. destruct Hin as [->|Hin].
      * rewrite Z.eqb_refl in E. discriminate.
      * contradiction.
Qed.

Definition all_nonneg (l : list (Z * Z)) : Prop := Forall (fun kv => 0 <= snd kv) l.

Lemma aget_nonneg l k : all_nonneg l -> 0 <= aget l k.
Proof.
  induction l as [|[k' v'] t IH]; simpl; intros H; [lia|].
  inversion H; subst. destruct (k' =? k); auto.
Qed.

Lemma all_nonneg_aset l k v : all_nonneg l -> 0 <= v -> all_nonneg (aset l k v).
Proof.
  induction l as [|[k' v'] t IH]; simpl; intros H Hv.
  - constructor; [exact Hv | constructor].
  - inversion H as [|? ? Hh Ht]; subst. destruct (k' =? k).
    + constructor; [exact Hv | exact Ht].
    + constructor; [exact Hh | apply IH; assumption].
Qed.
