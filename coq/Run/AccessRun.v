(** Checker for the C19 execution matrix: tools/sys_access.py calls every endpoint (and argument
    variant) of every contract as every caller role in every contract state on the REAL contracts
    and records the outcome class; [check_entry] compares each cell with the model's [verdict_of].
    Returns [] or [cell index; role id; state id; model verdict id; observed outcome id] for the
    first cell that disagrees, or [-1; contract id; variant id] when the executed endpoint has no
    row in the access table. *)
From Coq Require Import ZArith List Bool Ascii.
From Coq Require Export String.   (* the generated case files write endpoint names as "..."%string *)
From MX Require Import Base.Prelude Gen.Params Gen.Endpoints Model.Access.
Import ListNotations.
Open Scope Z_scope.

Definition contract_of_id (z : Z) : option contract :=
  find (fun c => contract_id c =? z) all_contracts.

Definition all_parties : list party :=
  [PWhitelistedSC; PRouter; PUnstakeSC; POldFactory; PTransferSC; PEnergyFactory; PKnownContract; PAdder; PProposer].

Definition all_roles : list role := base_roles ++ map RParty all_parties.

Definition role_of_id (z : Z) : option role := find (fun r => role_id r =? z) all_roles.

Definition cstate_of_id (z : Z) : option cstate :=
  find (fun s => cstate_id s =? z) [Inactive; PartialActive; Active; Paused].

Definition all_other_auth : list other_auth := [OAlsoAuthorised; ORevoked; ONeverAuthorised].
Definition all_variants : list variant :=
  [VPlain; VOrigCaller; VForOther; VMultiOwn]
  ++ flat_map (fun k => map (VForeignOwner k) all_other_auth) [0; 1; 2].

Definition variant_of_id (z : Z) : option variant :=
  find (fun v => variant_id v =? z) all_variants.

Definition outcome_of_id (z : Z) : option outcome :=
  find (fun o => outcome_id o =? z) [OOk; OPermErr; OStateErr; OOtherErr].

(** one cell: (role id, state id, outcome id) *)
Fixpoint check_cells (c : contract) (cl : class) (j : Z) (cells : list (Z * Z * Z)) : list Z :=
  match cells with
  | [] => []
  | (rid, sid, oid) :: t =>
      match role_of_id rid, cstate_of_id sid, outcome_of_id oid with
      | Some r, Some s, Some o =>
          if negb (existsb (role_eqb r) (roles_of c)) then [j; rid; sid; -2; oid]       (* role not defined for the contract *)
          else if negb (existsb (cstate_eqb s) (states_of c)) then [j; rid; sid; -3; oid]
          else
            let v := verdict_of c cl r s in
            if agrees v o then check_cells c cl (j + 1) t
            else [j; rid; sid; verdict_id v; oid]
      | _, _, _ => [j; rid; sid; -4; oid]
      end
  end.

Definition check_entry (cid : Z) (e : string) (vid : Z) (cells : list (Z * Z * Z)) : list Z :=
  match contract_of_id cid, variant_of_id vid with
  | Some c, Some v =>
      match lookup c e v with
      | Some cl => check_cells c cl 0 cells
      | None => [-1; cid; vid]
      end
  | _, _ => [-1; cid; vid]
  end.

(** ------------------------------------------------------------------ table dump for the harness
    (so that the Python side reads the classification from the compiled model, not from text) *)
Definition guard_code (g : guard) : Z * Z :=
  match g with
  | GLifecycle => (0, 0) | GOnlyOwner => (1, 0) | GPerm m => (2, m) | GParty p => (3, party_id p)
  | GOwnerOrOpen => (4, 0) | GHub => (5, 0) | GNobody => (6, 0) | GQuery => (7, 0) | GAnyone => (8, 0)
  | GHubOwned l => (9, if all_owned_by_user l then 0 else 1)      (* 1: some paid position has a foreign owner *)
  end.

Definition sreq_code (s : sreq) : Z :=
  match s with SAny => 0 | SActive => 1 | SLiquidity => 2 | SBootstrap => 3 | SPausedOnly => 4 end.

Definition string_codes (s : string) : list Z :=
  map (fun a => Z.of_nat (nat_of_ascii a)) (list_ascii_of_string s).

Definition row_codes (r : row) : list Z :=
  let cl := row_class r in
  let n := string_codes (row_endpoint r) in
  [contract_id (row_contract r); variant_id (row_variant r); fst (guard_code (c_guard cl));
   snd (guard_code (c_guard cl)); sreq_code (c_sreq cl); kind_id (c_kind cl); Z.of_nat (length n)] ++ n.

Definition table_codes : list Z := flat_map row_codes access_table.

(** roles and states of the executed configuration, per contract:
    [contract id; #roles; role ids...; #states; state ids...] *)
Definition config_codes : list Z :=
  flat_map (fun c => [contract_id c; Z.of_nat (length (roles_of c))] ++ map role_id (roles_of c)
                     ++ [Z.of_nat (length (states_of c))] ++ map cstate_id (states_of c)) all_contracts.

(** every verdict of the model, in table order, for the roles and states of the row's contract
    (role-major); used by the harness only to report what the model expected *)
Definition row_verdicts (r : row) : list Z :=
  let c := row_contract r in
  flat_map (fun ro => map (fun st => verdict_id (verdict_of c (row_class r) ro st)) (states_of c)) (roles_of c).
Definition verdict_codes : list Z := flat_map row_verdicts access_table.
