(** Trace checker for the CLOSED farm model (Model/FarmFull.v): replays the operations the harness executed
    on the real dex/farm (+ energy-factory-mock) and compares, after every operation, everything
    Run/FarmRun.v compares (supply, reserve, reward per share, last reward block, balances, aggregate of the
    boosted pools, user totals, who holds which position, attributes of minted positions, returned amounts)
    AND everything Run/BoostedRun.v compares (week, last global update, undistributed, last collect week,
    percentage, the whole factor register, accumulated / remaining / farm supply / total energy / frozen
    total per week, every user's claim progress) — with the boosted payout [b], the caller's position, the
    emission and the supply COMPUTED by the model instead of being read from the observation.

    Returns [] or [index; field; model value; implementation value].
    Field codes: 1 ok/err; 2 returned amounts of the farm endpoint; 3 boosted payout computed by the model vs
    the boosted payment observed on the farm side; 4 the same vs the decrease of the completed weeks' pools;
    5 block nonce; FarmRun's codes as they are (10..16, 100+u, 500000+n, 1000000+k);
    BoostedRun's codes + 50000000. *)
From MX Require Import Base.Prelude Gen.Params Model.Weekly Model.Farm Model.Boosted Model.FarmFull.
From MX Require Run.FarmRun Run.BoostedRun.

Record xobs := mkXObs {
  xb_f : FarmRun.fobs;          (* the farm-side observation *)
  xb_m : BoostedRun.bobs;       (* the module-side observation *)
  xb_b : Z;                     (* boosted payment as seen on the farm side (returned / derived from the payment) *)
  xb_blk : Z                    (* block nonce *)
}.

Definition shift_b (d : list Z) : list Z :=
  match d with
  | i :: c :: rest => i :: (50000000 + c) :: rest
  | _ => d
  end.

Definition cmp_x (i : Z) (s : xstate) (o : xobs) : list Z :=
  if negb (x_blk s =? xb_blk o) then [i; 5; x_blk s; xb_blk o]
  else match FarmRun.cmp_state i (x_f s) (xb_f o) with
       | [] => shift_b (BoostedRun.cmp_state i (x_b s) (xb_m o))
       | d => d
       end.

Fixpoint check_trace (s : xstate) (i : Z) (tr : list (xop * xobs)) : list Z :=
  match tr with
  | [] => []
  | (op, o) :: t =>
      match full_step s op with
      | Ok (s', out) =>
          if negb (FarmRun.fo_ok (xb_f o)) then [i; 1; 1; 0]
          else if negb (FarmRun.list_eqb (xo_f out) (FarmRun.fo_outs (xb_f o)))
               then [i; 2; hd (-1) (tl (xo_f out)); hd (-1) (tl (FarmRun.fo_outs (xb_f o)))]
          else if negb (xo_b out =? xb_b o) then [i; 3; xo_b out; xb_b o]
          else if negb (o_b (xo_m out) =? BoostedRun.bo_b (xb_m o)) then [i; 4; o_b (xo_m out); BoostedRun.bo_b (xb_m o)]
          else match cmp_x i s' o with
               | [] => check_trace s' (i + 1) t
               | d => d
               end
      | Err _ =>
          if FarmRun.fo_ok (xb_f o) then [i; 1; 0; 1]
          else match cmp_x i s o with
               | [] => check_trace s (i + 1) t
               | d => d
               end
      end
  end.
