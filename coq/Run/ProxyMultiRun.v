(** Trace checker for the proxy-DEX correspondence run with TWO intermediated pairs (property C16,
    tools/sys_proxydex_multi.py): replays the operations executed on the real composed system
    (two pairs + two farms with locked rewards + energy factory + proxy_dex) on Model/ProxyMulti.v
    and compares every observation.  Returns [] or [index; field; model value; implementation value].

    Field codes as in Run/ProxyDexRun.v (1 ok/err, 2..5 returned payments, 10 base, 11 other tokens,
    20 farm tokens, 21 locked tokens, 22 wrapped LP tokens of the proxy, 30/31 holders, 41..43 wrapped LP
    attributes, 50.. wrapped farm attributes, 60/61 supply per wrapped nonce, 70/71 supply changes,
    80..82 energy entry, 900 interface law violated by a real response) plus
      12  LP tokens held by the proxy PER LP TOKEN ID (key = pair id),
      44  lp_token_id recorded in a new wrapped LP token's attributes (as pair id),
      62  supply of a wrapped LP nonce in users' hands. *)
From MX Require Import Base.Prelude Gen.Params Model.ProxyDex Model.ProxyMulti Run.ProxyDexRun.

Record mobs := mkMObs {
  q_ok : bool;
  q_outs : list pay;
  q_base : Z; q_other : Z; q_lp : list (Z * Z);
  q_farm : list (Z * Z); q_locked : list (Z * Z); q_pwlp : list (Z * Z);
  q_hlp : list (Z * Z); q_hfm : list (Z * Z);
  q_wlp : list (Z * (Z * Z * Z * Z));                (* nonce -> (pair id, T, k, L) of the nonces created by the operation *)
  q_wfm : list (Z * (Z * Z * Z * Z * Z * Z));        (* nonce -> (farm, f, T, kind, pn, P) *)
  q_suplp : list (Z * Z); q_supfm : list (Z * Z);    (* total ESDT supply of every wrapped nonce *)
  q_usr : list (Z * Z);                              (* wrapped LP supply outside the proxy, every nonce *)
  q_dbase : Z; q_dlocked : Z;
  q_energy : penergy
}.

Fixpoint mcmp_wlp (i : Z) (s : mstate) (l : list (Z * (Z * Z * Z * Z))) : list Z :=
  match l with
  | [] => []
  | (n, (pid, T, k, L)) :: t =>
      match getn (m_wlp s) n with
      | None => [i; 40; n; 0]
      | Some w =>
          if negb (ml_pair w =? pid) then [i; 44; ml_pair w; pid]
          else if negb (ml_T w =? T) then [i; 41; ml_T w; T]
          else if negb (ml_k w =? k) then [i; 42; ml_k w; k]
          else if negb (ml_L w =? L) then [i; 43; ml_L w; L]
          else mcmp_wlp i s t
      end
  end.

Fixpoint mcmp_wfm (i : Z) (s : mstate) (l : list (Z * (Z * Z * Z * Z * Z * Z))) : list Z :=
  match l with
  | [] => []
  | (m, (farm, f, T, kind, pn, P)) :: t =>
      match getn (m_wfm s) m with
      | None => [i; 50; m; 0]
      | Some w =>
          if negb (wf_farm w =? farm) then [i; 51; wf_farm w; farm]
          else if negb (wf_f w =? f) then [i; 52; wf_f w; f]
          else if negb (wf_T w =? T) then [i; 53; wf_T w; T]
          else if negb (wf_kind w =? kind) then [i; 54; wf_kind w; kind]
          else if negb (wf_pn w =? pn) then [i; 55; wf_pn w; pn]
          else if negb (wf_P w =? P) then [i; 56; wf_P w; P]
          else mcmp_wfm i s t
      end
  end.

Fixpoint mcmp_suplp (i : Z) (s : mstate) (l : list (Z * Z)) : list Z :=
  match l with
  | [] => []
  | (n, v) :: t =>
      match getn (m_wlp s) n with
      | None => [i; 60; n; v]
      | Some w => if ml_live w + ml_dead w =? v then mcmp_suplp i s t else [i; 60; ml_live w + ml_dead w; v]
      end
  end.

Fixpoint mcmp_usr (i : Z) (s : mstate) (l : list (Z * Z)) : list Z :=
  match l with
  | [] => []
  | (n, v) :: t =>
      match getn (m_wlp s) n with
      | None => [i; 62; n; v]
      | Some w => if ml_user w =? v then mcmp_usr i s t else [i; 62; ml_user w; v]
      end
  end.

Fixpoint mcmp_supfm (i : Z) (s : mstate) (l : list (Z * Z)) : list Z :=
  match l with
  | [] => []
  | (n, v) :: t =>
      match getn (m_wfm s) n with
      | None => [i; 61; n; v]
      | Some w => if wf_sup w =? v then mcmp_supfm i s t else [i; 61; wf_sup w; v]
      end
  end.

Definition mcmp_state (i : Z) (s : mstate) (o : mobs) : list Z :=
  first_nonempty [
    (if m_base s =? q_base o then [] else [i; 10; m_base s; q_base o]);
    (if m_other s =? q_other o then [] else [i; 11; m_other s; q_other o]);
    cmp_map i 12 (m_lp s) (q_lp o);
    cmp_map i 20 (m_farm s) (q_farm o);
    cmp_map i 21 (m_locked s) (q_locked o);
    cmp_map i 22 (m_pwlp s) (q_pwlp o);
    cmp_map i 30 (m_hlp s) (q_hlp o);
    cmp_map i 31 (m_hfm s) (q_hfm o);
    mcmp_wlp i s (q_wlp o);
    mcmp_wfm i s (q_wfm o);
    mcmp_suplp i s (q_suplp o);
    mcmp_usr i s (q_usr o);
    mcmp_supfm i s (q_supfm o)].

Definition menv_base_burn (o : mop) : Z :=
  match o with
  | MExitFarm _ farm p e => if farm =? 0 then p_amt p - snd (v_farm e) else 0
  | _ => 0
  end.

Definition menv_locked_mint (o : mop) : Z :=
  match o with
  | MEnterFarm _ _ _ _ e | MExitFarm _ _ _ e | MClaimRew _ _ _ e | MMergeWfm _ _ _ e => snd (v_rew e)
  | _ => 0
  end.

Definition mcmp_energy (i : Z) (x : eff) (o : mobs) : list Z :=
  match x_energy x with
  | None => []
  | Some en =>
      let ob := q_energy o in
      if negb (pe_amt en =? pe_amt ob) then [i; 80; pe_amt en; pe_amt ob]
      else if negb (pe_upd en =? pe_upd ob) then [i; 81; pe_upd en; pe_upd ob]
      else if negb (pe_tot en =? pe_tot ob) then [i; 82; pe_tot en; pe_tot ob]
      else []
  end.

Fixpoint check_trace (s : mstate) (i : Z) (tr : list (mop * mobs)) : list Z :=
  match tr with
  | [] => []
  | (op, o) :: t =>
      match mstep s op with
      | Ok (s', x) =>
          if negb (q_ok o) then [i; 1; 1; 0]
          else if negb (x_law x) then [i; 900; 0; 1]
          else
            let db := x_mint x - x_burn x - menv_base_burn op in
            let dl := menv_locked_mint op - snd (x_lburn x) in
            match first_nonempty [
                    cmp_outs i (x_outs x) (q_outs o);
                    (if db =? q_dbase o then [] else [i; 70; db; q_dbase o]);
                    (if dl =? q_dlocked o then [] else [i; 71; dl; q_dlocked o]);
                    mcmp_energy i x o;
                    mcmp_state i s' o] with
            | [] => check_trace s' (i + 1) t
            | d => d
            end
      | Err _ =>
          if q_ok o then [i; 1; 0; 1]
          else match mcmp_state i s o with
               | [] => check_trace s (i + 1) t
               | d => d
               end
      end
  end.
