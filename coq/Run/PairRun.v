(** Trace checker for the pair correspondence run: replays the operations the harness executed on
    the real contracts and compares every observation.  Returns [] or
    [index; field; model value; implementation value] for the first difference. *)
From MX Require Import Base.Prelude Gen.Params Model.Pair.

Record pobs := mkObs {
  o_ok : bool;
  o_outs : list Z;
  o_r1 : Z; o_r2 : Z; o_S : Z;
  o_b1 : Z; o_b2 : Z;
  o_lp : list (Z * Z);         (* observed LP balances of the tracked accounts *)
  o_burn : list (Z * Z);       (* observed decrease of the total supply of pool tokens 1, 2 *)
  o_coll : list (Z * Z);       (* observed balance gain of the fees collector per token *)
  o_q1 : Z; o_q2 : Z           (* reserves of the external pair *)
}.

Fixpoint list_eqb (a b : list Z) : bool :=
  match a, b with
  | [], [] => true
  | x :: a', y :: b' => (x =? y) && list_eqb a' b'
  | _, _ => false
  end.

Fixpoint first_lp_diff (p : pair) (l : list (Z * Z)) : option (Z * Z * Z) :=
  match l with
  | [] => None
  | (a, v) :: t => if lp_of p a =? v then first_lp_diff p t else Some (a, lp_of p a, v)
  end.

Definition sum_tok (l : list (Z * Z)) (t : Z) : Z :=
  fold_left (fun acc kv => if fst kv =? t then acc + snd kv else acc) l 0.

Fixpoint first_tok_diff (m : list (Z * Z)) (l : list (Z * Z)) : option (Z * Z * Z) :=
  match l with
  | [] => None
  | (t, v) :: tl => if sum_tok m t =? v then first_tok_diff m tl else Some (t, sum_tok m t, v)
  end.

Definition cmp_state (i : Z) (w : world) (o : pobs) : list Z :=
  let p := w_p w in
  if negb (p_r1 p =? o_r1 o) then [i; 10; p_r1 p; o_r1 o]
  else if negb (p_r2 p =? o_r2 o) then [i; 11; p_r2 p; o_r2 o]
  else if negb (p_S p =? o_S o) then [i; 12; p_S p; o_S o]
  else if negb (p_bal1 p =? o_b1 o) then [i; 13; p_bal1 p; o_b1 o]
  else if negb (p_bal2 p =? o_b2 o) then [i; 14; p_bal2 p; o_b2 o]
  else if negb (p_r1 (w_q w) =? o_q1 o) then [i; 15; p_r1 (w_q w); o_q1 o]
  else if negb (p_r2 (w_q w) =? o_q2 o) then [i; 16; p_r2 (w_q w); o_q2 o]
  else match first_lp_diff p (o_lp o) with
       | Some (a, m, v) => [i; 100 + a; m; v]
       | None => []
       end.

(** the external pair burns what it buys; pool-token burns of the whole transaction are the first
    pair's own burns (the external pair never burns pool token 2, and burns token 1 only when asked
    for it, which no destination of the first pair does: FOREIGN is requested). *)
Fixpoint check_trace (w : world) (i : Z) (tr : list (pop * pobs)) : list Z :=
  match tr with
  | [] => []
  | (op, o) :: t =>
      match wstep w op with
      | Ok (w', outs, e) =>
          if negb (o_ok o) then [i; 1; 1; 0]
          else if negb (list_eqb outs (o_outs o)) then [i; 2; hd (-1) outs; hd (-1) (o_outs o)]
          else match first_tok_diff (e_burn e) (o_burn o) with
               | Some (tk, m, v) => [i; 20 + tk; m; v]
               | None =>
               match first_tok_diff (e_coll e) (o_coll o) with
               | Some (tk, m, v) => [i; 30 + tk; m; v]
               | None =>
                 match cmp_state i w' o with
                 | [] => check_trace w' (i + 1) t
                 | d => d
                 end
               end end
      | Err _ =>
          if o_ok o then [i; 1; 0; 1]
          else match cmp_state i w o with
               | [] => check_trace w (i + 1) t
               | d => d
               end
      end
  end.

Definition init_world (fee sfee : Z) (adder : option Z) (l1 l2 : Z) : world :=
  mkWorld (init_pair fee sfee adder)
          (run (init_pair 300 50 None) [SetState OWNER 1; WlAdd OWNER Q_CALLER; Add OWNER l1 l2 1 1]).
