(** Trace checker for the governance correspondence run: replays the operations the harness executed
    on the real governance-v2 (+ energy-factory-mock + fees-collector) and compares every observation.
    Returns [] or [index; field; model value; implementation value] for the first difference.

    Field codes: 1 = Ok/Err, 2 = returned values, 3 = number of proposals, 4 = status of the first unused id,
    5 = burned so far, 6 = collector total energy, 10+k = k-th configuration value,
    1000*id + column = a column of proposal [id]
      (0 status, 1 live, 2 proposer, 3 fee, 4 minimum quorum, 5 delay, 6 period, 7 withdraw percentage, 8 total energy
       snapshot, 9 start block, 10 fee withdrawn, 11 up, 12 down, 13 veto, 14 abstain, 15 quorum),
    200000 + account = fee-token balance, 300000 + user = getUserVotedProposals (first differing element). *)
From MX Require Import Base.Prelude Gen.Params Model.Governance.

Record gobs := mkObs {
  o_ok : bool;
  o_outs : list Z;
  o_props : list (list Z);        (* one row per id 1..n, columns as above *)
  o_next : Z;                      (* getProposalStatus (n+1) *)
  o_voted : list (Z * list Z);     (* user -> getUserVotedProposals *)
  o_bal : list (Z * Z);            (* account -> fee-token balance *)
  o_burned : Z;                    (* decrease of the fee token's total supply since deployment *)
  o_total : Z;                     (* getTotalEnergyForWeek (getLastGlobalUpdateWeek) of the collector *)
  o_cfg : list Z                   (* min energy, min fee, quorum, delay, period, withdraw percentage *)
}.

Definition b2z (b : bool) : Z := if b then 1 else 0.

Definition row (g : gov) (id : Z) (p : proposal) : list Z :=
  [view_status g id; b2z (pr_live p); pr_proposer p; pr_fee p; pr_minq p; pr_delay p; pr_period p; pr_wpct p;
   pr_total p; pr_start p; b2z (pr_withdrawn p); pr_up p; pr_down p; pr_veto p; pr_abstain p; pr_quorum p].

(** first difference of two lists: (position, left, right); a missing element reads as -1 *)
Fixpoint list_diff (k : Z) (a b : list Z) : option (Z * Z * Z) :=
  match a, b with
  | [], [] => None
  | x :: a', y :: b' => if x =? y then list_diff (k + 1) a' b' else Some (k, x, y)
  | x :: _, [] => Some (k, x, -1)
  | [], y :: _ => Some (k, -1, y)
  end.

Fixpoint cmp_props (i : Z) (g : gov) (id : Z) (ps : list proposal) (rows : list (list Z)) : list Z :=
  match ps, rows with
  | [], [] => []
  | p :: ps', r :: rows' =>
      match list_diff 0 (row g id p) r with
      | Some (k, m, v) => [i; 1000 * id + k; m; v]
      | None => cmp_props i g (id + 1) ps' rows'
      end
  | _, _ => [i; 3; Z.of_nat (length ps); Z.of_nat (length rows)]
  end.

Fixpoint cmp_voted (i : Z) (g : gov) (l : list (Z * list Z)) : list Z :=
  match l with
  | [] => []
  | (u, ids) :: t =>
      match list_diff 0 (view_voted g u) ids with
      | Some (_, m, v) => [i; 300000 + u; m; v]
      | None => cmp_voted i g t
      end
  end.

Fixpoint cmp_bal (i : Z) (g : gov) (l : list (Z * Z)) : list Z :=
  match l with
  | [] => []
  | (a, v) :: t => if bal g a =? v then cmp_bal i g t else [i; 200000 + a; bal g a; v]
  end.

Definition cfg_of (g : gov) : list Z :=
  [g_min_energy g; g_min_fee g; g_quorum g; g_delay g; g_period g; g_wpct g].

Definition cmp_state (i : Z) (g : gov) (o : gobs) : list Z :=
  match cmp_props i g 1 (g_props g) (o_props o) with
  | [] =>
    if negb (view_status g (nprops g + 1) =? o_next o) then [i; 4; view_status g (nprops g + 1); o_next o]
    else if negb (g_burned g =? o_burned o) then [i; 5; g_burned g; o_burned o]
    else if negb (g_total g =? o_total o) then [i; 6; g_total g; o_total o]
    else match list_diff 0 (cfg_of g) (o_cfg o) with
         | Some (k, m, v) => [i; 10 + k; m; v]
         | None =>
           match cmp_voted i g (o_voted o) with
           | [] => cmp_bal i g (o_bal o)
           | d => d
           end
         end
  | d => d
  end.

Fixpoint check_trace (g : gov) (i : Z) (tr : list (gop * gobs)) : list Z :=
  match tr with
  | [] => []
  | (op, o) :: t =>
      match step g op with
      | Ok (g', outs) =>
          if negb (o_ok o) then [i; 1; 1; 0]
          else match list_diff 0 outs (o_outs o) with
               | Some (_, m, v) => [i; 2; m; v]
               | None =>
                 match cmp_state i g' o with
                 | [] => check_trace g' (i + 1) t
                 | d => d
                 end
               end
      | Err _ =>
          if o_ok o then [i; 1; 0; 1]
          else match cmp_state i g o with
               | [] => check_trace g (i + 1) t
               | d => d
               end
      end
  end.
