(** Trace checkers for the on-behalf correspondence runs (tools/sys_behalf.py): dex/farm, farm-with-locked-rewards
    and farm-staking, each deployed with a real permissions-hub, users and agents.

    Compared with the real contracts after every operation: everything the checkers of Run/FarmRun.v,
    Run/FarmLockedRun.v and Run/StakingPosRun.v compare (Ok/Err, endpoint results, supply, reserve, index, pools,
    user totals of EVERY tracked account - users and agents -, every position holding of every tracked account,
    attributes of minted / live positions) and in addition, per tracked account, the token balances the
    property talks about, as differences to the start of the history:
      field 30 + account   reward-token balance   (model: rewards received; plus farming flows when farming = reward token)
      field 50 + account   farming-token balance  (model: received by exit - paid in by enter)
      field 70 + account   LOCKED-token balance   (locked farm: locked rewards received)
      field 4              the hub's view isWhitelisted(user, agent) for every (user, agent) pair of the world.
    No proofs in this file. *)
From MX Require Import Base.Prelude Gen.Params.
From MX Require Model.Access Model.Farm Model.FarmLocked Model.Staking Model.StakingPos Model.FarmBehalf Model.StakingBehalf.
From MX Require Run.FarmRun Run.FarmLockedRun Run.StakingPosRun.

(** short names for the hub operations in generated terms *)
Definition hw (c a : Z) := Access.HWhitelist c a.
Definition hrw (c a : Z) := Access.HRemoveWhitelist c a.
Definition hb (c a : Z) := Access.HBlacklist c a.
Definition hrb (c a : Z) := Access.HRemoveBlacklist c a.

(** observed isWhitelisted(user, agent) answers: ((user, agent), answer) *)
Fixpoint first_wl_diff (h : Access.hub) (l : list (Z * Z * bool)) : option (Z * Z) :=
  match l with
  | [] => None
  | (u, a, v) :: t => if Bool.eqb (Access.is_whitelisted h u a) v then first_wl_diff h t else Some (u, a)
  end.

Fixpoint first_bal_diff (get : Z -> Z) (l : list (Z * Z)) : option (Z * Z * Z) :=
  match l with
  | [] => None
  | (k, v) :: t => if get k =? v then first_bal_diff get t else Some (k, get k, v)
  end.

Module F.
Import Farm FarmLocked FarmBehalf FarmRun FarmLockedRun.

Record bobs := mkBObs {
  bo_f : fobs;
  bo_rew : list (Z * Z);            (* (account, reward-token balance - balance at the start) *)
  bo_farming : list (Z * Z);        (* (account, farming-token balance - balance at the start) *)
  bo_wl : list (Z * Z * bool)
}.

Definition net_rew (s : bst) (x : Z) : Z :=
  if f_same (b_f s) then aget (b_rew s) x + aget (b_fout s) x - aget (b_fin s) x else aget (b_rew s) x.
Definition net_farming (s : bst) (x : Z) : Z :=
  if f_same (b_f s) then aget (b_rew s) x + aget (b_fout s) x - aget (b_fin s) x else aget (b_fout s) x - aget (b_fin s) x.

Definition bcmp (i : Z) (s : bst) (ob : bobs) : list Z :=
  match cmp_state i (b_f s) (bo_f ob) with
  | [] =>
      match first_bal_diff (net_rew s) (bo_rew ob) with
      | Some (k, m, v) => [i; 30 + k; m; v]
      | None =>
        match first_bal_diff (net_farming s) (bo_farming ob) with
        | Some (k, m, v) => [i; 50 + k; m; v]
        | None =>
          match first_wl_diff (b_hub s) (bo_wl ob) with
          | Some (u, a) => [i; 4; u; a]
          | None => []
          end
        end
      end
  | d => d
  end.

Fixpoint bcheck_trace (s : bst) (i : Z) (tr : list (bop * bobs)) : list Z :=
  match tr with
  | [] => []
  | (op, ob) :: t =>
      let o := bo_f ob in
      match bstep s op with
      | Ok (s', outs) =>
          if negb (fo_ok o) then [i; 1; 1; 0]
          else if negb (list_eqb outs (fo_outs o)) then [i; 2; hd (-1) (tl outs); hd (-1) (tl (fo_outs o))]
          else match bcmp i s' ob with
               | [] => bcheck_trace s' (i + 1) t
               | d => d
               end
      | Err _ =>
          if fo_ok o then [i; 1; 0; 1]
          else match bcmp i s ob with
               | [] => bcheck_trace s (i + 1) t
               | d => d
               end
      end
  end.

(** ---- farm-with-locked-rewards *)
Record lbobs := mkLBObs {
  lbo_l : lobs;
  lbo_rew : list (Z * Z);
  lbo_farming : list (Z * Z);
  lbo_lk : list (Z * Z);            (* (account, LOCKED balance over all nonces - balance at the start) *)
  lbo_wl : list (Z * Z * bool)
}.

Definition lnet_rew (s : lbst) (x : Z) : Z :=
  if f_same (l_f (lb_s s)) then aget (lb_fout s) x - aget (lb_fin s) x else 0.
Definition lnet_farming (s : lbst) (x : Z) : Z := aget (lb_fout s) x - aget (lb_fin s) x.

Definition lbcmp (i : Z) (s : lbst) (ob : lbobs) : list Z :=
  match lcmp_state i (lb_s s) (lbo_l ob) with
  | [] =>
      match first_bal_diff (lnet_rew s) (lbo_rew ob) with
      | Some (k, m, v) => [i; 30 + k; m; v]
      | None =>
        match first_bal_diff (lnet_farming s) (lbo_farming ob) with
        | Some (k, m, v) => [i; 50 + k; m; v]
        | None =>
          match first_bal_diff (fun x => aget (lb_lk s) x) (lbo_lk ob) with
          | Some (k, m, v) => [i; 70 + k; m; v]
          | None =>
            match first_wl_diff (lb_hub s) (lbo_wl ob) with
            | Some (u, a) => [i; 4; u; a]
            | None => []
            end
          end
        end
      end
  | d => d
  end.

Definition lb_pays_reward (op : lbop) : bool :=
  match op with
  | LBL o => pays_reward o
  | LBEnterOB _ _ _ _ _ _ _ | LBClaimOB _ _ _ _ _ _ => true
  | LBHub _ => false
  end.

(** as in Run/FarmLockedRun.v: a failed real operation while lockEpochs is not a listed option is accepted when the
    model (given boosted payout 0 for failed operations) would succeed *)
Fixpoint lbcheck_trace (s : lbst) (i : Z) (tr : list (lbop * lbobs)) : list Z :=
  match tr with
  | [] => []
  | (op, ob) :: t =>
      let o := lo_f (lbo_l ob) in
      match lbstep s op with
      | Ok (s', outs, lk) =>
          if negb (fo_ok o) then
            if lb_pays_reward op && negb (listed (lb_s s)) then
              match lbcmp i s ob with
              | [] => lbcheck_trace s (i + 1) t
              | d => d
              end
            else [i; 1; 1; 0]
          else if negb (list_eqb outs (fo_outs o)) then [i; 2; hd (-1) (tl outs); hd (-1) (tl (fo_outs o))]
          else if negb (recv_eqb lk (lo_recv (lbo_l ob))) then [i; 3; recv_amount lk; recv_amount (lo_recv (lbo_l ob))]
          else match lbcmp i s' ob with
               | [] => lbcheck_trace s' (i + 1) t
               | d => d
               end
      | Err _ =>
          if fo_ok o then [i; 1; 0; 1]
          else if negb (recv_eqb [] (lo_recv (lbo_l ob))) then [i; 3; 0; recv_amount (lo_recv (lbo_l ob))]
          else match lbcmp i s ob with
               | [] => lbcheck_trace s (i + 1) t
               | d => d
               end
      end
  end.
End F.

Module S.
Import Staking StakingPos StakingBehalf StakingPosRun.

Record sbobs := mkSBObs {
  sbo_p : pobs;
  sbo_bal : list (Z * Z);           (* (account, staking-token balance - balance at the start) *)
  sbo_wl : list (Z * Z * bool)
}.

Definition snet (s : sbst) (x : Z) : Z := aget (sb_rew s) x + aget (sb_out s) x - aget (sb_in s) x.

Definition sbcmp (i : Z) (s : sbst) (ob : sbobs) : list Z :=
  match cmp_state i (sb_p s) (sbo_p ob) with
  | [] =>
      match first_bal_diff (snet s) (sbo_bal ob) with
      | Some (k, m, v) => [i; 30 + k; m; v]
      | None =>
        match first_wl_diff (sb_hub s) (sbo_wl ob) with
        | Some (u, a) => [i; 4; u; a]
        | None => []
        end
      end
  | d => d
  end.

Fixpoint check_trace (s : sbst) (i : Z) (tr : list (sbop * sbobs)) : list Z :=
  match tr with
  | [] => []
  | (op, ob) :: t =>
      let o := sbo_p ob in
      match sbstep s op with
      | Ok (s', outs) =>
          if negb (po_ok o) then [i; 1; 1; 0]
          else if negb (list_eqb outs (po_outs o)) then [i; 2; hd (-1) (tl outs); hd (-1) (tl (po_outs o))]
          else match sbcmp i s' ob with
               | [] => check_trace s' (i + 1) t
               | d => d
               end
      | Err _ =>
          if po_ok o then [i; 1; 0; 1]
          else match sbcmp i s ob with
               | [] => check_trace s (i + 1) t
               | d => d
               end
      end
  end.
End S.
