(** Trace checker for the proxy-DEX correspondence run (property C16): replays the operations the
    harness executed on the real composed system (pair + two farms with locked rewards + energy
    factory + proxy_dex) and compares every observation.  Returns [] or
    [index; field; model value; implementation value] for the first difference.

    Field codes: 1 ok/err, 2.. returned payments (2 count, 3 token, 4 nonce, 5 amount),
    10 base, 11 other token, 12 LP (proxy balances), 20 farm tokens, 21 locked tokens, 22 wrapped LP
    tokens of the proxy, 30/31 holders of wrapped LP / farm tokens, 40.. wrapped LP attributes,
    50.. wrapped farm attributes, 60/61 supply per wrapped nonce, 70 base supply change, 71 locked
    supply change, 80..82 energy entry written, 900 an interface law is violated by a real response. *)
From MX Require Import Base.Prelude Gen.Params Model.ProxyDex.

Record pobs := mkObs {
  o_ok : bool;
  o_outs : list pay;
  o_base : Z; o_other : Z; o_lp : Z;
  o_farm : list (Z * Z); o_locked : list (Z * Z); o_pwlp : list (Z * Z);
  o_hlp : list (Z * Z); o_hfm : list (Z * Z);
  o_wlp : list (Z * (Z * Z * Z));                    (* nonce -> (T, k, L) of the nonces created by the operation *)
  o_wfm : list (Z * (Z * Z * Z * Z * Z * Z));        (* nonce -> (farm, f, T, kind, pn, P) *)
  o_suplp : list (Z * Z); o_supfm : list (Z * Z);    (* total ESDT supply of every wrapped nonce *)
  o_dbase : Z; o_dlocked : Z;                        (* change of the global base / locked supply *)
  o_energy : penergy                                 (* the caller's energy entry after the operation *)
}.

Fixpoint first_map_diff (m l : list (Z * Z)) : option (Z * Z * Z) :=
  match l with
  | [] => None
  | (k, v) :: t => if aget m k =? v then first_map_diff m t else Some (k, aget m k, v)
  end.

Definition cmp_map (i code : Z) (m l : list (Z * Z)) : list Z :=
  match first_map_diff m l with
  | Some (k, a, b) => [i; code; a; b]
  | None => if asum m =? asum l then [] else [i; code + 1000; asum m; asum l]
  end.

Fixpoint cmp_outs (i : Z) (a b : list pay) : list Z :=
  match a, b with
  | [], [] => []
  | (t, n, x) :: a', (t', n', x') :: b' =>
      if negb (t =? t') then [i; 3; t; t']
      else if negb (x =? x') then [i; 5; x; x']
      else if negb ((n =? n') || (x =? 0)) then [i; 4; n; n']
      else cmp_outs i a' b'
  | _, _ => [i; 2; Z.of_nat (length a); Z.of_nat (length b)]
  end.

Fixpoint cmp_wlp (i : Z) (s : state) (l : list (Z * (Z * Z * Z))) : list Z :=
  match l with
  | [] => []
  | (n, (T, k, L)) :: t =>
      match getn (s_wlp s) n with
      | None => [i; 40; n; 0]
      | Some w =>
          if negb (wl_T w =? T) then [i; 41; wl_T w; T]
          else if negb (wl_k w =? k) then [i; 42; wl_k w; k]
          else if negb (wl_L w =? L) then [i; 43; wl_L w; L]
          else cmp_wlp i s t
      end
  end.

Fixpoint cmp_wfm (i : Z) (s : state) (l : list (Z * (Z * Z * Z * Z * Z * Z))) : list Z :=
  match l with
  | [] => []
  | (m, (farm, f, T, kind, pn, P)) :: t =>
      match getn (s_wfm s) m with
      | None => [i; 50; m; 0]
      | Some w =>
          if negb (wf_farm w =? farm) then [i; 51; wf_farm w; farm]
          else if negb (wf_f w =? f) then [i; 52; wf_f w; f]
          else if negb (wf_T w =? T) then [i; 53; wf_T w; T]
          else if negb (wf_kind w =? kind) then [i; 54; wf_kind w; kind]
          else if negb (wf_pn w =? pn) then [i; 55; wf_pn w; pn]
          else if negb (wf_P w =? P) then [i; 56; wf_P w; P]
          else cmp_wfm i s t
      end
  end.

Fixpoint cmp_suplp (i : Z) (s : state) (l : list (Z * Z)) : list Z :=
  match l with
  | [] => []
  | (n, v) :: t =>
      match getn (s_wlp s) n with
      | None => [i; 60; n; v]
      | Some w => if wl_live w + wl_dead w =? v then cmp_suplp i s t else [i; 60; wl_live w + wl_dead w; v]
      end
  end.

Fixpoint cmp_supfm (i : Z) (s : state) (l : list (Z * Z)) : list Z :=
  match l with
  | [] => []
  | (n, v) :: t =>
      match getn (s_wfm s) n with
      | None => [i; 61; n; v]
      | Some w => if wf_sup w =? v then cmp_supfm i s t else [i; 61; wf_sup w; v]
      end
  end.

Definition first_nonempty (l : list (list Z)) : list Z :=
  fold_right (fun d acc => match d with [] => acc | _ => d end) [] l.

Definition cmp_state (i : Z) (s : state) (o : pobs) : list Z :=
  first_nonempty [
    (if s_base s =? o_base o then [] else [i; 10; s_base s; o_base o]);
    (if s_other s =? o_other o then [] else [i; 11; s_other s; o_other o]);
    (if s_lp s =? o_lp o then [] else [i; 12; s_lp s; o_lp o]);
    cmp_map i 20 (s_farm s) (o_farm o);
    cmp_map i 21 (s_locked s) (o_locked o);
    cmp_map i 22 (s_pwlp s) (o_pwlp o);
    cmp_map i 30 (s_hlp s) (o_hlp o);
    cmp_map i 31 (s_hfm s) (o_hfm o);
    cmp_wlp i s (o_wlp o);
    cmp_wfm i s (o_wfm o);
    cmp_suplp i s (o_suplp o);
    cmp_supfm i s (o_supfm o)].

(** what the environment does to the global supplies in the same transaction: the base-asset farm
    burns the exit penalty it keeps; the factory mints the locked rewards *)
Definition env_base_burn (o : op) : Z :=
  match o with
  | ExitFarm _ farm p e => if farm =? 0 then p_amt p - snd (v_farm e) else 0
  | _ => 0
  end.

Definition env_locked_mint (o : op) : Z :=
  match o with
  | EnterFarm _ _ _ _ e | ExitFarm _ _ _ e | ClaimRew _ _ _ e | MergeWfm _ _ _ e => snd (v_rew e)
  | _ => 0
  end.

Definition cmp_energy (i : Z) (x : eff) (o : pobs) : list Z :=
  match x_energy x with
  | None => []
  | Some en =>
      let ob := o_energy o in
      if negb (pe_amt en =? pe_amt ob) then [i; 80; pe_amt en; pe_amt ob]
      else if negb (pe_upd en =? pe_upd ob) then [i; 81; pe_upd en; pe_upd ob]
      else if negb (pe_tot en =? pe_tot ob) then [i; 82; pe_tot en; pe_tot ob]
      else []
  end.

Fixpoint check_trace (s : state) (i : Z) (tr : list (op * pobs)) : list Z :=
  match tr with
  | [] => []
  | (op, o) :: t =>
      match step s op with
      | Ok (s', x) =>
          if negb (o_ok o) then [i; 1; 1; 0]
          else if negb (x_law x) then [i; 900; 0; 1]
          else
            let db := x_mint x - x_burn x - env_base_burn op in
            let dl := env_locked_mint op - snd (x_lburn x) in
            match first_nonempty [
                    cmp_outs i (x_outs x) (o_outs o);
                    (if db =? o_dbase o then [] else [i; 70; db; o_dbase o]);
                    (if dl =? o_dlocked o then [] else [i; 71; dl; o_dlocked o]);
                    cmp_energy i x o;
                    cmp_state i s' o] with
            | [] => check_trace s' (i + 1) t
            | d => d
            end
      | Err _ =>
          if o_ok o then [i; 1; 0; 1]
          else match cmp_state i s o with
               | [] => check_trace s (i + 1) t
               | d => d
               end
      end
  end.
