(** Trace checker for the boosted-yields correspondence run: replays the operations the harness
    executed on the real dex/farm (+ energy-factory-mock) on [Model.Boosted] and compares every
    observation.  Returns [] or [index; field; model value; implementation value] for the first
    difference.

    Field codes: 1 ok/err, 2 total boosted payout of the operation, 4 current week,
    5 lastGlobalUpdateWeek, 6 undistributed, 7 last collect week, 8 percentage,
    9 config presence, 10 config last_update_week, 20+5*slot+k factor k of slot,
    1000+w accumulated(w), 2000+w remaining(w), 3000+w farm supply(w), 4000+w total energy(w),
    5000+w total rewards(w) (amount, -1 = empty mapper), 6000+10*u+k claim progress of user u
    (k = 0 presence, 1 amount, 2 epoch, 3 tokens, 4 week). *)
From MX Require Import Base.Prelude Gen.Params Model.Weekly Model.Boosted.

Record bobs := mkBObs {
  bo_ok : bool;
  bo_b : Z;                              (* boosted payout: decrease of the completed weeks' pools *)
  bo_week : Z;                           (* getCurrentWeek *)
  bo_last : Z;                           (* getLastGlobalUpdateWeek *)
  bo_und : Z;                            (* getUndistributedBoostedRewards *)
  bo_lastcol : Z;                        (* lastUndistributedBoostedRewardsCollectWeek *)
  bo_pct : Z;                            (* getBoostedYieldsRewardsPercentage *)
  bo_cfg : list Z;                       (* [] = empty mapper; else last_update_week :: 5 factors x 5 fields *)
  bo_acc : list (Z * Z);                 (* (week, getAccumulatedRewardsForWeek) over the observed window *)
  bo_rem : list (Z * Z);                 (* (week, getRemainingBoostedRewardsToDistribute) *)
  bo_sup : list (Z * Z);                 (* (week, getFarmSupplyForWeek) *)
  bo_energy : list (Z * Z);              (* (week, getTotalEnergyForWeek) *)
  bo_rewards : list (Z * Z);             (* (week, amount of getTotalRewardsForWeek or -1 when empty) *)
  bo_prog : list (Z * list Z)            (* (user, [amount; epoch; tokens; week]) or (user, []) *)
}.

Fixpoint first_diff (get : Z -> Z) (l : list (Z * Z)) : option (Z * Z * Z) :=
  match l with
  | [] => None
  | (k, v) :: t => if get k =? v then first_diff get t else Some (k, get k, v)
  end.

Fixpoint first_list_diff (k : Z) (a b : list Z) : option (Z * Z * Z) :=
  match a, b with
  | [], [] => None
  | x :: a', y :: b' => if x =? y then first_list_diff (k + 1) a' b' else Some (k, x, y)
  | [], y :: _ => Some (0, 0, 1)
  | x :: _, [] => Some (0, 1, 0)
  end.

Definition fac_fields (f : factors) : list Z := [fa_max f; fa_ce f; fa_cf f; fa_mine f; fa_minf f].

Definition cfg_fields (s : bst) : list Z :=
  match bh_cfg (b_h s) with
  | None => []
  | Some c => c_last c :: concat (map fac_fields (c_slots c))
  end.

Definition rewards_amount (s : bst) (w : Z) : Z :=
  match view_total_rewards s w with
  | [] => -1
  | (_, a) :: _ => a
  end.

Definition prog_fields (s : bst) (u : Z) : list Z :=
  match view_progress s u with
  | Some p => [en_amt (pr_en p); en_epoch (pr_en p); en_tok (pr_en p); pr_week p]
  | None => []
  end.

Fixpoint first_prog_diff (s : bst) (l : list (Z * list Z)) : option (Z * Z * Z) :=
  match l with
  | [] => None
  | (u, v) :: t =>
      match first_list_diff 1 (prog_fields s u) v with
      | Some (k, m, i) => Some (10 * u + k, m, i)
      | None => first_prog_diff s t
      end
  end.

Definition cmp_state (i : Z) (s : bst) (o : bobs) : list Z :=
  match current_week s with
  | Err _ => [i; 4; -1; bo_week o]
  | Ok cw =>
  if negb (cw =? bo_week o) then [i; 4; cw; bo_week o]
  else if negb (view_last_global s =? bo_last o) then [i; 5; view_last_global s; bo_last o]
  else if negb (view_und s =? bo_und o) then [i; 6; view_und s; bo_und o]
  else if negb (view_lastcol s =? bo_lastcol o) then [i; 7; view_lastcol s; bo_lastcol o]
  else if negb (view_pct s =? bo_pct o) then [i; 8; view_pct s; bo_pct o]
  else match first_list_diff 10 (cfg_fields s) (bo_cfg o) with
  | Some (k, m, v) => [i; (if k =? 0 then 9 else k); m; v]
  | None =>
  match first_diff (view_acc s) (bo_acc o) with
  | Some (k, m, v) => [i; 1000 + k; m; v]
  | None =>
  match first_diff (view_rem s) (bo_rem o) with
  | Some (k, m, v) => [i; 2000 + k; m; v]
  | None =>
  match first_diff (view_sup s) (bo_sup o) with
  | Some (k, m, v) => [i; 3000 + k; m; v]
  | None =>
  match first_diff (view_total_energy s) (bo_energy o) with
  | Some (k, m, v) => [i; 4000 + k; m; v]
  | None =>
  match first_diff (rewards_amount s) (bo_rewards o) with
  | Some (k, m, v) => [i; 5000 + k; m; v]
  | None =>
  match first_prog_diff s (bo_prog o) with
  | Some (k, m, v) => [i; 6000 + k; m; v]
  | None => []
  end end end end end end end
  end.

Fixpoint check_trace (s : bst) (i : Z) (tr : list (bop * bobs)) : list Z :=
  match tr with
  | [] => []
  | (op, o) :: t =>
      match step s op with
      | Ok (s', out) =>
          if negb (bo_ok o) then [i; 1; 1; 0]
          else if negb (o_b out =? bo_b o) then [i; 2; o_b out; bo_b o]
          else match cmp_state i s' o with
               | [] => check_trace s' (i + 1) t
               | d => d
               end
      | Err _ =>
          if bo_ok o then [i; 1; 0; 1]
          else match cmp_state i s o with
               | [] => check_trace s (i + 1) t
               | d => d
               end
      end
  end.
