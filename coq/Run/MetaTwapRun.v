(** Law L7 of Props/C15.v CHECKED on every real answer (tools/sys_metastaking_twap.py).

    [C15_safe_twap] / [C15_law_L7_safe_price_model] are relative to the premise that the pair answers the
    proxy's updateAndGetTokensForGivenPositionWithSafePrice as [Laws.pair_safe_answer N us ev stk_first liq],
    i.e. as Model/SafePrice.v's [QLpDef] evaluated on the ring built from the update calls [us].  Here that
    premise is evaluated: [us] is the world's own observation ledger (one call per round in which a pair action
    happened, carrying the reserves / LP supply the pair's view answered BEFORE the first action of that round -
    the same call list the C13 trace checker feeds to [update]), [ev] the block round and the reserves at
    the time of the proxy transaction, and the staking-token side of the model's answer is compared with the
    value the REAL staking farm registered for the real stakeFarmTokens / claimDualYield.

    Returns [] or [index of the item; 50; model value; registered value] ([index; 51; 0; registered] when
    the model rejects the query although the real transaction registered a value). *)
From MX Require Import Base.Prelude Gen.Params Model.SafePrice Proofs.SafePriceProofs Model.MetaStaking Proofs.MetaStakingProofs.

Inductive titem :=
| TU (round r1 r2 s : Z)                                  (* ledger entry: first pair action of [round] saw (r1, r2, s) *)
| TQ (now r1 r2 s : Z) (stk_first : bool) (liq reg : Z).  (* the proxy registered [reg] for [liq] LP tokens at round [now] *)

(** the staking-token side of the answer the law postulates (MAX_OBSERVATIONS = the real ring capacity) *)
Definition law_value (us : list upd) (ev : env) (stk_first : bool) (liq : Z) : result Z :=
  do r <- Laws.pair_safe_answer MAX_OBSERVATIONS us ev stk_first liq;
  do (v, _, _) <- pick_staking r;
  Ok v.

(** [rus] = the ledger so far, newest first *)
Fixpoint check_twap (i : Z) (rus : list upd) (tr : list titem) : list Z :=
  match tr with
  | [] => []
  | TU round r1 r2 s :: t => check_twap (i + 1) (mkU round r1 r2 s :: rus) t
  | TQ now r1 r2 s sf liq reg :: t =>
      match law_value (rev rus) (mkEnv now r1 r2 s) sf liq with
      | Ok v => if v =? reg then check_twap (i + 1) rus t else [i; 50; v; reg]
      | Err _ => [i; 51; 0; reg]
      end
  end.
