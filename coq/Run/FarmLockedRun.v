(** Trace checker for the farm-with-locked-rewards correspondence run.

    Compared with the real contract after every operation: Ok/Err, the results of the endpoint,
    farm-token supply, reward reserve, reward per share, last reward block, the aggregate of the
    boosted pools, user totals, every position holding, the attributes of minted positions — as in
    Run/FarmRun.v — and, specific to this contract:
      field 14  the contract's REAL balance of the reward token = donations (+ principal when the
                farming token is the reward token); the model's ghost [f_bal_rew] is NOT compared;
      field 15  farming tokens held = principal;
      field 17  lockEpochs;   field 18  LOCKED tokens held by the farm itself (always 0);
      field 3   the LOCKED tokens users received in the operation: [(receiver, (amount, unlock epoch))],
                unlock epoch -1 when the token's original token is not the reward token.
    A failed real operation while lockEpochs is not a listed option is accepted when the model (which
    is given boosted payout 0 for failed operations) would succeed: the real boosted part, which
    would have to be locked, is not observable on a failed transaction. *)
From MX Require Import Base.Prelude Gen.Params Model.Farm Run.FarmRun Model.FarmLocked.

Record lobs := mkLObs {
  lo_f : fobs;                       (* fo_bal_rew = the farm's real reward-token balance *)
  lo_recv : list (Z * (Z * Z));      (* LOCKED tokens received by users in this operation *)
  lo_farm_locked : Z;                (* LOCKED tokens held by the farm itself *)
  lo_lock : Z                        (* getLockEpochs *)
}.

Fixpoint recv_eqb (a b : list (Z * (Z * Z))) : bool :=
  match a, b with
  | [], [] => true
  | (u, (x, e)) :: a', (u', (x', e')) :: b' => (u =? u') && (x =? x') && (e =? e') && recv_eqb a' b'
  | _, _ => false
  end.

Definition recv_amount (l : list (Z * (Z * Z))) : Z := fold_right (fun p acc => fst (snd p) + acc) 0 l.

Definition lcmp_state (i : Z) (s : lfarm) (ob : lobs) : list Z :=
  let f := l_f s in
  let o := lo_f ob in
  let held_rew := if f_same f then l_base s + f_bal_farming f else l_base s in
  let held_farming := if f_same f then l_base s + f_bal_farming f else f_bal_farming f in
  if negb (f_supply f =? fo_supply o) then [i; 10; f_supply f; fo_supply o]
  else if negb (f_reserve f =? fo_reserve o) then [i; 11; f_reserve f; fo_reserve o]
  else if negb (f_rps f =? fo_rps o) then [i; 12; f_rps f; fo_rps o]
  else if negb (f_last f =? fo_last o) then [i; 13; f_last f; fo_last o]
  else if negb (held_rew =? fo_bal_rew o) then [i; 14; held_rew; fo_bal_rew o]
  else if negb (held_farming =? fo_bal_farming o) then [i; 15; held_farming; fo_bal_farming o]
  else if negb (f_pool f =? fo_pool o) then [i; 16; f_pool f; fo_pool o]
  else if negb (l_lock s =? lo_lock ob) then [i; 17; l_lock s; lo_lock ob]
  else if negb (lo_farm_locked ob =? 0) then [i; 18; 0; lo_farm_locked ob]
  else match first_diff (utot f) (fo_utot o) with
       | Some (k, m, v) => [i; 100 + k; m; v]
       | None =>
         match first_diff (fun k => aget (f_held f) k) (fo_held o) with
         | Some (k, m, v) => [i; 1000000 + k; m; v]
         | None =>
           match first_attr_diff f (fo_attrs o) with
           | Some n => [i; 500000 + n; 0; 0]
           | None => []
           end
         end
       end.

Definition pays_reward (op : lop) : bool :=
  match op with
  | LF (FEnter _ _ _ _ _ _) | LF (FClaim _ _ _ _ _ _) | LF (FExit _ _ _ _ _) | LF (FMerge _ _ _ _ _)
  | LF (FClaimBoosted _ _ _ _) => true
  | _ => false
  end.

Fixpoint lcheck_trace (s : lfarm) (i : Z) (tr : list (lop * lobs)) : list Z :=
  match tr with
  | [] => []
  | (op, ob) :: t =>
      let o := lo_f ob in
      match lstep s op with
      | Ok (s', outs, lk) =>
          if negb (fo_ok o) then
            if pays_reward op && negb (listed s) then
              match lcmp_state i s ob with
              | [] => lcheck_trace s (i + 1) t
              | d => d
              end
            else [i; 1; 1; 0]
          else if negb (list_eqb outs (fo_outs o)) then [i; 2; hd (-1) (tl outs); hd (-1) (tl (fo_outs o))]
          else if negb (recv_eqb lk (lo_recv ob)) then [i; 3; recv_amount lk; recv_amount (lo_recv ob)]
          else match lcmp_state i s' ob with
               | [] => lcheck_trace s' (i + 1) t
               | d => d
               end
      | Err _ =>
          if fo_ok o then [i; 1; 0; 1]
          else if negb (recv_eqb [] (lo_recv ob)) then [i; 3; 0; recv_amount (lo_recv ob)]
          else match lcmp_state i s ob with
               | [] => lcheck_trace s (i + 1) t
               | d => d
               end
      end
  end.
