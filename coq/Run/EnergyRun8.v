(* placeholder *)
