(** Trace checker for the C08 correspondence run: replays the operations the harness executed on the
    real energy-factory + token-unstake + lkmex-transfer + locked-token-wrapper and compares every
    observation.  Returns [] or [index; field; model value; implementation value] for the first
    difference.  Field codes: 1 ok/err, 2 outputs, 3 epoch, 100+u energy amount of account u (users 1.., escrows 0,-1,-2),
    200+u last update epoch, 300+u total locked tokens, 400+u getEnergyAmountForUser,
    50+(h+2) a locked-token balance of holder h, 60+(h+2) total locked tokens held by h,
    70+(h+2) / 80+(h+2) the same for wrapped tokens. *)
From MX Require Import Base.Prelude Gen.Params Model.Energy.

Record eobs := mkObs {
  o_ok : bool;
  o_outs : list Z;
  o_now : Z;
  o_en : list (Z * (Z * Z * Z * Z));     (* user, (amount, last update, total locked, amount view) *)
  o_bal : list (Z * Z * Z);              (* (holder, unlock epoch, balance): every non-zero real balance *)
  o_tot : list (Z * Z);                  (* (holder, sum of its locked-token balances) *)
  o_wbal : list (Z * Z * Z);             (* wrapped tokens, by unlock epoch of the wrapped nonce *)
  o_wtot : list (Z * Z)
}.

Fixpoint list_eqb (a b : list Z) : bool :=
  match a, b with
  | [], [] => true
  | x :: a', y :: b' => (x =? y) && list_eqb a' b'
  | _, _ => false
  end.

Fixpoint first_en_diff (i : Z) (s : st) (l : list (Z * (Z * Z * Z * Z))) : list Z :=
  match l with
  | [] => []
  | (u, (a, up, t, v)) :: tl =>
      let en := view_entry s u in
      if negb (e_amt en =? a) then [i; 100 + u; e_amt en; a]
      else if negb (e_upd en =? up) then [i; 200 + u; e_upd en; up]
      else if negb (e_tot en =? t) then [i; 300 + u; e_tot en; t]
      else if negb (view_amount s u =? v) then [i; 400 + u; view_amount s u; v]
      else first_en_diff i s tl
  end.

Fixpoint first_bal_diff (i base : Z) (l : ledger) (obs : list (Z * Z * Z)) : list Z :=
  match obs with
  | [] => []
  | (h, e, b) :: tl =>
      if lget l h e =? b then first_bal_diff i base l tl else [i; base + (h + 2); lget l h e; b]
  end.

Fixpoint first_tot_diff (i base : Z) (l : ledger) (obs : list (Z * Z)) : list Z :=
  match obs with
  | [] => []
  | (h, b) :: tl =>
      if ltotal l h =? b then first_tot_diff i base l tl else [i; base + (h + 2); ltotal l h; b]
  end.

Definition cmp_state (i : Z) (s : st) (o : eobs) : list Z :=
  if negb (s_now s =? o_now o) then [i; 3; s_now s; o_now o] else
  match first_en_diff i s (o_en o) with
  | [] =>
    match first_bal_diff i 50 (s_bal s) (o_bal o) with
    | [] =>
      match first_tot_diff i 60 (s_bal s) (o_tot o) with
      | [] =>
        match first_bal_diff i 70 (s_wbal s) (o_wbal o) with
        | [] => first_tot_diff i 80 (s_wbal s) (o_wtot o)
        | d => d
        end
      | d => d
      end
    | d => d
    end
  | d => d
  end.

Fixpoint check_trace (s : st) (i : Z) (tr : list (eop * eobs)) : list Z :=
  match tr with
  | [] => []
  | (op, o) :: t =>
      match step s op with
      | Ok (s', outs) =>
          if negb (o_ok o) then [i; 1; 1; 0]
          else if negb (list_eqb outs (o_outs o)) then [i; 2; hd (-1) outs; hd (-1) (o_outs o)]
          else match cmp_state i s' o with
               | [] => check_trace s' (i + 1) t
               | d => d
               end
      | Err _ =>
          if o_ok o then [i; 1; 0; 1]
          else match cmp_state i s o with
               | [] => check_trace s (i + 1) t
               | d => d
               end
      end
  end.
