(** Trace checker for the locking correspondence run (C09): replays the operations the harness
    executed on the real energy-factory / token-unstake / fees-collector and compares every
    observation; plus the checker for the exhaustive getPenaltyAmount sweep.
    Results are [] or [index; field; model value; implementation value] of the first difference. *)
From MX Require Import Base.Prelude Gen.Params Model.Penalty.

Record lobs := mkObs {
  o_ok : bool;
  o_outs : list Z;
  o_now : Z;
  o_bal : list (Z * Z * Z);       (* (holder, token, balance): base and every LOCKED nonce seen, users and escrow *)
  o_held : list (Z * Z);          (* (holder, total LOCKED held) *)
  o_tl : list (Z * Z);            (* (user, total_locked_tokens of getEnergyEntryForUser) *)
  o_q : list (Z * list Z);        (* (user, getUnlockedTokensForUser flattened [release; epoch; locked; unlocked; ...]) *)
  o_fees : Z;                     (* getAccumulatedFees(LOCKED) summed over weeks *)
  o_bsupply : Z;                  (* base asset over all accounts *)
  o_lsupply : Z;                  (* LOCKED over all accounts (the factory's one-unit nonce seeds excluded) *)
  o_opts : list Z                 (* getLockOptions flattened *)
}.

Fixpoint list_eqb (a b : list Z) : bool :=
  match a, b with
  | [], [] => true
  | x :: a', y :: b' => (x =? y) && list_eqb a' b'
  | _, _ => false
  end.

Fixpoint first_bal_diff (s : lst) (l : list (Z * Z * Z)) : option (Z * Z * Z) :=
  match l with
  | [] => None
  | (h, t, v) :: r => if bal (l_led s) h t =? v then first_bal_diff s r else Some (h * 100000 + t, bal (l_led s) h t, v)
  end.

Fixpoint first_held_diff (s : lst) (l : list (Z * Z)) : option (Z * Z * Z) :=
  match l with
  | [] => None
  | (h, v) :: r => if held_locked s h =? v then first_held_diff s r else Some (h, held_locked s h, v)
  end.

Fixpoint first_tl_diff (s : lst) (l : list (Z * Z)) : option (Z * Z * Z) :=
  match l with
  | [] => None
  | (u, v) :: r => if tl_of s u =? v then first_tl_diff s r else Some (u, tl_of s u, v)
  end.

Definition flat_queue (q : list uentry) : list Z :=
  flat_map (fun en => [en_release en; en_epoch en; en_lk en; en_un en]) q.

Fixpoint first_q_diff (s : lst) (l : list (Z * list Z)) : option (Z * Z * Z) :=
  match l with
  | [] => None
  | (u, v) :: r =>
      let m := flat_queue (view_queue s u) in
      if list_eqb m v then first_q_diff s r else Some (u, Z.of_nat (length m), Z.of_nat (length v))
  end.

Definition flat_opts (l : list opt) : list Z := flat_map (fun o => [fst o; snd o]) l.

Definition cmp_state (i : Z) (s : lst) (o : lobs) : list Z :=
  if negb (l_now s =? o_now o) then [i; 10; l_now s; o_now o]
  else match first_bal_diff s (o_bal o) with
  | Some (k, m, v) => [i; 1000000 + k; m; v]
  | None =>
  match first_held_diff s (o_held o) with
  | Some (k, m, v) => [i; 200 + k; m; v]
  | None =>
  match first_tl_diff s (o_tl o) with
  | Some (k, m, v) => [i; 400 + k; m; v]
  | None =>
  match first_q_diff s (o_q o) with
  | Some (k, m, v) => [i; 600 + k; m; v]
  | None =>
  if negb (l_fees s =? o_fees o) then [i; 11; l_fees s; o_fees o]
  else if negb (base_supply s =? o_bsupply o) then [i; 12; base_supply s; o_bsupply o]
  else if negb (locked_supply s =? o_lsupply o) then [i; 13; locked_supply s; o_lsupply o]
  else if negb (list_eqb (flat_opts (opts s)) (o_opts o)) then [i; 14; Z.of_nat (length (opts s)); Z.of_nat (length (o_opts o)) / 2]
  else []
  end end end end.

Fixpoint check_trace (s : lst) (i : Z) (tr : list (lop * lobs)) : list Z :=
  match tr with
  | [] => []
  | (op, o) :: t =>
      match step s op with
      | Ok (s', outs) =>
          if negb (o_ok o) then [i; 1; 1; 0]
          else if negb (list_eqb outs (o_outs o)) then [i; 2; hd (-1) outs; hd (-1) (o_outs o)]
          else match cmp_state i s' o with
               | [] => check_trace s' (i + 1) t
               | d => d
               end
      | Err _ =>
          if o_ok o then [i; 1; 0; 1]
          else match cmp_state i s o with
               | [] => check_trace s (i + 1) t
               | d => d
               end
      end
  end.

Definition init_world (os : list opt) (unbond burn now : Z) (funds : list (Z * Z)) : lst :=
  match init_cfg os unbond burn with
  | Ok c => init_state c now funds
  | Err _ => init_state (mkCfg [] 0 0 true) now funds
  end.

(** ------------------------------------------------------------------ getPenaltyAmount sweep
    rows: (remaining epochs [prev], amount, observed results for every [new] of [news]); an observed
    error is -1. *)
Definition view_val (os : list opt) (amt prev new : Z) : Z :=
  match penalty_amount os amt prev new with Ok v => v | Err _ => -1 end.

Fixpoint row_diff (os : list opt) (amt prev : Z) (news vals : list Z) : list Z :=
  match news, vals with
  | n :: ns, v :: vs => if view_val os amt prev n =? v then row_diff os amt prev ns vs
                        else [prev; n; view_val os amt prev n; v]
  | [], [] => []
  | _, _ => [prev; -2; 0; 0]
  end.

Fixpoint sweep_check (os : list opt) (news : list Z) (rows : list (Z * Z * list Z)) : list Z :=
  match rows with
  | [] => []
  | (prev, amt, vals) :: t =>
      match row_diff os amt prev news vals with
      | [] => sweep_check os news t
      | d => d
      end
  end.

Definition sweep (os : list opt) (news : list Z) (rows : list (Z * Z * list Z)) : list Z :=
  match add_lock_options [] os with
  | Ok l => sweep_check l news rows
  | Err _ => [-1; -1; 0; 0]
  end.
