(** Trace checker for the metastaking correspondence run: replays the operations the harness executed
    on the real composed system (pair + LP farm + staking farm + proxy), feeding the model the
    answers the real farms / pair gave, and compares every observation of the proxy: Ok/Err,
    returned payments, the proxy account's real balances of every token, the attributes of every
    dual-yield nonce, holders and supply, the net staking value registered in the staking farm.
    It also evaluates the interface laws L1-L6 on the real answers.
    Returns [] or [index; field; model value; implementation value] for the first difference.
    Field codes: 1 Ok/Err, 2 outputs, 40 registered staking value, 41 liquidity amount priced, 51..56 interface law violated by a
    real answer, 60 number of dual-yield nonces, 61..64 attribute fields,
    1000+k / 2000+k proxy balance of LP-farm / staking-farm nonce k, 3000+t fungible token t,
    4000 supply, 5000 holder. *)
From MX Require Import Base.Prelude Gen.Params Model.MetaStaking.

Record mobs := mkMObs {
  o_ok : bool;
  o_outs : list Z;
  o_lpf : list (Z * Z);          (* proxy's real LP-farm token balances by nonce *)
  o_sf : list (Z * Z);           (* proxy's real staking-farm token balances by nonce *)
  o_fung : list (Z * Z);         (* proxy's real balances of the other tokens by code *)
  o_attrs : list (Z * dattr);    (* real attributes of every dual-yield nonce created so far *)
  o_hold : list (Z * Z);         (* real dual-yield balances: nonce*1000 + user *)
  o_sup : list (Z * Z);          (* real outstanding amount per dual-yield nonce *)
  o_reg : Z;                     (* real change of the staking farm's farm-token supply *)
  o_liq : Z                      (* LP amount whose safe price the harness read from the pair's view before the call (-1: none) *)
}.

Fixpoint list_eqb (a b : list Z) : bool :=
  match a, b with
  | [], [] => true
  | x :: a', y :: b' => (x =? y) && list_eqb a' b'
  | _, _ => false
  end.

Fixpoint first_diff (f : Z -> Z) (l : list (Z * Z)) : option (Z * Z * Z) :=
  match l with
  | [] => None
  | (k, v) :: t => if f k =? v then first_diff f t else Some (k, f k, v)
  end.

Fixpoint attr_diff (s : st) (i : Z) (l : list (Z * dattr)) : list Z :=
  match l with
  | [] => []
  | (n, a) :: t =>
      match find_attr (s_attrs s) n with
      | None => [i; 60; -1; n]
      | Some m =>
          if negb (d_lpn m =? d_lpn a) then [i; 61; d_lpn m; d_lpn a]
          else if negb (d_lpa m =? d_lpa a) then [i; 62; d_lpa m; d_lpa a]
          else if negb (d_sfn m =? d_sfn a) then [i; 63; d_sfn m; d_sfn a]
          else if negb (d_sfa m =? d_sfa a) then [i; 64; d_sfa m; d_sfa a]
          else attr_diff s i t
      end
  end.

Definition cmp_state (i : Z) (s : st) (o : mobs) : list Z :=
  match first_diff (lpf_bal s) (o_lpf o) with
  | Some (k, m, v) => [i; 1000 + k; m; v]
  | None =>
  match first_diff (sf_bal s) (o_sf o) with
  | Some (k, m, v) => [i; 2000 + k; m; v]
  | None =>
  match first_diff (fbal s) (o_fung o) with
  | Some (k, m, v) => [i; 3000 + k; m; v]
  | None =>
  if negb (Z.of_nat (length (s_attrs s)) =? Z.of_nat (length (o_attrs o)))
  then [i; 60; Z.of_nat (length (s_attrs s)); Z.of_nat (length (o_attrs o))]
  else match attr_diff s i (o_attrs o) with
  | (_ :: _) as d => d
  | [] =>
  match first_diff (sup s) (o_sup o) with
  | Some (k, m, v) => [i; 4000; m; v]
  | None =>
  match first_diff (fun k => aget (s_hold s) k) (o_hold o) with
  | Some (k, m, v) => [i; 5000; m; v]
  | None => []
  end end end end end end.

(** the interface laws on the answers of a successful real transaction: [] or [code; expected; answered] *)
Definition law_check (s : st) (op : mop) : list Z :=
  match op with
  | Stake c _ (first :: adds) e =>
      match release_all s c adds, pick_staking (es_sp e) with
      | Ok (_, parts), Ok (v, _, _) =>
          if negb (law_L6 (es_sp e)) then [56; 1; 0]
          else if negb (law_L3 v parts e) then [53; v + sum_sfa parts; es_sfa e]
          else match adds with
               | [] => []
               | _ => if negb (law_L2 (p_amt first) parts e) then [52; p_amt first + sum_lpa parts; es_lpa e] else []
               end
      | _, _ => []
      end
  | Claim c _ [p] e =>
      match release s c (p_nonce p) (p_amt p), pick_staking (ec_sp e) with
      | Ok (_, part), Ok (v, _, _) =>
          if negb (law_L6 (ec_sp e)) then [56; 1; 0]
          else if negb (law_L1 part e) then [51; d_lpa part; ec_lpa e]
          else if negb (law_L4 v e) then [54; v; ec_sfa e]
          else []
      | _, _ => []
      end
  | Unstake c _ [p] _ _ e =>
      match pick_staking (eu_rm e) with
      | Ok (stk, _, _) =>
          if negb (law_L6 (eu_rm e)) then [56; 1; 0]
          else if negb (law_L5 stk e) then [55; stk; eu_uba e]
          else []
      | _ => []
      end
  | _ => []
  end.

(** A failed real transaction carries no answers.  The model is then run with "a callee rejects"
    forced: [Err EExt] means every guard of the proxy itself passed, which is consistent with the real
    failure only if the harness predicted a rejection from the pre-call views ([e_fail] of the
    operation); any other error class is a guard of the proxy. *)
Definition op_fail (op : mop) : bool :=
  match op with
  | Stake _ _ _ e => es_fail e
  | Claim _ _ _ e => ec_fail e
  | Unstake _ _ _ _ _ e => eu_fail e
  | Xfer _ _ _ _ => false
  end.

Definition force_fail (op : mop) : mop :=
  match op with
  | Stake c oc ps e => Stake c oc ps (mkES true (es_sp e) (es_sfn e) (es_sfa e) (es_bs e) (es_lpn e) (es_lpa e) (es_bl e))
  | Claim c oc ps e => Claim c oc ps (mkEC true (ec_sp e) (ec_lpn e) (ec_lpa e) (ec_rl e) (ec_sfn e) (ec_sfa e) (ec_rs e))
  | Unstake c oc ps m1 m2 e => Unstake c oc ps m1 m2 (mkEU true (eu_lp e) (eu_rl e) (eu_rm e) (eu_ubn e) (eu_uba e) (eu_rs e))
  | Xfer _ _ _ _ => op
  end.

(** the liquidity amount the model asks the pair to price (-1: no price query) *)
Fixpoint priced (cs : list call) : Z :=
  match cs with
  | [] => -1
  | CSafePrice liq :: _ => liq
  | _ :: t => priced t
  end.

Fixpoint check_trace (s : st) (i : Z) (tr : list (mop * mobs)) : list Z :=
  match tr with
  | [] => []
  | (op, o) :: t =>
      if o_ok o then
        match step s op with
        | Ok (s', outs, calls) =>
            if negb (env_nonneg op) then [i; 50; 1; 0]
            else if negb (list_eqb outs (o_outs o)) then [i; 2; hd (-1) outs; hd (-1) (o_outs o)]
            else match law_check s op with
                 | code :: rest => i :: code :: rest
                 | [] =>
                   if negb (registered calls =? o_reg o) then [i; 40; registered calls; o_reg o]
                   else if negb (priced calls =? o_liq o) then [i; 41; priced calls; o_liq o]
                   else match cmp_state i s' o with
                        | [] => check_trace s' (i + 1) t
                        | d => d
                        end
                 end
        | Err _ => [i; 1; 0; 1]
        end
      else
        match step s (force_fail op) with
        | Ok _ => [i; 1; 1; 0]
        | Err EExt => if op_fail op then
                        match cmp_state i s o with [] => check_trace s (i + 1) t | d => d end
                      else [i; 1; 1; 0]
        | Err _ => match cmp_state i s o with [] => check_trace s (i + 1) t | d => d end
        end
  end.
