(** Trace checker for the farm correspondence run. *)
From MX Require Import Base.Prelude Gen.Params Model.Farm.

Record fobs := mkFObs {
  fo_ok : bool;
  fo_outs : list Z;
  fo_supply : Z; fo_reserve : Z; fo_rps : Z; fo_last : Z;
  fo_bal_rew : Z; fo_bal_farming : Z; fo_pool : Z;
  fo_utot : list (Z * Z);                    (* observed userTotalFarmPosition of the tracked users *)
  fo_held : list (Z * Z);                    (* observed (nonce*1000+holder, amount) for every known nonce/holder *)
  fo_attrs : list (Z * (Z * Z * Z * Z * Z))  (* observed attributes of nonces minted by this op: rps, epoch, comp, amt, owner *)
}.

Fixpoint list_eqb (a b : list Z) : bool :=
  match a, b with
  | [], [] => true
  | x :: a', y :: b' => (x =? y) && list_eqb a' b'
  | _, _ => false
  end.

Fixpoint first_diff (get : Z -> Z) (l : list (Z * Z)) : option (Z * Z * Z) :=
  match l with
  | [] => None
  | (k, v) :: t => if get k =? v then first_diff get t else Some (k, get k, v)
  end.

Definition attrs_eqb (a : attrs) (t : Z * Z * Z * Z * Z) : bool :=
  let '(r, e, c, m, o) := t in
  (a_rps a =? r) && (a_epoch a =? e) && (a_comp a =? c) && (a_amt a =? m) && (a_owner a =? o).

Fixpoint first_attr_diff (f : farm) (l : list (Z * (Z * Z * Z * Z * Z))) : option Z :=
  match l with
  | [] => None
  | (n, t) :: tl =>
      match find_attrs (f_attrs f) n with
      | Some a => if attrs_eqb a t then first_attr_diff f tl else Some n
      | None => Some n
      end
  end.

Definition cmp_state (i : Z) (f : farm) (o : fobs) : list Z :=
  if negb (f_supply f =? fo_supply o) then [i; 10; f_supply f; fo_supply o]
  else if negb (f_reserve f =? fo_reserve o) then [i; 11; f_reserve f; fo_reserve o]
  else if negb (f_rps f =? fo_rps o) then [i; 12; f_rps f; fo_rps o]
  else if negb (f_last f =? fo_last o) then [i; 13; f_last f; fo_last o]
  else if negb ((if f_same f then f_bal_rew f + f_bal_farming f else f_bal_rew f) =? fo_bal_rew o)
       then [i; 14; (if f_same f then f_bal_rew f + f_bal_farming f else f_bal_rew f); fo_bal_rew o]
  else if negb ((if f_same f then f_bal_rew f + f_bal_farming f else f_bal_farming f) =? fo_bal_farming o)
       then [i; 15; f_bal_farming f; fo_bal_farming o]
  else if negb (f_pool f =? fo_pool o) then [i; 16; f_pool f; fo_pool o]
  else match first_diff (utot f) (fo_utot o) with
       | Some (k, m, v) => [i; 100 + k; m; v]
       | None =>
         match first_diff (fun k => aget (f_held f) k) (fo_held o) with
         | Some (k, m, v) => [i; 1000000 + k; m; v]
         | None =>
           match first_attr_diff f (fo_attrs o) with
           | Some n => [i; 500000 + n; 0; 0]
           | None => []
           end
         end
       end.

Fixpoint check_trace (f : farm) (i : Z) (tr : list (fop * fobs)) : list Z :=
  match tr with
  | [] => []
  | (op, o) :: t =>
      match fstep f op with
      | Ok (f', outs) =>
          if negb (fo_ok o) then [i; 1; 1; 0]
          else if negb (list_eqb outs (fo_outs o)) then [i; 2; hd (-1) (tl outs); hd (-1) (tl (fo_outs o))]
          else match cmp_state i f' o with
               | [] => check_trace f' (i + 1) t
               | d => d
               end
      | Err _ =>
          if fo_ok o then [i; 1; 0; 1]
          else match cmp_state i f o with
               | [] => check_trace f (i + 1) t
               | d => d
               end
      end
  end.
