(** Trace checkers for the closed metastaking correspondence run (tools/sys_meta_closed.py): the real pair, the real
    farm-with-locked-rewards, the real farm-staking, the real farm-staking-proxy and the real permissions-hub, with
    users, agents and a trader.

    [check_closed]  replays EVERY transaction of a history on Model/MetaClosed.v - the proxy's endpoints (ordinary and
      on behalf), dual-yield transfers, hub operations AND the users' own operations on the pair, the LP farm and the
      staking farm - the callee answers being COMPUTED by the callee models (inputs: the pair's safe-price answer, the
      boosted payouts, block / epoch), and compares after every transaction
        1 Ok/Err   2 results   everything Run/MetaStakingRun.v compares of the proxy (balances per farm-token nonce,
        fungible balances, attributes / holders / supply of every dual-yield nonce: 1000+, 2000+, 3000+, 60..64, 4000, 5000)
        100 LP farm token supply  101 LP farm reward per share  102 LP farm reward reserve  103 LP tokens the LP farm holds
        110 staking farm token supply  111 staking reward per share  112 staking reward reserve
        120 / 121 / 122 pair reserves and LP supply
        6000 LP-farm position holdings (nonce*1000+holder) of users, agents and the proxy IN THE LP-FARM MODEL
        7000 staking position holdings of the proxy IN THE STAKING MODEL   8000 unbond-token holdings
        4 the hub's isWhitelisted(user, agent)
        50 an answer a callee MODEL computed is negative / 51..56 violates an interface law (never on a lawful model).
    [check_behalf]  replays the proxy's transactions on Model/MetaBehalf.v (callee answers = inputs measured on the real
      run, as Run/MetaStakingRun.v), including the on-behalf endpoints and the hub, and compares the proxy's state, the
      results and (field 70 / 71) the recorded original owner of every LP-farm / staking-farm nonce the proxy holds with
      the model's owner tracking (interface law L8).
    Returns [] or [index; field; model value; implementation value].  No proofs in this file. *)
From MX Require Import Base.Prelude Gen.Params.
From MX Require Model.MetaStaking Model.MetaBehalf Model.MetaClosed Run.MetaStakingRun.
Import MX.Model.MetaClosed.

Module MB := MX.Model.MetaBehalf.
Module MR := MX.Run.MetaStakingRun.

(** short names for generated terms *)
Definition hw (c a : Z) := AC.HWhitelist c a.
Definition hrw (c a : Z) := AC.HRemoveWhitelist c a.
Definition hb (c a : Z) := AC.HBlacklist c a.
Definition hrb (c a : Z) := AC.HRemoveBlacklist c a.

Record cobs := mkCObs {
  co_m : MR.mobs;                   (* Ok/Err, results, the proxy's balances and dual-yield tokens *)
  co_lf : list Z;                   (* LP farm: [supply; reward per share; reserve; LP tokens held] *)
  co_sf : list Z;                   (* staking farm: [supply; reward per share; reserve] *)
  co_pair : list Z;                 (* pair: [reserve first; reserve second; LP supply] *)
  co_lheld : list (Z * Z);          (* LP-farm positions: nonce*1000+holder -> amount (users, agents, proxy) *)
  co_ubheld : list (Z * Z);         (* unbond tokens: nonce*1000+holder -> amount (users) *)
  co_wl : list (Z * Z * bool)       (* isWhitelisted(user, agent) *)
}.

Fixpoint first_wl_diff (h : AC.hub) (l : list (Z * Z * bool)) : option (Z * Z) :=
  match l with
  | [] => None
  | (u, a, v) :: t => if Bool.eqb (AC.is_whitelisted h u a) v then first_wl_diff h t else Some (u, a)
  end.

Fixpoint vec_diff (code : Z) (m r : list Z) : option (Z * Z * Z) :=
  match m, r with
  | x :: m', y :: r' => if x =? y then vec_diff (code + 1) m' r' else Some (code, x, y)
  | _, _ => None
  end.

Definition lf_vec (cs : cst) : list Z :=
  let f := FL.l_f (c_lf cs) in [F.f_supply f; F.f_rps f; F.f_reserve f; PR.lp_of (c_pair cs) LPFARM].
Definition sf_vec (cs : cst) : list Z :=
  let s := SP.p_s (c_sp cs) in [ST.s_supply s; ST.s_rps s; ST.s_reserve s].
Definition pair_vec (cs : cst) : list Z := let p := c_pair cs in [PR.p_r1 p; PR.p_r2 p; PR.p_S p].

Definition ccmp (i : Z) (cs : cst) (o : cobs) : list Z :=
  match MR.cmp_state i (c_ms cs) (co_m o) with
  | (_ :: _) as d => d
  | [] =>
  match vec_diff 100 (lf_vec cs) (co_lf o) with
  | Some (c, m, v) => [i; c; m; v]
  | None =>
  match vec_diff 110 (sf_vec cs) (co_sf o) with
  | Some (c, m, v) => [i; c; m; v]
  | None =>
  match vec_diff 120 (pair_vec cs) (co_pair o) with
  | Some (c, m, v) => [i; c; m; v]
  | None =>
  match MR.first_diff (fun k => aget (F.f_held (FL.l_f (c_lf cs))) k) (co_lheld o) with
  | Some (k, m, v) => [i; 6000; m; v]
  | None =>
  match MR.first_diff (fun k => SP.held (c_sp cs) k PX) (MR.o_sf (co_m o)) with
  | Some (k, m, v) => [i; 7000; m; v]
  | None =>
  match MR.first_diff (fun k => aget (SP.p_ubheld (c_sp cs)) k) (co_ubheld o) with
  | Some (k, m, v) => [i; 8000; m; v]
  | None =>
  match first_wl_diff (c_hub cs) (co_wl o) with
  | Some (u, a) => [i; 4; u; a]
  | None => []
  end end end end end end end end.

(** the interface laws on the answers the callee MODELS computed (they hold by Proofs/MetaClosedProofs.v: a
    violation reported here means the checker and the theorem disagree) *)
Definition claw_check (cs : cst) (op : cop) : list Z :=
  match op, canswers cs op with
  | CStake _ _ c pays _ _ _ _, AStake e => if negb (MS.env_nonneg (MS.Stake c false pays e)) then [50; 1; 0] else MR.law_check (c_ms cs) (MS.Stake c false pays e)
  | CClaim _ _ c pays _ _ _ _, AClaim e => if negb (MS.env_nonneg (MS.Claim c false pays e)) then [50; 1; 0] else MR.law_check (c_ms cs) (MS.Claim c false pays e)
  | CUnstake _ _ c pays m1 m2 _ _, AUnstake e => if negb (MS.env_nonneg (MS.Unstake c false pays m1 m2 e)) then [50; 1; 0] else MR.law_check (c_ms cs) (MS.Unstake c false pays m1 m2 e)
  | _, _ => []
  end.

Fixpoint check_trace (cs : cst) (i : Z) (tr : list (cop * cobs)) : list Z :=
  match tr with
  | [] => []
  | (op, o) :: t =>
      match cstep cs op with
      | Ok (cs', outs, calls) =>
          if negb (MR.o_ok (co_m o)) then [i; 1; 1; 0]
          else if negb (MR.list_eqb outs (MR.o_outs (co_m o))) then [i; 2; hd (-1) outs; hd (-1) (MR.o_outs (co_m o))]
          else match claw_check cs op with
               | code :: rest => i :: code :: rest
               | [] =>
                 match ccmp i cs' o with
                 | [] => check_trace cs' (i + 1) t
                 | d => d
                 end
               end
      | Err _ =>
          if MR.o_ok (co_m o) then [i; 1; 0; 1]
          else match ccmp i cs o with [] => check_trace cs (i + 1) t | d => d end
      end
  end.

(** the set-up transactions (owner configuration of the pair and the two farms) must all succeed in the model *)
Fixpoint cseq (cs : cst) (ops : list cop) : result cst :=
  match ops with
  | [] => Ok cs
  | op :: t => do r <- cstep cs op; cseq (fst (fst r)) t
  end.

Definition check_closed (cs : cst) (setup : list cop) (tr : list (cop * cobs)) : list Z :=
  match cseq cs setup with
  | Ok cs0 => check_trace cs0 0 tr
  | Err _ => [-1; 1; 0; 1]
  end.

(** ------------------------------------------------------------------ Model/MetaBehalf.v *)
Record bobs := mkBObs {
  bo_m : MR.mobs;
  bo_lpo : list (Z * Z);            (* real recorded owner of every LP-farm nonce the proxy holds *)
  bo_sfo : list (Z * Z);            (* real recorded owner of every staking-farm nonce the proxy holds *)
  bo_wl : list (Z * Z * bool)
}.

Definition bcmp (i : Z) (s : MB.bst) (o : bobs) : list Z :=
  match MR.cmp_state i (MB.mb_s s) (bo_m o) with
  | (_ :: _) as d => d
  | [] =>
  match MR.first_diff (MB.lpo s) (bo_lpo o) with
  | Some (k, m, v) => [i; 70; m; v]
  | None =>
  match MR.first_diff (MB.sfo s) (bo_sfo o) with
  | Some (k, m, v) => [i; 71; m; v]
  | None =>
  match first_wl_diff (MB.mb_hub s) (bo_wl o) with
  | Some (u, a) => [i; 4; u; a]
  | None => []
  end end end end.

(** the MetaStaking operation behind a MetaBehalf operation: which answers it carries *)
Definition mb_fail (op : MB.mbop) : bool :=
  match op with
  | MB.MBOrd op _ => MR.op_fail op
  | MB.MBStakeOB _ _ _ e _ => MS.es_fail e
  | MB.MBClaimOB _ _ e => MS.ec_fail e
  | MB.MBHub _ => false
  end.

Definition mb_force_fail (op : MB.mbop) : MB.mbop :=
  match op with
  | MB.MBOrd op w => MB.MBOrd (MR.force_fail op) w
  | MB.MBStakeOB a u ps e w =>
      MB.MBStakeOB a u ps (MS.mkES true (MS.es_sp e) (MS.es_sfn e) (MS.es_sfa e) (MS.es_bs e) (MS.es_lpn e) (MS.es_lpa e) (MS.es_bl e)) w
  | MB.MBClaimOB a ps e =>
      MB.MBClaimOB a ps (MS.mkEC true (MS.ec_sp e) (MS.ec_lpn e) (MS.ec_lpa e) (MS.ec_rl e) (MS.ec_sfn e) (MS.ec_sfa e) (MS.ec_rs e))
  | MB.MBHub _ => op
  end.

Fixpoint check_behalf (s : MB.bst) (i : Z) (tr : list (MB.mbop * bobs)) : list Z :=
  match tr with
  | [] => []
  | (op, o) :: t =>
      if MR.o_ok (bo_m o) then
        match MB.mbstep s op with
        | Ok (s', outs, calls) =>
            if negb (MB.mb_nonneg op) then [i; 50; 1; 0]
            else if negb (MR.list_eqb outs (MR.o_outs (bo_m o))) then [i; 2; hd (-1) outs; hd (-1) (MR.o_outs (bo_m o))]
            else if negb (MS.registered calls =? MR.o_reg (bo_m o)) then [i; 40; MS.registered calls; MR.o_reg (bo_m o)]
            else match bcmp i s' o with
                 | [] => check_behalf s' (i + 1) t
                 | d => d
                 end
        | Err _ => [i; 1; 0; 1]
        end
      else
        match MB.mbstep s (mb_force_fail op) with
        | Ok _ => [i; 1; 1; 0]
        | Err EExt => if mb_fail op then
                        match bcmp i s o with [] => check_behalf s (i + 1) t | d => d end
                      else [i; 1; 1; 0]
        | Err _ => match bcmp i s o with [] => check_behalf s (i + 1) t | d => d end
        end
  end.
