(** Trace checker for the price-discovery correspondence run: replays the operations the harness
    executed on the real contract and compares every observation.  Returns [] or
    [index; field; model value; implementation value] for the first difference
    (index -1 = the deployment itself). *)
From MX Require Import Base.Prelude Gen.Params Model.PriceDiscovery.

Record pobs := mkObs {
  o_ok : bool;
  o_outs : list Z;              (* amount of the returned payment *)
  o_phase : Z; o_pct : Z;       (* getCurrentPhase: discriminant, penalty percentage (0 when the variant has none) *)
  o_price : Z;                  (* getCurrentPrice, -1 when the view fails *)
  o_s1 : Z; o_s2 : Z;           (* getRedeemTokenTotalCirculatingSupply(1), (2) *)
  o_lb : Z; o_ab : Z;           (* getLaunchedTokenBalance, getAcceptedTokenBalance *)
  o_rl : Z; o_ra : Z;           (* ESDT balances of the contract account *)
  o_h1 : list (Z * Z);          (* redeem-token balances of the tracked accounts, nonce 1 *)
  o_h2 : list (Z * Z)           (* ... nonce 2 *)
}.

Fixpoint list_eqb (a b : list Z) : bool :=
  match a, b with
  | [], [] => true
  | x :: a', y :: b' => (x =? y) && list_eqb a' b'
  | _, _ => false
  end.

Fixpoint first_hold_diff (s : pd) (l : bool) (obs : list (Z * Z)) : option (Z * Z * Z) :=
  match obs with
  | [] => None
  | (a, v) :: t => if held s l a =? v then first_hold_diff s l t else Some (a, held s l a, v)
  end.

Definition m_phase (s : pd) : Z * Z :=
  match view_phase s with
  | Ok ph => (phase_ix ph, penalty_of ph)
  | Err _ => (-1, -1)
  end.

Definition m_price (s : pd) : Z :=
  match view_price s with Ok p => p | Err _ => -1 end.

Definition cmp_state (i : Z) (s : pd) (o : pobs) : list Z :=
  if negb (fst (m_phase s) =? o_phase o) then [i; 10; fst (m_phase s); o_phase o]
  else if negb (snd (m_phase s) =? o_pct o) then [i; 11; snd (m_phase s); o_pct o]
  else if negb (m_price s =? o_price o) then [i; 12; m_price s; o_price o]
  else if negb (view_supply s NL =? o_s1 o) then [i; 13; view_supply s NL; o_s1 o]
  else if negb (view_supply s NA =? o_s2 o) then [i; 14; view_supply s NA; o_s2 o]
  else if negb (p_lb s =? o_lb o) then [i; 15; p_lb s; o_lb o]
  else if negb (p_ab s =? o_ab o) then [i; 16; p_ab s; o_ab o]
  else if negb (p_rl s =? o_rl o) then [i; 17; p_rl s; o_rl o]
  else if negb (p_ra s =? o_ra o) then [i; 18; p_ra s; o_ra o]
  else match first_hold_diff s true (o_h1 o) with
       | Some (a, m, v) => [i; 100 + a; m; v]
       | None =>
         match first_hold_diff s false (o_h2 o) with
         | Some (a, m, v) => [i; 200 + a; m; v]
         | None => []
         end
       end.

Fixpoint check_trace (s : pd) (i : Z) (tr : list (pdop * pobs)) : list Z :=
  match tr with
  | [] => []
  | (op, o) :: t =>
      match step s op with
      | Ok (s', outs) =>
          if negb (o_ok o) then [i; 1; 1; 0]
          else if negb (list_eqb outs (o_outs o)) then [i; 2; hd (-1) outs; hd (-1) (o_outs o)]
          else match cmp_state i s' o with
               | [] => check_trace s' (i + 1) t
               | d => d
               end
      | Err _ =>
          if o_ok o then [i; 1; 0; 1]
          else match cmp_state i s o with
               | [] => check_trace s (i + 1) t
               | d => d
               end
      end
  end.

(** [deployed] = the real [init] succeeded; [o0] = the observation right after deployment. *)
Definition check_history (r : result pd) (deployed : bool) (o0 : pobs) (tr : list (pdop * pobs)) : list Z :=
  match r with
  | Ok s =>
      if deployed then
        match cmp_state (-1) s o0 with
        | [] => check_trace s 0 tr
        | d => d
        end
      else [-1; 1; 1; 0]
  | Err _ => if deployed then [-1; 1; 0; 1] else []
  end.
