(** Trace checker for the CLOSED farm-staking model (Model/StakingFull.v): replays the operations the harness executed
    on the real farm-staking (+ energy-factory-mock, whitelisted proxy caller) and compares, after every operation,
    everything Run/StakingPosRun.v compares (supply, reserve, reward per share, last reward block, capacity, accumulated
    rewards, aggregate of the boosted pools, staking-token balance, unbond total, user totals, who holds which position /
    unbond token, attributes of EVERY live position, unlock epochs, returned amounts) AND everything Run/BoostedRun.v /
    Run/BoostedHostsRun.v compare (week, last global update, undistributed, last collect week, percentage, the whole
    factor register, accumulated / remaining / farm supply / total energy / frozen total per week, every user's claim
    progress) — with the boosted payout [b], the user's position, the accrual of the settlement and the supply COMPUTED
    by the model instead of being read from the observation.

    Returns [] or [index; field; model value; implementation value].
    Field codes: 1 ok/err; 2 returned amounts of the staking endpoint; 3 boosted payout computed by the model vs the
    boosted payment observed on the staking side; 4 the same vs the decrease of the completed weeks' pools; 5 block nonce;
    StakingPosRun's codes as they are (10..20, 100+u, 500000+n, 600000+n, 1000000+k, 2000000+k);
    BoostedRun's codes + 50000000. *)
From MX Require Import Base.Prelude Gen.Params Model.Weekly Model.Boosted Model.BoostedHosts Model.Staking Model.StakingPos Model.StakingFull.
From MX Require Run.StakingPosRun Run.BoostedRun.

Record sxobs := mkSXObs {
  sb_p : StakingPosRun.pobs;    (* the staking-side observation *)
  sb_m : BoostedRun.bobs;       (* the module-side observation *)
  sb_b : Z;                     (* boosted payment as seen on the staking side (returned / derived from the pools' aggregate) *)
  sb_blk : Z                    (* block nonce *)
}.

Definition shift_b (d : list Z) : list Z :=
  match d with
  | i :: c :: rest => i :: (50000000 + c) :: rest
  | _ => d
  end.

Definition cmp_sx (i : Z) (s : sxstate) (o : sxobs) : list Z :=
  if negb (sx_blk s =? sb_blk o) then [i; 5; sx_blk s; sb_blk o]
  else match StakingPosRun.cmp_state i (sx_p s) (sb_p o) with
       | [] => shift_b (BoostedRun.cmp_state i (sx_b s) (sb_m o))
       | d => d
       end.

Fixpoint check_trace (s : sxstate) (i : Z) (tr : list (sxop * sxobs)) : list Z :=
  match tr with
  | [] => []
  | (op, o) :: t =>
      match sfull_step s op with
      | Ok (s', out) =>
          if negb (StakingPosRun.po_ok (sb_p o)) then [i; 1; 1; 0]
          else if negb (StakingPosRun.list_eqb (so_p out) (StakingPosRun.po_outs (sb_p o)))
               then [i; 2; hd (-1) (tl (so_p out)); hd (-1) (tl (StakingPosRun.po_outs (sb_p o)))]
          else if negb (so_b out =? sb_b o) then [i; 3; so_b out; sb_b o]
          else if negb (o_b (so_m out) =? BoostedRun.bo_b (sb_m o)) then [i; 4; o_b (so_m out); BoostedRun.bo_b (sb_m o)]
          else match cmp_sx i s' o with
               | [] => check_trace s' (i + 1) t
               | d => d
               end
      | Err _ =>
          if StakingPosRun.po_ok (sb_p o) then [i; 1; 0; 1]
          else match cmp_sx i s o with
               | [] => check_trace s (i + 1) t
               | d => d
               end
      end
  end.
