(** Trace checker for histories of permission / pause operations (tools/sys_perm.py).

    A history starts from the permissions the contract's [init] grants for the deployment arguments
    ([pinit_farm] / [pinit_pair] / [pinit_lkmex] of Model/PermExt.v) and is a list of operations of
    [px_op], each with what was observed on the REAL contract after it: Ok/Err, `getPermissions(a)`
    of every tracked address and the `getState` view (-1 for a contract without the pausable module).

    [check_history] returns [] or [index; field; model value; implementation value] for the first
    difference: index -1 = the state right after deployment; field 0 = Ok/Err (1 = Ok),
    1 = stored State, 100 + a = permission bits of address a. *)
From Coq Require Import ZArith List Bool.
From MX Require Import Base.Prelude Gen.Params Gen.Endpoints Model.Access Model.PermExt.
Import ListNotations.
Open Scope Z_scope.

Record pobs := mkPObs { po_ok : bool; po_perms : list (Z * Z); po_state : Z }.

Definition b2z (b : bool) : Z := if b then 1 else 0.

Fixpoint check_perms (i : Z) (s : pm_state) (l : list (Z * Z)) : list Z :=
  match l with
  | [] => []
  | (a, v) :: t => if pm_get s a =? v then check_perms i s t else [i; 100 + a; pm_get s a; v]
  end.

Definition check_obs (i : Z) (s : pm_state) (o : pobs) : list Z :=
  match check_perms i s (po_perms o) with
  | [] => if (po_state o =? -1) || (po_state o =? pm_state_val s) then []
          else [i; 1; pm_state_val s; po_state o]
  | e => e
  end.

Fixpoint check_trace (s : pm_state) (i : Z) (tr : list (px_op * pobs)) : list Z :=
  match tr with
  | [] => []
  | (op, o) :: t =>
      let okm := is_ok (px_step s op) in
      if negb (Bool.eqb okm (po_ok o)) then [i; 0; b2z okm; b2z (po_ok o)]
      else
        let s' := px_step_total s op in
        match check_obs i s' o with
        | [] => check_trace s' (i + 1) t
        | e => e
        end
  end.

Definition check_history (s0 : pm_state) (o0 : pobs) (tr : list (px_op * pobs)) : list Z :=
  match check_obs (-1) s0 o0 with
  | [] => check_trace s0 0 tr
  | e => e
  end.
