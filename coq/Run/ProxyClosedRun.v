(** Trace checker for the CLOSED proxy-DEX correspondence run (tools/sys_proxy_closed.py): the real pair, the two real
    farm-with-locked-rewards, the real energy factory and the real proxy_dex, with three users, an outside trader
    (pool trades, direct farm positions) and the users' own energy-factory operations.

    [check_closed] replays EVERY transaction of a history on Model/ProxyClosed.v.  The answers of the pair, the farms
    and the factory to the proxy are COMPUTED by the callee models (inputs: the boosted payouts of the farm calls,
    block / epoch) and compared with the real nested answers, in addition to everything Run/ProxyDexRun.v compares:
        1 Ok/Err   2..5 returned payments   10..61 the proxy's balances, wrapped attributes, holders, supplies (ProxyDexRun)
        70 / 71 change of the global base / locked supply (callee burns and mints COMPUTED)   80..82 energy entry written
        900 an interface law is violated by a COMPUTED answer (never on lawful callee models)
        100..102 pair.addLiquidity / removeLiquidity answer     103..104 farm answer (nonce, amount)
        105..106 mergeFarmTokens answer   107..108 locked reward (nonce = unlock epoch, amount)
        109..110 factory answer (unlock epoch, amount)   111..113 the energy entry the proxy read
        120..122 pair reserves (base, other) and LP supply   123 LP tokens the PAIR MODEL credits to the proxy vs the proxy's LP balance
        130 / 131 farm token supply, 132 / 133 reward per share of the two farm models
        140 farm tokens (nonce*2+farm) the FARM MODELS hold for the proxy vs the proxy's balance
        150..152 energy entry of every account in the FACTORY MODEL   160 locked-token balance of an account (unlock epoch)
        161 locked tokens the factory model holds for the proxy   170 carried locked tokens (ghost) vs the harness's tally
        180 results of an environment operation.
    Returns [] or [index; field; model value; implementation value].  No proofs in this file. *)
From MX Require Import Base.Prelude Gen.Params Model.ProxyDex Run.ProxyDexRun.
From MX Require Model.ProxyClosed.
Import MX.Model.ProxyClosed.

Record cobs := mkCObs {
  k_p : pobs;                            (* Ok/Err, payments, the proxy's balances and wrapped tokens, supply changes *)
  k_env : env;                           (* the REAL nested answers, as the harness reconstructs them *)
  k_pair : list Z;                       (* [reserve base; reserve other; LP supply] *)
  k_farms : list Z;                      (* [supply 0; supply 1; reward per share 0; reward per share 1] *)
  k_en : list (Z * (Z * Z * Z));         (* account -> energy entry (amount, last update, total locked) *)
  k_ul : list (Z * Z * Z);               (* (account, unlock epoch) -> locked tokens the account holds *)
  k_car : list (Z * Z * Z);              (* (account, unlock epoch) -> carried, tallied from the proxy's REAL balances *)
  k_outs : list Z                        (* results of an environment operation *)
}.

Fixpoint vec_diff (code : Z) (m r : list Z) : option (Z * Z * Z) :=
  match m, r with
  | x :: m', y :: r' => if x =? y then vec_diff (code + 1) m' r' else Some (code, x, y)
  | _, _ => None
  end.

Definition vec_cmp (i code : Z) (m r : list Z) : list Z :=
  match vec_diff code m r with Some (c, x, y) => [i; c; x; y] | None => [] end.

Definition pair_vec (cs : cst) : list Z :=
  let p := c_pair cs in
  if c_bf cs then [PR.p_r1 p; PR.p_r2 p; PR.p_S p] else [PR.p_r2 p; PR.p_r1 p; PR.p_S p].

Definition farm_vec (cs : cst) : list Z :=
  [F.f_supply (FL.l_f (c_f0 cs)); F.f_supply (FL.l_f (c_f1 cs)); F.f_rps (FL.l_f (c_f0 cs)); F.f_rps (FL.l_f (c_f1 cs))].

(** farm tokens the farm models hold for the proxy *)
Definition farm_held (cs : cst) (key : Z) : Z :=
  let n := key / 2 in
  if key mod 2 =? 0 then F.held (FL.l_f (c_f0 cs)) n PX else F.held (FL.l_f (c_f1 cs)) n PX.

Fixpoint cmp_fun (i code : Z) (g : Z -> Z) (l : list (Z * Z)) : list Z :=
  match l with
  | [] => []
  | (k, v) :: t => if g k =? v then cmp_fun i code g t else [i; code; g k; v]
  end.

Fixpoint cmp_fun2 (i code : Z) (g : Z -> Z -> Z) (l : list (Z * Z * Z)) : list Z :=
  match l with
  | [] => []
  | (a, b, v) :: t => if g a b =? v then cmp_fun2 i code g t else [i; code; g a b; v]
  end.

Fixpoint cmp_entries (i : Z) (s : EN.st) (l : list (Z * (Z * Z * Z))) : list Z :=
  match l with
  | [] => []
  | (u, (a, up, t)) :: r =>
      let en := EN.view_entry s u in
      if negb (EN.e_amt en =? a) then [i; 150; EN.e_amt en; a]
      else if negb (EN.e_upd en =? up) then [i; 151; EN.e_upd en; up]
      else if negb (EN.e_tot en =? t) then [i; 152; EN.e_tot en; t]
      else cmp_entries i s r
  end.

Definition cmp_cstate (i : Z) (cs : cst) (o : cobs) : list Z :=
  first_nonempty [
    cmp_state i (c_px cs) (k_p o);
    vec_cmp i 120 (pair_vec cs) (k_pair o);
    (if PR.lp_of (c_pair cs) PX =? o_lp (k_p o) then [] else [i; 123; PR.lp_of (c_pair cs) PX; o_lp (k_p o)]);
    vec_cmp i 130 (farm_vec cs) (k_farms o);
    cmp_fun i 140 (farm_held cs) (o_farm (k_p o));
    cmp_entries i (c_en cs) (k_en o);
    cmp_fun2 i 160 (EN.lget (EN.s_bal (c_en cs))) (k_ul o);
    cmp_fun i 161 (EN.lget (EN.s_bal (c_en cs)) H_PX) (o_locked (k_p o));
    cmp_fun2 i 170 (EN.lget (g_car (c_g cs))) (k_car o)].

Definition cmp2 (i code : Z) (a b : Z * Z) (with_nonce : bool) : list Z :=
  if negb (snd a =? snd b) then [i; code + 1; snd a; snd b]
  else if with_nonce && negb ((fst a =? fst b) || (snd a =? 0)) then [i; code; fst a; fst b]
  else [].

Definition cmp3 (i code : Z) (a b : Z * Z * Z) : list Z :=
  vec_cmp i code [fst (fst a); snd (fst a); snd a] [fst (fst b); snd (fst b); snd b].

Definition cmp_pe (i code : Z) (a b : penergy) : list Z :=
  vec_cmp i code [pe_amt a; pe_upd a; pe_tot a] [pe_amt b; pe_upd b; pe_tot b].

(** the COMPUTED answers against the REAL nested answers, field by field as the endpoint consumes them *)
Definition cmp_env (i : Z) (o : cop) (m r : env) : list Z :=
  match o with
  | CAddLiq _ _ _ _ extra _ _ =>
      first_nonempty [cmp3 i 100 (v_pair m) (v_pair r);
                      match extra with [] => [] | _ => cmp2 i 109 (v_fact m) (v_fact r) true end]
  | CRemoveLiq _ _ _ _ _ =>
      first_nonempty [cmp3 i 100 (v_pair m) (v_pair r); cmp_pe i 111 (v_energy m) (v_energy r)]
  | CEnterFarm _ _ _ extra _ =>
      first_nonempty [cmp2 i 103 (v_farm m) (v_farm r) (match extra with [] => true | _ => false end);
                      cmp2 i 107 (v_rew m) (v_rew r) true;
                      match extra with
                      | [] => []
                      | _ => first_nonempty [cmp2 i 105 (v_fmerge m) (v_fmerge r) true; cmp2 i 109 (v_fact m) (v_fact r) true]
                      end]
  | CExitFarm _ _ _ _ =>
      first_nonempty [cmp2 i 103 (v_farm m) (v_farm r) false; cmp2 i 107 (v_rew m) (v_rew r) true;
                      cmp_pe i 111 (v_energy m) (v_energy r)]
  | CClaim _ _ _ _ => first_nonempty [cmp2 i 103 (v_farm m) (v_farm r) true; cmp2 i 107 (v_rew m) (v_rew r) true]
  | CMergeWlp _ _ => cmp2 i 109 (v_fact m) (v_fact r) true
  | CMergeWfm _ _ _ _ =>
      first_nonempty [cmp2 i 105 (v_fmerge m) (v_fmerge r) true; cmp2 i 109 (v_fact m) (v_fact r) true;
                      cmp2 i 107 (v_rew m) (v_rew r) true]
  | CIncLp _ _ _ | CIncFm _ _ _ => cmp2 i 109 (v_fact m) (v_fact r) true
  | _ => []
  end.

Definition is_proxy_op (o : cop) : bool :=
  match o with CPair _ | CFarm _ _ | CEnergy _ | CTime _ _ => false | _ => true end.

Definition counts_supply (o : cop) : bool := match o with CEnergy _ => false | _ => true end.

Fixpoint list_eqb (a b : list Z) : bool :=
  match a, b with
  | [], [] => true
  | x :: a', y :: b' => (x =? y) && list_eqb a' b'
  | _, _ => false
  end.

Fixpoint check_trace (cs : cst) (i : Z) (tr : list (cop * cobs)) : list Z :=
  match tr with
  | [] => []
  | (op, o) :: t =>
      let p := k_p o in
      match cstep cs op with
      | Ok (cs', co) =>
          let x := co_x co in
          if negb (o_ok p) then [i; 1; 1; 0]
          else if negb (x_law x) then [i; 900; 0; 1]
          else
            match first_nonempty [
                    (if is_proxy_op op then cmp_outs i (x_outs x) (o_outs p)
                     else if list_eqb (co_o co) (k_outs o) then [] else [i; 180; hd (-1) (co_o co); hd (-1) (k_outs o)]);
                    (if negb (counts_supply op) || (co_db co =? o_dbase p) then [] else [i; 70; co_db co; o_dbase p]);
                    (if negb (counts_supply op) || (co_dl co =? o_dlocked p) then [] else [i; 71; co_dl co; o_dlocked p]);
                    cmp_energy i x p;
                    cmp_env i op (co_e co) (k_env o);
                    cmp_cstate i cs' o] with
            | [] => check_trace cs' (i + 1) t
            | d => d
            end
      | Err _ =>
          if o_ok p then [i; 1; 0; 1]
          else match cmp_cstate i cs o with
               | [] => check_trace cs (i + 1) t
               | d => d
               end
      end
  end.

(** the set-up transactions of the world (all of them succeed) *)
Fixpoint run_setup (cs : cst) (ops : list cop) : option cst :=
  match ops with
  | [] => Some cs
  | o :: t => match cstep cs o with Ok (cs', _) => run_setup cs' t | Err _ => None end
  end.

Definition check_closed (cs : cst) (setup : list cop) (tr : list (cop * cobs)) : list Z :=
  match run_setup cs setup with
  | Some cs' => check_trace cs' 0 tr
  | None => [-1; 0; 0; 0]
  end.
