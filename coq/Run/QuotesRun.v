(** Trace checkers for the C20 correspondence run.  Each replays the operations the harness executed on
    the real contracts exactly as the subsystem's own checker does (same [step], same state
    comparison, imported from Run/<X>Run.v) and, in addition, evaluates the model's VIEW
    (Model/Quotes.v) on the state right before an operation wherever the harness queried the real
    view there, and compares the two answers.
    Results are [] or [index; field; model value; implementation value]; fields 40.. = a view
    succeeded on one side only, 50.. = view values differ, 60 = staking: base(view) + boosted <> paid. *)
From MX Require Import Base.Prelude Gen.Params Model.Quotes.
From MX Require Model.Pair Run.PairRun Model.Farm Run.FarmRun Model.Staking Run.StakingRun.
From MX Require Model.Penalty Run.EnergyRun Model.PriceDiscovery Run.PriceDiscoveryRun.

Definition b2z (b : bool) : Z := if b then 1 else 0.

(** compare a model answer with an observed (ok, value) pair; a failed query is observed with value 0 *)
Definition cmp_view (i k : Z) (m : result Z) (ok : bool) (v : Z) : list Z :=
  match m with
  | Ok mv => if negb ok then [i; 40 + k; 1; 0] else if mv =? v then [] else [i; 50 + k; mv; v]
  | Err _ => if ok then [i; 40 + k; 0; 1] else []
  end.

(** ------------------------------------------------------------------ pair *)
Module RPair.
Import MX.Model.Pair MX.Run.PairRun QPair.

(** kind 0 getAmountOut(tok, amt) | 1 getAmountIn(tok, amt) | 2 getTokensForGivenPosition(amt) | 3 getEquivalent(tok, amt) *)
Inductive pq := PQ (kind tok amt : Z) (ok : bool) (v1 v2 : Z).

Definition check_q (i : Z) (p : pair) (q : pq) : list Z :=
  let '(PQ kind tok amt ok v1 v2) := q in
  if kind =? 0 then cmp_view i 0 (get_amount_out p tok amt) ok v1
  else if kind =? 1 then cmp_view i 1 (get_amount_in p tok amt) ok v1
  else if kind =? 2 then
    let '(m1, m2) := get_tokens_for_given_position p amt in
    match cmp_view i 2 (Ok m1) ok v1 with [] => cmp_view i 3 (Ok m2) ok v2 | d => d end
  else cmp_view i 4 (get_equivalent p tok amt) ok v1.

Fixpoint check_qs (i : Z) (p : pair) (qs : list pq) : list Z :=
  match qs with
  | [] => []
  | q :: t => match check_q i p q with [] => check_qs i p t | d => d end
  end.

Fixpoint trace (w : world) (i : Z) (tr : list (pop * pobs * list pq)) : list Z :=
  match tr with
  | [] => []
  | (op, o, qs) :: t =>
      match check_qs i (w_p w) qs with
      | (_ :: _) as d => d
      | [] =>
      match wstep w op with
      | Ok (w', outs, e) =>
          if negb (o_ok o) then [i; 1; 1; 0]
          else if negb (list_eqb outs (o_outs o)) then [i; 2; hd (-1) outs; hd (-1) (o_outs o)]
          else match first_tok_diff (e_burn e) (o_burn o) with
               | Some (tk, m, v) => [i; 20 + tk; m; v]
               | None =>
               match first_tok_diff (e_coll e) (o_coll o) with
               | Some (tk, m, v) => [i; 30 + tk; m; v]
               | None =>
                 match cmp_state i w' o with
                 | [] => trace w' (i + 1) t
                 | d => d
                 end
               end end
      | Err _ =>
          if o_ok o then [i; 1; 0; 1]
          else match cmp_state i w o with
               | [] => trace w (i + 1) t
               | d => d
               end
      end
      end
  end.

End RPair.

(** ------------------------------------------------------------------ dex/farm *)
Module RFarm.
Import MX.Model.Farm MX.Run.FarmRun QFarm.

(** calculateRewardsForGivenPosition(user, x, attributes with reward_per_share [rps]) at block [blk];
    [b] = the boosted part the claim that followed paid to [user] ([known] = that claim succeeded) *)
Inductive fq := FQ (blk x rps b : Z) (known ok : bool) (v : Z).

Definition check_q (i : Z) (f : farm) (q : fq) : list Z :=
  let '(FQ blk x rps b known ok v) := q in
  let m := calc_rewards f blk x (mkAttrs rps 0 0 x 0) b in
  if known then cmp_view i 0 m ok v
  else match m with Ok _ => if ok then [] else [i; 40; 1; 0] | Err _ => if ok then [i; 40; 0; 1] else [] end.

Fixpoint check_qs (i : Z) (f : farm) (qs : list fq) : list Z :=
  match qs with
  | [] => []
  | q :: t => match check_q i f q with [] => check_qs i f t | d => d end
  end.

Fixpoint trace (f : farm) (i : Z) (tr : list (fop * fobs * list fq)) : list Z :=
  match tr with
  | [] => []
  | (op, o, qs) :: t =>
      match check_qs i f qs with
      | (_ :: _) as d => d
      | [] =>
      match fstep f op with
      | Ok (f', outs) =>
          if negb (fo_ok o) then [i; 1; 1; 0]
          else if negb (list_eqb outs (fo_outs o)) then [i; 2; hd (-1) (tl outs); hd (-1) (tl (fo_outs o))]
          else match cmp_state i f' o with
               | [] => trace f' (i + 1) t
               | d => d
               end
      | Err _ =>
          if fo_ok o then [i; 1; 0; 1]
          else match cmp_state i f o with
               | [] => trace f (i + 1) t
               | d => d
               end
      end
      end
  end.

End RFarm.

(** ------------------------------------------------------------------ farm-staking *)
Module RStk.
Import MX.Model.Staking MX.Run.StakingRun QStk.

(** calculateRewardsForGivenPosition(x, attributes with reward_per_share [arps], user) at block [blk];
    [b] = the boosted part the claim that followed paid to the queried user ([known] = the queried user
    is the claimer and that claim succeeded; otherwise only success/failure is compared) *)
Inductive sq := SQ (blk x arps b : Z) (known ok : bool) (v : Z).

Definition check_q (i : Z) (s : stk) (q : sq) : list Z :=
  let '(SQ blk x arps b known ok v) := q in
  let m := calc_rewards s blk x arps 0 None (fun _ => b) in
  if known then cmp_view i 0 m ok v
  else match m with Ok _ => if ok then [] else [i; 40; 1; 0] | Err _ => if ok then [i; 40; 0; 1] else [] end.

Fixpoint check_qs (i : Z) (s : stk) (qs : list sq) : list Z :=
  match qs with
  | [] => []
  | q :: t => match check_q i s q with [] => check_qs i s t | d => d end
  end.

(** a successful claimRewards pays base(position) + boosted(caller): the model's base for the quoted
    position plus the observed boosted part must be the observed payment *)
Definition check_paid (i : Z) (s : stk) (op : sop) (ok : bool) (qs : list sq) : list Z :=
  match op, qs with
  | SClaim blk _ _ x r b, SQ qblk qx arps _ _ _ _ :: _ =>
      if ok && (qblk =? blk) && (qx =? x) then
        match calc_rewards s blk x arps 0 None (fun _ => b) with
        | Ok v => if v =? r then [] else [i; 60; v; r]
        | Err _ => [i; 60; -1; r]
        end
      else []
  | _, _ => []
  end.

Fixpoint trace (s : stk) (i : Z) (tr : list (sop * sobs * list sq)) : list Z :=
  match tr with
  | [] => []
  | (op, o, qs) :: t =>
      match check_qs i s qs ++ check_paid i s op (so_ok o) qs with
      | (_ :: _) as d => firstn 4 d
      | [] =>
      match sstep s op with
      | Ok (s', outs) =>
          if negb (so_ok o) then [i; 1; 1; 0]
          else if negb (list_eqb outs (so_outs o)) then [i; 2; hd (-1) (tl outs); hd (-1) (tl (so_outs o))]
          else match cmp_state i s' o with
               | [] => trace s' (i + 1) t
               | d => d
               end
      | Err _ =>
          if so_ok o then [i; 1; 0; 1]
          else match cmp_state i s o with
               | [] => trace s (i + 1) t
               | d => d
               end
      end
      end
  end.

End RStk.

(** ------------------------------------------------------------------ energy-factory *)
Module RPen.
Import MX.Model.Penalty MX.Run.EnergyRun QPen.

(** getPenaltyAmount(amt, prev, new) *)
Inductive lq := LQ (amt prev new : Z) (ok : bool) (v : Z).

Definition check_q (i : Z) (s : lst) (q : lq) : list Z :=
  let '(LQ amt prev new ok v) := q in cmp_view i 0 (get_penalty_amount s amt prev new) ok v.

Fixpoint check_qs (i : Z) (s : lst) (qs : list lq) : list Z :=
  match qs with
  | [] => []
  | q :: t => match check_q i s q with [] => check_qs i s t | d => d end
  end.

Fixpoint trace (s : lst) (i : Z) (tr : list (lop * lobs * list lq)) : list Z :=
  match tr with
  | [] => []
  | (op, o, qs) :: t =>
      match check_qs i s qs with
      | (_ :: _) as d => d
      | [] =>
      match step s op with
      | Ok (s', outs) =>
          if negb (o_ok o) then [i; 1; 1; 0]
          else if negb (list_eqb outs (o_outs o)) then [i; 2; hd (-1) outs; hd (-1) (o_outs o)]
          else match cmp_state i s' o with
               | [] => trace s' (i + 1) t
               | d => d
               end
      | Err _ =>
          if o_ok o then [i; 1; 0; 1]
          else match cmp_state i s o with
               | [] => trace s (i + 1) t
               | d => d
               end
      end
      end
  end.

End RPen.

(** ------------------------------------------------------------------ price-discovery *)
Module RPd.
Import MX.Model.PriceDiscovery MX.Run.PriceDiscoveryRun QPd.

(** getCurrentPhase (discriminant, penalty percentage) and getCurrentPrice right before the operation *)
Inductive dq := DQ (phase pct : Z) (okpr : bool) (price : Z).

Definition check_q (i : Z) (s : pd) (q : dq) : list Z :=
  let '(DQ ph pct okpr price) := q in
  match current_phase s with
  | Ok m =>
      if negb (phase_ix m =? ph) then [i; 50; phase_ix m; ph]
      else if negb (penalty_of m =? pct) then [i; 51; penalty_of m; pct]
      else cmp_view i 2 (current_price s) okpr price
  | Err _ => [i; 40; 0; 1]
  end.

Fixpoint check_qs (i : Z) (s : pd) (qs : list dq) : list Z :=
  match qs with
  | [] => []
  | q :: t => match check_q i s q with [] => check_qs i s t | d => d end
  end.

Fixpoint trace (s : pd) (i : Z) (tr : list (pdop * pobs * list dq)) : list Z :=
  match tr with
  | [] => []
  | (op, o, qs) :: t =>
      match check_qs i s qs with
      | (_ :: _) as d => d
      | [] =>
      match step s op with
      | Ok (s', outs) =>
          if negb (o_ok o) then [i; 1; 1; 0]
          else if negb (list_eqb outs (o_outs o)) then [i; 2; hd (-1) outs; hd (-1) (o_outs o)]
          else match cmp_state i s' o with
               | [] => trace s' (i + 1) t
               | d => d
               end
      | Err _ =>
          if o_ok o then [i; 1; 0; 1]
          else match cmp_state i s o with
               | [] => trace s (i + 1) t
               | d => d
               end
      end
      end
  end.

Definition history (r : result pd) (deployed : bool) (o0 : pobs) (tr : list (pdop * pobs * list dq)) : list Z :=
  match r with
  | Ok s =>
      if deployed then
        match cmp_state (-1) s o0 with
        | [] => trace s 0 tr
        | d => d
        end
      else [-1; 1; 1; 0]
  | Err _ => if deployed then [-1; 1; 0; 1] else []
  end.

End RPd.
