(** Trace checker for the boosted-yields correspondence runs on the two other hosts of the module: the real
    farm-with-locked-rewards (+ the real energy-factory) and the real farm-staking (+ energy-factory-mock).
    Replays the operations the harness executed on [Model.BoostedHosts] ([hstep]) and compares every observation
    with the comparison of Run/BoostedRun.v (same observation record [bobs], same field codes):
      1 ok/err, 2 total boosted payout of the operation, 4 current week, 5 lastGlobalUpdateWeek, 6 undistributed,
      7 last collect week, 8 percentage, 9 config presence, 10 config last_update_week, 20+5*slot+k factor k of slot,
      1000+w accumulated(w), 2000+w remaining(w), 3000+w farm supply(w), 4000+w total energy(w),
      5000+w total rewards(w), 6000+10*u+k claim progress of user u.
    One checker serves both hosts: the host decides which [hop] constructors occur in its traces
    (tools/sys_boosted_hosts.py [coq_op]). *)
From MX Require Import Base.Prelude Gen.Params Model.Weekly Model.Boosted Model.BoostedHosts Run.BoostedRun.

Fixpoint check_trace (s : bst) (i : Z) (tr : list (hop * bobs)) : list Z :=
  match tr with
  | [] => []
  | (op, o) :: t =>
      match hstep s op with
      | Ok (s', out) =>
          if negb (bo_ok o) then [i; 1; 1; 0]
          else if negb (o_b out =? bo_b o) then [i; 2; o_b out; bo_b o]
          else match cmp_state i s' o with
               | [] => check_trace s' (i + 1) t
               | d => d
               end
      | Err _ =>
          if bo_ok o then [i; 1; 0; 1]
          else match cmp_state i s o with
               | [] => check_trace s (i + 1) t
               | d => d
               end
      end
  end.

(** the two hosts' entry points (same function; the names document which world produced the trace) *)
Definition check_trace_locked := check_trace.
Definition check_trace_staking := check_trace.
