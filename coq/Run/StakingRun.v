(** Trace checker for the farm-staking correspondence run. *)
From MX Require Import Base.Prelude Gen.Params Model.Staking.

Record sobs := mkSObs {
  so_ok : bool;
  so_outs : list Z;
  so_supply : Z; so_reserve : Z; so_rps : Z; so_last : Z;
  so_cap : Z; so_acc : Z; so_pool : Z; so_bal : Z;
  so_ubtot : Z;                     (* observed total of unbond tokens held by accounts *)
  so_ub : list (Z * Z)              (* observed (unbond nonce, unlock epoch) of unbond tokens minted by this op *)
}.

Fixpoint list_eqb (a b : list Z) : bool :=
  match a, b with
  | [], [] => true
  | x :: a', y :: b' => (x =? y) && list_eqb a' b'
  | _, _ => false
  end.

Fixpoint first_ub_diff (s : stk) (l : list (Z * Z)) : option Z :=
  match l with
  | [] => None
  | (n, e) :: t => match find_z (s_ub s) n with
                   | Some e' => if e' =? e then first_ub_diff s t else Some n
                   | None => Some n
                   end
  end.

Definition cmp_state (i : Z) (s : stk) (o : sobs) : list Z :=
  if negb (s_supply s =? so_supply o) then [i; 10; s_supply s; so_supply o]
  else if negb (s_reserve s =? so_reserve o) then [i; 11; s_reserve s; so_reserve o]
  else if negb (s_rps s =? so_rps o) then [i; 12; s_rps s; so_rps o]
  else if negb (s_last s =? so_last o) then [i; 13; s_last s; so_last o]
  else if negb (s_cap s =? so_cap o) then [i; 14; s_cap s; so_cap o]
  else if negb (s_acc s =? so_acc o) then [i; 15; s_acc s; so_acc o]
  else if negb (s_pool s =? so_pool o) then [i; 16; s_pool s; so_pool o]
  else if negb (s_bal s =? so_bal o) then [i; 17; s_bal s; so_bal o]
  else if negb (s_ubtot s =? so_ubtot o) then [i; 18; s_ubtot s; so_ubtot o]
  else match first_ub_diff s (so_ub o) with
       | Some n => [i; 1000 + n; 0; 0]
       | None => []
       end.

Fixpoint check_trace (s : stk) (i : Z) (tr : list (sop * sobs)) : list Z :=
  match tr with
  | [] => []
  | (op, o) :: t =>
      match sstep s op with
      | Ok (s', outs) =>
          if negb (so_ok o) then [i; 1; 1; 0]
          else if negb (list_eqb outs (so_outs o)) then [i; 2; hd (-1) (tl outs); hd (-1) (tl (so_outs o))]
          else match cmp_state i s' o with
               | [] => check_trace s' (i + 1) t
               | d => d
               end
      | Err _ =>
          if so_ok o then [i; 1; 0; 1]
          else match cmp_state i s o with
               | [] => check_trace s (i + 1) t
               | d => d
               end
      end
  end.
