(** Trace checker for the position-level farm-staking correspondence run. *)
From MX Require Import Base.Prelude Gen.Params Model.Staking Model.StakingPos.

Record pobs := mkPObs {
  po_ok : bool;
  po_outs : list Z;                          (* new nonce / amounts / reward returned by the endpoint *)
  po_supply : Z; po_reserve : Z; po_rps : Z; po_last : Z;
  po_cap : Z; po_acc : Z; po_pool : Z; po_bal : Z;
  po_heldtot : Z;                            (* observed total of position tokens held by all accounts *)
  po_ubtot : Z;                              (* observed total of unbond tokens held by all accounts *)
  po_utot : list (Z * Z);                    (* getUserTotalFarmPosition of every tracked account *)
  po_held : list (Z * Z);                    (* (nonce*1000+holder, amount) of position tokens, every pair that is or just was non-zero *)
  po_ubheld : list (Z * Z);                  (* same for unbond tokens *)
  po_attrs : list (Z * (Z * Z * Z * Z));     (* attributes (rps, compounded, amount, owner) of EVERY live position nonce *)
  po_ub : list (Z * Z)                       (* (nonce, unlock epoch) of EVERY live unbond token *)
}.

Fixpoint list_eqb (a b : list Z) : bool :=
  match a, b with
  | [], [] => true
  | x :: a', y :: b' => (x =? y) && list_eqb a' b'
  | _, _ => false
  end.

Fixpoint first_diff (get : Z -> Z) (l : list (Z * Z)) : option (Z * Z * Z) :=
  match l with
  | [] => None
  | (k, v) :: t => if get k =? v then first_diff get t else Some (k, get k, v)
  end.

Definition sattrs_eqb (a : sattrs) (t : Z * Z * Z * Z) : bool :=
  let '(r, c, m, o) := t in
  (sa_rps a =? r) && (sa_comp a =? c) && (sa_amt a =? m) && (sa_owner a =? o).

Fixpoint first_attr_diff (sp : spos) (l : list (Z * (Z * Z * Z * Z))) : option Z :=
  match l with
  | [] => None
  | (n, t) :: tl =>
      match find_sattrs (p_attrs sp) n with
      | Some a => if sattrs_eqb a t then first_attr_diff sp tl else Some n
      | None => Some n
      end
  end.

Fixpoint first_ub_diff (s : stk) (l : list (Z * Z)) : option Z :=
  match l with
  | [] => None
  | (n, e) :: t => match find_z (s_ub s) n with
                   | Some e' => if e' =? e then first_ub_diff s t else Some n
                   | None => Some n
                   end
  end.

Definition cmp_state (i : Z) (sp : spos) (o : pobs) : list Z :=
  let s := p_s sp in
  if negb (s_supply s =? po_supply o) then [i; 10; s_supply s; po_supply o]
  else if negb (s_reserve s =? po_reserve o) then [i; 11; s_reserve s; po_reserve o]
  else if negb (s_rps s =? po_rps o) then [i; 12; s_rps s; po_rps o]
  else if negb (s_last s =? po_last o) then [i; 13; s_last s; po_last o]
  else if negb (s_cap s =? po_cap o) then [i; 14; s_cap s; po_cap o]
  else if negb (s_acc s =? po_acc o) then [i; 15; s_acc s; po_acc o]
  else if negb (s_pool s =? po_pool o) then [i; 16; s_pool s; po_pool o]
  else if negb (s_bal s =? po_bal o) then [i; 17; s_bal s; po_bal o]
  else if negb (s_ubtot s =? po_ubtot o) then [i; 18; s_ubtot s; po_ubtot o]
  else if negb (asum (p_held sp) =? po_heldtot o) then [i; 19; asum (p_held sp); po_heldtot o]
  else if negb (asum (p_ubheld sp) =? po_ubtot o) then [i; 20; asum (p_ubheld sp); po_ubtot o]
  else match first_diff (utot sp) (po_utot o) with
       | Some (k, m, v) => [i; 100 + k; m; v]
       | None =>
         match first_diff (fun k => aget (p_held sp) k) (po_held o) with
         | Some (k, m, v) => [i; 1000000 + k; m; v]
         | None =>
           match first_diff (fun k => aget (p_ubheld sp) k) (po_ubheld o) with
           | Some (k, m, v) => [i; 2000000 + k; m; v]
           | None =>
             match first_attr_diff sp (po_attrs o) with
             | Some n => [i; 500000 + n; 0; 0]
             | None =>
               match first_ub_diff s (po_ub o) with
               | Some n => [i; 600000 + n; 0; 0]
               | None => []
               end
             end
           end
         end
       end.

Fixpoint check_trace (sp : spos) (i : Z) (tr : list (pop * pobs)) : list Z :=
  match tr with
  | [] => []
  | (op, o) :: t =>
      match pstep sp op with
      | Ok (sp', outs) =>
          if negb (po_ok o) then [i; 1; 1; 0]
          else if negb (list_eqb outs (po_outs o)) then [i; 2; hd (-1) (tl outs); hd (-1) (tl (po_outs o))]
          else match cmp_state i sp' o with
               | [] => check_trace sp' (i + 1) t
               | d => d
               end
      | Err _ =>
          if po_ok o then [i; 1; 0; 1]
          else match cmp_state i sp o with
               | [] => check_trace sp (i + 1) t
               | d => d
               end
      end
  end.
