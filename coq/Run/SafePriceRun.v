(** Trace checker for the safe-price correspondence run (C13): replays, on the composed model
    (Model.Pair world + observation ring with the real capacity MAX_OBSERVATIONS), the pool
    operations and safe-price queries the harness executed on the real pair contract, and compares
    every observation.  Returns [] or [index; field; model value; implementation value]. *)
From MX Require Import Base.Prelude Gen.Params Model.Pair Run.PairRun Model.SafePrice.

Definition CAP : Z := MAX_OBSERVATIONS.

(** injected history: [Seg count gap r1 r2 S] = [count] update calls, each [gap] rounds after the
    previous call, all seeing reserves (r1, r2, S) *)
Inductive seg := Seg (count gap r1 r2 s : Z).

Fixpoint expand_seg (n : nat) (round gap r1 r2 s : Z) (k : Z -> list upd) : list upd :=
  match n with
  | O => k round
  | S m => mkU (round + gap) r1 r2 s :: expand_seg m (round + gap) gap r1 r2 s k
  end.

Fixpoint expand (segs : list seg) (round : Z) : list upd :=
  match segs with
  | [] => []
  | Seg c g r1 r2 s :: t => expand_seg (Z.to_nat c) round g r1 r2 s (expand t)
  end.

Inductive item :=
| IOp (round : Z) (op : pop) (ok : bool) (r1 r2 s : Z) (cur len : Z) (last : list Z)
| IQ (now : Z) (q : query) (ok : bool) (res : list Z)
| IInject (segs : list seg) (legacy : Z).     (* first [legacy] retained observations lose lp_supply_accumulated *)

Fixpoint first_diff (i pos : Z) (a b : list Z) : list Z :=
  match a, b with
  | [], [] => []
  | x :: a', y :: b' => if x =? y then first_diff i (pos + 1) a' b' else [i; pos; x; y]
  | x :: _, [] => [i; pos; x; -1]
  | [], y :: _ => [i; pos; -1; y]
  end.

Definition last_fields (rg : ring) : list Z :=
  match vget (rg_obs rg) (rg_cur rg) with Ok o => obs_fields o | Err _ => [] end.

Definition cmp_state (i : Z) (w : spw) (r1 r2 s cur len : Z) (last : list Z) : list Z :=
  let p := w_p (sw_w w) in
  if negb (p_r1 p =? r1) then [i; 10; p_r1 p; r1]
  else if negb (p_r2 p =? r2) then [i; 11; p_r2 p; r2]
  else if negb (p_S p =? s) then [i; 12; p_S p; s]
  else if negb (rg_cur (sw_ring w) =? cur) then [i; 20; rg_cur (sw_ring w); cur]
  else if negb (vlen (rg_obs (sw_ring w)) =? len) then [i; 21; vlen (rg_obs (sw_ring w)); len]
  else first_diff i 30 (last_fields (sw_ring w)) last.

Fixpoint strip_lp (n : nat) (l : list obs) : list obs :=
  match n, l with
  | S m, o :: t => mkO (ob_a1 o) (ob_a2 o) (ob_w o) (ob_round o) 0 :: strip_lp m t
  | _, _ => l
  end.

Definition inject (segs : list seg) (legacy : Z) : ring :=
  let l := observations (expand segs 0) in
  let k := vlen l in
  let old := Z.max 0 (k - CAP) in        (* observations already overwritten *)
  layout CAP (firstn (Z.to_nat old) l ++ strip_lp (Z.to_nat legacy) (skipn (Z.to_nat old) l)).

Fixpoint check_trace (w : spw) (i : Z) (tr : list item) : list Z :=
  match tr with
  | [] => []
  | IOp round op ok r1 r2 s cur len last :: t =>
      match sp_step CAP w round op with
      | Ok (w', _) =>
          if negb ok then [i; 1; 1; 0]
          else match cmp_state i w' r1 r2 s cur len last with
               | [] => check_trace w' (i + 1) t
               | d => d
               end
      | Err _ =>
          if ok then [i; 1; 0; 1]
          else match cmp_state i w r1 r2 s cur len last with
               | [] => check_trace w (i + 1) t
               | d => d
               end
      end
  | IQ now q ok res :: t =>
      match run_query CAP (sw_ring w) (env_of w now) q with
      | Ok l =>
          if negb ok then [i; 1; 1; 0]
          else match first_diff i 40 l res with
               | [] => check_trace w (i + 1) t
               | d => d
               end
      | Err _ => if ok then [i; 1; 0; 1] else check_trace w (i + 1) t
      end
  | IInject segs legacy :: t =>
      check_trace (mkSpw (sw_w w) (inject segs legacy)) (i + 1) t
  end.

Definition sp_init (fee sfee : Z) (adder : option Z) (l1 l2 : Z) : spw :=
  mkSpw (init_world fee sfee adder l1 l2) ring0.
