(** Trace checker for the router correspondence run: replays the operations the harness executed on
    the real router + pair contracts and compares every observation.  Returns [] or
    [index; field; model value; implementation value] for the first difference.
    Field codes: 1 = Ok/Err, 2 = returned values, 3 = router state flag, 4 = pair creation flag,
    5 = getAllPairsManagedAddresses, 4000 + 10a + b = getPair(a, b), 6000 + 10*account + token = balance,
    1000*address + k = k-th observable of the pair contract at that address (99 = contract missing). *)
From MX Require Import Base.Prelude Gen.Params Model.Pair Model.Router.

Record robs := mkRObs {
  o_ok : bool;
  o_outs : list Z;
  o_active : bool; o_creation : bool;      (* views getState, getPairCreationEnabled *)
  o_getpair : list (Z * Z * Z);            (* (a, b, view getPair(a, b) as address id; 0 = zero address) *)
  o_all : list Z;                          (* view getAllPairsManagedAddresses as address ids *)
  o_led : list (Z * Z * Z);                (* (account, token, real ESDT balance): router, users, owner *)
  o_pairs : list (Z * list Z)              (* per pair contract: address id, observables (see [pair_vec]) *)
}.

Definition b2z (b : bool) : Z := if b then 1 else 0.

Fixpoint list_eqb (a b : list Z) : bool :=
  match a, b with
  | [], [] => true
  | x :: a', y :: b' => (x =? y) && list_eqb a' b'
  | _, _ => false
  end.

Fixpoint first_diff (k : Z) (a b : list Z) : option (Z * Z * Z) :=
  match a, b with
  | [], [] => None
  | x :: a', y :: b' => if x =? y then first_diff (k + 1) a' b' else Some (k, x, y)
  | x :: _, [] => Some (k, x, -1)
  | [], y :: _ => Some (k, -1, y)
  end.

(** state; reserves; LP supply; real balances; fee percents; LP token set; fee enabled; reported tokens *)
Definition pair_vec (pe : pent) : list Z :=
  let p := pe_p pe in
  [p_state p; p_r1 p; p_r2 p; p_S p; p_bal1 p; p_bal2 p; p_fee p; p_sfee p;
   b2z (pe_lp pe); b2z (fee_enabled p); pe_t1 pe; pe_t2 pe].

Fixpoint cmp_pairs (i : Z) (w : world) (l : list (Z * list Z)) : list Z :=
  match l with
  | [] => []
  | (a, v) :: t =>
      match pair_at (w_pairs w) a with
      | None => [i; 1000 * a + 99; 0; 1]
      | Some pe =>
          match first_diff 0 (pair_vec pe) v with
          | Some (k, m, x) => [i; 1000 * a + k; m; x]
          | None => cmp_pairs i w t
          end
      end
  end.

Fixpoint cmp_getpair (i : Z) (w : world) (l : list (Z * Z * Z)) : list Z :=
  match l with
  | [] => []
  | (a, b, v) :: t =>
      let m := match get_pair (r_map (w_r w)) a b with Some p => p | None => 0 end in
      if m =? v then cmp_getpair i w t else [i; 4000 + 10 * a + b; m; v]
  end.

Fixpoint cmp_led (i : Z) (w : world) (l : list (Z * Z * Z)) : list Z :=
  match l with
  | [] => []
  | (a, t, v) :: tl =>
      if lget (w_led w) a t =? v then cmp_led i w tl else [i; 6000 + 10 * a + t; lget (w_led w) a t; v]
  end.

Definition cmp_state (i : Z) (w : world) (o : robs) : list Z :=
  let r := w_r w in
  if negb (Bool.eqb (r_active r) (o_active o)) then [i; 3; b2z (r_active r); b2z (o_active o)]
  else if negb (Bool.eqb (r_creation r) (o_creation o)) then [i; 4; b2z (r_creation r); b2z (o_creation o)]
  else match first_diff 0 (all_pairs (r_map r)) (o_all o) with
       | Some (k, m, x) => [i; 5; m; x]
       | None =>
       match cmp_getpair i w (o_getpair o) with
       | [] =>
         match cmp_led i w (o_led o) with
         | [] => cmp_pairs i w (o_pairs o)
         | d => d
         end
       | d => d
       end end.

Fixpoint check_trace (w : world) (i : Z) (tr : list (rop * robs)) : list Z :=
  match tr with
  | [] => []
  | (op, o) :: t =>
      match rstep w op with
      | Ok (w', outs) =>
          if negb (o_ok o) then [i; 1; 1; 0]
          else match first_diff 0 outs (o_outs o) with
               | Some (k, m, x) => [i; 2; m; x]
               | None =>
                 match cmp_state i w' o with
                 | [] => check_trace w' (i + 1) t
                 | d => d
                 end
               end
      | Err _ =>
          if o_ok o then [i; 1; 0; 1]
          else match cmp_state i w o with
               | [] => check_trace w (i + 1) t
               | d => d
               end
      end
  end.
