(** Trace checker for the fees-collector correspondence run: replays the operations the harness
    executed on the real contracts (fees-collector + energy-factory-mock) and compares every
    observation.  Returns [] or [index; field; model value; implementation value] for the first
    difference.

    Field codes: 1 ok/err, 2 returned payments (3 = their number), 4 current week, 5 last global update
    week, 6 first bucket id, 1000+w total energy of week w, 2000+w total locked tokens of week w,
    3000+w total rewards of week w (value = position-wise first differing amount / length),
    40000+100*w+t accumulated fees (week w, token t), 5000+10*u+k claim progress of user u
    (k = 0 presence, 1 amount, 2 epoch, 3 tokens, 4 week), 6000+t collector balance of token t,
    7000/8000 bucket tokens/surplus (+ bucket id), 9000 number of non-empty buckets. *)
From MX Require Import Base.Prelude Gen.Params Model.Weekly Model.FeesCollector.

Record fobs := mkObs {
  o_ok : bool;
  o_outs : list (Z * Z);                 (* payments returned by the endpoint: (token code, amount) *)
  o_week : Z;                            (* getCurrentWeek *)
  o_last : Z;                            (* getLastGlobalUpdateWeek *)
  o_first : Z;                           (* firstBucketId *)
  o_energy : list (Z * Z);               (* (week, getTotalEnergyForWeek) over the observed window *)
  o_tokens : list (Z * Z);               (* (week, getTotalLockedTokensForWeek) *)
  o_rewards : list (Z * list (Z * Z));   (* (week, getTotalRewardsForWeek) *)
  o_acc : list (Z * list (Z * Z));       (* (week, [(token, getAccumulatedFees)]) *)
  o_prog : list (Z * list Z);            (* (user, [amount; epoch; tokens; week]) or (user, []) *)
  o_bal : list (Z * Z);                  (* collector balances *)
  o_btok : list (Z * Z);                 (* every stored bucket: token_amount *)
  o_bsur : list (Z * Z)                  (* every stored bucket: surplus_energy_amount *)
}.

Fixpoint pairs_eqb (a b : list (Z * Z)) : bool :=
  match a, b with
  | [], [] => true
  | (x1, y1) :: a', (x2, y2) :: b' => (x1 =? x2) && (y1 =? y2) && pairs_eqb a' b'
  | _, _ => false
  end.

(** first key of [l] on which [get] disagrees with the listed value *)
Fixpoint first_diff (get : Z -> Z) (l : list (Z * Z)) : option (Z * Z * Z) :=
  match l with
  | [] => None
  | (k, v) :: t => if get k =? v then first_diff get t else Some (k, get k, v)
  end.

Definition sum_amounts (l : list (Z * Z)) : Z := fold_right (fun p acc => snd p + acc) 0 l.

Fixpoint first_rewards_diff (f : fc) (l : list (Z * list (Z * Z))) : option (Z * Z * Z) :=
  match l with
  | [] => None
  | (w, v) :: t =>
      let m := view_total_rewards f w in
      if pairs_eqb m v then first_rewards_diff f t
      else Some (w, sum_amounts m + Z.of_nat (length m), sum_amounts v + Z.of_nat (length v))
  end.

Fixpoint first_acc_diff (f : fc) (l : list (Z * list (Z * Z))) : option (Z * Z * Z) :=
  match l with
  | [] => None
  | (w, v) :: t =>
      match first_diff (view_accumulated f w) v with
      | Some (tk, m, i) => Some (100 * w + tk, m, i)
      | None => first_acc_diff f t
      end
  end.

Definition prog_fields (f : fc) (u : Z) : list Z :=
  match view_progress f u with
  | Some p => [en_amt (pr_en p); en_epoch (pr_en p); en_tok (pr_en p); pr_week p]
  | None => []
  end.

Fixpoint first_list_diff (k : Z) (a b : list Z) : option (Z * Z * Z) :=
  match a, b with
  | [], [] => None
  | x :: a', y :: b' => if x =? y then first_list_diff (k + 1) a' b' else Some (k, x, y)
  | [], y :: _ => Some (0, 0, 1)
  | x :: _, [] => Some (0, 1, 0)
  end.

Fixpoint first_prog_diff (f : fc) (l : list (Z * list Z)) : option (Z * Z * Z) :=
  match l with
  | [] => None
  | (u, v) :: t =>
      match first_list_diff 1 (prog_fields f u) v with
      | Some (k, m, i) => Some (10 * u + k, m, i)
      | None => first_prog_diff f t
      end
  end.

Definition nonzero_count (l : list (Z * Z)) : Z :=
  Z.of_nat (length (filter (fun kv => negb (snd kv =? 0)) l)).

Definition cmp_state (i : Z) (f : fc) (o : fobs) : list Z :=
  let w := fc_w f in
  match current_week f with
  | Err _ => [i; 4; -1; o_week o]
  | Ok cw =>
  if negb (cw =? o_week o) then [i; 4; cw; o_week o]
  else if negb (w_last w =? o_last o) then [i; 5; w_last w; o_last o]
  else if negb (w_first w =? o_first o) then [i; 6; w_first w; o_first o]
  else match first_diff (view_total_energy f) (o_energy o) with
  | Some (k, m, v) => [i; 1000 + k; m; v]
  | None =>
  match first_diff (view_total_locked f) (o_tokens o) with
  | Some (k, m, v) => [i; 2000 + k; m; v]
  | None =>
  match first_rewards_diff f (o_rewards o) with
  | Some (k, m, v) => [i; 3000 + k; m; v]
  | None =>
  match first_acc_diff f (o_acc o) with
  | Some (k, m, v) => [i; 40000 + k; m; v]
  | None =>
  match first_prog_diff f (o_prog o) with
  | Some (k, m, v) => [i; 5000 + k; m; v]
  | None =>
  match first_diff (aget (fc_bal f)) (o_bal o) with
  | Some (k, m, v) => [i; 6000 + k; m; v]
  | None =>
  match first_diff (aget (w_btok w)) (o_btok o) with
  | Some (k, m, v) => [i; 7000 + k; m; v]
  | None =>
  match first_diff (aget (w_bsur w)) (o_bsur o) with
  | Some (k, m, v) => [i; 8000 + k; m; v]
  | None =>
  if negb (nonzero_count (w_btok w) =? nonzero_count (o_btok o))
  then [i; 9000; nonzero_count (w_btok w); nonzero_count (o_btok o)]
  else if negb (nonzero_count (w_bsur w) =? nonzero_count (o_bsur o))
  then [i; 9001; nonzero_count (w_bsur w); nonzero_count (o_bsur o)]
  else []
  end end end end end end end end
  end.

Fixpoint first_pair_diff (a b : list (Z * Z)) : list Z :=
  match a, b with
  | [], [] => []
  | (t1, x) :: a', (t2, y) :: b' =>
      if negb (t1 =? t2) then [t1; t2] else if negb (x =? y) then [x; y] else first_pair_diff a' b'
  | [], (_, y) :: _ => [0; y]
  | (_, x) :: _, [] => [x; 0]
  end.

Fixpoint check_trace (f : fc) (i : Z) (tr : list (fop * fobs)) : list Z :=
  match tr with
  | [] => []
  | (op, o) :: t =>
      match step f op with
      | Ok (f', outs, _) =>
          if negb (o_ok o) then [i; 1; 1; 0]
          else if negb (Z.of_nat (length outs) =? Z.of_nat (length (o_outs o)))
               then [i; 3; Z.of_nat (length outs); Z.of_nat (length (o_outs o))]
          else match first_pair_diff outs (o_outs o) with
               | x :: y :: _ => [i; 2; x; y]
               | _ =>
                 match cmp_state i f' o with
                 | [] => check_trace f' (i + 1) t
                 | d => d
                 end
               end
      | Err _ =>
          if o_ok o then [i; 1; 0; 1]
          else match cmp_state i f o with
               | [] => check_trace f (i + 1) t
               | d => d
               end
      end
  end.

(** the deployment the harness performs: init at [epoch], then the owner's configuration calls *)
Definition init_world (epoch : Z) (setup : list fop) : fc := run (init_fc epoch) setup.
