(** C12 — Staking pays only from capacity, within the APR cap, and honours unbonding
    (money-flow model of farm-staking; position algebra and reward-per-share accounting of the shared
    farm base are C05–C07). *)
From MX Require Import Base.Prelude Gen.Params Model.Staking Proofs.StakingProofs.

(** every reachable state: accrued rewards never exceed capacity, and the contract's staking-token
    balance = directly staked principal + outstanding unbond amounts + un-accrued capacity +
    accrued-but-unpaid rewards (+ plain donations) *)
Theorem C12_reach : forall dsc apr minub ops, 0 < dsc -> 0 < apr ->
  let s := srun (init_stk dsc apr minub) ops in
  0 <= s_acc s <= s_cap s /\
  s_bal s = (s_supply s - s_virt s) + s_ubtot s + (s_cap s - s_acc s) + s_reserve s + s_don s /\
  s_ubtot s = asum (s_ubamt s).
Proof.
  intros dsc apr minub ops Hd Ha s.
  destruct (srun_inv ops (init_stk dsc apr minub) (init_inv dsc apr minub Hd Ha)) as [cap bal ub _ _ _ _ _].
  auto.
Qed.
Print Assumptions C12_reach.

Theorem C12_step : forall s op s' o, StkInv s -> sstep s op = Ok (s', o) -> StkInv s'.
Proof. intros s op s' o I H. eapply sstep_inv; eauto. Qed.
Print Assumptions C12_step.

(** accrual of one settlement over d blocks: at most supply*maxAPR/(10000*blocks_per_year) per block
    (cross-multiplied), at most rate per block, never beyond capacity, nothing while production is
    off; what accrues goes to the reserve *)
Theorem C12_apr : forall s blk s', settle s blk = Ok s' -> StkInv s ->
  let d := Z.max 0 (blk - s_last s) in
  0 <= s_acc s' - s_acc s /\
  s_acc s' <= s_cap s' /\
  (s_acc s' - s_acc s) * (MAXP * BLOCKS_IN_YEAR) <= d * (s_supply s * s_apr s) /\
  s_acc s' - s_acc s <= d * s_rate s /\
  (s_produce s = false -> s_acc s' = s_acc s) /\
  s_reserve s' - s_reserve s = s_acc s' - s_acc s.
Proof. exact settle_accrual. Qed.
Print Assumptions C12_apr.

(** unstaking creates an unbond token for exactly the unstaked amount, unlocking min_unbond epochs later *)
Theorem C12_unstake : forall s blk ep c x r b s' o, sstep s (SUnstake blk ep c x r b) = Ok (s', o) -> StkInv s ->
  exists n, o = [n; x; r] /\ n = s_next s /\ find_z (s_ub s') n = Some (ep + s_minub s) /\
            aget (s_ubamt s') n = x /\ s_supply s' = s_supply s - x /\ 0 < x <= s_supply s /\
            s_ubtot s' = s_ubtot s + x.
Proof. exact unstake_char. Qed.
Print Assumptions C12_unstake.

(** the unlock epoch of an unbond token never changes afterwards *)
Theorem C12_unlock_epoch_fixed : forall s op s' o n e, sstep s op = Ok (s', o) -> StkInv s ->
  find_z (s_ub s) n = Some e -> find_z (s_ub s') n = Some e.
Proof. exact ub_preserved. Qed.
Print Assumptions C12_unlock_epoch_fixed.

(** unbonding: only at or after the unlock epoch, pays exactly the token amount, which stops being
    outstanding (so it is paid once) *)
Theorem C12_unbond : forall s ep c n amt s' o, sstep s (SUnbond ep c n amt) = Ok (s', o) ->
  exists unlock, find_z (s_ub s) n = Some unlock /\ unlock <= ep /\ o = [amt] /\
    0 < amt <= aget (s_ubamt s) n /\ s_bal s' = s_bal s - amt /\ s_ubtot s' = s_ubtot s - amt /\
    aget (s_ubamt s') n = aget (s_ubamt s) n - amt /\ s_supply s' = s_supply s /\ s_reserve s' = s_reserve s /\
    s_cap s' = s_cap s /\ s_acc s' = s_acc s.
Proof. exact unbond_char. Qed.
Print Assumptions C12_unbond.

Theorem C12_unbond_never_early : forall s ep c n amt unlock, find_z (s_ub s) n = Some unlock -> ep < unlock ->
  is_ok (sstep s (SUnbond ep c n amt)) = false.
Proof. exact unbond_too_early. Qed.
Print Assumptions C12_unbond_never_early.

(** ... once the unbond period has elapsed the whole outstanding amount CAN be withdrawn (the contract
    holds it: balance identity; [s_virt <= s_supply]: the proxy-staked part is part of the supply) ... *)
Theorem C12_unbond_possible_when_elapsed : forall s ep c n amt unlock,
  StkInv s -> active s = true -> s_virt s <= s_supply s ->
  find_z (s_ub s) n = Some unlock -> unlock <= ep -> 0 < amt <= aget (s_ubamt s) n ->
  exists s', sstep s (SUnbond ep c n amt) = Ok (s', [amt]).
Proof. exact unbond_live. Qed.
Print Assumptions C12_unbond_possible_when_elapsed.

(** ... and exactly once: after the full amount has been unbonded no further unbond of that token succeeds *)
Theorem C12_unbond_once : forall s ep c n s' o,
  sstep s (SUnbond ep c n (aget (s_ubamt s) n)) = Ok (s', o) ->
  forall ep' c' amt', is_ok (sstep s' (SUnbond ep' c' n amt')) = false.
Proof. exact unbond_once. Qed.
Print Assumptions C12_unbond_once.

(** the admin can withdraw only capacity that has not been accrued to stakers (after settling) *)
Theorem C12_withdraw : forall s blk c w s' o, sstep s (SWithdraw blk c w) = Ok (s', o) -> StkInv s ->
  exists s1, settle s blk = Ok s1 /\ 0 <= w <= s_cap s1 - s_acc s1 /\ s_cap s' = s_cap s1 - w /\
             s_acc s' = s_acc s1 /\ s_bal s' = s_bal s - w /\ s_acc s' <= s_cap s' /\ c = OWNER.
Proof. exact withdraw_char. Qed.
Print Assumptions C12_withdraw.

Example C12_nonvacuous :
  let ops := [SSetRate 10 OWNER 1000; SSetState OWNER 1; STopUp OWNER 5000; SStart 10 OWNER;
              SStake 12 5 1 100000000000 0 0; SClaim 1012 5 1 100000000000 0 0;
              SUnstake 1020 6 1 40000000000 0 0; SWithdraw 1030 OWNER 100; SUnbond 16 1 3 40000000000] in
  let s := srun (init_stk 1000000000000 2500 10) ops in
  0 < s_acc s /\ s_ubtot s = 0 /\ s_supply s = 60000000000 /\
  is_ok (sstep (srun (init_stk 1000000000000 2500 10) (firstn 8 ops)) (SUnbond 15 1 3 40000000000)) = false.
Proof. vm_compute. repeat split. Qed.
