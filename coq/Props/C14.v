(** C14 — Router: one pair per token pair, registered pairs only, pass-through multi-hop.
    Statements only; proofs are in Proofs/RouterProofs.v.

    Vocabulary (Model/Router.v): [r_map] is pair_map in iteration order, [get_pair] the view getPair
    (None = zero address), [all_pairs] the view getAllPairsManagedAddresses, [w_pairs] every pair
    contract that exists (deployed by the router or not) with the tokens it reports, [w_led] the
    ESDT balances of router / users / owner.  [Reachable w]: w is the result of ANY finite sequence
    of operations (router endpoints by any caller in any argument order, direct pair calls, foreign
    pair deployments, transfers, block progress) from a freshly deployed router.
    [uo_eq k1 k2]: the token pairs k1, k2 are equal up to order.
    [Registered w a]: a is the pair_map entry for the tokens the contract at a reports
    (config.rs check_is_pair_sc). *)
From MX Require Import Base.Prelude Gen.Params Model.Pair Model.Router
  Proofs.PairInv Proofs.PairChar Proofs.RouterProofs.

(** ------------------------------------------------------------------ 1. the registry *)
(** at most one pair per unordered token pair, in every reachable world *)
Theorem C14_one_pair_per_token_pair : forall w, Reachable w -> forall a b x c d y,
  In (a, b, x) (r_map (w_r w)) -> In (c, d, y) (r_map (w_r w)) -> uo_eq (a, b) (c, d) ->
  (a, b, x) = (c, d, y).
Proof. exact reach_one_per_pair. Qed.
Print Assumptions C14_one_pair_per_token_pair.

(** lookups are order-insensitive *)
Theorem C14_lookup_order_insensitive : forall w, Reachable w -> forall a b,
  get_pair (r_map (w_r w)) a b = get_pair (r_map (w_r w)) b a.
Proof. exact reach_lookup_sym. Qed.
Print Assumptions C14_lookup_order_insensitive.

(** getPair answers exactly the stored entries, whichever way round the tokens are given *)
Theorem C14_lookup_exact : forall w, Reachable w -> forall a b x,
  get_pair (r_map (w_r w)) a b = Some x <->
  (In (a, b, x) (r_map (w_r w)) \/ In (b, a, x) (r_map (w_r w))).
Proof. exact reach_lookup_char. Qed.
Print Assumptions C14_lookup_exact.

(** getAllPairsManagedAddresses has no duplicates: one contract per token pair; every listed
    address is a pair contract reporting exactly the tokens of its key, distinct from each other *)
Theorem C14_listed_pairs_distinct_and_consistent : forall w, Reachable w ->
  NoDup (all_pairs (r_map (w_r w))) /\
  forall a b x, In (a, b, x) (r_map (w_r w)) ->
    a <> b /\ exists pe, pair_at (w_pairs w) x = Some pe /\ pe_t1 pe = a /\ pe_t2 pe = b.
Proof. exact reach_listed. Qed.
Print Assumptions C14_listed_pairs_distinct_and_consistent.

(** ------------------------------------------------------------------ 2. creation / removal *)
(** createPair succeeds only for the owner or with public creation enabled, on an active router,
    for two different tokens that have no pair yet in either order; a non-owner gets the default fees *)
Theorem C14_create_guard : forall w c a b adder fees na w' o,
  ep_create_pair w c a b adder fees na = Ok (w', o) ->
  r_active (w_r w) = true /\ (c = r_owner (w_r w) \/ r_creation (w_r w) = true) /\ a <> b /\
  get_pair (r_map (w_r w)) a b = None /\ get_pair (r_map (w_r w)) b a = None /\
  o = [na] /\ pair_at (w_pairs w) na = None /\
  r_map (w_r w') = r_map (w_r w) ++ [(a, b, na)] /\
  exists pe, pair_at (w_pairs w') na = Some pe /\ pe_t1 pe = a /\ pe_t2 pe = b /\ pe_lp pe = false /\
             p_state (pe_p pe) = ST_Inactive /\ p_S (pe_p pe) = 0 /\
             (c <> r_owner (w_r w) ->
              p_fee (pe_p pe) = ROUTER_DEFAULT_TOTAL_FEE_PERCENT /\
              p_sfee (pe_p pe) = ROUTER_DEFAULT_SPECIAL_FEE_PERCENT).
Proof. exact create_pair_guard. Qed.
Print Assumptions C14_create_guard.

(** ... and the new contract is then what getPair returns for both token orders, listed last *)
Theorem C14_create_registers : forall w c a b adder fees na w' o, Reachable w ->
  ep_create_pair w c a b adder fees na = Ok (w', o) ->
  get_pair (r_map (w_r w')) a b = Some na /\ get_pair (r_map (w_r w')) b a = Some na /\
  all_pairs (r_map (w_r w')) = all_pairs (r_map (w_r w)) ++ [na] /\
  ~ In na (all_pairs (r_map (w_r w))) /\ Registered w' na.
Proof. exact reach_create_registers. Qed.
Print Assumptions C14_create_registers.

(** removePair (owner only) takes the pair out for both token orders and returns its address *)
Theorem C14_remove : forall w c a b w' o, Reachable w ->
  ep_remove_pair w c a b = Ok (w', o) ->
  c = r_owner (w_r w) /\ r_active (w_r w) = true /\ a <> b /\
  (exists p, get_pair (r_map (w_r w)) a b = Some p /\ o = [p]) /\
  get_pair (r_map (w_r w')) a b = None /\ get_pair (r_map (w_r w')) b a = None /\
  w_pairs w' = w_pairs w.
Proof. exact reach_remove. Qed.
Print Assumptions C14_remove.

(** ------------------------------------------------------------------ 3. registered pairs only *)
(** pause / resume / setFeeOn / setFeeOff / setLocalRoles / issueLpToken / setSwapEnabledByUser succeed
    only on a registered pair ([mgmt_target]: the pair address argument; pausing the router itself excluded) *)
Theorem C14_registered_only_management : forall w op w' o addr,
  rstep w op = Ok (w', o) -> mgmt_target op = Some addr -> Registered w addr.
Proof. exact registered_only. Qed.
Print Assumptions C14_registered_only_management.

(** upgradePair names its pair by tokens and resolves it through the registry *)
Theorem C14_upgrade_only_registered : forall w c a b w' o, Reachable w ->
  ep_upgrade_pair w c a b = Ok (w', o) ->
  c = r_owner (w_r w) /\ r_active (w_r w) = true /\ w' = w /\
  exists p, get_pair (r_map (w_r w)) a b = Some p /\ Registered w p.
Proof. exact reach_upgrade_pair. Qed.
Print Assumptions C14_upgrade_only_registered.

(** setSwapEnabledByUser (the one way a non-owner configures and resumes a pair): only on a registered
    pair in ActiveNoSwaps state whose LP token the locked position wraps, only by that pair's initial
    liquidity adder; its whole effect is the pair's own setFeePercents + resume *)
Theorem C14_enable_swap_by_user : forall w c addr ltok orig unlock amt w' o,
  ep_enable_swap w c addr ltok orig unlock amt = Ok (w', o) ->
  exists pe p1 p2 o1 e1 o2 e2,
    r_active (w_r w) = true /\ registered w addr = Ok pe /\
    p_state (pe_p pe) = ST_PartialActive /\ pe_lp pe = true /\ orig = addr /\
    p_adder (pe_p pe) = Some c /\
    step (pe_p pe) (SetFee OWNER ROUTER_USER_DEFINED_TOTAL_FEE_PERCENT ROUTER_DEFAULT_SPECIAL_FEE_PERCENT) = Ok (p1, o1, e1) /\
    step p1 (SetState OWNER ST_Active) = Ok (p2, o2, e2) /\
    w' = set_pairs w (upd_pair (w_pairs w) addr (set_pp pe p2)) /\ o = [].
Proof. exact enable_swap_spec. Qed.
Print Assumptions C14_enable_swap_by_user.

(** every hop of a successful multiPairSwap goes through a registered pair *)
Theorem C14_registered_only_hops : forall w c tin amt hops w' ps,
  ep_multi_swap w c tin amt hops = Ok (w', ps) -> forall h, In h hops -> Registered w (hop_addr h).
Proof. exact multi_swap_hops_registered. Qed.
Print Assumptions C14_registered_only_hops.

Theorem C14_unregistered_hop_fails : forall w c tin amt hops h,
  In h hops -> ~ Registered w (hop_addr h) -> is_ok (ep_multi_swap w c tin amt hops) = false.
Proof. exact multi_swap_unregistered_fails. Qed.
Print Assumptions C14_unregistered_hop_fails.

(** on reachable worlds "registered" is exactly "listed by getAllPairsManagedAddresses":
    removed pairs and pairs deployed outside the router are not registered, whatever tokens they report *)
Theorem C14_registered_iff_listed : forall w addr, Reachable w ->
  (Registered w addr <-> In addr (all_pairs (r_map (w_r w)))).
Proof. exact reach_registered_iff_listed. Qed.
Print Assumptions C14_registered_iff_listed.

(** ------------------------------------------------------------------ 4. pass-through multi-hop *)
(** router's own balances unchanged; the caller pays the input and receives exactly the returned
    payments; no third party's balance moves *)
Theorem C14_multihop_ledger : forall w c tin amt hops w' ps, c <> ROUTER ->
  ep_multi_swap w c tin amt hops = Ok (w', ps) ->
  (forall t, lget (w_led w') ROUTER t = lget (w_led w) ROUTER t) /\
  (forall t, lget (w_led w') c t = lget (w_led w) c t - (if tin =? t then amt else 0) + sum_tok ps t) /\
  (forall a t, a <> ROUTER -> a <> c -> lget (w_led w') a t = lget (w_led w) a t).
Proof. exact multi_swap_ledger. Qed.
Print Assumptions C14_multihop_ledger.

(** the returned payments are the fixed-output residuals followed by the last output: at every
    position of the hop list the call has run the preceding hops, runs this hop, then the rest *)
Theorem C14_multihop_each_hop : forall w c tin amt hops w' ps,
  ep_multi_swap w c tin amt hops = Ok (w', ps) ->
  exists w0, w_r w0 = w_r w /\ w_pairs w0 = w_pairs w /\
  forall pre h post, hops = pre ++ h :: post ->
    exists wi lasti residi wj lastj residj,
      run_hops w0 pre (tin, amt) [] = Ok (wi, lasti, residi) /\
      do_hop wi h lasti residi = Ok (wj, lastj, residj) /\
      exists wn lastn residn, run_hops wj post lastj residj = Ok (wn, lastn, residn) /\
        ps = residn ++ [lastn] /\ w_pairs w' = w_pairs wn /\ w_r w' = w_r wn.
Proof. exact multi_swap_each_hop. Qed.
Print Assumptions C14_multihop_each_hop.

(** each hop is the addressed pair's own swap step on that pair's state alone: same result, same
    new pair state, no other pair and nothing in the registry touched; a fixed-input hop forwards
    its whole input, a fixed-output hop yields exactly the wanted amount and sets the unspent input
    aside as a residual (dropped when zero) *)
Theorem C14_hop_is_pair_step : forall w addr f tw aw tin ain resid w' last' resid',
  do_hop w (addr, f, tw, aw) (tin, ain) resid = Ok (w', last', resid') ->
  exists pe p' o e,
    registered w addr = Ok pe /\ (f = FIXED_IN \/ f = FIXED_OUT) /\
    step (pe_p pe) (hop_op pe f tin ain tw aw) = Ok (p', o, e) /\ e_ext e = [] /\
    w_pairs w' = upd_pair (w_pairs w) addr (set_pp pe p') /\ w_r w' = w_r w /\
    fst last' = tw /\
    (f = FIXED_IN -> o = [snd last'] /\ 0 < snd last' /\ resid' = resid) /\
    (f = FIXED_OUT -> exists res, o = [aw; res] /\ snd last' = aw /\ 0 <= res /\ 0 < aw /\
                                  resid' = if 0 <? res then resid ++ [(tin, res)] else resid).
Proof. exact do_hop_spec. Qed.
Print Assumptions C14_hop_is_pair_step.

(** hence every hop follows the pair's documented swap formulas (C03) on that pair's reserves *)
Theorem C14_hop_fixed_input_formula : forall w addr tw mn tin ain resid w' last' resid', Reachable w ->
  do_hop w (addr, FIXED_IN, tw, mn) (tin, ain) resid = Ok (w', last', resid') ->
  exists pe ord,
    registered w addr = Ok pe /\ swap_order (loc pe tin) (loc pe tw) = Ok ord /\
    p_state (pe_p pe) = ST_Active /\
    is_floor (snd last') (ain * (M - p_fee (pe_p pe)) * rout (pe_p pe) ord)
             (rin (pe_p pe) ord * M + ain * (M - p_fee (pe_p pe))) /\
    0 < mn <= snd last' /\ fst last' = tw /\ resid' = resid.
Proof. exact reach_hop_fixed_input. Qed.
Print Assumptions C14_hop_fixed_input_formula.

Theorem C14_hop_fixed_output_formula : forall w addr tw aw tin ain resid w' last' resid', Reachable w ->
  do_hop w (addr, FIXED_OUT, tw, aw) (tin, ain) resid = Ok (w', last', resid') ->
  exists pe ord charged,
    registered w addr = Ok pe /\ swap_order (loc pe tin) (loc pe tw) = Ok ord /\
    p_state (pe_p pe) = ST_Active /\ last' = (tw, aw) /\
    is_floor (charged - 1) (rin (pe_p pe) ord * aw * M) ((rout (pe_p pe) ord - aw) * (M - p_fee (pe_p pe))) /\
    0 < charged <= ain /\
    resid' = (if 0 <? ain - charged then resid ++ [(tin, ain - charged)] else resid).
Proof. exact reach_hop_fixed_output. Qed.
Print Assumptions C14_hop_fixed_output_formula.

(** a one-hop multiPairSwap is indistinguishable from the caller swapping on the pair directly *)
Theorem C14_single_hop_fixed_input_is_direct_swap : forall w c addr tin amt tw mn w' ps, c <> ROUTER ->
  ep_multi_swap w c tin amt [(addr, FIXED_IN, tw, mn)] = Ok (w', ps) ->
  exists pe wd out,
    registered w addr = Ok pe /\
    ep_direct w addr (SwapIn c (loc pe tin) amt (loc pe tw) mn) = Ok (wd, [out]) /\
    ps = [(tw, out)] /\ w_pairs w' = w_pairs wd /\ w_r w' = w_r wd /\
    forall a t, lget (w_led w') a t = lget (w_led wd) a t.
Proof. exact single_hop_fixed_input_is_direct_swap. Qed.
Print Assumptions C14_single_hop_fixed_input_is_direct_swap.

Theorem C14_single_hop_fixed_output_is_direct_swap : forall w c addr tin amt tw aw w' ps, c <> ROUTER ->
  ep_multi_swap w c tin amt [(addr, FIXED_OUT, tw, aw)] = Ok (w', ps) ->
  exists pe wd res,
    registered w addr = Ok pe /\
    ep_direct w addr (SwapOut c (loc pe tin) amt (loc pe tw) aw) = Ok (wd, [aw; res]) /\
    0 <= res /\ ps = (if 0 <? res then [(tin, res)] else []) ++ [(tw, aw)] /\
    w_pairs w' = w_pairs wd /\ w_r w' = w_r wd /\
    forall a t, lget (w_led w') a t = lget (w_led wd) a t.
Proof. exact single_hop_fixed_output_is_direct_swap. Qed.
Print Assumptions C14_single_hop_fixed_output_is_direct_swap.

(** if any hop fails, the whole call fails ... *)
Theorem C14_failing_hop_fails_all : forall w c tin amt pre h post led0 wi lasti residi er,
  debit (w_led w) c tin amt = Ok led0 ->
  run_hops (set_led w (credit led0 ROUTER tin amt)) pre (tin, amt) [] = Ok (wi, lasti, residi) ->
  do_hop wi h lasti residi = Err er ->
  is_ok (ep_multi_swap w c tin amt (pre ++ h :: post)) = false.
Proof. exact multi_swap_hop_fails. Qed.
Print Assumptions C14_failing_hop_fails_all.

(** ... and a failed transaction leaves the world as it was.  That the real VM reverts nested
    synchronous calls is a fact about the VM (assumption A-VM): it is *modelled* here by the result
    monad and the runner, and observed on the real contracts by the harness (state digest of router
    and every pair unchanged after each failed multiPairSwap). *)
Theorem C14_failed_step_unchanged : forall w op, is_ok (rstep w op) = false -> rstep_total w op = w.
Proof. exact failed_step_unchanged. Qed.
Print Assumptions C14_failed_step_unchanged.

(** every pair contract of a reachable world (registered or not) keeps the pair invariant of C01
    under everything the router does to it *)
Theorem C14_pairs_keep_invariant : forall w x pe, Reachable w ->
  pair_at (w_pairs w) x = Some pe -> PairInv (pe_p pe).
Proof. exact reach_pairs_inv. Qed.
Print Assumptions C14_pairs_keep_invariant.

(** ------------------------------------------------------------------ non-vacuity
    A reachable world with two registered pairs created in different ways (owner with explicit fees;
    a user with public creation enabled), a foreign pair (address 12) reporting the tokens of the
    registered pair 10 in the other order, liquidity everywhere, and tokens donated to the router.
    A two-hop swap (fixed-output then fixed-input) succeeds, returns residual + last output and
    leaves the router's balances alone; the same swap through the foreign pair, or with an
    unreachable minimum on the second hop, fails as a whole; management calls are accepted on the
    registered pair and refused on the foreign one; creating the existing pair in the other token
    order is refused. *)
Definition c14_example_ops : list rop :=
  [CreatePair OWNER 1 2 0 (Some (300, 50)) 10; SetLp OWNER 10; Resume OWNER 10;
   Direct 10 (Add OWNER 1000000 2000000 1 1);
   SetCreation OWNER true; CreatePair 1 3 2 0 None 11; SetLp OWNER 11; Resume OWNER 11;
   Direct 11 (Add OWNER 1000000 3000000 1 1);
   DeployPair 2 1 300 50 12; SetLp OWNER 12; Direct 12 (SetState OWNER 1);
   Direct 12 (Add OWNER 5000000 5000000 1 1);
   DonateRouter OWNER 2 777].
Definition c14_example_ledger : ledger :=
  [(1, 1, 1000000000); (100, 1, 1000000000000); (100, 2, 1000000000000); (100, 3, 1000000000000)].

Example C14_nonvacuous :
  let w := rrun (init_world c14_example_ledger 1) c14_example_ops in
  r_map (w_r w) = [(1, 2, 10); (3, 2, 11)] /\ map fst (w_pairs w) = [10; 11; 12] /\
  lget (w_led w) ROUTER 2 = 777 /\
  (match rstep w (MultiSwap 1 1 10000 [(10, 1, 2, 5000); (11, 0, 3, 1)]) with
   | Ok (w', o) => o = [1; 7486; 3; 1658] /\ lget (w_led w') ROUTER 2 = 777 /\ lget (w_led w') ROUTER 1 = 0 /\
                   lget (w_led w') 1 1 = 1000000000 - 10000 + 7486 /\ lget (w_led w') 1 3 = 1658
   | Err _ => False
   end) /\
  is_ok (rstep w (MultiSwap 1 1 10000 [(10, 1, 2, 5000); (12, 0, 1, 1)])) = false /\
  is_ok (rstep w (MultiSwap 1 1 10000 [(10, 1, 2, 5000); (11, 0, 3, 99999999)])) = false /\
  map (fun op => is_ok (rstep w op))
      [CreatePair OWNER 2 1 0 (Some (300, 50)) 13; Pause OWNER 12; RSetFeeOn OWNER 12 1 1; SetLocalRoles 1 12;
       Pause OWNER 10; RSetFeeOn OWNER 10 1 1; SetLocalRoles 1 10; RemovePair OWNER 2 1]
    = [false; false; false; false; true; true; true; true].
Proof. vm_compute. repeat split. Qed.

(** a user-created pair opened by its initial liquidity adder through setSwapEnabledByUser; the same
    call is refused once the owner has removed the pair from the registry *)
Definition c14_example_ops2 : list rop :=
  [SetCreation OWNER true; AddCommon OWNER 2; ConfigEnable OWNER 2 8 1000 10;
   CreatePair 1 3 2 1 None 10; SetLp OWNER 10; Direct 10 (AddInitial 1 500000 700000)].
Example C14_nonvacuous_enable :
  let w := rrun (init_world [(1, 3, 1000000000); (1, 2, 1000000000)] 1) c14_example_ops2 in
  (match rstep w (EnableSwap 1 10 8 10 11 250000) with
   | Ok (w', _) => option_map (fun pe => (p_state (pe_p pe), p_fee (pe_p pe), p_sfee (pe_p pe))) (pair_at (w_pairs w') 10)
                   = Some (ST_Active, ROUTER_USER_DEFINED_TOTAL_FEE_PERCENT, ROUTER_DEFAULT_SPECIAL_FEE_PERCENT)
   | Err _ => False
   end) /\
  is_ok (rstep w (EnableSwap 2 10 8 10 11 250000)) = false /\
  is_ok (rstep w (EnableSwap 1 10 8 10 10 250000)) = false /\
  is_ok (rstep (rstep_total w (RemovePair OWNER 2 3)) (EnableSwap 1 10 8 10 11 250000)) = false.
Proof. vm_compute. repeat split. Qed.
