(** C01 — Pair pool is always fully backed; LP supply equals circulating LP tokens; reserves stay
    positive once liquidity exists.  Statements only; proofs are in Proofs/PairInv.v. *)
From MX Require Import Base.Prelude Gen.Params Model.Pair Proofs.PairInv.

(** What the invariant says, spelled out against the model's ledger. *)
Theorem C01_invariant_meaning : forall p, PairInv p ->
  p_r1 p <= p_bal1 p /\ p_r2 p <= p_bal2 p                                  (* real balance >= reported reserve *)
  /\ p_S p = asum (p_lp p)                                                   (* LP supply = sum of LP held by all accounts *)
  /\ (0 < p_S p -> 0 < p_r1 p /\ 0 < p_r2 p /\ MINIMUM_LIQUIDITY <= lp_of p SELF)  (* reserves positive; floor locked in the pair *)
  /\ (p_S p = 0 -> p_r1 p = 0 /\ p_r2 p = 0).
Proof.
  intros p H. split; [apply (i_b1 _ H)|]. split; [apply (i_b2 _ H)|]. split; [apply (i_S _ H)|].
  split; [apply (i_pos _ H) | apply (i_zero _ H)].
Qed.
Print Assumptions C01_invariant_meaning.

(** Every successful operation (any caller, any argument, any fee configuration) preserves it. *)
Theorem C01_step : forall p op p' o e, PairInv p -> step p op = Ok (p', o, e) -> PairInv p'.
Proof. intros p op p' o e H E. exact (proj1 (step_spec p op p' o e E H)). Qed.
Print Assumptions C01_step.

(** ... also in the two-pair world, where fee slices are swapped on a trusted external pair. *)
Theorem C01_world_step : forall w op w' o e, WorldInv w -> wstep w op = Ok (w', o, e) -> WorldInv w'.
Proof. intros w op w' o e H E. exact (proj1 (wstep_inv w op w' o e E H)). Qed.
Print Assumptions C01_world_step.

(** Every reachable state: any interleaving of any length from any deployment configuration that
    [init]/[set_fee_percents] accepts.  A failed transaction leaves the state unchanged. *)
Theorem C01_reach : forall fee sfee adder ops,
  0 <= sfee <= fee -> fee <= PAIR_MAX_FEE_PERCENTAGE ->
  PairInv (run (init_pair fee sfee adder) ops).
Proof. intros. apply run_inv. apply init_inv; assumption. Qed.
Print Assumptions C01_reach.

Theorem C01_world_reach : forall w ops, WorldInv w -> WorldInv (wrun w ops).
Proof. intros. apply wrun_inv; assumption. Qed.
Print Assumptions C01_world_reach.

(** Balances only ever exceed reserves by more (rounding dust, donations): excess is monotone. *)
Theorem C01_excess_monotone : forall p op p' o e, PairInv p -> step p op = Ok (p', o, e) ->
  p_bal1 p - p_r1 p <= p_bal1 p' - p_r1 p' /\ p_bal2 p - p_r2 p <= p_bal2 p' - p_r2 p'.
Proof. intros p op p' o e H E. exact (proj2 (proj2 (step_spec p op p' o e E H))). Qed.
Print Assumptions C01_excess_monotone.

(** Non-vacuity: a concrete reachable state with liquidity, fees on (burn + local swap + collector),
    after swaps in both directions and a removal. *)
Definition c01_example_ops : list pop :=
  [SetState OWNER 1; Add 1 1000001 2000003 1 1; SetFeeOn OWNER true 60 1; SetFeeOn OWNER true 61 2;
   SetCollector OWNER 30000; SwapIn 2 1 5000 2 1; SwapOut 3 2 100000 1 777; Remove 1 500000 1 1;
   WlAdd OWNER 50; LpTransfer 1 50 1000; RemoveBuyBack 50 1000 2].
Example C01_nonvacuous :
  let p := run (init_pair 300 50 None) c01_example_ops in
  0 < p_S p /\ 0 < p_r1 p /\ forallb (fun k => is_ok (step (run (init_pair 300 50 None) (firstn k c01_example_ops))
                                                              (nth k c01_example_ops (Donate 1 1)))) (seq 0 11) = true.
Proof. vm_compute. repeat split. Qed.
