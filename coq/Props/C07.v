(** C07 — Position tokens: supply = sum; split/merge create no value; owner totals exact. *)
From MX Require Import Base.Prelude Gen.Params Model.Farm Proofs.FarmInv Proofs.FarmSolv Proofs.FarmOwner.
From MX Require Import Model.FarmLocked Proofs.FarmLockedProofs.

(** farm-token supply = sum of all outstanding position amounts = sum of what accounts hold,
    in every reachable state *)
Theorem C07_supply : forall dsc same ops, 0 < dsc -> Forall valid_op ops ->
  let f := frun (init_farm dsc same) ops in
  f_supply f = asum (f_out f) /\ asum (f_out f) = asum (f_held f).
Proof.
  intros dsc same ops Hd V f.
  destruct (frun_ok ops (init_farm dsc same) (init_farm_ok dsc same Hd) V) as ([[_ _ hh _ _ _ _] out _] & _ & _).
  split; [symmetry; exact out | symmetry; exact hh].
Qed.
Print Assumptions C07_supply.

(** merging two positions preserves principal and compounded sums, and the amount-weighted entry
    index of the result is never below that of the parts: for every index level R the merged
    position's un-rounded entitlement is at most the parts' together *)
Theorem C07_merge : forall a b m R, 0 < a_amt a -> 0 < a_amt b -> merge_with a b = Ok m ->
  a_amt m = a_amt a + a_amt b /\ a_comp m = a_comp a + a_comp b /\
  a_amt m * (R - a_rps m) <= a_amt a * (R - a_rps a) + a_amt b * (R - a_rps b) /\
  (a_rps a <= R -> a_rps b <= R -> a_rps m <= R).
Proof. exact merge_entitlement. Qed.
Print Assumptions C07_merge.

(** ... and for any number of merged positions (enter / claim / compound / merge with additional payments) *)
Theorem C07_merge_many : forall ps f base m R,
  merge_payments f base ps = Ok m -> 0 < a_amt base -> a_rps base <= R ->
  Forall (fun p => 0 < snd p /\ exists a, find_attrs (f_attrs f) (fst p) = Some a /\ a_rps a <= R) ps ->
  a_amt m * (R - a_rps m) <= a_amt base * (R - a_rps base) + psum (fun n => R - rps_of f n) ps /\
  a_rps m <= R /\ 0 < a_amt m.
Proof. exact merge_payments_entitlement. Qed.
Print Assumptions C07_merge_many.

Theorem C07_merge_amount : forall ps f base m, merge_payments f base ps = Ok m ->
  a_amt m = a_amt base + psum (fun _ => 1) ps /\ a_owner m = a_owner base.
Proof. exact merge_payments_amt. Qed.
Print Assumptions C07_merge_amount.

(** splitting: index unchanged, amount = the part, compounded reward = floor(comp * part / amount);
    two complementary parts never carry more compounded reward than the whole *)
Theorem C07_split : forall a x p, 0 < x <= a_amt a -> 0 <= a_comp a -> into_part a x = Ok p ->
  a_rps p = a_rps a /\ a_amt p = x /\ a_epoch p = a_epoch a /\ a_owner p = a_owner a /\
  a_comp p * a_amt a <= a_comp a * x < a_comp p * a_amt a + a_amt a.
Proof. exact split_spec. Qed.
Print Assumptions C07_split.

Theorem C07_split_no_gain : forall a x y p q, 0 < x -> 0 < y -> x + y = a_amt a -> 0 <= a_comp a ->
  into_part a x = Ok p -> into_part a y = Ok q ->
  a_amt p + a_amt q = a_amt a /\ a_comp p + a_comp q <= a_comp a.
Proof. exact split_no_gain. Qed.
Print Assumptions C07_split_no_gain.

(** each user's tracked total farm position equals the sum of the outstanding amounts of the
    positions whose recorded owner is that user — in every reachable state, also after positions
    were transferred and then used (claim / exit / merge / enter-with-merge / compound) by another
    account; in particular the saturating subtraction of decrease_user_farm_position never hides a
    deficit *)
Theorem C07_owner_totals : forall dsc same ops u, 0 < dsc -> Forall valid_op ops ->
  let f := frun (init_farm dsc same) ops in
  utot f u = wsum (fun n => if owner_of f n =? u then 1 else 0) (f_out f).
Proof.
  intros dsc same ops u Hd V f.
  exact (frun_ut ops (init_farm dsc same) (init_farm_ok dsc same Hd) (init_ut dsc same) V u).
Qed.
Print Assumptions C07_owner_totals.

(** farm-with-locked-rewards: the same three clauses for every reachable state of the locked farm *)
Theorem C07_locked_reach : forall dsc same opts lock ops u, 0 < dsc -> Forall lvalid ops ->
  let f := l_f (lrun (init_locked dsc same opts lock) ops) in
  f_supply f = asum (f_out f) /\ asum (f_out f) = asum (f_held f) /\
  utot f u = wsum (fun n => if owner_of f n =? u then 1 else 0) (f_out f).
Proof. exact locked_C07_reach. Qed.
Print Assumptions C07_locked_reach.

Example C07_nonvacuous :
  match merge_with (mkAttrs 10 1 5 3 1) (mkAttrs 11 2 0 4 2) with
  | Ok m => a_rps m = 11 /\ a_amt m = 7 /\ a_comp m = 5    (* ceil(58/7) = 9 would be floor; the code rounds up: 11*4+10*3 = 74, ceil(74/7) = 11 *)
  | _ => False
  end.
Proof. vm_compute. repeat split. Qed.

(** ==================================================================================================
    The same property for the STAKING farm (farm-staking), on the position-level model Model/StakingPos.v:
    positions with attributes {reward_per_share, compounded_reward, current_farm_amount, original_owner}, who
    holds how much of which nonce, per-user totals; accrual (APR bound, capacity), reward payment, unbond
    tokens and admin endpoints are those of Model/Staking.v; the boosted payout [b] is an input bounded by
    the boosted pools.  [preach dsc apr minub ops]: the state after ANY list of operations from deployment.
    [pvalid_op]: account ids in range.  [sep_op]: additionally the whitelisted proxy keeps its positions to
    itself and users do not call the proxy endpoints (needed only where the VIRTUAL principal is compared
    with the supply).  From here on the names settle, pay, utot, ... are those of the staking models. *)
From MX Require Import Model.Staking Model.StakingPos Proofs.StakingProofs Proofs.StakingPosProofs.

(** S-C07a: farm-token supply = sum of all outstanding position amounts (= what the accounts hold of every
    nonce; an endpoint burns whatever it receives), in every reachable state *)
Theorem C07_staking_a_supply : forall dsc apr minub ops, 0 < dsc -> 0 < apr -> Forall pvalid_op ops ->
  let sp := preach dsc apr minub ops in
  s_supply (p_s sp) = asum (p_held sp) /\ all_nonneg (p_held sp) /\ NoDup (akeys (p_held sp)).
Proof. exact sc07a_supply. Qed.
Print Assumptions C07_staking_a_supply.

(** S-C07b: merging two positions preserves principal and compounded sums and keeps the owner of the first; the
    merged index is the amount-weighted average rounded UP (never below the un-rounded one, less than one unit
    per token above it), so for every index level R the merged position is entitled to no more than the parts *)
Theorem C07_staking_b_merge : forall a b m R, 0 < sa_amt a -> 0 < sa_amt b -> smerge_with a b = Ok m ->
  sa_amt m = sa_amt a + sa_amt b /\ sa_comp m = sa_comp a + sa_comp b /\ sa_owner m = sa_owner a /\
  sa_rps a * sa_amt a + sa_rps b * sa_amt b <= sa_rps m * sa_amt m < sa_rps a * sa_amt a + sa_rps b * sa_amt b + sa_amt m /\
  sa_amt m * (R - sa_rps m) <= sa_amt a * (R - sa_rps a) + sa_amt b * (R - sa_rps b) /\
  (sa_rps a <= R -> sa_rps b <= R -> sa_rps m <= R).
Proof. exact smerge_entitlement. Qed.
Print Assumptions C07_staking_b_merge.

(** ... for any number of merged payments (stake / compound / merge with several positions) *)
Theorem C07_staking_b_merge_many : forall ps sp base m R,
  merge_payments sp base ps = Ok m -> 0 < sa_amt base -> sa_rps base <= R ->
  Forall (fun p => 0 < snd p /\ exists a, find_sattrs (p_attrs sp) (fst p) = Some a /\ sa_rps a <= R) ps ->
  sa_amt m * (R - sa_rps m) <= sa_amt base * (R - sa_rps base) + psum (fun n => R - srps_of sp n) ps /\
  sa_rps m <= R /\ 0 < sa_amt m.
Proof. exact merge_payments_entitlement. Qed.
Print Assumptions C07_staking_b_merge_many.

Theorem C07_staking_b_merge_index : forall ps sp base m,
  merge_payments sp base ps = Ok m -> 0 < sa_amt base ->
  Forall (fun p => 0 < snd p /\ exists a, find_sattrs (p_attrs sp) (fst p) = Some a) ps ->
  sa_rps base * sa_amt base + psum (srps_of sp) ps <= sa_rps m * sa_amt m.
Proof. exact merge_payments_index. Qed.
Print Assumptions C07_staking_b_merge_index.

Theorem C07_staking_b_merge_amount : forall ps sp base m, merge_payments sp base ps = Ok m ->
  sa_amt m = sa_amt base + psum (fun _ => 1) ps /\ sa_owner m = sa_owner base.
Proof. exact merge_payments_amt. Qed.
Print Assumptions C07_staking_b_merge_amount.

Theorem C07_staking_b_merge_compounded : forall ps sp base m, merge_payments sp base ps = Ok m ->
  sa_comp m = sa_comp base + comp_parts sp ps.
Proof. exact merge_payments_comp. Qed.
Print Assumptions C07_staking_b_merge_compounded.

(** splitting: index and owner unchanged, amount = the part, compounded = floor(comp * part / amount); two
    complementary parts never carry more compounded reward than the whole *)
Theorem C07_staking_b_split : forall a x p, 0 < x <= sa_amt a -> 0 <= sa_comp a -> sinto_part a x = Ok p ->
  sa_rps p = sa_rps a /\ sa_amt p = x /\ sa_owner p = sa_owner a /\
  sa_comp p * sa_amt a <= sa_comp a * x < sa_comp p * sa_amt a + sa_amt a.
Proof. exact ssplit_spec. Qed.
Print Assumptions C07_staking_b_split.

Theorem C07_staking_b_split_no_gain : forall a x y p q, 0 < x -> 0 < y -> x + y = sa_amt a -> 0 <= sa_comp a ->
  sinto_part a x = Ok p -> sinto_part a y = Ok q ->
  sa_amt p + sa_amt q = sa_amt a /\ sa_comp p + sa_comp q <= sa_comp a.
Proof. exact ssplit_no_gain. Qed.
Print Assumptions C07_staking_b_split_no_gain.

(** S-C07c: each account's tracked total farm position = sum of the held amounts of the positions whose recorded
    original_owner is that account - in every reachable state, also after positions were transferred and then
    used (claim / unstake / merge / stake-with-merge / compound, or by the proxy for an original caller) by
    another account: the ORIGINAL owner's total is decreased and the acting original caller's increased *)
Theorem C07_staking_c_owner_totals : forall dsc apr minub ops u, 0 < dsc -> 0 < apr -> Forall pvalid_op ops ->
  let sp := preach dsc apr minub ops in
  utot sp u = hsum (fun n => if sowner_of sp n =? u then 1 else 0) (p_held sp).
Proof. exact sc07c_owner_totals. Qed.
Print Assumptions C07_staking_c_owner_totals.

(** ... and the saturating decrease_user_farm_position never saturates on a reachable state: the recorded
    owner's total covers whatever part of whichever holding of his position is paid in, so the "else clear"
    branch is taken only when total = amount *)
Theorem C07_staking_c_no_saturation : forall dsc apr minub ops c n x a, 0 < dsc -> 0 < apr -> Forall pvalid_op ops ->
  let sp := preach dsc apr minub ops in
  valid_id c -> find_sattrs (p_attrs sp) n = Some a -> 0 < x <= held sp n c ->
  x <= utot sp (sa_owner a) /\
  exists sp', decrease_user sp (n, x) = Ok sp' /\ utot sp' (sa_owner a) = utot sp (sa_owner a) - x /\
              (forall w, w <> sa_owner a -> utot sp' w = utot sp w).
Proof. exact sc07c_no_saturation. Qed.
Print Assumptions C07_staking_c_no_saturation.

(** ... and what "used by another account" does to the totals, exactly as base_impl_wrapper.rs: nothing when the
    acting original caller is the recorded owner; otherwise the paid amount leaves the RECORDED owner's total
    (exactly) and is added to the acting caller's; nobody else's total moves *)
Theorem C07_staking_c_use_by_other : forall sp c u n x a, Inv sp -> valid_id c ->
  find_sattrs (p_attrs sp) n = Some a -> 0 < x <= held sp n c ->
  (sa_owner a = u -> check_update sp u [(n, x)] = Ok sp) /\
  (sa_owner a <> u -> exists sp', check_update sp u [(n, x)] = Ok sp' /\
      utot sp' (sa_owner a) = utot sp (sa_owner a) - x /\ utot sp' u = utot sp u + x /\
      (forall w, w <> sa_owner a -> w <> u -> utot sp' w = utot sp w) /\ but_utot sp' = but_utot sp).
Proof. exact sc07c_use_by_other. Qed.
Print Assumptions C07_staking_c_use_by_other.

(** non-vacuity of the staking part *)
Definition sp_example : list pop :=
  [PAdmin (SSetRate 10 OWNER 1000); PAdmin (SSetState OWNER 1); PAdmin (STopUp OWNER 1000000000); PAdmin (SStart 10 OWNER);
   PAdmin (SSetPct 10 OWNER 2500); PAdmin (SSetFactors OWNER);
   PStake 12 5 1 1 1000000 [] 0; PStake 15 5 2 2 2500000 [] 0; PStakeProxy 16 5 PROXY 3 700000 [] 0;
   PClaim 20 6 1 1 (1, 600000) 0; PTransfer 2 2 1 500000;
   PStake 30 9 1 1 7 [(2, 500000); (1, 400000)] 0; PCompound 31 9 2 (2, 1000000) [] 0; PUnstake 32 9 2 2 (2, 1000000) 0;
   PClaimNewValue 33 9 PROXY 3 (3, 700000) 800000 0; PUnstakeProxy 34 9 PROXY 3 (8, 300000) 300000 0;
   PMerge 35 9 1 [(4, 600000); (5, 900007)] 1; PClaimBoosted 40 9 1 3; PUnbond 10 2 7 1000000].

Example StakingPos_nonvacuous :
  let sp := preach 1000000 1000000000 1 sp_example in
  0 < s_supply (p_s sp) /\ 0 < s_pool (p_s sp) /\ 0 < p_paid sp /\ 0 < s_virt (p_s sp) /\ 0 < sclaimable sp /\
  utot sp 1 = 1500007 /\ held sp 10 1 = 1500007 /\
  forallb (fun k => is_ok (pstep (preach 1000000 1000000000 1 (firstn k sp_example)) (nth k sp_example (PAdmin (SDonate 1)))))
          (seq 0 19) = true.
Proof. vm_compute. repeat split. Qed.

(** the rounding that matters: 10*3 + 11*4 = 74, ceil(74/7) = 11 (floor would give 10) *)
Example StakingPos_merge_rounds_up :
  match smerge_with (mkSA 10 5 3 1) (mkSA 11 0 4 2) with
  | Ok m => sa_rps m = 11 /\ sa_amt m = 7 /\ sa_comp m = 5 /\ sa_owner m = 1
  | _ => False
  end.
Proof. vm_compute. repeat split. Qed.
