(** C07 — Position tokens: supply = sum; split/merge create no value; owner totals exact. *)
From MX Require Import Base.Prelude Gen.Params Model.Farm Proofs.FarmInv Proofs.FarmSolv Proofs.FarmOwner.
From MX Require Import Model.FarmLocked Proofs.FarmLockedProofs.

(** farm-token supply = sum of all outstanding position amounts = sum of what accounts hold,
    in every reachable state *)
Theorem C07_supply : forall dsc same ops, 0 < dsc -> Forall valid_op ops ->
  let f := frun (init_farm dsc same) ops in
  f_supply f = asum (f_out f) /\ asum (f_out f) = asum (f_held f).
Proof.
  intros dsc same ops Hd V f.
  destruct (frun_ok ops (init_farm dsc same) (init_farm_ok dsc same Hd) V) as ([[_ _ hh _ _ _ _] out _] & _ & _).
  split; [symmetry; exact out | symmetry; exact hh].
Qed.
Print Assumptions C07_supply.

(** merging two positions preserves principal and compounded sums, and the amount-weighted entry
    index of the result is never below that of the parts: for every index level R the merged
    position's un-rounded entitlement is at most the parts' together *)
Theorem C07_merge : forall a b m R, 0 < a_amt a -> 0 < a_amt b -> merge_with a b = Ok m ->
  a_amt m = a_amt a + a_amt b /\ a_comp m = a_comp a + a_comp b /\
  a_amt m * (R - a_rps m) <= a_amt a * (R - a_rps a) + a_amt b * (R - a_rps b) /\
  (a_rps a <= R -> a_rps b <= R -> a_rps m <= R).
Proof. exact merge_entitlement. Qed.
Print Assumptions C07_merge.

(** ... and for any number of merged positions (enter / claim / compound / merge with additional payments) *)
Theorem C07_merge_many : forall ps f base m R,
  merge_payments f base ps = Ok m -> 0 < a_amt base -> a_rps base <= R ->
  Forall (fun p => 0 < snd p /\ exists a, find_attrs (f_attrs f) (fst p) = Some a /\ a_rps a <= R) ps ->
  a_amt m * (R - a_rps m) <= a_amt base * (R - a_rps base) + psum (fun n => R - rps_of f n) ps /\
  a_rps m <= R /\ 0 < a_amt m.
Proof. exact merge_payments_entitlement. Qed.
Print Assumptions C07_merge_many.

Theorem C07_merge_amount : forall ps f base m, merge_payments f base ps = Ok m ->
  a_amt m = a_amt base + psum (fun _ => 1) ps /\ a_owner m = a_owner base.
Proof. exact merge_payments_amt. Qed.
Print Assumptions C07_merge_amount.

(** splitting: index unchanged, amount = the part, compounded reward = floor(comp * part / amount);
    two complementary parts never carry more compounded reward than the whole *)
Theorem C07_split : forall a x p, 0 < x <= a_amt a -> 0 <= a_comp a -> into_part a x = Ok p ->
  a_rps p = a_rps a /\ a_amt p = x /\ a_epoch p = a_epoch a /\ a_owner p = a_owner a /\
  a_comp p * a_amt a <= a_comp a * x < a_comp p * a_amt a + a_amt a.
Proof. exact split_spec. Qed.
Print Assumptions C07_split.

Theorem C07_split_no_gain : forall a x y p q, 0 < x -> 0 < y -> x + y = a_amt a -> 0 <= a_comp a ->
  into_part a x = Ok p -> into_part a y = Ok q ->
  a_amt p + a_amt q = a_amt a /\ a_comp p + a_comp q <= a_comp a.
Proof. exact split_no_gain. Qed.
Print Assumptions C07_split_no_gain.

(** each user's tracked total farm position equals the sum of the outstanding amounts of the
    positions whose recorded owner is that user — in every reachable state, also after positions
    were transferred and then used (claim / exit / merge / enter-with-merge / compound) by another
    account; in particular the saturating subtraction of decrease_user_farm_position never hides a
    deficit *)
Theorem C07_owner_totals : forall dsc same ops u, 0 < dsc -> Forall valid_op ops ->
  let f := frun (init_farm dsc same) ops in
  utot f u = wsum (fun n => if owner_of f n =? u then 1 else 0) (f_out f).
Proof.
  intros dsc same ops u Hd V f.
  exact (frun_ut ops (init_farm dsc same) (init_farm_ok dsc same Hd) (init_ut dsc same) V u).
Qed.
Print Assumptions C07_owner_totals.

(** farm-with-locked-rewards: the same three clauses for every reachable state of the locked farm *)
Theorem C07_locked_reach : forall dsc same opts lock ops u, 0 < dsc -> Forall lvalid ops ->
  let f := l_f (lrun (init_locked dsc same opts lock) ops) in
  f_supply f = asum (f_out f) /\ asum (f_out f) = asum (f_held f) /\
  utot f u = wsum (fun n => if owner_of f n =? u then 1 else 0) (f_out f).
Proof. exact locked_C07_reach. Qed.
Print Assumptions C07_locked_reach.

Example C07_nonvacuous :
  match merge_with (mkAttrs 10 1 5 3 1) (mkAttrs 11 2 0 4 2) with
  | Ok m => a_rps m = 11 /\ a_amt m = 7 /\ a_comp m = 5    (* ceil(58/7) = 9 would be floor; the code rounds up: 11*4+10*3 = 74, ceil(74/7) = 11 *)
  | _ => False
  end.
Proof. vm_compute. repeat split. Qed.
