(** C15 (continuation) — the ON-BEHALF endpoints of farm-staking-proxy, stakeFarmOnBehalf(user) and
    claimDualYieldOnBehalf() (Model/MetaBehalf.v over Model/MetaStaking.v, with the permissions hub of Model/Access.v
    as part of the state).

    The endpoints are the bodies of the ordinary endpoints with original caller := user, the dual-yield token handed to
    the CALLER and the rewards to the USER; they are modelled by composition with the ordinary operations
    (transfer of the dual-yield payments to the user ; the user's own stakeFarmTokens / claimDualYield on the same
    environment answers ; transfer of the new token to the agent), so every invariant of Props/C15.v transfers.
    As in Props/C15.v everything is relative to the environment interface (answers of the farms / the pair are arguments;
    only [mb_nonneg] - amounts are BigUint - is assumed); the recorded original owners of the farm positions are tracked
    under interface law L8 (a position a farm returns for original caller x records x), proved on the callee models
    below and discharged on the closed system in Props/C15_closed.v, where the owners are read from the farm models.
    Vocabulary: [mbrun] histories over ordinary operations ([MBOrd]), hub operations ([MBHub]) and the two on-behalf
    endpoints; [underlying_owner s p] = get_underlying_positions_original_owner of the payment; [mb_rl] / [mb_rs] ghost
    ledgers: LP-farm / staking rewards received per account. *)
From MX Require Import Base.Prelude Gen.Params Model.MetaStaking Proofs.MetaStakingProofs Model.MetaBehalf Proofs.MetaBehalfProofs.
From MX Require Model.Access Model.Farm Model.StakingPos.

(** ------------------------------------------------------------------ every C15 invariant over mixed histories *)
Theorem C15_behalf_backed : forall ho ops, mb_wf ops ->
  let s := mb_s (mbrun (init_mb ho) ops) in
  (forall k, lpf_bal s k = lp_claim s k) /\
  (forall k, sf_bal s k = sf_claim s k) /\
  (forall n a, In (n, a) (s_attrs s) ->
     nonce_ok s n a /\
     sup s n <= sf_bal s (d_sfn a) /\
     d_lpa a - rel s n <= lpf_bal s (d_lpn a) /\
     (forall x, 0 <= x <= sup s n -> claimable a x <= lpf_bal s (d_lpn a))) /\
  (forall t, fbal s t = 0).
Proof. exact behalf_backed_run. Qed.
Print Assumptions C15_behalf_backed.

Theorem C15_behalf_parts : forall ho ops, mb_wf ops ->
  let s := mb_s (mbrun (init_mb ho) ops) in
  forall n a, In (n, a) (s_attrs s) ->
    0 <= rel s n <= d_lpa a /\ 0 <= d_sfa a - sup s n <= d_sfa a /\
    rel s n * d_sfa a <= d_lpa a * (d_sfa a - sup s n).
Proof. exact behalf_parts_run. Qed.
Print Assumptions C15_behalf_parts.

Theorem C15_behalf_invariant_step : forall s op s' o cs,
  mbstep s op = Ok (s', o, cs) -> mb_nonneg op = true -> Inv (mb_s s) -> Inv (mb_s s').
Proof. exact mbstep_inv. Qed.
Print Assumptions C15_behalf_invariant_step.

Theorem C15_behalf_no_user_funds : forall s op s' o cs,
  mbstep s op = Ok (s', o, cs) -> forall t, fbal (mb_s s') t = fbal (mb_s s) t.
Proof. exact behalf_no_user_funds. Qed.
Print Assumptions C15_behalf_no_user_funds.

(** ------------------------------------------------------------------ on-behalf = a history of ordinary operations *)
Theorem C15_behalf_stake_refines : forall s a u pays e w s' o cs,
  mob_stake s a u pays e w = Ok (s', o, cs) ->
  mb_s s' = run (mb_s s) (stake_ob_ops a u pays e o) /\ wf_ops (xfer_ops a u (tl pays)).
Proof. exact mob_stake_refines. Qed.
Print Assumptions C15_behalf_stake_refines.

Theorem C15_behalf_claim_refines : forall s a pays e s' o cs u,
  mob_claim s a pays e = Ok (s', o, cs, u) -> mb_s s' = run (mb_s s) (claim_ob_ops a u pays e o).
Proof. exact mob_claim_refines. Qed.
Print Assumptions C15_behalf_claim_refines.

(** ------------------------------------------------------------------ characterisation *)
Theorem C15_behalf_stake_spec : forall s a u pays e w s' o cs,
  mbstep s (MBStakeOB a u pays e w) = Ok (s', o, cs) ->
  Access.is_whitelisted (mb_hub s) u a = true /\
  (exists k amt adds, pays = (TK_LPF, k, amt) :: adds /\ w = u /\ Forall (fun p => underlying_owner s p = Ok u) adds) /\
  (exists s1 s2, xfer_all (mb_s s) a u (tl pays) = Ok s1 /\ step s1 (Stake u false pays e) = Ok (s2, o, cs) /\
     ep_xfer s2 u a (nth 0 o 0) (nth 1 o 0) = Ok (mb_s s', [], []) /\
     (a <> u -> hold (mb_s s') (nth 0 o 0) a = hold s2 (nth 0 o 0) a + nth 1 o 0 /\
                hold (mb_s s') (nth 0 o 0) u = hold s2 (nth 0 o 0) u - nth 1 o 0)) /\
  (forall x, aget (mb_rl s') x = aget (mb_rl s) x + (if x =? u then nth 3 o 0 else 0)) /\
  (forall x, aget (mb_rs s') x = aget (mb_rs s) x + (if x =? u then nth 2 o 0 else 0)) /\
  mb_hub s' = mb_hub s.
Proof. exact stake_on_behalf_spec. Qed.
Print Assumptions C15_behalf_stake_spec.

Theorem C15_behalf_claim_spec : forall s a pays e s' o cs,
  mbstep s (MBClaimOB a pays e) = Ok (s', o, cs) ->
  exists u p,
    pays = [p] /\ underlying_owner s p = Ok u /\ u <> 0 /\
    Access.is_whitelisted (mb_hub s) u a = true /\
    (exists s1 s2, xfer_all (mb_s s) a u pays = Ok s1 /\ step s1 (Claim u false pays e) = Ok (s2, o, cs) /\
       ep_xfer s2 u a (nth 2 o 0) (nth 3 o 0) = Ok (mb_s s', [], []) /\
       (a <> u -> hold (mb_s s') (nth 2 o 0) a = hold s2 (nth 2 o 0) a + nth 3 o 0 /\
                  hold (mb_s s') (nth 2 o 0) u = hold s2 (nth 2 o 0) u - nth 3 o 0)) /\
    (forall x, aget (mb_rl s') x = aget (mb_rl s) x + (if x =? u then nth 0 o 0 else 0)) /\
    (forall x, aget (mb_rs s') x = aget (mb_rs s) x + (if x =? u then nth 1 o 0 else 0)) /\
    mb_hub s' = mb_hub s.
Proof. exact claim_on_behalf_spec. Qed.
Print Assumptions C15_behalf_claim_spec.

(** "authorised" = listed by the user in the hub and not blacklisted by the hub's owner *)
Theorem C15_behalf_agent_listed : forall s op s' o cs, mbstep s op = Ok (s', o, cs) ->
  match op with
  | MBStakeOB a u _ _ _ => Access.pmem (u, a) (Access.h_wl (mb_hub s)) = true /\ Access.zmem a (Access.h_black (mb_hub s)) = false
  | MBClaimOB a pays _ => exists u p, pays = [p] /\ underlying_owner s p = Ok u /\
                          Access.pmem (u, a) (Access.h_wl (mb_hub s)) = true /\ Access.zmem a (Access.h_black (mb_hub s)) = false
  | _ => True
  end.
Proof. exact on_behalf_agent_listed. Qed.
Print Assumptions C15_behalf_agent_listed.

(** what the payment's owner check is *)
Theorem C15_behalf_underlying_owner : forall s p u, underlying_owner s p = Ok u ->
  p_tok p = TK_DY /\ exists a part, find_attr (s_attrs (mb_s s)) (p_nonce p) = Some a /\ dy_part a (p_amt p) = Ok part /\
    lpo s (d_lpn a) = u /\ sfo s (d_sfn a) = u /\ u <> 0.
Proof. exact underlying_owner_spec. Qed.
Print Assumptions C15_behalf_underlying_owner.

Theorem C15_behalf_rewards_only_user : forall s op s' o cs x,
  mbstep s op = Ok (s', o, cs) ->
  match op with
  | MBStakeOB a u _ _ _ => x <> u -> aget (mb_rl s') x = aget (mb_rl s) x /\ aget (mb_rs s') x = aget (mb_rs s) x
  | MBClaimOB a pays _ => (forall p, pays = [p] -> underlying_owner s p <> Ok x) ->
                          aget (mb_rl s') x = aget (mb_rl s) x /\ aget (mb_rs s') x = aget (mb_rs s) x
  | _ => True
  end.
Proof. exact on_behalf_rewards_only_user. Qed.
Print Assumptions C15_behalf_rewards_only_user.

(** ------------------------------------------------------------------ failure leaves the state unchanged *)
Theorem C15_behalf_stake_unauthorised_unchanged : forall s a u pays e w,
  Access.is_whitelisted (mb_hub s) u a = false -> mbstep_total s (MBStakeOB a u pays e w) = s.
Proof. exact stake_ob_unauthorised_unchanged. Qed.
Print Assumptions C15_behalf_stake_unauthorised_unchanged.

Theorem C15_behalf_stake_foreign_first_unchanged : forall s a u pays e w, w <> u -> mbstep_total s (MBStakeOB a u pays e w) = s.
Proof. exact stake_ob_foreign_first_unchanged. Qed.
Print Assumptions C15_behalf_stake_foreign_first_unchanged.

Theorem C15_behalf_stake_foreign_add_unchanged : forall s a u pays e w p,
  In p (tl pays) -> underlying_owner s p <> Ok u -> mbstep_total s (MBStakeOB a u pays e w) = s.
Proof. exact stake_ob_foreign_add_unchanged. Qed.
Print Assumptions C15_behalf_stake_foreign_add_unchanged.

Theorem C15_behalf_claim_unauthorised_unchanged : forall s a p e u,
  underlying_owner s p = Ok u -> Access.is_whitelisted (mb_hub s) u a = false -> mbstep_total s (MBClaimOB a [p] e) = s.
Proof. exact claim_ob_unauthorised_unchanged. Qed.
Print Assumptions C15_behalf_claim_unauthorised_unchanged.

Theorem C15_behalf_claim_no_owner_unchanged : forall s a p e (er : err),
  underlying_owner s p = Err er -> mbstep_total s (MBClaimOB a [p] e) = s.
Proof. exact claim_ob_no_owner_unchanged. Qed.
Print Assumptions C15_behalf_claim_no_owner_unchanged.

Theorem C15_behalf_claim_payments_unchanged : forall s a pays e, length pays <> 1%nat -> mbstep_total s (MBClaimOB a pays e) = s.
Proof. exact claim_ob_payments_unchanged. Qed.
Print Assumptions C15_behalf_claim_payments_unchanged.

Theorem C15_behalf_revoked_agent_fails : forall s s1 u a ops,
  mbstep s (MBHub (Access.HRemoveWhitelist u a)) = Ok (s1, [], []) ->
  ~ In (Access.HWhitelist u a) (hub_ops_of ops) ->
  let s2 := mbrun s1 ops in
  (forall pays e w, mbstep_total s2 (MBStakeOB a u pays e w) = s2) /\
  (forall p e, underlying_owner s2 p = Ok u -> mbstep_total s2 (MBClaimOB a [p] e) = s2).
Proof. exact ob_revoked_agent_fails. Qed.
Print Assumptions C15_behalf_revoked_agent_fails.

Theorem C15_behalf_blacklisted_agent_fails : forall s a ops,
  Access.zmem a (Access.h_black (mb_hub s)) = true ->
  ~ In (Access.HRemoveBlacklist (Access.h_owner (mb_hub s)) a) (hub_ops_of ops) ->
  let s2 := mbrun s ops in
  (forall u pays e w, mbstep_total s2 (MBStakeOB a u pays e w) = s2) /\
  (forall pays e, mbstep_total s2 (MBClaimOB a pays e) = s2).
Proof. exact ob_blacklisted_agent_fails. Qed.
Print Assumptions C15_behalf_blacklisted_agent_fails.

(** ------------------------------------------------------------------ law L8 on the callee models *)
Theorem C15_law_L8_farm_claim_model : forall f blk ep c first adds b f' n amt r,
  Farm.ep_claim f blk ep c first adds b = Ok (f', [n; amt; r]) ->
  exists m, In (n, m) (Farm.f_attrs f') /\ Farm.a_owner m = c /\ Farm.a_amt m = amt.
Proof. exact L8.farm_claim. Qed.
Print Assumptions C15_law_L8_farm_claim_model.

Theorem C15_law_L8_farm_merge_model : forall f blk ep c ps b f' n amt b',
  Farm.ep_merge f blk ep c ps b = Ok (f', [n; amt; b']) ->
  exists m, In (n, m) (Farm.f_attrs f') /\ Farm.a_owner m = c /\ Farm.a_amt m = amt.
Proof. exact L8.farm_merge. Qed.
Print Assumptions C15_law_L8_farm_merge_model.

Theorem C15_law_L8_staking_model : forall virtual sp blk ep c u amt adds b sp' n out b',
  StakingPos.ep_stake virtual sp blk ep c u amt adds b = Ok (sp', [n; out; b']) ->
  exists m, In (n, m) (StakingPos.p_attrs sp') /\ StakingPos.sa_owner m = u /\ StakingPos.sa_amt m = out.
Proof. exact L8S.staking_stake. Qed.
Print Assumptions C15_law_L8_staking_model.

(** ------------------------------------------------------------------ non-vacuity
    The proxy's transactions of the real history of Props/C15_closed.v (same run; the [env] records are the answers the
    real farms / pair gave): user 1 stakes, agent 4 (listed by user 1) stakes on behalf of user 1 and later claims on
    behalf (LP-farm rewards 1019443 and staking rewards 1 go to user 1, the new token 4 to the agent), an agent without
    tokens and - after removeWhitelist - the revoked agent fail and change nothing. *)
Definition hw (c a : Z) := Access.HWhitelist c a.
Definition hrw (c a : Z) := Access.HRemoveWhitelist c a.
Definition nv_mb : list mbop := [MBHub (hw 1 4); MBHub (hw 2 5);
  MBOrd (Stake 1 false [(10, 1, 13333333)] (mkES false (1, 13553397, 2, 19677142) 1 13553397 0 0 0 0)) 1;
  MBStakeOB 4 1 [(10, 1, 6666666)] (mkES false (1, 6786407, 2, 9824327) 2 6786407 0 0 0 0) 1;
  MBOrd (Stake 2 false [(10, 2, 9999999)] (mkES false (1, 10179610, 2, 14736490) 3 10179610 0 0 0 0)) 2;
  MBClaimOB 4 [(12, 2, 3393203)] (mkEC false (1, 3478963, 2, 4791303) 4 3333332 1019443 4 3478963 1);
  MBClaimOB 5 [(12, 2, 1)] (mkEC false (1, 0, 2, 0) 0 0 0 0 0 0);
  MBOrd (Claim 1 false [(12, 1, 4517799)] (mkEC false (1, 4638618, 2, 6388406) 5 4444444 1166666 5 4638618 3)) 0;
  MBOrd (Stake 2 false [(10, 2, 4999999); (12, 3, 5089805)] (mkES false (1, 5218445, 2, 7186957) 6 10308250 0 6 9999998 83333)) 2;
  MBHub (hrw 1 4);
  MBClaimOB 4 [(12, 2, 3393204)] (mkEC false (1, 3478964, 2, 4791305) 0 0 0 0 0 0);
  MBOrd (Xfer 4 1 2 3393204) 0;
  MBOrd (Unstake 1 false [(12, 2, 1696602)] 1 1 (mkEU false 1666666 479166 (1, 1739481, 2, 2395651) 7 1739481 1)) 0;
  MBOrd (Unstake 1 false [(12, 1, 9035598)] 1 1 (mkEU false 8888888 2555555 (1, 9277237, 2, 12776814) 8 9277237 8)) 0].

Fixpoint mb_oks (s : bst) (ops : list mbop) : list bool :=
  match ops with [] => [] | op :: t => is_ok (mbstep s op) :: mb_oks (mbstep_total s op) t end.

Example C15_behalf_nonvacuous :
  mb_wf nv_mb /\
  mb_oks (init_mb 100) nv_mb = [true; true; true; true; true; true; false; true; true; true; false; true; true; true] /\
  let s6 := mbrun (init_mb 100) (firstn 6 nv_mb) in
  hold (mb_s s6) 4 4 = 3478963 /\ hold (mb_s s6) 4 1 = 0 /\ hold (mb_s s6) 2 4 = 3393204 /\
  aget (mb_rl s6) 1 = 1019443 /\ aget (mb_rs s6) 1 = 1 /\ aget (mb_rl s6) 4 = 0 /\ aget (mb_rs s6) 4 = 0 /\
  lpo s6 4 = 1 /\ sfo s6 4 = 1 /\ underlying_owner s6 (12, 4, 3478963) = Ok 1 /\
  let s := mbrun (init_mb 100) nv_mb in
  s_next (mb_s s) = 6 /\ sup (mb_s s) 2 = 1696602 /\ rel (mb_s s) 2 = 4999998 /\ lpf_bal (mb_s s) 1 = 1666669 /\ fbal (mb_s s) 1 = 0.
Proof. split; [repeat constructor | vm_compute; repeat split; reflexivity]. Qed.
