(** C15 — Dual-yield (metastaking) tokens are fully backed and unwind to their parts.

    ASSUME / GUARANTEE.  The model (Model/MetaStaking.v) is the proxy's own code and ledger; the LP
    farm, the staking farm and the pair are an environment whose answers are arguments of the
    operations ([env_stake], [env_claim], [env_unstake]).  All theorems below are FULL theorems
    relative to that interface: they quantify over every state / history and over EVERY answer of the
    environment; where a clause needs an interface law (L1-L7, Model/MetaStaking.v) the law is an
    explicit hypothesis of the clause.  The one thing built into the model is L0: a payment a callee
    reports as returned was really transferred to the proxy.  L0-L6 are evaluated on every real answer
    of the real farms / pair by the correspondence run (Run/MetaStakingRun.v) and by the monitors
    (tools/props/c15.py); L1-L3, L6, L7 are in addition lemmas of the callee MODELS (below); L4, L5
    (farm-staking specific) have no model here.  What is NOT proved: the composition "real farm |= law"
    as one closed system — it is proved on the farm / pair / safe-price models only.

    Vocabulary:
      [sup s n]        outstanding supply of dual-yield nonce n;  [d_sfa a] its total supply T
      [rel s n]        ghost: LP-farm amount released for nonce n so far;  [d_lpa a] the whole L
      [lpf_bal s k], [sf_bal s k], [fbal s t]   the proxy account's balances
      [lp_claim s k] = sum over nonces recording LP-farm nonce k of (L - rel)
      [sf_claim s k] = sum over nonces recording staking-farm nonce k of the outstanding supply
      [claimable a x]  LP-farm part of a redemption of x units (L when x = T, else floor (L*x/T))
      [registered cs]  net staking value the calls [cs] of one transaction register in the staking farm
    Search focus (framework.py, broken-proof search): partial redemptions whose floor is 0 or inexact,
    several dual-yield nonces sharing one LP-farm nonce, merges of partial tokens, value changes
    between stake and claim. *)
From MX Require Import Base.Prelude Gen.Params Model.SafePrice Proofs.SafePriceProofs Model.MetaStaking Proofs.MetaStakingProofs.

(** ------------------------------------------------------------------ backed *)
(** Over every history and every environment: the proxy's balance of each farm-token nonce is EXACTLY
    what the dual-yield nonces recording it still claim; so for each nonce the proxy holds the
    staking-farm tokens of its outstanding supply and LP-farm tokens covering any redemption its
    holders can still make; and it holds nothing else. *)
Theorem C15_backed : forall ops, wf_ops ops ->
  let s := run init_st ops in
  (forall k, lpf_bal s k = lp_claim s k) /\
  (forall k, sf_bal s k = sf_claim s k) /\
  (forall n a, In (n, a) (s_attrs s) ->
     nonce_ok s n a /\
     sup s n <= sf_bal s (d_sfn a) /\
     d_lpa a - rel s n <= lpf_bal s (d_lpn a) /\
     (forall x, 0 <= x <= sup s n -> claimable a x <= lpf_bal s (d_lpn a))) /\
  (forall t, fbal s t = 0).
Proof. exact backed_run. Qed.
Print Assumptions C15_backed.

(** ------------------------------------------------------------------ parts *)
(** into_part: staking part = the payment; LP-farm part = floor of the proportional share (the whole
    for the whole supply); the transaction fails exactly when that floor is 0 *)
Theorem C15_parts_rule : forall a p, 0 < d_sfa a -> 0 <= d_lpa a -> 0 < p ->
  match dy_part a p with
  | Ok part => d_lpn part = d_lpn a /\ d_sfn part = d_sfn a /\ d_sfa part = p /\
               (p = d_sfa a -> d_lpa part = d_lpa a) /\
               (p <> d_sfa a -> 0 < d_lpa part /\
                                d_lpa part * d_sfa a <= d_lpa a * p < d_lpa part * d_sfa a + d_sfa a)
  | Err _ => p <> d_sfa a /\ d_lpa a * p < d_sfa a
  end.
Proof. exact dy_part_char. Qed.
Print Assumptions C15_parts_rule.

(** any sequence of partial exits of at most the whole supply releases at most the whole *)
Theorem C15_parts_sum : forall L T ps, 0 <= L -> 0 < T -> Forall (fun p => 0 <= p) ps -> zsum ps <= T ->
  0 <= floor_parts L T ps <= L.
Proof. exact floor_parts_le. Qed.
Print Assumptions C15_parts_sum.

(** along every history the parts actually released for a nonce never exceed the whole, and the
    LP-farm part released is at most the proportional share of the staking part redeemed *)
Theorem C15_parts : forall ops, wf_ops ops ->
  let s := run init_st ops in
  forall n a, In (n, a) (s_attrs s) ->
    0 <= rel s n <= d_lpa a /\ 0 <= d_sfa a - sup s n <= d_sfa a /\
    rel s n * d_sfa a <= d_lpa a * (d_sfa a - sup s n).
Proof. exact parts_run. Qed.
Print Assumptions C15_parts.

(** ------------------------------------------------------------------ unstake *)
Theorem C15_unstake : forall s c oc n p m1 m2 e s' o cs,
  step s (Unstake c oc [(TK_DY, n, p)] m1 m2 e) = Ok (s', o, cs) ->
  exists a part stk ot oa,
    find_attr (s_attrs s) n = Some a /\ dy_part a p = Ok part /\
    pick_staking (eu_rm e) = Ok (stk, ot, oa) /\
    o = [oa; eu_rl e; eu_rs e; eu_ubn e; eu_uba e] /\
    cs = [CLpExit (d_lpn a) (d_lpa part); CPairRemove (eu_lp e) m1 m2; CStkUnstake stk (d_sfn a) p] /\
    (law_L5 stk e = true -> eu_uba e = stk) /\
    (law_L6 (eu_rm e) = true -> ot = TK_OTH) /\
    (forall t, fbal s' t = fbal s t) /\
    (forall k, lpf_bal s' k = lpf_bal s k - (if d_lpn a =? k then d_lpa part else 0)) /\
    (forall k, sf_bal s' k = sf_bal s k - (if d_sfn a =? k then p else 0)) /\
    s_attrs s' = s_attrs s /\ sup s' n = sup s n - p /\ hold s' n c = hold s n c - p.
Proof. exact unstake_char. Qed.
Print Assumptions C15_unstake.

(** the proxy keeps no user funds: no successful operation changes any of its fungible balances *)
Theorem C15_no_user_funds : forall s op s' o cs, step s op = Ok (s', o, cs) -> forall t, fbal s' t = fbal s t.
Proof. exact no_user_funds_step. Qed.
Print Assumptions C15_no_user_funds.

(** ------------------------------------------------------------------ safe price *)
Theorem C15_safe : forall s c oc pays e s' o cs,
  step s (Stake c oc pays e) = Ok (s', o, cs) ->
  exists k a adds parts v ot oa n new rest,
    pays = (TK_LPF, k, a) :: adds /\ Forall2 (part_of_pay s) adds parts /\
    pick_staking (es_sp e) = Ok (v, ot, oa) /\
    cs = CSafePrice a :: CStkEnter v (sf_toks parts) :: rest /\
    (rest = [] \/ exists toks, rest = [CLpMerge toks]) /\
    registered cs = v /\
    In (n, new) (s_attrs s') /\ o = [n; d_sfa new; es_bs e; merged_bl adds e] /\
    (law_L3 v parts e = true -> d_sfa new = v + sum_sfa parts) /\
    (adds = [] -> d_lpn new = k /\ d_lpa new = a) /\
    (adds <> [] -> law_L2 a parts e = true -> d_lpa new = a + sum_lpa parts).
Proof. exact stake_safe. Qed.
Print Assumptions C15_safe.

Theorem C15_safe_claim : forall s c oc pays e s' o cs,
  step s (Claim c oc pays e) = Ok (s', o, cs) ->
  exists n p a part v ot oa n' new,
    pays = [(TK_DY, n, p)] /\ find_attr (s_attrs s) n = Some a /\ dy_part a p = Ok part /\
    pick_staking (ec_sp e) = Ok (v, ot, oa) /\
    cs = [CSafePrice (d_lpa part); CLpClaim (d_lpn a) (d_lpa part); CStkClaim (d_sfn a) p v] /\
    registered cs = v - p /\
    In (n', new) (s_attrs s') /\ o = [ec_rl e; ec_rs e; n'; d_sfa new] /\
    (law_L4 v e = true -> d_sfa new = v) /\
    (law_L1 part e = true -> d_lpa new = d_lpa part).
Proof. exact claim_safe. Qed.
Print Assumptions C15_safe_claim.

(** with L7 (the pair answers as Model/SafePrice.v's [QLpDef], characterised by C13): the value a stake
    registers is the time-weighted-average valuation of the LP amount over the safe-price window *)
Theorem C15_safe_twap : forall N us ev o stk_first s c oc pays e s' out cs, 2 <= N ->
  wf_calls us -> (forall u, In u us -> u_round u <= e_now ev) -> pos_upd (cur_upd ev) ->
  get_oldest N (ring_of N us) = Ok o -> ob_round o < e_now ev ->
  step s (Stake c oc pays e) = Ok (s', out, cs) ->
  forall k a adds, pays = (TK_LPF, k, a) :: adds ->
  Ok (es_sp e) = Laws.pair_safe_answer N us ev stk_first a ->
  let s0 := e_now ev - Z.min DEFAULT_SAFE_PRICE_ROUNDS_OFFSET (e_now ev - ob_round o) in
  registered cs =
    a * avg (if stk_first then u_r1 else u_r2) us (cur_upd ev) s0 (e_now ev) / avg u_S us (cur_upd ev) s0 (e_now ev).
Proof. exact Laws.stake_safe_twap. Qed.
Print Assumptions C15_safe_twap.

(** ------------------------------------------------------------------ the laws on the callee models *)
Theorem C15_law_L1_farm_model : forall f blk ep c n x b f' n' amt r,
  Farm.ep_claim f blk ep c (n, x) [] b = Ok (f', [n'; amt; r]) -> amt = x.
Proof. exact Laws.L1_farm_claim. Qed.
Print Assumptions C15_law_L1_farm_model.

Theorem C15_law_L2_farm_model : forall f blk ep c ps b f' n amt b',
  Farm.ep_merge f blk ep c ps b = Ok (f', [n; amt; b']) -> amt = Laws.pay_sum ps.
Proof. exact Laws.L2_farm_merge. Qed.
Print Assumptions C15_law_L2_farm_model.

Theorem C15_law_L3_farm_model : forall f blk ep c amt adds b f' n out b',
  Farm.ep_enter f blk ep c amt adds b = Ok (f', [n; out; b']) -> out = amt + Laws.pay_sum adds.
Proof. exact Laws.L3_farm_enter. Qed.
Print Assumptions C15_law_L3_farm_model.

Theorem C15_law_L6_pair_model : forall p c lp m1 m2 p' o e,
  Pair.ep_remove p c lp m1 m2 = Ok (p', o, e) -> exists x1 x2, o = [x1; x2] /\ 0 < x1 /\ 0 < x2.
Proof. exact Laws.L6_pair_remove. Qed.
Print Assumptions C15_law_L6_pair_model.

Theorem C15_law_L7_safe_price_model : forall N us ev o stk_first liq, 2 <= N ->
  wf_calls us -> (forall u, In u us -> u_round u <= e_now ev) -> pos_upd (cur_upd ev) ->
  get_oldest N (ring_of N us) = Ok o -> ob_round o < e_now ev ->
  let s0 := e_now ev - Z.min DEFAULT_SAFE_PRICE_ROUNDS_OFFSET (e_now ev - ob_round o) in
  let c := cur_upd ev in
  exists r ot oa,
    Laws.pair_safe_answer N us ev stk_first liq = Ok r /\ law_L6 r = true /\
    pick_staking r =
      Ok (liq * avg (if stk_first then u_r1 else u_r2) us c s0 (e_now ev) / avg u_S us c s0 (e_now ev), ot, oa).
Proof. exact Laws.safe_answer_twap. Qed.
Print Assumptions C15_law_L7_safe_price_model.

(** ------------------------------------------------------------------ non-vacuity
    A history executed on the real composed system (tools/sys_metastaking.py: stake, stake with a
    merged partial dual-yield token, stake by a second user, partial claim, transfer to a third user,
    two partial unstakes; the [env] records are the answers the real farms / pair gave).  Every
    operation succeeds in the model, nonce 1 is partially released (rel > 0, 0 < sup < T), and the
    hypotheses of the theorems above hold of it. *)
Definition nv_ops : list mop := [
  Stake 1 false [(10, 1, 25000000)] (mkES false (2, 25325127, 1, 49363485) 1 49363485 0 0 0 0);
  Stake 1 false [(10, 1, 12500000); (12, 1, 16454495)] (mkES false (2, 13594403, 1, 23247278) 2 39701773 0 4 20833333 1076);
  Stake 2 false [(10, 2, 25000000)] (mkES false (2, 27188806, 1, 46494557) 3 46494557 0 0 0 0);
  Claim 1 false [(12, 1, 16454495)] (mkEC false (2, 10810496, 1, 12856583) 5 8333333 48202 4 12856583 140);
  Xfer 1 3 1 1000;
  Unstake 2 false [(12, 3, 15498185)] 1 1 (mkEU false 8333332 48202 (2, 10810495, 1, 12856581) 5 12856581 107);
  Unstake 3 false [(12, 1, 1000)] 1 1 (mkEU false 506 2 (2, 656, 1, 780) 6 780 0)].

Example C15_nonvacuous :
  wf_ops nv_ops /\
  let s := run init_st nv_ops in
  s_next s = 4 /\ sup s 1 = 16453495 /\ rel s 1 = 16667172 /\ lpf_bal s 1 = 8332828 /\
  sf_bal s 1 = 16453495 /\ sup s 3 = 30996372 /\ hold s 1 3 = 0 /\ fbal s 1 = 0 /\
  is_ok (step (run init_st (firstn 5 nv_ops)) (nth 5 nv_ops (Xfer 0 0 0 0))) = true.
Proof. split; [repeat constructor | vm_compute; repeat split; reflexivity]. Qed.

(** ==================================================================================================
    The interface laws assumed above, proved on the CALLEE models where those exist (Proofs/LawsC15.v):
    L4, L5 (and L3 on the staking farm's own stakeFarmThroughProxy) are theorems of the position-level staking
    model Model/StakingPos.v; [answer_of_...] is the explicit mapping from the callee's outputs to the answer
    record the proxy model consumes.  Qualified names throughout. *)
From MX Require Import Base.Prelude Gen.Params Model.ProxyDex.
From MX Require Model.MetaStaking Model.Staking Model.StakingPos Proofs.StakingPosProofs.
From MX Require Model.Pair Model.Farm Model.FarmLocked Model.Energy Model.Penalty Proofs.EnergyProofs Proofs.FarmLockedProofs.
From MX Require Proofs.LawsC15 Proofs.LawsC16.

Module MS := MX.Model.MetaStaking.
Module ST := MX.Model.Staking.
Module SP := MX.Model.StakingPos.
Module SPP := MX.Proofs.StakingPosProofs.
Module FL := MX.Model.FarmLocked.
Module EN := MX.Model.Energy.
Module ENP := MX.Proofs.EnergyProofs.
Module L15 := MX.Proofs.LawsC15.
Module L16 := MX.Proofs.LawsC16.


(** ================================================================== C15 *)
(** L4 - claimRewardsWithNewValue(v) on the farm token (n, a) returns a farm token of amount v.
    [rest] = the answers of the other callees in the same record. *)
Theorem C15_law_L4_staking_model : forall sp blk ep c u n a v b sp' o rest,
  SPP.Inv sp ->
  SP.pstep sp (SP.PClaimNewValue blk ep c u (n, a) v b) = Ok (sp', o) ->
  exists e,
    L15.answer_of_claimRewardsWithNewValue rest o = Some e /\
    MS.law_L4 v e = true /\
    MS.ec_fail e = MS.ec_fail rest /\ MS.ec_sp e = MS.ec_sp rest /\ MS.ec_lpn e = MS.ec_lpn rest /\
    MS.ec_lpa e = MS.ec_lpa rest /\ MS.ec_rl e = MS.ec_rl rest /\
    c = ST.PROXY /\
    MS.ec_sfn e = ST.s_next (SP.p_s sp) /\ SP.find_sattrs (SP.p_attrs sp) (MS.ec_sfn e) = None /\
    (exists m, SP.find_sattrs (SP.p_attrs sp') (MS.ec_sfn e) = Some m /\ SP.sa_amt m = MS.ec_sfa e /\ SP.sa_owner m = u) /\
    SP.held sp' (MS.ec_sfn e) c = MS.ec_sfa e /\
    0 < a <= SP.held sp n c /\ n < MS.ec_sfn e /\ SP.held sp' n c = SP.held sp n c - a /\
    0 <= MS.ec_sfa e /\ 0 <= MS.ec_rs e /\
    ST.s_supply (SP.p_s sp') = ST.s_supply (SP.p_s sp) + MS.registered [MS.CStkClaim n a v] /\
    ST.s_virt (SP.p_s sp') = ST.s_virt (SP.p_s sp) + MS.registered [MS.CStkClaim n a v].
Proof. exact L15.L4_staking. Qed.
Print Assumptions C15_law_L4_staking_model.

(** L5 - unstakeFarmThroughProxy with [stk] staking tokens and the farm token (n, a) returns an unbond
    token of exactly [stk]. *)
Theorem C15_law_L5_staking_model : forall sp blk ep c u n a stk b sp' o rest,
  SPP.Inv sp ->
  SP.pstep sp (SP.PUnstakeProxy blk ep c u (n, a) stk b) = Ok (sp', o) ->
  exists e,
    L15.answer_of_unstakeFarmThroughProxy rest o = Some e /\
    MS.law_L5 stk e = true /\
    MS.eu_fail e = MS.eu_fail rest /\ MS.eu_lp e = MS.eu_lp rest /\ MS.eu_rl e = MS.eu_rl rest /\
    MS.eu_rm e = MS.eu_rm rest /\
    c = ST.PROXY /\
    MS.eu_ubn e = ST.s_next (SP.p_s sp) /\
    ST.find_z (ST.s_ub (SP.p_s sp')) (MS.eu_ubn e) = Some (ep + ST.s_minub (SP.p_s sp)) /\
    SP.ubheld sp' (MS.eu_ubn e) c = SP.ubheld sp (MS.eu_ubn e) c + MS.eu_uba e /\
    ST.s_bal (SP.p_s sp') = ST.s_bal (SP.p_s sp) + stk - MS.eu_rs e /\
    0 < a <= SP.held sp n c /\ SP.held sp' n c = SP.held sp n c - a /\
    0 < MS.eu_uba e /\ 0 <= MS.eu_rs e /\
    ST.s_supply (SP.p_s sp') = ST.s_supply (SP.p_s sp) + MS.registered [MS.CStkUnstake stk n a] /\
    ST.s_virt (SP.p_s sp') = ST.s_virt (SP.p_s sp) + MS.registered [MS.CStkUnstake stk n a].
Proof. exact L15.L5_staking. Qed.
Print Assumptions C15_law_L5_staking_model.

(** L3 on the staking farm's own endpoint (Props/C15.v has it on Model/Farm.v, the shared enter code) *)
Theorem C15_law_L3_staking_model : forall sp blk ep c u v toks b sp' o rest,
  SPP.Inv sp ->
  SP.pstep sp (SP.PStakeProxy blk ep c u v toks b) = Ok (sp', o) ->
  exists e,
    L15.answer_of_stakeFarmThroughProxy rest o = Some e /\
    MS.es_sfa e = v + L15.tok_sum toks /\
    (forall parts, toks = map (fun p => (MS.d_sfn p, MS.d_sfa p)) parts -> MS.law_L3 v parts e = true) /\
    c = ST.PROXY /\ MS.es_sfn e = ST.s_next (SP.p_s sp) /\ 0 <= MS.es_bs e.
Proof. exact L15.L3_staking. Qed.
Print Assumptions C15_law_L3_staking_model.

(** C15_safe_claim / C15_unstake with the law hypothesis discharged by the staking-farm model *)
Theorem C15_claim_closed_staking_model : forall s c oc pays e s' out cs sp blk ep u b sp' so,
  MS.step s (MS.Claim c oc pays e) = Ok (s', out, cs) ->
  SPP.Inv sp ->
  (forall n a v, In (MS.CStkClaim n a v) cs ->
     SP.pstep sp (SP.PClaimNewValue blk ep ST.PROXY u (n, a) v b) = Ok (sp', so)) ->
  L15.answer_of_claimRewardsWithNewValue e so = Some e ->
  exists v ot oa n' new,
    MS.pick_staking (MS.ec_sp e) = Ok (v, ot, oa) /\ In (n', new) (MS.s_attrs s') /\
    out = [MS.ec_rl e; MS.ec_rs e; n'; MS.d_sfa new] /\ MS.d_sfa new = v /\
    exists n a, In (MS.CStkClaim n a v) cs /\
      ST.s_supply (SP.p_s sp') = ST.s_supply (SP.p_s sp) + MS.registered cs.
Proof. exact L15.claim_closed. Qed.
Print Assumptions C15_claim_closed_staking_model.

Theorem C15_unstake_closed_staking_model : forall s c oc n p m1 m2 e s' out cs sp blk ep u b sp' so,
  MS.step s (MS.Unstake c oc [(MS.TK_DY, n, p)] m1 m2 e) = Ok (s', out, cs) ->
  SPP.Inv sp ->
  (forall stk k a, In (MS.CStkUnstake stk k a) cs ->
     SP.pstep sp (SP.PUnstakeProxy blk ep ST.PROXY u (k, a) stk b) = Ok (sp', so)) ->
  L15.answer_of_unstakeFarmThroughProxy e so = Some e ->
  exists stk ot oa,
    MS.pick_staking (MS.eu_rm e) = Ok (stk, ot, oa) /\
    out = [oa; MS.eu_rl e; MS.eu_rs e; MS.eu_ubn e; MS.eu_uba e] /\ MS.eu_uba e = stk /\
    SP.ubheld sp' (MS.eu_ubn e) ST.PROXY = SP.ubheld sp (MS.eu_ubn e) ST.PROXY + stk /\
    ST.s_supply (SP.p_s sp') = ST.s_supply (SP.p_s sp) - p.
Proof. exact L15.unstake_closed. Qed.
Print Assumptions C15_unstake_closed_staking_model.


(** ================================================================== non-vacuity
    The hypotheses are satisfiable on concrete reachable callee states, and the composition runs:
    C15 - the staking history of Props/C07.v up to the proxy's claimRewardsWithNewValue (position 3,
          700000 -> 800000) and unstakeFarmThroughProxy (300000 of the re-minted position with 300000
          staking tokens): both succeed, [Inv] holds, the decoded answers satisfy L4 / L5;
    C16 - a pair with liquidity answers addLiquidity and removeLiquidity, the locked farm of
          Proofs/FarmLockedProofs.v answers enterFarm and an early exitFarm (1 % penalty: 99 of 100 back),
          the energy factory merges two locked tokens (360 and 720 -> 1000 + 3000 = 4000 tokens); the
          proxy endpoints run on these answers and evaluate [x_law] to true. *)
Definition nv_sp_ops : list SP.pop :=
  [SP.PAdmin (ST.SSetRate 10 ST.OWNER 1000); SP.PAdmin (ST.SSetState ST.OWNER 1); SP.PAdmin (ST.STopUp ST.OWNER 1000000000);
   SP.PAdmin (ST.SStart 10 ST.OWNER); SP.PAdmin (ST.SSetPct 10 ST.OWNER 2500); SP.PAdmin (ST.SSetFactors ST.OWNER);
   SP.PStake 12 5 1 1 1000000 [] 0; SP.PStake 15 5 2 2 2500000 [] 0; SP.PStakeProxy 16 5 ST.PROXY 3 700000 [] 0;
   SP.PClaim 20 6 1 1 (1, 600000) 0; SP.PTransfer 2 2 1 500000;
   SP.PStake 30 9 1 1 7 [(2, 500000); (1, 400000)] 0; SP.PCompound 31 9 2 (2, 1000000) [] 0; SP.PUnstake 32 9 2 2 (2, 1000000) 0].

Definition nv_rest_claim : MS.env_claim := MS.mkEC false (2, 5, 1, 800000) 9 500 7 0 0 0.
Definition nv_rest_unstake : MS.env_unstake := MS.mkEU false 500 7 (2, 5, 1, 300000) 0 0 0.

Example C15_laws_nonvacuous :
  Forall SPP.pvalid_op nv_sp_ops /\
  let sp := SPP.preach 1000000 1000000000 1 nv_sp_ops in
  match SP.pstep sp (SP.PClaimNewValue 33 9 ST.PROXY 3 (3, 700000) 800000 0) with
  | Ok (sp', o) =>
      match L15.answer_of_claimRewardsWithNewValue nv_rest_claim o with
      | Some e =>
          MS.law_L4 800000 e = true /\ MS.ec_sfn e = 8 /\ MS.ec_sfa e = 800000 /\ 0 < MS.ec_rs e /\ MS.ec_lpa e = 500 /\
          match SP.pstep sp' (SP.PUnstakeProxy 34 9 ST.PROXY 3 (8, 300000) 300000 0) with
          | Ok (_, o2) =>
              match L15.answer_of_unstakeFarmThroughProxy nv_rest_unstake o2 with
              | Some e2 => MS.law_L5 300000 e2 = true /\ MS.eu_uba e2 = 300000 /\ MS.eu_ubn e2 = 9 /\ 0 < MS.eu_rs e2
              | None => False
              end
          | Err _ => False
          end
      | None => False
      end
  | Err _ => False
  end.
Proof.
  split.
  - unfold nv_sp_ops. repeat (constructor; [cbn; unfold FarmInv.valid_id, ST.PROXY; try lia; exact I|]). constructor.
  - vm_compute. repeat split; reflexivity.
Qed.
