(** C15 (continuation) — the clause "the staked value it registers is the pool's safe price of the position, not
    the spot price", law L7 CHECKED on the real system instead of assumed.

    Props/C15.v [C15_safe_twap] is relative to the premise that the pair answers the proxy as Model/SafePrice.v's
    [QLpDef] on the ring built from the update calls.  tools/sys_metastaking_twap.py keeps an independent ledger of
    those calls (the reserves / LP supply the pair's view answered before the first pair action of every round) and
    Run/MetaTwapRun.v [check_twap] evaluates the premise on it and compares with every value the real staking farm
    registered.  The two theorems say what a passed check means: (1) every registered value equals the law's value
    for the ledger recorded so far; (2) the law's value is the documented time-weighted average of the ledger over
    the default window (real ring capacity MAX_OBSERVATIONS), i.e. a function of START-OF-ROUND reserves only. *)
From MX Require Import Base.Prelude Gen.Params Model.SafePrice Proofs.SafePriceProofs Model.MetaStaking Proofs.MetaStakingProofs Run.MetaTwapRun Proofs.MetaTwapProofs.

Theorem C15_twap_check_sound : forall tr i rus, check_twap i rus tr = [] -> checked rus tr.
Proof. exact check_twap_sound. Qed.
Print Assumptions C15_twap_check_sound.

Theorem C15_twap_law_value : forall us ev o stk_first liq,
  wf_calls us -> (forall u, In u us -> u_round u <= e_now ev) -> pos_upd (cur_upd ev) ->
  get_oldest MAX_OBSERVATIONS (ring_of MAX_OBSERVATIONS us) = Ok o -> ob_round o < e_now ev ->
  let s0 := e_now ev - Z.min DEFAULT_SAFE_PRICE_ROUNDS_OFFSET (e_now ev - ob_round o) in
  law_value us ev stk_first liq =
    Ok (liq * avg (if stk_first then u_r1 else u_r2) us (cur_upd ev) s0 (e_now ev) / avg u_S us (cur_upd ev) s0 (e_now ev)).
Proof. exact law_value_twap. Qed.
Print Assumptions C15_twap_law_value.

(** non-vacuity: the ledger and the registered values of a real history (tools/sys_metastaking_twap.py, seed 180000:
    rounds opened by fixed-output swaps, gaps of 1 / 600 / 750 rounds, third-party liquidity changes) pass the check;
    the same trace with the SPOT valuation of the third position (560 LP at staking-token reserve 836862778 / LP supply
    1015674188 = 461; the documented average over (913, 1513] gives 576) is rejected at that item. *)
Definition real_trace (reg2 : Z) : list titem :=
  [TU 2 1000000579 7000000310 1000000579; TU 5 1014867182 7104066490 1014867182;
   TU 12 1034867193 6967176097 1014867182; TU 762 1045353521 6897515358 1014868803;
   TQ 762 1046192699 6903052492 1015683506 true 9607 9895;
   TU 763 1046192699 6903052492 1015683506;
   TQ 763 1046088074 6903744982 1015683506 true 9607 9895;
   TU 1513 1046088074 6903744982 1015683506;
   TQ 1513 836862778 8634795443 1015674188 true 560 reg2;
   TU 2114 836862778 8634795443 1015674188;
   TQ 2114 836862735 8634794993 1015674135 true 187964 154872;
   TU 2153 836757910 8633713393 1015546911; TU 2163 1256324927 5755484330 1015489640;
   TQ 2163 843937855 3866253861 682156447 true 4 3].

Example C15_twap_nonvacuous :
  check_twap 0 [] (real_trace 576) = [] /\ check_twap 0 [] (real_trace 461) = [8; 50; 576; 461].
Proof. vm_compute. split; reflexivity. Qed.
