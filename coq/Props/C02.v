(** C02 — LP share value never decreases (K/S^2 monotone); no round-trip profit. *)
From MX Require Import Base.Prelude Gen.Params Model.Pair Proofs.PairInv.

(** For every successful operation of the pair (pool operations and all others), cross-multiplied:
    r1*r2 / S^2 <= r1'*r2' / S'^2. *)
Theorem C02_step : forall p op p' o e, PairInv p -> 0 < p_S p -> step p op = Ok (p', o, e) ->
  p_r1 p * p_r2 p * (p_S p' * p_S p') <= p_r1 p' * p_r2 p' * (p_S p * p_S p).
Proof. intros p op p' o e H HS E. exact (proj1 (proj2 (step_spec p op p' o e E H)) HS). Qed.
Print Assumptions C02_step.

(** Any sequence of swaps by any callers (fixed-input, fixed-output, no-fee): LP supply constant, K
    non-decreasing ... *)
Theorem C02_swaps_K : forall ops p, forallb is_swap ops = true -> PairInv p -> 0 < p_S p ->
  p_S (run p ops) = p_S p /\ p_r1 p * p_r2 p <= p_r1 (run p ops) * p_r2 (run p ops).
Proof. exact swaps_K. Qed.
Print Assumptions C02_swaps_K.

(** ... hence the pool never ends with no more of either token and less of one. *)
Theorem C02_swaps_no_profit : forall ops p, forallb is_swap ops = true -> PairInv p -> 0 < p_S p ->
  let p' := run p ops in
  ~ (p_r1 p' <= p_r1 p /\ p_r2 p' <= p_r2 p /\ (p_r1 p' < p_r1 p \/ p_r2 p' < p_r2 p)).
Proof. exact swaps_no_profit. Qed.
Print Assumptions C02_swaps_no_profit.

(** add then immediately remove the minted LP: never more than what was actually deposited *)
Theorem C02_add_remove : forall p c a1 a2 m1 m2 p1 liq u1 u2 e1 n1 n2 p2 x1 x2 e2,
  PairInv p -> 0 < p_S p ->
  ep_add p c a1 a2 m1 m2 = Ok (p1, [liq; u1; u2], e1) ->
  ep_remove p1 c liq n1 n2 = Ok (p2, [x1; x2], e2) ->
  x1 <= u1 /\ x2 <= u2.
Proof. exact add_remove_no_profit. Qed.
Print Assumptions C02_add_remove.

(** Non-vacuity: with fee = 0 a 1-unit-skewed pool still satisfies the hypotheses and the swap succeeds. *)
Example C02_nonvacuous :
  let p := run (init_pair 0 0 None) [SetState OWNER 1; Add 1 1001 10000000000000 1 1] in
  0 < p_S p /\ is_ok (step p (SwapIn 2 1 7 2 1)) = true /\ is_ok (step p (SwapOut 2 2 100000000000000000000 1 1000)) = true.
Proof. vm_compute. repeat split. Qed.
