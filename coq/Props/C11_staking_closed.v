(** farm-staking as ONE closed model (Model/StakingFull.v = Model/StakingPos.v composed with the boosted-yields module as
    farm-staking hosts it): the C11 theorems only the composition can carry.  Statements only; proofs in
    Proofs/StakingFullProofs.v.  (This file continues Props/C11.v; vocabulary as in Props/C05_staking_closed.v.)

      [gview s]  what the no-underflow invariant looks at: the module state, the staking farm's user totals
            ([g_ut] = user_total_farm_position) and its token supply;
      [gpending (gview s) g wk u p]  what get_user_rewards_for_week computes — formula only, NO guard on remaining(week) —
            for recorded user [u] (progress [p], still able to claim week [wk]) from the present state: his present total
            position, his recorded energy decayed to [wk], the week's pool / farm supply / total energy / factors;
      [pool_left b wk]  remaining(wk) once the week's total is frozen, accumulated(wk) before;
      [gowedF ut w wk] / [owedE w wk]  the present total positions / decayed recorded energies of the recorded users who can
            still claim week [wk]. *)
From MX Require Import Base.Prelude Gen.Params Model.Weekly Model.Boosted Model.BoostedHosts Model.Staking Model.StakingPos Model.StakingFull.
From MX Require Import Proofs.FarmInv Proofs.StakingProofs Proofs.StakingPosProofs.
From MX Require Import Proofs.WeeklyProofs Proofs.BoostedProofs Proofs.BoostedHostsProofs Proofs.FarmFullProofs Proofs.StakingFullProofs.

Local Notation MAXW := USER_MAX_CLAIM_WEEKS.
Local Notation utot := StakingPos.utot.

(** ------------------------------------------------------------------ 1. refinement: every C11_hosts_* theorem transfers *)
(** the module half of a closed history is a history of Model/BoostedHosts.v (operation list [hops], produced by the
    closed run itself) ... *)
Theorem C11_staking_closed_refines_host : forall ops s, sx_b (sfull_run s ops) = hrun (sx_b s) (hops s ops).
Proof. exact sfull_run_host. Qed.
Print Assumptions C11_staking_closed_refines_host.

(** ... so the module half of every reachable closed state is a reachable state of the hosted module, with the ghost
    ledger of its own history and C11's invariant: the theorems of Props/C11_hosts.v about [hrun (init_b epoch) ops] /
    [hgrun (init_b epoch, bg0) ops] (formula, once, pool, leftover, factors, no division by zero, conservation) apply to
    [ops := hops (init_sx ...) ops] as they stand *)
Theorem C11_staking_closed_reach : forall dsc apr minub blk epoch ops,
  let s := sxreach dsc apr minub blk epoch ops in
  let sg := hgrun (init_b epoch, bg0) (hops (init_sx dsc apr minub blk epoch) ops) in
  sx_b s = fst sg /\ sx_b s = hrun (init_b epoch) (hops (init_sx dsc apr minub blk epoch) ops) /\
  BoostedProofs.BInv (fst sg) (snd sg).
Proof.
  intros dsc apr minub blk epoch ops s sg. destruct (closed_host_inv dsc apr minub blk epoch ops) as (A & B).
  split; [exact A|]. split; [|exact B]. unfold s, sxreach. rewrite sfull_run_host. reflexivity.
Qed.
Print Assumptions C11_staking_closed_reach.

(** each host operation of the staking farm is the dex/farm operation [base_of] as a state transformer (no locked enter) *)
Theorem C11_staking_closed_module_step : forall s op s' out, sfull_step s op = Ok (s', out) ->
  match sbop_of s op (s_supply (p_s (sx_p s'))) (utot (sx_p s') (user_of op)) with
  | Some bo => Boosted.step (sx_b s) bo = Ok (sx_b s', so_m out) /\ o_b (so_m out) = so_b out
  | None => sx_b s' = sx_b s /\ so_m out = out0 /\ so_b out = 0
  end.
Proof. exact sfull_step_module. Qed.
Print Assumptions C11_staking_closed_module_step.

(** ------------------------------------------------------------------ 2. C11_staking_no_underflow *)
(** Sum form.  In every reachable state and for every completed week: what has been paid for the week plus what ALL
    recorded users who can still claim it would be paid — each amount computed by the hook's formula from the present
    state, without the guard — does not exceed the week's pool (the slices booked in that week). *)
Theorem C11_staking_no_underflow : forall dsc apr minub blk epoch ops wk, 0 < dsc -> 0 < apr -> Forall sxvalid ops ->
  let s := fst (sxgreach dsc apr minub blk epoch ops) in let g := snd (sxgreach dsc apr minub blk epoch ops) in
  wk < bcur_week (sx_b s) ->
  gpaid (xg_b g) wk + usum (gpending (gview s) g wk) (w_prog (b_w (sx_b s))) <= gcuts (xg_b g) wk.
Proof.
  intros dsc apr minub blk epoch ops wk Hd Ha V s g Hw.
  apply (gweek_sum_bound (gview s) g wk); [apply SXInv_G; apply reach_sxinv; assumption | exact Hw].
Qed.
Print Assumptions C11_staking_no_underflow.

(** ... because the positions and energies the week's settlements use never add up to more than the week's totals:
    used so far + still claimable <= farm supply of the week (when the week has a pool) and <= total energy of the week.
    (Totals of distinct users add up to at most the supply; a total grows only for the user being settled — the ORIGINAL
    caller — after his settlement; every change of the supply is recorded for the running week.) *)
Theorem C11_staking_week_totals : forall dsc apr minub blk epoch ops wk, 0 < dsc -> 0 < apr -> Forall sxvalid ops ->
  let s := fst (sxgreach dsc apr minub blk epoch ops) in let g := snd (sxgreach dsc apr minub blk epoch ops) in
  wk < bcur_week (sx_b s) ->
  (En (b_w (sx_b s)) wk = 0 \/ uE g wk + owedE (b_w (sx_b s)) wk <= En (b_w (sx_b s)) wk) /\
  (Fw (sx_b s) wk = 0 \/ gcuts (xg_b g) wk = 0 \/ uF g wk + gowedF (utot (sx_p s)) (b_w (sx_b s)) wk <= Fw (sx_b s) wk) /\
  PIw (sx_b s) g wk.
Proof.
  intros dsc apr minub blk epoch ops wk Hd Ha V s g Hw. pose proof (reach_sxinv dsc apr minub blk epoch ops Hd Ha V) as X. fold s g in X.
  destruct X as [_ _ _ N]. split; [apply (EInv_base _ _ _ (gn_e _ _ N) wk Hw)|]. split; [apply (gn_FI _ _ N wk Hw) | apply (gn_PI _ _ N wk Hw)].
Qed.
Print Assumptions C11_staking_week_totals.

(** the user totals of distinct users never exceed the supply (the fact the position side rests on) *)
Theorem C11_staking_totals_within_supply : forall dsc apr minub blk epoch ops (l : list (Z * progress)), 0 < dsc -> 0 < apr -> Forall sxvalid ops ->
  let s := sxreach dsc apr minub blk epoch ops in
  NoDup (map fst l) -> usum (fun u _ => utot (sx_p s) u) l <= s_supply (p_s (sx_p s)) /\ (forall v, 0 <= utot (sx_p s) v).
Proof.
  intros dsc apr minub blk epoch ops l Hd Ha V s Hnd. pose proof (closed_staking_inv dsc apr minub blk epoch ops Hd Ha V) as I. fold s in I.
  split; [apply (susers_within_supply _ _ I Hnd) | apply (Inv_utot_nn _ I)].
Qed.
Print Assumptions C11_staking_totals_within_supply.

(** Per user: for every week of the claim window and every recorded user who can still claim it, the hook's amount is
    covered by what is left of the pool (= booked - paid). *)
Theorem C11_staking_no_underflow_per_user : forall dsc apr minub blk epoch ops wk u p, 0 < dsc -> 0 < apr -> Forall sxvalid ops ->
  let s := fst (sxgreach dsc apr minub blk epoch ops) in let g := snd (sxgreach dsc apr minub blk epoch ops) in
  bcur_week (sx_b s) - MAXW <= wk < bcur_week (sx_b s) ->
  pfind (w_prog (b_w (sx_b s))) u = Some p -> pr_week p <= wk ->
  pool_left (sx_b s) wk = gcuts (xg_b g) wk - gpaid (xg_b g) wk /\
  hook_amount (fw (xg_b g) wk) (gcuts (xg_b g) wk) (utot (sx_p s) u) (Fw (sx_b s) wk) (energy_at p wk) (En (b_w (sx_b s)) wk)
  <= pool_left (sx_b s) wk.
Proof.
  intros dsc apr minub blk epoch ops wk u p Hd Ha V s g Hw Hp Hle. pose proof (reach_sxinv dsc apr minub blk epoch ops Hd Ha V) as X. fold s g in X.
  apply SXInv_G in X.
  split; [apply (gpool_left_ledger _ _ _ X Hw) | apply (gguard_slack _ _ _ _ _ X Hw Hp Hle)].
Qed.
Print Assumptions C11_staking_no_underflow_per_user.

(** Operationally: in a reachable state the call of get_user_rewards_for_week that the next settlement of ANY such user
    makes for ANY claimable week — with his present position, his recorded energy, the config brought to the current week —
    returns Ok on the state's storage: the guard [remaining -= reward] does not fire (nor does the division, the register
    lookup or the freeze). *)
Theorem C11_staking_no_underflow_hook : forall dsc apr minub blk epoch ops wk u p c cfg, 0 < dsc -> 0 < apr -> Forall sxvalid ops ->
  let s := fst (sxgreach dsc apr minub blk epoch ops) in
  let cw := bcur_week (sx_b s) in
  cw - MAXW <= wk < cw -> pfind (w_prog (b_w (sx_b s))) u = Some p -> pr_week p <= wk ->
  bh_cfg (b_h (sx_b s)) = Some c -> cfg_update c cw None = Ok cfg ->
  exists r, boosted_hook (utot (sx_p s) u) cfg cw (b_h (sx_b s)) (b_w (sx_b s)) wk (energy_at p wk) (En (b_w (sx_b s)) wk) = Ok r.
Proof.
  intros dsc apr minub blk epoch ops wk u p c cfg Hd Ha V s cw Hw Hp Hle Hc Hu.
  apply (ghook_total (gview s) (snd (sxgreach dsc apr minub blk epoch ops)) wk u p c cfg); try assumption.
  apply SXInv_G. apply reach_sxinv; assumption.
Qed.
Print Assumptions C11_staking_no_underflow_hook.

(** At the endpoints: in a reachable state the boosted-yields half of stakeFarm / stakeFarmThroughProxy / claimRewards /
    claimRewardsWithNewValue / compoundRewards / unstakeFarm / unstakeFarmThroughProxy / mergeFarmTokens /
    claimBoostedRewards cannot abort, whoever calls for whichever original caller with whatever payments and stored energy
    entry ([sraw_ok]: its locked-token total is a BigUint; claimBoostedRewards: the user has a position): no
    remaining(week), bucket, total-energy or locked-token counter would go negative, no division by zero, no register or
    freeze failure.  ([supply], [posa] >= 0: what the staking half leaves behind.) *)
Theorem C11_staking_no_underflow_endpoint : forall dsc apr minub blk epoch ops op u supply posa, 0 < dsc -> 0 < apr -> Forall sxvalid ops ->
  let s := fst (sxgreach dsc apr minub blk epoch ops) in
  sclaim_user op = Some u -> sraw_ok op -> 0 <= supply -> 0 <= posa ->
  (forall c raw, op = SXClaimBoosted c raw -> utot (sx_p s) c <> 0) ->
  exists r, run_h (sx_b s) (hop_of s op supply posa) = Ok r.
Proof.
  intros dsc apr minub blk epoch ops op u supply posa Hd Ha V s Hcu Hraw HS HP Hcb.
  apply (smodule_half_total s (snd (sxgreach dsc apr minub blk epoch ops)) op u supply posa); try assumption. apply reach_sxinv; assumption.
Qed.
Print Assumptions C11_staking_no_underflow_endpoint.

(** ------------------------------------------------------------------ non-vacuity *)
(** the history of Props/C05_staking_closed.v: week 1 has pool 500, farm supply 400, both stakers' positions (100 + 300) are
    used by its two settlements (250 + 240 <= 500), the invariant's position sum is exactly the supply *)
Example C11_staking_closed_nonvacuous :
  let ops := [SXSetRate 100 1000; SXSetState 100 1; SXTopUp 100 1000000000; SXStart 100; SXSetPct 100 2500; SXSetFactors 100 (mkFac 2 3 2 1 1);
              SXStake 1 1 100 [] (Some (mkEn 7000 5 10)); SXTime 2 0; SXStakeProxy 50 2 300 [] (Some (mkEn 3000 5 10));
              SXTime 5 7; SXClaimBoosted 1 (Some (mkEn 7000 5 10))] in
  let sg := sxgreach 1000000 1000000000000 3 10 5 ops in let s := fst sg in let g := snd sg in
  bcur_week (sx_b s) = 2 /\ gcuts (xg_b g) 1 = 500 /\ gpaid (xg_b g) 1 = 250 /\
  usum (gpending (gview s) g 1) (w_prog (b_w (sx_b s))) = 240 /\ uF g 1 = 100 /\ gowedF (utot (sx_p s)) (b_w (sx_b s)) 1 = 300 /\
  Fw (sx_b s) 1 = 400 /\ pool_left (sx_b s) 1 = 250.
Proof. vm_compute. repeat split. Qed.
