(** C02, continued — K / S^2 over WHOLE histories.  Props/C02.v states the step ([C02_step]) and the swap-only
    corollaries; here the step is composed over every operation sequence of the pair model (adds, removes,
    buy-back removes, the three swap kinds, LP transfers, donations, configuration calls, failed calls), which is
    the form "for every reachable pool state" of the property.  Statements only; proofs in Proofs/PairHistory.v. *)
From MX Require Import Base.Prelude Gen.Params Model.Pair Proofs.PairInv Proofs.PairHistory.

(** From any initialised state, after ANY history: the LP supply is still positive and
    r1*r2 / S^2 <= r1'*r2' / S'^2 (cross-multiplied). *)
Theorem C02_run_K : forall ops p, PairInv p -> 0 < p_S p ->
  0 < p_S (run p ops) /\
  p_r1 p * p_r2 p * (p_S (run p ops) * p_S (run p ops))
    <= p_r1 (run p ops) * p_r2 (run p ops) * (p_S p * p_S p).
Proof. exact run_K. Qed.
Print Assumptions C02_run_K.

(** The permanently locked minimum liquidity is still held by the pair itself after any history
    (what keeps S > 0, hence the order above transitive). *)
Theorem C02_run_S_floor : forall ops p, PairInv p -> 0 < p_S p ->
  MINIMUM_LIQUIDITY <= lp_of (run p ops) SELF.
Proof. exact run_S_floor. Qed.
Print Assumptions C02_run_S_floor.

(** A holder of [l] LP units: the (un-floored) product of what the units redeem for never decreases over any
    history — (l*r1/S)*(l*r2/S), cross-multiplied. *)
Theorem C02_run_share_value : forall ops p l, PairInv p -> 0 < p_S p -> 0 <= l ->
  (l * l) * (p_r1 p * p_r2 p) * (p_S (run p ops) * p_S (run p ops))
    <= (l * l) * (p_r1 (run p ops) * p_r2 (run p ops)) * (p_S p * p_S p).
Proof. exact run_share_value. Qed.
Print Assumptions C02_run_share_value.

(** Non-vacuity: a mixed history (add, swaps, failed call, remove) from a reachable initialised state. *)
Example C02_run_nonvacuous :
  let p := run (init_pair 300 50 None) [SetState OWNER 1; Add 1 1001 10000000000000 1 1] in
  let p' := run p [SwapIn 2 1 7 2 1; SwapOut 2 2 100000000000000000000 1 1000; SwapIn 2 1 0 2 1] in
  0 < p_S p /\ 0 < p_S p' /\ p_r1 p * p_r2 p < p_r1 p' * p_r2 p'.
Proof. vm_compute. repeat split. Qed.

(** The two-pair world (the pair and the trusted pair its fee slices are swapped through, without fee): over every
    history BOTH pools keep a positive LP supply and K / S^2 non-decreasing — the fee hand-off neither drains the
    sender below its own curve nor the receiving pair. *)
Theorem C02_world_run_K : forall ops w, WorldInv w -> 0 < p_S (w_p w) -> 0 < p_S (w_q w) ->
  (0 < p_S (w_p (wrun w ops)) /\
   p_r1 (w_p w) * p_r2 (w_p w) * (p_S (w_p (wrun w ops)) * p_S (w_p (wrun w ops)))
     <= p_r1 (w_p (wrun w ops)) * p_r2 (w_p (wrun w ops)) * (p_S (w_p w) * p_S (w_p w))) /\
  (0 < p_S (w_q (wrun w ops)) /\
   p_r1 (w_q w) * p_r2 (w_q w) * (p_S (w_q (wrun w ops)) * p_S (w_q (wrun w ops)))
     <= p_r1 (w_q (wrun w ops)) * p_r2 (w_q (wrun w ops)) * (p_S (w_q w) * p_S (w_q w))).
Proof. exact wrun_K. Qed.
Print Assumptions C02_world_run_K.

(** No round-trip profit for ANY operation mix: a history that returns the LP supply to its starting value (swaps by
    anyone, liquidity added and later removed, donations, fee hand-offs, failed calls) never leaves the pool with no
    more of either token and strictly less of one.  ([C02_swaps_no_profit] is the swap-only instance.) *)
Theorem C02_run_no_profit : forall ops p, PairInv p -> 0 < p_S p -> p_S (run p ops) = p_S p ->
  ~ (p_r1 (run p ops) <= p_r1 p /\ p_r2 (run p ops) <= p_r2 p /\
     (p_r1 (run p ops) < p_r1 p \/ p_r2 (run p ops) < p_r2 p)).
Proof. exact run_same_S_no_profit. Qed.
Print Assumptions C02_run_no_profit.

(** Non-vacuity of [C02_run_no_profit]: liquidity added, a swap by a third party, the liquidity removed again — the LP
    supply is back at its starting value and the hypotheses hold on a reachable state. *)
Example C02_run_no_profit_nonvacuous :
  let p := run (init_pair 300 50 None) [SetState OWNER 1; Add 1 1001 10000000000000 1 1] in
  let h := [Add 2 500 5000000000000 1 1; SwapIn 3 1 70 2 1; Remove 2 499 1 1] in
  0 < p_S p /\ p_S (run p h) = p_S p /\ p_r1 p < p_r1 (run p h).
Proof. vm_compute. repeat split. Qed.
