(** C16 (continuation) — Proxy DEX with SEVERAL intermediated pairs: every wrapped LP token is backed by
    LP tokens OF THE LP TOKEN ID RECORDED IN IT, which the proxy holds; merging never mixes LP tokens.

    Props/C16.v states the property on Model/ProxyDex.v, which has one intermediated pair: there "the LP
    tokens recorded in it" is one token and WrappedLpTokenAttributes::can_be_merged_externally_with (same
    lp_token_id && same locked token id) can never fire.  Model/ProxyMulti.v is the same contract with two
    intermediated pairs, [lp_token_id] in every wrapped LP position and the proxy's LP balance per LP token
    id, with the merge guards where the Rust evaluates them (against the FIRST token of the merge; the
    merged token takes the first token's lp_token_id).  Environment / interface laws ([x_law]) exactly as in
    Props/C16.v (A-ENV-C16).  Correspondence: Run/ProxyMultiRun.v on the real system with two real pairs
    (tools/sys_proxydex_multi.py), per-pair LP balances and the lp_token_id of every wrapped nonce read
    from the token attributes. *)
From MX Require Import Base.Prelude Gen.Params Model.ProxyDex Proofs.ProxyDexProofs Model.ProxyMulti Proofs.ProxyMultiProofs.

(** ------------------------------------------------------------------ backed, per LP token id *)
(** [MBacked s] (Proofs/ProxyMultiProofs.v), for all positions at once:
      for EVERY pair p: LP tokens of p held   >= wrapped LP tokens in users' hands whose attributes record p's LP token;
      (the amounts in users' hands per nonce add up to the users' balances);
      farm tokens held (f)      >= outstanding supply of the wrapped farm positions recording f;
      wrapped LP held (n)       >= dead supply of n + outstanding supply of the wrapped farm positions recording n;
      locked tokens held (k)    >= sum over wrapped LP positions recording k of floor(L * live / T)
                                   + outstanding supply of the wrapped farm positions recording k. *)
Theorem C16_multi_backed : forall s, mreach s -> MBacked s.
Proof. exact mreach_backed. Qed.
Print Assumptions C16_multi_backed.

(** over every lawful history, using both pairs in any interleaving *)
Theorem C16_multi_backed_run : forall ops, mlawful minit ops = true -> MBacked (mrun minit ops).
Proof. exact mrun_backed. Qed.
Print Assumptions C16_multi_backed_run.

Theorem C16_multi_backed_step : forall s o s' x, mstep s o = Ok (s', x) -> x_law x = true -> MBacked s -> MBacked s'.
Proof. exact mstep_backed. Qed.
Print Assumptions C16_multi_backed_step.

(** read per pair *)
Theorem C16_multi_backed_pair : forall s p, MBacked s ->
  sumf (fun w => if ml_pair w =? p then ml_user w else 0) (m_wlp s) <= aget (m_lp s) p /\
  sumf ml_user (m_wlp s) = asum (m_hlp s).
Proof. exact mbacked_pair. Qed.
Print Assumptions C16_multi_backed_pair.

(** ------------------------------------------------------------------ merging wrapped LP tokens: one pair only *)
(** a successful mergeWrappedLpTokens: every input records ONE LP token id (pair) and one locked token id; the
    merged token records that pair, that locked token id and exactly the sum of the inputs; the proxy's LP
    balance of every pair is unchanged; nothing is minted or burned *)
Theorem C16_merge_same_pair_only : forall s u ps e s' x, mep_merge_wlp s u ps e = Ok (s', x) ->
  exists pid lid,
    Forall (fun p => exists w, getn (m_wlp s) (p_non p) = Some w /\ ml_pair w = pid /\ ml_lid w = lid) ps /\
    let n := next_nonce (m_wlp s) in
    x_outs x = [(TK_WLP, n, sum_amt ps)] /\
    getn (m_wlp s') n = Some (mkMWlp pid lid (sum_amt ps) (fst (v_fact e)) (snd (v_fact e)) (sum_amt ps) 0 (sum_amt ps)) /\
    (forall q, aget (m_lp s') q = aget (m_lp s) q) /\
    x_mint x = 0 /\ x_burn x = 0 /\ x_lburn x = (0, 0) /\ x_energy x = None.
Proof. exact merge_same_pair_only. Qed.
Print Assumptions C16_merge_same_pair_only.

(** wrapped LP tokens of different pairs (or recording different locked token ids) in one merge: the
    transaction fails, the state is unchanged — in ANY state, for any position of the two tokens in the list *)
Theorem C16_merge_across_pairs_fails : forall s u ps e p q wp wq, In p ps -> In q ps ->
  getn (m_wlp s) (p_non p) = Some wp -> getn (m_wlp s) (p_non q) = Some wq ->
  ml_pair wp <> ml_pair wq \/ ml_lid wp <> ml_lid wq ->
  is_ok (mstep s (MMergeWlp u ps e)) = false /\ mstep_total s (MMergeWlp u ps e) = s.
Proof. exact merge_across_pairs_fails. Qed.
Print Assumptions C16_merge_across_pairs_fails.

(** addLiquidityProxy(pair) with merge: every wrapped LP token merged in records THAT pair's LP token; the new
    token records the pair and LP minted + sum of the inputs; only that pair's LP balance moves, by the LP minted *)
Theorem C16_add_merge_same_pair_only : forall s u pid p1 p2 extra e s' x, mep_add_liq s u pid p1 p2 extra e = Ok (s', x) ->
  let lp := fst (fst (v_pair e)) in
  let lid := if p_tok p1 =? TK_LOCKED then p_tok p1 else p_tok p2 in
  pair_ok s pid = true /\
  Forall (fun p => exists w, getn (m_wlp s) (p_non p) = Some w /\ ml_pair w = pid /\ ml_lid w = lid) extra /\
  (exists w, getn (m_wlp s') (next_nonce (m_wlp s)) = Some w /\ ml_pair w = pid /\ ml_T w = lp + sum_amt extra /\
             ml_user w = lp + sum_amt extra) /\
  (forall q, aget (m_lp s') q = aget (m_lp s) q + (if pid =? q then lp else 0)).
Proof. exact add_merge_same_pair_only. Qed.
Print Assumptions C16_add_merge_same_pair_only.

(** removeLiquidityProxy(pair) with a wrapped LP token recording another pair's LP token fails *)
Theorem C16_remove_other_pair_fails : forall s u pid p e w, getn (m_wlp s) (p_non p) = Some w -> ml_pair w <> pid ->
  is_ok (mstep s (MRemoveLiq u pid p e)) = false /\ mstep_total s (MRemoveLiq u pid p e) = s.
Proof. exact remove_other_pair_fails. Qed.
Print Assumptions C16_remove_other_pair_fails.

(** ------------------------------------------------------------------ merging wrapped farm tokens: one farm only *)
(** a successful mergeWrappedFarmTokens(farm): every input is a position of THAT farm with one kind of proxy
    farming token; if these are wrapped LP tokens they record one LP token id; the merged token is a position of
    the farm, of the summed amount when the farm's answer obeys its law; no LP balance moves *)
Theorem C16_merge_same_farm_only : forall s u farm ps e s' x, mep_merge_wfm s u farm ps e = Ok (s', x) ->
  exists kind,
    Forall (fun p => exists w, getn (m_wfm s) (p_non p) = Some w /\ wf_farm w = farm /\ wf_kind w = kind) ps /\
    (kind <> 0 -> exists pid lid,
       Forall (fun p => exists w wl, getn (m_wfm s) (p_non p) = Some w /\ getn (m_wlp s) (wf_pn w) = Some wl /\
                                     ml_pair wl = pid /\ ml_lid wl = lid) ps) /\
    let m := next_nonce (m_wfm s) in
    (exists amt, x_outs x = [(TK_WFM, m, amt)] /\ (x_law x = true -> amt = sum_amt ps) /\
       exists w, getn (m_wfm s') m = Some w /\ wf_farm w = farm /\ wf_kind w = (if kind =? 0 then 0 else 1) /\ wf_T w = amt) /\
    (forall q, aget (m_lp s') q = aget (m_lp s) q).
Proof. exact merge_same_farm_only. Qed.
Print Assumptions C16_merge_same_farm_only.

Theorem C16_merge_across_farms_fails : forall s u farm ps e p q wp wq, In p ps -> In q ps ->
  getn (m_wfm s) (p_non p) = Some wp -> getn (m_wfm s) (p_non q) = Some wq ->
  wf_farm wp <> wf_farm wq \/ wf_kind wp <> wf_kind wq ->
  is_ok (mstep s (MMergeWfm u farm ps e)) = false /\ mstep_total s (MMergeWfm u farm ps e) = s.
Proof. exact merge_across_farms_fails. Qed.
Print Assumptions C16_merge_across_farms_fails.

Theorem C16_merge_other_farm_fails : forall s u farm ps e p wp, In p ps -> getn (m_wfm s) (p_non p) = Some wp ->
  wf_farm wp <> farm ->
  is_ok (mstep s (MMergeWfm u farm ps e)) = false /\ mstep_total s (MMergeWfm u farm ps e) = s.
Proof. exact merge_other_farm_fails. Qed.
Print Assumptions C16_merge_other_farm_fails.

(** ------------------------------------------------------------------ non-vacuity
    A history executed on the real composed system with two pairs (the trace checker agrees on it): positions in
    BOTH pairs in one hand; merges across the pairs are refused in both orders and through addLiquidityProxy,
    a merge within pair 1 succeeds and records 16000 = 7000 + 9000 of pair 1's LP token with no LP balance moving;
    positions in both farms, merges across the farms refused; removal naming the other pair refused, then
    accepted on the right pair (4000 of pair 1's LP leave); pair 1's LP refused by the LP farm.  The responses
    obey the laws; per-pair backing holds with equality in this state. *)
Example C16_multi_nonvacuous :
  mlawful minit mex_ops = true /\
  let s := mrun minit mex_ops in
  m_lp s = [(0, 80000); (1, 76000)] /\
  sumf (fun w => if ml_pair w =? 0 then ml_user w else 0) (m_wlp s) = 80000 /\
  sumf (fun w => if ml_pair w =? 1 then ml_user w else 0) (m_wlp s) = 76000 /\
  map ml_pair (m_wlp s) = [0; 1; 1; 1] /\ length (m_wfm s) = 2%nat /\
  (* the refused operations: 3, 4 merge across pairs; 6 add with merge across pairs; 9, 10 merge across farms;
     11 removal naming the other pair; 13 pair 1's LP into the LP farm *)
  map (fun i => is_ok (mstep (mrun minit (firstn i mex_ops)) (nth i mex_ops (MSetPair 0 0 true)))) [3; 4; 6; 9; 10; 11; 13]%nat
    = [false; false; false; false; false; false; false] /\
  match mstep (mrun minit (firstn 5 mex_ops)) (nth 5 mex_ops (MSetPair 0 0 true)) with
  | Ok (s', x) => x_outs x = [(TK_WLP, 4, 16000)] /\ m_lp s' = [(0, 100000); (1, 80000)] /\
                  getn (m_wlp s') 4 = Some (mkMWlp 1 TK_LOCKED 16000 1 32000 16000 0 16000)
  | Err _ => False
  end.
Proof. vm_compute. repeat split. Qed.
