(** C09 — Locking is 1:1 and time-locked; early exit costs exactly the documented penalty.
    Statements only; the proofs are in Proofs/PenaltyProofs.v, the model in Model/Penalty.v.

    Reading guide.  Token 0 of the model's ledger is the base asset, token e >= 1 the LOCKED nonce
    whose unlock epoch is e; [tot f L] sums the balances of the (holder, token) class f, [bal L h t]
    is one balance, [delta f h t a] = a if (h, t) is in f, else 0.  [UNSTAKE] is the token-unstake
    contract (escrow).  [wf_opts] is exactly what addLockOptions guarantees (first theorem).
    [is_floor q n d] says q = floor(n / d) by cross-multiplication. *)
From MX Require Import Base.Prelude Gen.Params Model.Penalty Proofs.PenaltyProofs.

(** ------------------------------------------------------------------ option lists *)
(** every list addLockOptions stores (from an empty or a valid list, any arguments): non-empty,
    at most MAX_LOCK_OPTIONS, epochs strictly increasing and >= one year, percentages strictly
    increasing within [0, MAXP] *)
Theorem C09_options_accepted_are_wf : forall old new l,
  old = [] \/ wf_opts old -> add_lock_options old new = Ok l -> wf_opts l.
Proof. exact add_lock_options_wf. Qed.
Print Assumptions C09_options_accepted_are_wf.

(** ------------------------------------------------------------------ the penalty function *)
(** on ANY segment [a, b] of (0,0) :: options that contains the remaining time x, the full-unlock
    percentage is floor( (p_a*(e_b - x) + p_b*(x - e_a)) / (e_b - e_a) ) *)
Theorem C09_pen_exact : forall l x a b,
  wf_opts l -> adj a b ((0, 0) :: l) -> fst a <= x <= fst b ->
  exists q, pct_full l x = Ok q /\
            is_floor q (snd a * (fst b - x) + snd b * (x - fst a)) (fst b - fst a).
Proof. exact pen_exact. Qed.
Print Assumptions C09_pen_exact.

(** ... and every remaining time up to the longest option lies on such a segment; beyond it the
    computation is refused *)
Theorem C09_pen_segment_exists : forall l x, wf_opts l -> 0 <= x <= e_last l ->
  exists a b, adj a b ((0, 0) :: l) /\ fst a <= x <= fst b.
Proof. exact pen_segment_exists. Qed.
Print Assumptions C09_pen_segment_exists.

Theorem C09_pen_fails_beyond_longest_option : forall l x, e_last l < x -> is_ok (pct_full l x) = false.
Proof. exact pen_fails_beyond. Qed.
Print Assumptions C09_pen_fails_beyond_longest_option.

(** monotone in the remaining time *)
Theorem C09_pen_monotone : forall l x y, wf_opts l -> 0 <= x -> x <= y -> y <= e_last l ->
  exists qx qy, pct_full l x = Ok qx /\ pct_full l y = Ok qy /\ qx <= qy.
Proof. exact pen_monotone. Qed.
Print Assumptions C09_pen_monotone.

(** never above the largest option (itself at most 100 %), and strictly below 100 % before the
    longest option's full period *)
Theorem C09_pen_bounded : forall l x, wf_opts l -> 0 <= x <= e_last l ->
  exists q, pct_full l x = Ok q /\ 0 <= q <= p_last l /\ p_last l <= MAXP /\ (x < e_last l -> q < MAXP).
Proof. exact pen_bounded. Qed.
Print Assumptions C09_pen_bounded.

(** reduction from [old] to [new] remaining epochs: (p_old - p_new) / (1 - p_new) in basis points —
    no underflow (p_new <= p_old), divisor positive (p_new < MAXP), result within [0, MAXP] *)
Theorem C09_pen_partial : forall l old new, wf_opts l -> 0 <= new -> new < old -> old <= e_last l ->
  exists po pn q, pct_full l old = Ok po /\ pct_full l new = Ok pn /\ 0 <= pn <= po /\ po <= MAXP /\ pn < MAXP /\
                  pct_partial l old new = Ok q /\ is_floor q ((po - pn) * MAXP) (MAXP - pn) /\ 0 <= q <= MAXP.
Proof. exact pen_partial. Qed.
Print Assumptions C09_pen_partial.

(** getPenaltyAmount = floor(amount * pct / MAXP) <= amount, and < amount unless pct = 100 % *)
Theorem C09_pen_amount : forall l amt prev new pen, wf_opts l -> 0 <= new -> 0 <= amt ->
  penalty_amount l amt prev new = Ok pen ->
  exists pct, penalty_pct l prev new = Ok pct /\ 0 <= pct <= MAXP /\
              is_floor pen (amt * pct) MAXP /\ 0 <= pen <= amt /\ (pct < MAXP -> 0 < amt -> pen < amt).
Proof. exact pen_amount. Qed.
Print Assumptions C09_pen_amount.

(** ------------------------------------------------------------------ all histories *)
(** the invariant holds after every history of operations (any callers, any arguments, any order;
    a failed transaction changes nothing) from every deployment init accepts *)
Theorem C09_reach : forall os unbond burn c now funds ops,
  init_cfg os unbond burn = Ok c -> 0 <= now ->
  Forall (fun ub => 0 <= snd ub /\ fst ub <> UNSTAKE) funds ->
  Inv (funds_total funds) (run (init_state c now funds) ops).
Proof. intros. apply run_inv. eapply init_inv; eauto. Qed.
Print Assumptions C09_reach.

Theorem C09_step : forall b0 s op s' o, Inv b0 s -> step s op = Ok (s', o) -> Inv b0 s'.
Proof. exact step_inv. Qed.
Print Assumptions C09_step.

(** supply ledger: base asset minted by the unlock paths never exceeds base asset burned by the
    lock paths plus LOCKED emitted by lockVirtual; the base-asset supply never exceeds the initial
    supply plus that emission *)
Theorem C09_supply : forall b0 s, Inv b0 s ->
  g_bmint (l_g s) <= g_bburn_lock (l_g s) + g_bburn_cancel (l_g s) + g_emit (l_g s) /\
  base_supply s <= b0 + g_emit (l_g s).
Proof. exact supply_ledger. Qed.
Print Assumptions C09_supply.

(** escrow: the unstake contract holds exactly the base asset and the LOCKED tokens its queues record,
    and every entry releases a positive amount not above what was locked *)
Theorem C09_escrow_backed : forall b0 s, Inv b0 s ->
  bal (l_led s) UNSTAKE 0 = qsum en_un (l_q s) /\
  (forall e, 0 < e -> bal (l_led s) UNSTAKE e = qsum (lk_at e) (l_q s)) /\
  Forall (fun en => 0 < en_un en <= en_lk en) (l_q s).
Proof. exact escrow_backed. Qed.
Print Assumptions C09_escrow_backed.

(** ------------------------------------------------------------------ lock / unlock *)
Theorem C09_lock_1to1 : forall s c amt le dest s' o, ep_lock s c amt le dest = Ok (s', o) ->
  exists unlock,
    unlock = start_of_month (l_now s + le) /\ is_listed (opts s) le = true /\
    l_now s < unlock <= l_now s + le /\ l_now s + le < unlock + EPOCHS_PER_MONTH /\ unlock mod EPOCHS_PER_MONTH = 0 /\
    0 < amt /\ o = [unlock; amt] /\
    (forall f, tot f (l_led s') = tot f (l_led s) - delta f c 0 amt + delta f dest unlock amt) /\
    g_bburn_lock (l_g s') = g_bburn_lock (l_g s) + amt /\ g_lmint (l_g s') = g_lmint (l_g s) + amt /\
    g_bmint (l_g s') = g_bmint (l_g s) /\ g_lburn (l_g s') = g_lburn (l_g s) /\
    l_q s' = l_q s /\ l_fees s' = l_fees s.
Proof. exact lock_char. Qed.
Print Assumptions C09_lock_1to1.

Theorem C09_unlock_1to1 : forall s c ps s' o, ep_unlock s c ps = Ok (s', o) ->
  c <> UNSTAKE /\ paused s = false /\ ps <> [] /\
  Forall (fun p => 0 < fst p <= l_now s /\ 0 < snd p) ps /\
  o = [pay_total ps] /\
  (forall f, tot f (l_led s') = tot f (l_led s) + pay_delta f c ps) /\
  g_bmint (l_g s') = g_bmint (l_g s) + pay_total ps /\ g_lburn (l_g s') = g_lburn (l_g s) + pay_total ps /\
  same_frame s s'.
Proof. exact unlock_char. Qed.
Print Assumptions C09_unlock_1to1.

Theorem C09_unlock_guard : forall s c ps e amt, In (e, amt) ps -> l_now s < e -> is_ok (ep_unlock s c ps) = false.
Proof. exact unlock_guard. Qed.
Print Assumptions C09_unlock_guard.

Theorem C09_unlock_live : forall b0 s c e amt, Inv b0 s -> c <> UNSTAKE -> paused s = false ->
  0 < e <= l_now s -> 0 < amt <= bal (l_led s) c e ->
  exists s', ep_unlock s c [(e, amt)] = Ok (s', [amt]) /\ bal (l_led s') c 0 = bal (l_led s) c 0 + amt.
Proof. exact unlock_live. Qed.
Print Assumptions C09_unlock_live.

(** before its unlock epoch a user's LOCKED position shrinks only through unlockEarly /
    reduceLockPeriod (the penalty paths) or a 1:1 re-lock for longer *)
Theorem C09_early_exit_only_by_penalty : forall b0 s op s' o h e,
  Inv b0 s -> step s op = Ok (s', o) -> h <> UNSTAKE -> l_now s < e ->
  bal (l_led s') h e < bal (l_led s) h e ->
  exists amt, op = UnlockEarly h e amt \/ (exists le, op = Reduce h e amt le) \/ (exists le, op = Extend h e amt le).
Proof. exact early_exit_only_by_penalty. Qed.
Print Assumptions C09_early_exit_only_by_penalty.

(** base asset reaches a user only through unlockTokens (after the unlock epoch) or
    claimUnlockedTokens (after the unbond period) *)
Theorem C09_base_credit_only_by_unlock_or_claim : forall b0 s op s' o h,
  Inv b0 s -> step s op = Ok (s', o) -> h <> UNSTAKE ->
  bal (l_led s) h 0 < bal (l_led s') h 0 ->
  (exists ps, op = Unlock h ps) \/ op = Claim h.
Proof. exact base_credit_only_by_unlock_or_claim. Qed.
Print Assumptions C09_base_credit_only_by_unlock_or_claim.

(** ------------------------------------------------------------------ the penalty paths *)
Theorem C09_unlock_early : forall b0 s c e amt s' o, Inv b0 s -> ep_unlock_early s c e amt = Ok (s', o) ->
  exists pct pen,
    c <> UNSTAKE /\ l_now s < e /\ 0 < amt /\
    pct_full (opts s) (e - l_now s) = Ok pct /\ 0 <= pct <= MAXP /\
    is_floor pen (amt * pct) MAXP /\ 0 <= pen < amt /\
    o = [] /\
    l_q s' = l_q s ++ [mkE c (l_now s + c_unbond (l_cfg s)) e amt (amt - pen)] /\
    (forall f, tot f (l_led s') = tot f (l_led s) - delta f c e amt + delta f UNSTAKE e amt + delta f UNSTAKE 0 (amt - pen)) /\
    bal (l_led s') c 0 = bal (l_led s) c 0 /\
    g_bmint (l_g s') = g_bmint (l_g s) + (amt - pen) /\ g_lburn (l_g s') = g_lburn (l_g s) /\
    g_lmint (l_g s') = g_lmint (l_g s) /\ l_fees s' = l_fees s /\ l_cfg s' = l_cfg s /\ l_now s' = l_now s.
Proof. exact unlock_early_char. Qed.
Print Assumptions C09_unlock_early.

Theorem C09_reduce : forall b0 s c e amt le s' o, Inv b0 s -> ep_reduce s c e amt le = Ok (s', o) ->
  exists nu po pn pct pen b,
    c <> UNSTAKE /\ is_listed (opts s) le = true /\ 0 < amt /\
    nu = start_of_month (l_now s + le) /\ l_now s < nu < e /\
    pct_full (opts s) (e - l_now s) = Ok po /\ pct_full (opts s) (nu - l_now s) = Ok pn /\
    0 <= pn <= po /\ po <= MAXP /\ pn < MAXP /\
    is_floor pct ((po - pn) * MAXP) (MAXP - pn) /\ 0 <= pct <= MAXP /\
    is_floor pen (amt * pct) MAXP /\ 0 <= pen < amt /\
    is_floor b (pen * c_burn (l_cfg s)) MAXPU /\ 0 <= b <= pen /\
    l_fees s' = l_fees s + (pen - b) /\ g_penburn (l_g s') = g_penburn (l_g s) + b /\
    o = [nu; amt - pen] /\
    (forall f, tot f (l_led s') = tot f (l_led s) - delta f c e amt + delta f c nu (amt - pen)) /\
    g_bmint (l_g s') = g_bmint (l_g s) /\ g_lmint (l_g s') = g_lmint (l_g s) + (amt - pen) /\
    g_lburn (l_g s') = g_lburn (l_g s) + amt /\ l_q s' = l_q s /\ l_cfg s' = l_cfg s /\ l_now s' = l_now s.
Proof. exact reduce_char. Qed.
Print Assumptions C09_reduce.

(** the split of a penalty: floor(pen * burn% / MAXPU) burned, the rest to the fees collector *)
Theorem C09_split : forall burn pen b rest, split_penalty burn pen = Ok (b, rest) -> 0 <= burn <= MAXPU -> 0 <= pen ->
  is_floor b (pen * burn) MAXPU /\ rest = pen - b /\ 0 <= b <= pen /\ 0 <= rest.
Proof. exact split_char. Qed.
Print Assumptions C09_split.

(** ------------------------------------------------------------------ unbond queue *)
(** claimUnlockedTokens pays exactly the entries [claimable] selects: from the front of the caller's
    queue, at most MAX_CLAIM_UNLOCKED_TOKENS, only those whose unbond period has ended; each paid
    entry leaves the queue (single payout) *)
Theorem C09_claim : forall b0 s c s' o, Inv b0 s -> ep_claim s c = Ok (s', o) ->
  let paid := claimable (Z.to_nat MAX_CLAIM_UNLOCKED_TOKENS) (l_now s) (view_queue s c) in
  let burn := c_burn (l_cfg s) in
  c <> UNSTAKE /\ paid <> [] /\
  paid = firstn (length paid) (view_queue s c) /\
  Forall (fun en => en_release en <= l_now s) paid /\
  o = map en_un paid /\
  view_queue s' c = skipn (length paid) (view_queue s c) /\
  (forall u, u <> c -> view_queue s' u = view_queue s u) /\
  (forall f, tot f (l_led s') = tot f (l_led s) + qsum (pay_entry f c) paid) /\
  l_fees s' = l_fees s + qsum (fun en => pen_of en - burn_of burn en) paid /\
  g_penburn (l_g s') = g_penburn (l_g s) + qsum (burn_of burn) paid /\
  g_lburn (l_g s') = g_lburn (l_g s) + qsum en_lk paid /\
  claim_frame s s'.
Proof. exact claim_char. Qed.
Print Assumptions C09_claim.

Theorem C09_claim_too_early : forall s c en t, view_queue s c = en :: t -> l_now s < en_release en ->
  is_ok (ep_claim s c) = false.
Proof. exact claim_too_early. Qed.
Print Assumptions C09_claim_too_early.

Theorem C09_cancel : forall b0 s c s' o, Inv b0 s -> ep_cancel s c = Ok (s', o) ->
  let mine := view_queue s c in
  c <> UNSTAKE /\ paused s = false /\ mine <> [] /\
  o = flat_map (fun en => [en_epoch en; en_lk en]) mine /\
  view_queue s' c = [] /\
  (forall u, u <> c -> view_queue s' u = view_queue s u) /\
  (forall f, tot f (l_led s') = tot f (l_led s) + qsum (cancel_entry f c) mine) /\
  g_bburn_cancel (l_g s') = g_bburn_cancel (l_g s) + qsum en_un mine /\
  g_bmint (l_g s') = g_bmint (l_g s) /\ g_lburn (l_g s') = g_lburn (l_g s) /\ g_lmint (l_g s') = g_lmint (l_g s) /\
  l_fees s' = l_fees s /\ l_cfg s' = l_cfg s /\ l_now s' = l_now s.
Proof. exact cancel_char. Qed.
Print Assumptions C09_cancel.

(** ------------------------------------------------------------------ non-vacuity
    The deployment of the repository's own token-unstake tests (options 1/2/4 years at 40/60/80 %,
    unbond 10, burn 50 %), a history through every endpoint; the numbers are the ones the real
    contracts produce for it (61 released for 100 unlocked early at 355 remaining epochs; 34 LOCKED
    left of 100 reduced from 1425 to 345 remaining epochs; 20 then 53 accumulated fees). *)
Definition c09_example_ops : list lop :=
  [Lock 1 1000 360 1; UnlockEarly 1 360 100; Claim 1; Advance 10; Claim 1; Lock 1 1000 1440 1;
   Reduce 1 1440 100 360; UnlockEarly 1 1440 100; Cancel 1; LockVirtual WLSC 7 720 2; Extend 1 360 50 720;
   SetBurn OWNER 3333; AddOptions OWNER [(1000, 7000)]; Advance 345; Unlock 1 [(360, 884)]; UnlockEarly 2 720 7;
   Advance 10; Claim 2].

Example C09_nonvacuous :
  match init_cfg [(1440, 8000); (360, 4000); (720, 6000)] 10 5000 with
  | Err _ => False
  | Ok c =>
      let s0 := init_state c 5 [(1, 1000000); (2, 1000000)] in
      let s := run s0 c09_example_ops in
      forallb (fun k => Bool.eqb (is_ok (step (run s0 (firstn k c09_example_ops)) (nth k c09_example_ops (Advance 0))))
                                 (negb (k =? 2)%nat)) (seq 0 18) = true /\
      bal (l_led (run s0 (firstn 5 c09_example_ops))) 1 0 = 1000000 - 1000 + 61 /\
      l_fees (run s0 (firstn 5 c09_example_ops)) = 20 /\
      bal (l_led (run s0 (firstn 7 c09_example_ops))) 1 360 = 900 + 34 /\
      l_fees (run s0 (firstn 7 c09_example_ops)) = 53 /\
      l_q s = [] /\ 0 < l_fees s /\ 0 < g_penburn (l_g s) /\
      g_bmint (l_g s) <= g_bburn_lock (l_g s) + g_bburn_cancel (l_g s) + g_emit (l_g s)
  end.
Proof. vm_compute. repeat split; discriminate. Qed.
