(** C10 — Weekly fees: claimers get their energy share once, never more than collected.
    Statements only; proofs are in Proofs/WeeklyProofs.v.

    Vocabulary (Model/FeesCollector.v, Proofs/WeeklyProofs.v):
      [ep_claim f c orig boosted = Ok (f', outs, det)]  a successful claimRewards / claimBoostedRewards;
            [det] is the per-week breakdown [(week, payments)], [outs] what the endpoint returns;
      [claim_user c orig]       whose progress / energy the claim is about;
      [energy_at p w]           the recorded entry [p] decayed to week [w]: max 0 (amount - 7*tokens*(w - p.week));
      [view_total_energy], [view_total_rewards], [view_accumulated], [view_progress], [view_last_global]
                                the contract's views;
      [FWf f]                   well-formedness of a collector state (holds for every reachable state: [C10_reach]). *)
From MX Require Import Base.Prelude Gen.Params Model.Weekly Model.FeesCollector Proofs.WeeklyProofs.

(** every reachable state is well-formed (any deployment epoch, any interleaving, failed transactions revert) *)
Theorem C10_reach : forall epoch ops, FWf (run (init_fc epoch) ops).
Proof. intros. apply run_wf. apply init_wf. Qed.
Print Assumptions C10_reach.

(** Share: for each processed week and reward token the payment is floor(total * energy / total energy)
    ([floor_of] is the cross-multiplied statement), zero shares are not paid, every positive share is;
    nothing is paid for a week in which the user's decayed energy or the week's total energy is zero. *)
Theorem C10_share : forall f c orig boosted f' outs det,
  FWf f -> ep_claim f c orig boosted = Ok (f', outs, det) ->
  forall p w r, view_progress f (claim_user c orig) = Some p -> In (w, r) det ->
    let e := energy_at p w in let E := view_total_energy f w in let tot := view_total_rewards f' w in
    ((e = 0 \/ E = 0) -> r = []) /\
    (0 < e -> 0 < E ->
       (forall t x, In (t, x) r -> exists a, In (t, a) tot /\ floor_of x (a * e) E /\ 0 < x) /\
       (forall t a, In (t, a) tot -> 0 < a * e / E -> In (t, a * e / E) r)).
Proof. exact claim_share_char. Qed.
Print Assumptions C10_share.

(** Window: a claim at week [cw] processes exactly the weeks max(progress.week, cw-4) .. cw-1 (so only
    the four most recent completed weeks), a user without recorded progress gets nothing, and afterwards the
    progress is (current energy, cw) — or empty when the current energy is zero; nobody else's changes. *)
Theorem C10_window : forall f c orig boosted f' outs det,
  FWf f -> ep_claim f c orig boosted = Ok (f', outs, det) ->
  exists cw, current_week f = Ok cw /\
    match view_progress f (claim_user c orig) with
    | None => det = []
    | Some p => pr_week p <= cw /\
                map fst det = zseq (Z.max (pr_week p) (cw - USER_MAX_CLAIM_WEEKS))
                                   (Z.to_nat (Z.min (cw - pr_week p) USER_MAX_CLAIM_WEEKS))
    end /\
    (forall w, In w (map fst det) -> cw - USER_MAX_CLAIM_WEEKS <= w < cw) /\
    view_progress f' (claim_user c orig) =
      (if 0 <? en_amount (energy_entry f (claim_user c orig))
       then Some (mkProg (energy_entry f (claim_user c orig)) cw) else None) /\
    (forall u, u <> claim_user c orig -> view_progress f' u = view_progress f u).
Proof. exact claim_window_char. Qed.
Print Assumptions C10_window.

(** Once: over any history from any deployment, the (user, week) pairs processed by successful claims are
    pairwise distinct. *)
Theorem C10_once : forall epoch ops, NoDup (run_log (init_fc epoch) ops).
Proof. intros. apply run_log_once. apply init_wf. Qed.
Print Assumptions C10_once.

(** Frozen: no operation changes a week's total rewards once set, as long as the week is claimable. *)
Theorem C10_frozen : forall f op f' outs det,
  FWf f -> step f op = Ok (f', outs, det) ->
  forall w, view_total_rewards f w <> [] -> cur_week f' - USER_MAX_CLAIM_WEEKS <= w ->
            view_total_rewards f' w = view_total_rewards f w.
Proof. exact step_rewards_frozen. Qed.
Print Assumptions C10_frozen.

(** ... it is set by the first claim that reaches the week, to the week's accumulated deposits of the known
    tokens (positive ones, token order), which are consumed; the week is a completed one; accumulations of
    the running and later weeks are untouched by claims. *)
Theorem C10_frozen_first_claim : forall f c orig boosted f' outs det,
  FWf f -> ep_claim f c orig boosted = Ok (f', outs, det) ->
  exists cw, current_week f = Ok cw /\
    (forall w, view_total_rewards f w <> [] -> cw - USER_MAX_CLAIM_WEEKS <= w ->
               view_total_rewards f' w = view_total_rewards f w) /\
    (forall w, view_total_rewards f w = [] -> view_total_rewards f' w <> [] ->
               cw - USER_MAX_CLAIM_WEEKS <= w < cw /\
               view_total_rewards f' w =
                 positive_part (map (fun t => (t, view_accumulated (accumulate_additional f cw) w t)) (h_tokens (fc_h f))) /\
               (forall t, In t (h_tokens (fc_h f)) -> view_accumulated f' w t = 0)) /\
    (forall w t, cw <= w -> view_accumulated f' w t = view_accumulated f w t).
Proof. exact ep_claim_frozen. Qed.
Print Assumptions C10_frozen_first_claim.

Theorem C10_frozen_only_claims_set : forall f op f' outs det,
  FWf f -> step f op = Ok (f', outs, det) ->
  forall w, view_total_rewards f w = [] -> view_total_rewards f' w <> [] -> exists c orig b, op = Claim c orig b.
Proof. exact step_rewards_set_by_claim. Qed.
Print Assumptions C10_frozen_only_claims_set.

(** ... and a deposit lands in the running week's accumulation of its token only (claimable from the next
    week on by the previous theorem), changing no weekly state. *)
Theorem C10_deposit : forall f c tok nonce amt f' outs det,
  ep_deposit f c tok nonce amt = Ok (f', outs, det) ->
  exists cw, current_week f = Ok cw /\ fc_w f' = fc_w f /\
    (forall w t, view_accumulated f' w t =
                 view_accumulated f w t + (if (w =? cw) && (t =? tok) then amt else 0)) /\
    (forall t, aget (fc_bal f') t = aget (fc_bal f) t + (if (t =? tok) && (nonce =? 0) then amt else 0)) /\
    mem c (fc_contracts f) = true /\ mem tok (h_tokens (fc_h f)) = true /\ 0 <= amt /\
    (0 < nonce -> tok = LOCKED) /\ 0 <= nonce.
Proof. exact deposit_spec. Qed.
Print Assumptions C10_deposit.

(** Total energy: in every reachable state the total energy of the last globally updated week — the
    denominator of every later claim for that week — is the sum over all participants of their recorded
    energy decayed to that week, clamp0(amount - 7*tokens*(week - recorded week)). *)
Theorem C10_total_energy : forall epoch ops,
  let f := run (init_fc epoch) ops in
  view_total_energy f (view_last_global f) =
  psum (fun p => energy_at p (view_last_global f)) (w_prog (fc_w f)).
Proof. intros. apply total_energy_sum. apply run_finv. apply init_finv. Qed.
Print Assumptions C10_total_energy.

(** ... together with the expiry-bucket invariant [BInv]: every bucket after the first holds exactly the
    tokens of the users whose entry runs out in it, the first at least those, every bucket exactly its
    users' surplus energies (amount mod 7*tokens), the locked-token total is the live users' tokens. *)
Theorem C10_bucket_invariant : forall epoch ops,
  let s := fc_w (run (init_fc epoch) ops) in
  users_ok (w_last s) (w_prog s) /\
  BInv (w_prog s) (w_last s) (w_first s) (w_btok s) (w_bsur s)
       (aget (w_tokens s) (w_last s)) (aget (w_energy s) (w_last s)).
Proof.
  intros. destruct (run_finv ops _ (init_finv epoch)) as (_ & (H1 & H2 & _) & _). split; assumption.
Qed.
Print Assumptions C10_bucket_invariant.

(** ... so that a week of the global shift is exact: the bucket's tokens never exceed the total, the
    [safe_sub] never saturates, and the invariant holds for the next week with the next first bucket. *)
Theorem C10_shift_exact : forall l L F bt bs T E,
  Forall (fun up => 0 <= u_tok (snd up)) l -> BInv l L F bt bs T E ->
  aget bt F <= T /\ (T - aget bt F) * EPOCHS_IN_WEEK + aget bs F <= E /\
  BInv l (L + 1) (F + 1) (aset bt F 0) (aset bs F 0) (T - aget bt F)
       (E - ((T - aget bt F) * EPOCHS_IN_WEEK + aget bs F)).
Proof. exact shift_one. Qed.
Print Assumptions C10_shift_exact.

(** ... and a user touch (the global part of every claim / energy update) never aborts on a reachable state. *)
Theorem C10_touch_never_aborts : forall s cw u cur,
  WInv s -> w_last s <= cw -> 1 <= cw -> 0 <= en_tok cur ->
  exists s2, update_user_energy s cw cur (pfind (w_prog s) u) = Ok s2 /\
    w_prog s2 = w_prog s /\ WInvL (progress_after (w_prog s) u cw cur) s2 /\ w_last s2 = cw.
Proof. exact update_user_energy_spec. Qed.
Print Assumptions C10_touch_never_aborts.

(** Sum: over any history ([grun] = [run] with a ghost ledger: [paid] sums the per-week payments of all
    successful claims, [cred] the deposits credited to a week — depositSwapFees payments and the extra locked
    tokens per block), what was paid out for a (week, token) never exceeds what was deposited for it; the
    same holds for the week's frozen total plus whatever is still accumulated. *)
Theorem C10_sum : forall epoch ops w t,
  let g := snd (grun (init_fc epoch, g0) ops) in let f := fst (grun (init_fc epoch, g0) ops) in
  0 <= paid g w t /\ paid g w t <= cred g w t /\ gR f w t + gA f w t <= cred g w t.
Proof. exact paid_le_credited. Qed.
Print Assumptions C10_sum.

Theorem C10_sum_ledger_is_the_run : forall epoch ops, fst (grun (init_fc epoch, g0) ops) = run (init_fc epoch) ops.
Proof. intros. apply grun_fst. Qed.
Print Assumptions C10_sum_ledger_is_the_run.

(** the arithmetic core: floor shares of claimers whose energies add up to at most the total energy add up
    to at most the total (the energies do add up to at most it: C10_total_energy and the ledger invariant) *)
Theorem C10_sum_core : forall tot E t, 0 < E -> Forall (fun p => 0 <= snd p) tot ->
  forall es, Forall (fun e => 0 <= e) es -> zsum es <= E ->
  zsum (map (fun e => tok_sum (week_share tot e E) t) es) <= tok_sum tot t.
Proof. exact shares_sum_le. Qed.
Print Assumptions C10_sum_core.

(** Solvent: in every reachable state the collector's balance of every fungible fee token covers all that
    can still be claimed — summed over the claimable window (current week and the USER_MAX_CLAIM_WEEKS before
    it): the accumulated deposits plus the not yet paid part of the frozen total.  (Locked-token rewards are
    minted by the locking contract, not held.) *)
Theorem C10_solvent : forall epoch ops t, t <> LOCKED ->
  let g := snd (grun (init_fc epoch, g0) ops) in let f := fst (grun (init_fc epoch, g0) ops) in
  wsum (pot f g t) (cur_week f - USER_MAX_CLAIM_WEEKS) window_len <= aget (fc_bal f) t /\
  (forall w, 0 <= pot f g t w).
Proof. exact balance_covers. Qed.
Print Assumptions C10_solvent.

(** ... and therefore a permitted claim never aborts on a reachable state (not paused; caller whitelisted when
    claiming for somebody else): the global update never underflows, the balances cover every payment —
    "the collector always holds enough to pay". *)
Theorem C10_claim_never_aborts : forall epoch ops c (orig : option Z) (boosted : bool),
  let f := fst (grun (init_fc epoch, g0) ops) in
  fc_paused f = false ->
  (match orig with Some u => (if boosted then mem u (fc_allow f) else mem c (fc_wl f)) = true | None => True end) ->
  exists f' outs det, ep_claim f c orig boosted = Ok (f', outs, det).
Proof.
  intros epoch ops c orig boosted f Hp Hperm.
  destruct (grun_inv ops _ _ (init_finv epoch) (init_dinv epoch)) as (Hi & D).
  apply (ep_claim_never_aborts _ _ c orig boosted Hi D Hp Hperm).
Qed.
Print Assumptions C10_claim_never_aborts.

(** a claim pays from the balance exactly what it reports for the fungible tokens *)
Theorem C10_pays_what_it_reports : forall f c orig boosted f' outs det,
  FWf f -> ep_claim f c orig boosted = Ok (f', outs, det) ->
  outs = unlocked_part (flat_rewards det) ++
         (if 0 <? locked_total (flat_rewards det) then [(LOCKED, locked_total (flat_rewards det))] else []) /\
  forall t, aget (fc_bal f') t = aget (fc_bal f) t - tok_sum (unlocked_part (flat_rewards det)) t.
Proof.
  intros f c orig boosted f' outs det Hwf Hs. destruct (ep_claim_inv _ _ _ _ _ _ _ Hs) as (_ & dest & Hc).
  destruct (claim_rewards_char _ _ _ _ _ _ Hwf Hc) as (cw & _ & _ & _ & Ho & Hp).
  split; [exact Ho | apply (pay_out_effect _ _ _ Hp)].
Qed.
Print Assumptions C10_pays_what_it_reports.

(** Non-vacuity: two users with different locks, deposits of two tokens over two weeks, a user skipping
    six weeks, claims that pay inexact shares. *)
Definition c10_example_ops : list fop :=
  [AddContract OWNER 60; AddToken OWNER 1; AddToken OWNER 2;
   SetEnergy 1 5000 100; SetEnergy 2 3001 10; Claim 1 None false; Claim 2 None false;
   Deposit 60 1 0 1000; Deposit 60 2 0 77; Advance 7;
   Claim 1 None false; Deposit 60 1 0 500; Advance 7; Claim 2 None false; Advance 42; Claim 1 None false].
Example C10_nonvacuous :
  let f := run (init_fc 5) (firstn 10 c10_example_ops) in
  match step f (Claim 1 None false) with
  | Ok (f1, outs, [(1, r)]) =>
      outs = [(1, 624); (2, 48)] /\ r = outs /\ view_total_energy f 1 = 8001 /\
      view_total_rewards f1 1 = [(1, 1000); (2, 77)] /\
      match step (run f1 [Deposit 60 1 0 500; Advance 7]) (Claim 2 None false) with
      | Ok (_, outs2, det2) => outs2 = [(1, 375); (2, 28); (1, 202)] /\ map fst det2 = [1; 2]
      | Err _ => False
      end
  | _ => False
  end /\ run_log (init_fc 5) c10_example_ops = [(1, 1); (2, 1); (2, 2); (1, 5); (1, 6); (1, 7); (1, 8)] /\
  let fg := grun (init_fc 5, g0) c10_example_ops in
  paid (snd fg) 1 1 = 999 /\ cred (snd fg) 1 1 = 1000 /\ paid (snd fg) 2 1 = 202 /\ cred (snd fg) 2 1 = 500 /\
  aget (fc_bal (fst fg)) 1 = 299 /\ view_total_energy (fst fg) 8 = 0 /\ view_last_global (fst fg) = 9.
Proof. vm_compute. repeat split. Qed.
