(** C17 — Price discovery: phase rules, penalty schedule, pro-rata redemption, price floor.
    Statements only; proofs are in Proofs/PriceDiscoveryProofs.v.

    Reading guide.  [wf_cfg c] = a configuration [init] accepts (0 <= min% <= max% < 100%, fixed% < 100%,
    durations >= 0 — durations 0 and 1 are ordinary instances).  [Inv s] = the ledger invariant, which
    holds in every state reachable from any accepted deployment by any history ([C17_reach]).
    [b_nl_end], [b_lin_end], [b_end] are the documented phase boundaries start+d1, +d2, +d3.
    [floor_of q n d] says q = floor(n/d) by cross-multiplication (q*d <= n < (q+1)*d), so a statement
    with [floor_of] is about the documented rational, not a restatement of the code's expression.
    Sides: [true] = launched token / redeem nonce 1, [false] = accepted token / redeem nonce 2. *)
From MX Require Import Base.Prelude Gen.Params Model.PriceDiscovery Proofs.PriceDiscoveryProofs.

(** ------------------------------------------------------------------ phases *)
(** get_current_phase is the documented piecewise function of the block height, for every block and
    every accepted configuration (a duration 0 makes the interval empty: the phase is skipped). *)
Theorem C17_phase : forall c b, wf_cfg c ->
  exists ph, get_current_phase c b = Ok ph /\
    (b < c_start c <-> ph = PhIdle) /\
    (c_start c <= b < b_nl_end c <-> ph = PhNoPenalty) /\
    (b_nl_end c <= b < b_lin_end c <-> exists pct, ph = PhLinear pct) /\
    (b_lin_end c <= b < b_end c <-> ph = PhFixed (c_pfix c)) /\
    (b_end c <= b <-> ph = PhRedeem).
Proof. exact phase_by_block. Qed.
Print Assumptions C17_phase.

(** the phase index is monotone in the block height ... *)
Theorem C17_phase_monotone : forall c b b' ph ph', wf_cfg c -> b <= b' ->
  get_current_phase c b = Ok ph -> get_current_phase c b' = Ok ph' ->
  phase_ix ph <= phase_ix ph'.
Proof. exact phase_mono. Qed.
Print Assumptions C17_phase_monotone.

(** ... and along any history the block height never decreases and the configuration never changes,
    so phases only advance. *)
Theorem C17_phases_only_advance : forall s ops ph ph', Inv s ->
  view_phase s = Ok ph -> view_phase (run s ops) = Ok ph' ->
  phase_ix ph <= phase_ix ph' /\ p_block s <= p_block (run s ops) /\ p_cfg (run s ops) = p_cfg s.
Proof. exact phases_only_advance. Qed.
Print Assumptions C17_phases_only_advance.

(** ------------------------------------------------------------------ gates *)
(** deposits only in phases 1-2, withdrawals only in phases 1-3, redemptions only in phase 4 —
    stated on the documented block intervals. *)
Theorem C17_gates : forall s, wf_cfg (p_cfg s) ->
  (forall c tok amt s' o, ep_deposit s c tok amt = Ok (s', o) ->
     c_start (p_cfg s) <= p_block s < b_lin_end (p_cfg s)) /\
  (forall c n amt s' o, ep_withdraw s c n amt = Ok (s', o) ->
     c_start (p_cfg s) <= p_block s < b_end (p_cfg s)) /\
  (forall c n amt s' o, ep_redeem s c n amt = Ok (s', o) ->
     b_end (p_cfg s) <= p_block s).
Proof. exact gates. Qed.
Print Assumptions C17_gates.

(** ------------------------------------------------------------------ penalty schedule *)
(** Linear phase: percentage = min + floor((max-min) * blocks passed / (duration-1)), no increase for
    a one-block phase; always within [min, max]. *)
Theorem C17_penalty_linear : forall c b pct, wf_cfg c -> get_current_phase c b = Ok (PhLinear pct) ->
  b_nl_end c <= b < b_lin_end c /\
  (exists inc, pct = c_pmin c + inc /\
     (c_dl c <= 1 -> inc = 0) /\
     (1 < c_dl c -> floor_of inc ((c_pmax c - c_pmin c) * (b - b_nl_end c)) (c_dl c - 1))) /\
  c_pmin c <= pct <= c_pmax c.
Proof. exact penalty_linear. Qed.
Print Assumptions C17_penalty_linear.

(** it starts at min on the first block, reaches max on the last block, and never decreases in between *)
Theorem C17_penalty_linear_shape : forall c, wf_cfg c -> 0 < c_dl c ->
  get_current_phase c (b_nl_end c) = Ok (PhLinear (c_pmin c)) /\
  (1 < c_dl c -> get_current_phase c (b_lin_end c - 1) = Ok (PhLinear (c_pmax c))) /\
  (forall b b' p p', b <= b' -> get_current_phase c b = Ok (PhLinear p) ->
     get_current_phase c b' = Ok (PhLinear p') -> p <= p').
Proof. exact penalty_linear_shape. Qed.
Print Assumptions C17_penalty_linear_shape.

(** A withdrawal of [amt] redeem tokens: the percentage in force is 0 in the no-limit phase, the linear
    one in the linear phase, the configured one in the fixed phase; penalty = floor(amt * pct / MAX);
    the caller gets amt - penalty and both the tracked and the real balance fall by exactly that, so
    the penalty stays in the pool; supply and the caller's redeem tokens fall by amt. *)
Theorem C17_withdraw_penalty : forall s c n amt s' o,
  Inv s -> ep_withdraw s c n amt = Ok (s', o) ->
  exists l pct pen,
    side_of_nonce n = Ok l /\ 0 <= amt <= held s l c /\
    c_start (p_cfg s) <= p_block s < b_end (p_cfg s) /\
    ((c_start (p_cfg s) <= p_block s < b_nl_end (p_cfg s) -> pct = 0) /\
     (b_nl_end (p_cfg s) <= p_block s < b_lin_end (p_cfg s) ->
        lin_pct_spec (p_cfg s) (p_block s) pct /\ c_pmin (p_cfg s) <= pct <= c_pmax (p_cfg s)) /\
     (b_lin_end (p_cfg s) <= p_block s < b_end (p_cfg s) -> pct = c_pfix (p_cfg s))) /\
    0 <= pct < MAXP /\
    floor_of pen (amt * pct) MAXP /\ 0 <= pen <= amt /\
    o = [amt - pen] /\
    bal_tr s' l = bal_tr s l - (amt - pen) /\ bal_re s' l = bal_re s l - (amt - pen) /\
    bal_tr s' (negb l) = bal_tr s (negb l) /\ bal_re s' (negb l) = bal_re s (negb l) /\
    supply s' l = supply s l - amt /\ supply s' (negb l) = supply s (negb l) /\
    held s' l c = held s l c - amt /\ (forall a, a <> c -> held s' l a = held s l a) /\
    (forall a, held s' (negb l) a = held s (negb l) a).
Proof. exact withdraw_char. Qed.
Print Assumptions C17_withdraw_penalty.

(** A deposit: the whole amount is added to the tracked and the real balance of its token, and the
    same amount of redeem tokens of the matching nonce is minted to the caller. *)
Theorem C17_deposit : forall s c tok amt s' o,
  Inv s -> ep_deposit s c tok amt = Ok (s', o) ->
  exists l,
    side_of_token tok = Ok l /\ 0 <= amt /\ o = [amt] /\
    c_start (p_cfg s) <= p_block s < b_lin_end (p_cfg s) /\
    bal_tr s' l = bal_tr s l + amt /\ bal_re s' l = bal_re s l + amt /\
    bal_tr s' (negb l) = bal_tr s (negb l) /\ bal_re s' (negb l) = bal_re s (negb l) /\
    supply s' l = supply s l + amt /\ supply s' (negb l) = supply s (negb l) /\
    held s' l c = held s l c + amt /\ (forall a, a <> c -> held s' l a = held s l a) /\
    (forall a, held s' (negb l) a = held s (negb l) a) /\
    0 < p_lb s'.
Proof. exact deposit_char. Qed.
Print Assumptions C17_deposit.

(** ------------------------------------------------------------------ tracked balances = real holdings *)
(** Every reachable state, any history of any length by any accounts from any accepted deployment. *)
Theorem C17_reach : forall cur decimals minp start dn dl df pmin pmax pfix s0 ops,
  init_pd cur decimals minp start dn dl df pmin pmax pfix = Ok s0 -> Inv (run s0 ops).
Proof. exact reach_inv. Qed.
Print Assumptions C17_reach.

Theorem C17_step : forall s op s' o, Inv s -> step s op = Ok (s', o) -> Inv s'.
Proof. exact step_preserves. Qed.
Print Assumptions C17_step.

(** Before the redeem phase (i.e. throughout the deposit/withdraw phases, and Idle) the tracked
    balances equal the contract's real holdings, and the recorded redeem supply is exactly what
    circulates; at all times the real holdings are non-negative and never exceed the tracked ones. *)
Theorem C17_tracked : forall cur decimals minp start dn dl df pmin pmax pfix s0 ops,
  init_pd cur decimals minp start dn dl df pmin pmax pfix = Ok s0 ->
  let s := run s0 ops in
  p_block s < b_end (p_cfg s) ->
  p_lb s = p_rl s /\ p_ab s = p_ra s /\ p_s1 s = asum (p_h1 s) /\ p_s2 s = asum (p_h2 s).
Proof. exact reach_tracked. Qed.
Print Assumptions C17_tracked.

Theorem C17_tracked_inv : forall s, Inv s ->
  (p_block s < b_end (p_cfg s) ->
     p_lb s = p_rl s /\ p_ab s = p_ra s /\ p_s1 s = asum (p_h1 s) /\ p_s2 s = asum (p_h2 s)) /\
  0 <= p_rl s <= p_lb s /\ 0 <= p_ra s <= p_ab s /\
  asum (p_h1 s) <= p_s1 s /\ asum (p_h2 s) <= p_s2 s.
Proof. exact tracked_inv. Qed.
Print Assumptions C17_tracked_inv.

(** ------------------------------------------------------------------ redemption *)
(** A redemption of [amt] redeem tokens of a nonce pays floor(opposite pool * amt / total supply of the
    nonce); pools and supplies stay frozen; the tokens are taken from the caller (they must be owned,
    and are gone afterwards: each pays exactly once); only the real holding of the opposite token moves. *)
Theorem C17_redeem : forall s c n amt s' o,
  Inv s -> ep_redeem s c n amt = Ok (s', o) ->
  exists l q,
    side_of_nonce n = Ok l /\ 0 <= amt <= held s l c /\
    b_end (p_cfg s) <= p_block s /\
    0 < supply s l /\ floor_of q (bal_tr s (negb l) * amt) (supply s l) /\ 0 <= q /\
    o = [q] /\
    p_lb s' = p_lb s /\ p_ab s' = p_ab s /\ p_s1 s' = p_s1 s /\ p_s2 s' = p_s2 s /\
    bal_re s' (negb l) = bal_re s (negb l) - q /\ bal_re s' l = bal_re s l /\
    held s' l c = held s l c - amt /\ (forall a, a <> c -> held s' l a = held s l a) /\
    (forall a, held s' (negb l) a = held s (negb l) a).
Proof. exact redeem_char. Qed.
Print Assumptions C17_redeem.

(** in the redeem phase nothing but redemptions (and token transfers) can succeed, so pools and
    supplies are frozen for good: deposits and withdrawals are rejected at every later block *)
Theorem C17_frozen_in_redeem : forall s, wf_cfg (p_cfg s) -> b_end (p_cfg s) <= p_block s ->
  (forall c tok amt, is_ok (ep_deposit s c tok amt) = false) /\
  (forall c n amt, is_ok (ep_withdraw s c n amt) = false).
Proof. exact frozen_in_redeem. Qed.
Print Assumptions C17_frozen_in_redeem.

(** a holder's redemption never fails (in particular never for lack of funds) *)
Theorem C17_redeem_succeeds : forall s c n amt l,
  Inv s -> b_end (p_cfg s) <= p_block s -> side_of_nonce n = Ok l -> 0 < amt <= held s l c ->
  is_ok (ep_redeem s c n amt) = true.
Proof. exact redeem_succeeds. Qed.
Print Assumptions C17_redeem_succeeds.

(** Total payouts over ANY history from any accepted deployment — any interleaving of deposits,
    withdrawals, block advances, transfers of redeem tokens and redemptions in any order by any accounts:
    [paid s0 ops n] is the sum of the payments returned by the successful redemptions of nonce n.
    It equals what has left the pool, is at most the pool's share of the tokens burned so far
    (paid * supply <= pool * (supply - circulating)), hence never exceeds the pool. *)
Theorem C17_redeem_total : forall cur decimals minp start dn dl df pmin pmax pfix s0 ops,
  init_pd cur decimals minp start dn dl df pmin pmax pfix = Ok s0 ->
  let s := run s0 ops in
  paid s0 ops NA * p_s2 s <= p_lb s * (p_s2 s - asum (p_h2 s)) /\
  paid s0 ops NL * p_s1 s <= p_ab s * (p_s1 s - asum (p_h1 s)) /\
  paid s0 ops NA <= p_lb s /\ paid s0 ops NL <= p_ab s /\
  paid s0 ops NA = p_lb s - p_rl s /\ paid s0 ops NL = p_ab s - p_ra s.
Proof. exact reach_redeem_total. Qed.
Print Assumptions C17_redeem_total.

(** the same from any invariant state (e.g. the state at the start of the redeem phase) *)
Theorem C17_redeem_total_from : forall s ops, Inv s ->
  let s' := run s ops in
  (paid s ops NA + deficit s true) * p_s2 s' <= p_lb s' * (p_s2 s' - asum (p_h2 s')) /\
  (paid s ops NL + deficit s false) * p_s1 s' <= p_ab s' * (p_s1 s' - asum (p_h1 s')) /\
  paid s ops NA + deficit s true <= p_lb s' /\
  paid s ops NL + deficit s false <= p_ab s' /\
  0 <= p_rl s' /\ 0 <= p_ra s'.
Proof. exact redeem_total. Qed.
Print Assumptions C17_redeem_total_from.

(** the arithmetic core by induction over redemption lists: floors of pro-rata shares of amounts that
    together do not exceed the supply never add up to more than the pool *)
Theorem C17_sum_of_shares : forall P S l, 0 <= P -> 0 < S -> Forall (fun a => 0 <= a) l -> zsum l <= S ->
  zsum (map (fun a => P * a / S) l) <= P.
Proof. exact sum_floors_le. Qed.
Print Assumptions C17_sum_of_shares.

(** ------------------------------------------------------------------ price and price floor *)
(** getCurrentPrice = floor(accepted * precision / launched), defined only with launched > 0;
    the precision is 10^decimals for decimals 0..18. *)
Theorem C17_price : forall s p, view_price s = Ok p ->
  0 < p_lb s /\ floor_of p (p_ab s * c_prec (p_cfg s)) (p_lb s).
Proof. exact price_view_char. Qed.
Print Assumptions C17_price.

Theorem C17_price_precision : forall cur decimals minp start dn dl df pmin pmax pfix s0 ops,
  init_pd cur decimals minp start dn dl df pmin pmax pfix = Ok s0 ->
  c_prec (p_cfg (run s0 ops)) = 10 ^ decimals /\ 0 <= decimals <= PD_MAX_TOKEN_DECIMALS.
Proof. exact price_precision. Qed.
Print Assumptions C17_price_precision.

(** any withdrawal that would leave the price below the minimum is rejected (both directions) *)
Theorem C17_floor_withdraw : forall s c n amt s' o,
  ep_withdraw s c n amt = Ok (s', o) ->
  exists p, view_price s' = Ok p /\ c_minp (p_cfg s') <= p.
Proof. exact withdraw_floor. Qed.
Print Assumptions C17_floor_withdraw.

Theorem C17_floor_withdraw_rejected : forall s c n amt ph l,
  get_current_phase (p_cfg s) (p_block s) = Ok ph -> side_of_nonce n = Ok l ->
  let w := amt - amt * penalty_of ph / MAXP in
  let lb' := if l then p_lb s - w else p_lb s in
  let ab' := if l then p_ab s else p_ab s - w in
  ab' * c_prec (p_cfg s) / lb' < c_minp (p_cfg s) ->
  is_ok (ep_withdraw s c n amt) = false.
Proof. exact withdraw_floor_rejects. Qed.
Print Assumptions C17_floor_withdraw_rejected.

(** Launched-token deposits (full clause).  An accepted one leaves the accepted balance untouched and,
    whenever accepted tokens are present, the price at/above the minimum; with no accepted tokens at all
    the price is 0 by definition (bootstrap, below). *)
Theorem C17_floor_launched_deposit : forall s c amt s' o,
  ep_deposit s c TOK_L amt = Ok (s', o) ->
  exists p, view_price s' = Ok p /\ p_ab s' = p_ab s /\
    (0 < p_ab s' -> c_minp (p_cfg s') <= p) /\ (p_ab s' = 0 -> p = 0).
Proof. exact deposit_floor. Qed.
Print Assumptions C17_floor_launched_deposit.

(** one that would leave the price below the minimum while accepted tokens are present is rejected —
    including the case where the resulting price rounds to zero *)
Theorem C17_floor_launched_deposit_rejected : forall s c amt,
  0 < p_ab s ->
  p_ab s * c_prec (p_cfg s) / (p_lb s + amt) < c_minp (p_cfg s) ->
  is_ok (ep_deposit s c TOK_L amt) = false.
Proof. exact deposit_floor_rejects. Qed.
Print Assumptions C17_floor_launched_deposit_rejected.

(** Bootstrap, precisely: while NO accepted tokens are deposited (accepted balance = 0) the price is 0 by
    definition, and a launched-token deposit in a deposit phase is accepted whatever the minimum price is,
    provided it leaves a positive launched balance (otherwise no price is defined); the price stays 0.
    This is the only situation in which a launched-token deposit may leave price < minimum. *)
Theorem C17_floor_bootstrap : forall s c amt ph,
  get_current_phase (p_cfg s) (p_block s) = Ok ph -> deposit_allowed ph = true ->
  0 <= amt -> 0 < p_lb s + amt -> p_ab s = 0 ->
  exists s', ep_deposit s c TOK_L amt = Ok (s', [amt]) /\ view_price s' = Ok 0 /\ p_ab s' = 0.
Proof. exact deposit_bootstrap. Qed.
Print Assumptions C17_floor_bootstrap.

(** Regression for the repaired zero-price escape (/repo 398b115; harness corpus "zero-price-escape"):
    minimum 5, price 10 with accepted liquidity 100; the bootstrap deposit was accepted with price 0; a
    launched deposit of 40 (price would be 2) and one of 1000 (price would round to 0) are both rejected. *)
Example C17_zero_price_regression :
  let s := run wit_s0 wit_ops in
  init_pd 1 0 5 2 5 5 5 0 0 0 = Ok wit_s0 /\
  is_ok (step wit_s0 (Tick 1)) = true /\ is_ok (step (run wit_s0 [Tick 1]) (Deposit 1 TOK_L 10)) = true /\
  view_price s = Ok 10 /\ p_ab s = 100 /\
  is_ok (ep_deposit s 2 TOK_L 40) = false /\ is_ok (ep_deposit s 2 TOK_L 1000) = false.
Proof. vm_compute. repeat split. Qed.

(** ------------------------------------------------------------------ non-vacuity
    A concrete deployment (6 decimals, penalties 10%..50% linear over 3 blocks, 25% fixed) taken through
    all phases: deposits by three accounts, a withdrawal in the linear phase (30% -> 70 of 100), one in
    the fixed phase (25% of 101 -> floor 25 -> 76), then redemptions in several orders incl. transferred
    tokens.  Every operation succeeds; payouts 250312 + 625782 + 123904 = 999998 <= pool 1000000. *)
Definition c17_example_ops : list pdop :=
  [Tick 1; Deposit 100 TOK_L 1000000; Deposit 1 TOK_A 300; Deposit 2 TOK_A 700; Tick 3;
   Withdraw 1 NA 100; Tick 2; Withdraw 2 NA 101; Tick 2;
   Redeem 1 NA 200; Redeem 100 NL 1000000; Xfer 2 3 NA 99; Redeem 2 NA 500; Redeem 3 NA 99].

Example C17_nonvacuous :
  match init_pd 1 6 0 2 2 3 2 1000000000000 5000000000000 2500000000000 with
  | Ok s0 =>
      let s := run s0 c17_example_ops in
      forallb (fun k => is_ok (step (run s0 (firstn k c17_example_ops)) (nth k c17_example_ops (Tick 0))))
              (seq 0 (length c17_example_ops)) = true /\
      view_phase s = Ok PhRedeem /\ p_block s = 9 /\
      p_lb s = 1000000 /\ p_ab s = 854 /\ p_rl s = 2 /\ p_ra s = 0 /\ p_s2 s = 799 /\
      paid s0 c17_example_ops NA = 999998 /\ paid s0 c17_example_ops NL = 854
  | Err _ => False
  end.
Proof. vm_compute. repeat split. Qed.
