(** C04, continued — "the pool can never be emptied", over WHOLE histories.  Props/C04.v has the one-step floor
    ([C04_floor_forever]); here: from any initialised state, after any operation sequence (failed calls included) the
    LP supply is at least the locked 1000 units, both reserves are positive and the pair itself still holds the locked
    units.  Proof in Proofs/PairHistory.v. *)
From MX Require Import Base.Prelude Gen.Params Model.Pair Proofs.PairInv Proofs.PairHistory.

Theorem C04_run_never_emptied : forall ops p, PairInv p -> 0 < p_S p ->
  MINIMUM_LIQUIDITY <= p_S (run p ops) /\ 0 < p_r1 (run p ops) /\ 0 < p_r2 (run p ops) /\
  MINIMUM_LIQUIDITY <= lp_of (run p ops) SELF.
Proof. exact run_never_emptied. Qed.
Print Assumptions C04_run_never_emptied.

(** Non-vacuity: the holder of every unlocked LP unit removes all of it; the floor stays. *)
Example C04_run_never_emptied_nonvacuous :
  let p := run (init_pair 300 50 None) [SetState OWNER 1; Add 1 1001 10000000000000 1 1] in
  let p' := run p [Add 2 500 5000000000000 1 1; Remove 2 499 1 1; Remove 1 1 1 1] in
  0 < p_S p /\ p_S p' = MINIMUM_LIQUIDITY /\ lp_of p' 1 = 0 /\ lp_of p' 2 = 0.
Proof. vm_compute. repeat split. Qed.

(** The same for BOTH pools of the two-pair world (the pair and the trusted pair that receives its fee slices as no-fee
    swaps): no history of the world empties either. *)
Theorem C04_world_run_never_emptied : forall ops w, WorldInv w -> 0 < p_S (w_p w) -> 0 < p_S (w_q w) ->
  (MINIMUM_LIQUIDITY <= p_S (w_p (wrun w ops)) /\ 0 < p_r1 (w_p (wrun w ops)) /\ 0 < p_r2 (w_p (wrun w ops)) /\
   MINIMUM_LIQUIDITY <= lp_of (w_p (wrun w ops)) SELF) /\
  (MINIMUM_LIQUIDITY <= p_S (w_q (wrun w ops)) /\ 0 < p_r1 (w_q (wrun w ops)) /\ 0 < p_r2 (w_q (wrun w ops)) /\
   MINIMUM_LIQUIDITY <= lp_of (w_q (wrun w ops)) SELF).
Proof. exact wrun_never_emptied. Qed.
Print Assumptions C04_world_run_never_emptied.
