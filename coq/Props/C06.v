(** C06 — Farm base rewards: pro rata in stake and time, never retroactive or over-issued. *)
From MX Require Import Base.Prelude Gen.Params Model.Farm Proofs.FarmInv Proofs.FarmSolv Proofs.FarmRps.
From MX Require Model.Staking Proofs.StakingProofs.
From MX Require Import Model.FarmLocked Proofs.FarmLockedProofs.

(** The index only grows, and only by floor(base_share * DSC / supply) for the blocks elapsed while
    production is enabled (base_share = rate * blocks - boosted cut); nothing accrues with zero supply. *)
Theorem C06_settle : forall f blk f', settle f blk = Ok f' -> wf_cfg f ->
  let tm := minted f blk in
  let cut := boosted_cut f tm in
  f_last f' = Z.max (f_last f) blk /\
  f_gen f' = f_gen f + tm /\ f_pool f' = f_pool f + cut /\ f_reserve f' = f_reserve f + tm /\
  0 <= cut <= tm /\ cut = (if (f_pct f =? 0) || negb (f_factors f) then 0 else tm * f_pct f / MAXP) /\
  (f_supply f = 0 -> f_rps f' = f_rps f) /\
  (0 < f_supply f -> is_floor (f_rps f' - f_rps f) ((tm - cut) * f_dsc f) (f_supply f)) /\
  f_supply f' = f_supply f /\ f_rate f' = f_rate f /\ f_produce f' = f_produce f /\ f_pct f' = f_pct f.
Proof. exact settle_char. Qed.
Print Assumptions C06_settle.

Theorem C06_index_monotone : forall f op f' o, FarmOK f -> valid_op op -> fstep f op = Ok (f', o) ->
  f_rps f <= f_rps f'.
Proof. intros f op f' o K V E. pose proof (fstep_ok _ _ _ _ E K V) as (_ & _ & R). exact R. Qed.
Print Assumptions C06_index_monotone.

(** claimRewards pays the boosted part plus floor(amount * (RPS_now - RPS_entry) / DSC), RPS_now being
    the index settled to the current block (0 when the position's index is not below it). *)
Theorem C06_claim_reward : forall f blk ep c n0 x0 adds b f' o, FarmAcc f ->
  ep_claim f blk ep c (n0, x0) adds b = Ok (f', o) ->
  exists f1 f2 a nn amt base,
    pay_all f c ((n0, x0) :: adds) = Ok f1 /\ settle f1 blk = Ok f2 /\
    find_attrs (f_attrs f) n0 = Some a /\ o = [nn; amt; base + b] /\ 0 <= base /\ 0 < x0 /\
    (a_rps a < f_rps f2 -> is_floor base (x0 * (f_rps f2 - a_rps a)) (f_dsc f)) /\
    (f_rps f2 <= a_rps a -> base = 0) /\
    f_rps f' = f_rps f2 /\ amt = x0 + psum (fun _ => 1) adds.
Proof. exact claim_reward_char. Qed.
Print Assumptions C06_claim_reward.

(** a position created by enterFarm records the index settled up to its own block: nothing earned
    for blocks before it entered *)
Theorem C06_not_retroactive : forall f blk ep c amt b f' o, FarmAcc f -> Solv f -> valid_id c ->
  ep_enter f blk ep c amt [] b = Ok (f', o) ->
  exists n, o = [n; amt; b] /\
    find_attrs (f_attrs f') n = Some (mkAttrs (f_rps f') ep 0 amt c) /\ f_rps f <= f_rps f'.
Proof. exact enter_index. Qed.
Print Assumptions C06_not_retroactive.

(** total base rewards paid over any history never exceed rate * blocks minus the boosted share:
    gen = everything minted, paid = everything paid, pool = boosted share still unpaid *)
Theorem C06_issuance : forall dsc same ops, 0 < dsc -> Forall valid_op ops ->
  let f := frun (init_farm dsc same) ops in f_paid f + f_pool f <= f_gen f.
Proof.
  intros dsc same ops Hd V f. destruct (frun_ok ops (init_farm dsc same) (init_farm_ok dsc same Hd) V) as (A & S & _).
  apply issuance_bound; assumption.
Qed.
Print Assumptions C06_issuance.

(** rate / percentage changes and stopping production settle with the OLD parameters first *)
Theorem C06_admin_settles_first : forall f blk c f' o,
  (forall r, fstep f (FSetRate blk c r) = Ok (f', o) ->
     exists f1, settle f blk = Ok f1 /\ f_rps f' = f_rps f1 /\ f_reserve f' = f_reserve f1 /\ f_rate f' = r) /\
  (fstep f (FEnd blk c) = Ok (f', o) ->
     exists f1, settle f blk = Ok f1 /\ f_rps f' = f_rps f1 /\ f_reserve f' = f_reserve f1 /\ f_produce f' = false) /\
  (forall p, fstep f (FSetPct blk c p) = Ok (f', o) ->
     exists f1, settle f blk = Ok f1 /\ f_rps f' = f_rps f1 /\ f_pool f' = f_pool f1 /\ f_pct f' = p) /\
  (fstep f (FStart blk c) = Ok (f', o) -> f_rps f' = f_rps f /\ f_last f' = blk /\ f_produce f' = true).
Proof. exact admin_settles_first. Qed.
Print Assumptions C06_admin_settles_first.


(** the staking farm (farm-staking): one settlement accrues min(rate*blocks, APR bound*blocks, remaining capacity),
    moves the boosted share aside and grows the index by exactly floor((accrual - cut) * DSC / supply);
    nothing at all happens for a block that was already settled (no retroactive accrual) *)
Theorem C06_staking_settle : forall s blk s', Staking.settle s blk = Ok s' -> StakingProofs.StkInv s ->
  (blk <= Staking.s_last s -> s' = s) /\
  (Staking.s_last s < blk ->
     let unb := if Staking.s_produce s then Staking.s_rate s * (blk - Staking.s_last s) else 0 in
     let total := Z.min (Z.min unb (Staking.apr_per_block s * (blk - Staking.s_last s))) (Staking.s_cap s - Staking.s_acc s) in
     let cut := Staking.boosted_cut s total in
     Staking.s_last s' = blk /\ Staking.s_acc s' = Staking.s_acc s + total /\
     Staking.s_reserve s' = Staking.s_reserve s + total /\
     Staking.s_pool s' = Staking.s_pool s + cut /\ 0 <= cut <= total /\
     (Staking.s_supply s = 0 -> Staking.s_rps s' = Staking.s_rps s) /\
     (0 < Staking.s_supply s ->
        StakingProofs.is_floor_s (Staking.s_rps s' - Staking.s_rps s) ((total - cut) * Staking.s_dsc s) (Staking.s_supply s))).
Proof. exact StakingProofs.settle_index_char. Qed.
Print Assumptions C06_staking_settle.

(** farm-with-locked-rewards runs the same settlement / claim code: every successful operation of the
    locked farm IS a successful step of the farm model on the shared state with the same outputs, so
    C06_settle, C06_claim_reward, C06_not_retroactive and C06_admin_settles_first apply to it verbatim;
    the index never decreases along any locked-farm step *)
Theorem C06_locked_is_farm_step : forall ops s, exists fops,
  (Forall lvalid ops -> Forall valid_op fops) /\ l_f (lrun s ops) = frun (l_f s) fops.
Proof. exact lrun_refines_frun. Qed.
Print Assumptions C06_locked_is_farm_step.

Example C06_nonvacuous :
  let f0 := frun (init_farm 1000000000000 false)
              [FSetRate 10 OWNER 1000; FSetState OWNER 1; FStart 10 OWNER; FEnter 12 5 1 300 [] 0; FEnter 15 5 2 700 [] 0] in
  match fstep f0 (FClaim 25 6 1 (1, 300) [] 0) with
  | Ok (_, [_; amt; r]) => amt = 300 /\ r = 1000 * 3 + 1000 * 10 * 300 / 1000
  | _ => False
  end.
Proof. vm_compute. split; reflexivity. Qed.

(** ==================================================================================================
    The same property for the STAKING farm (farm-staking), on the position-level model Model/StakingPos.v:
    positions with attributes {reward_per_share, compounded_reward, current_farm_amount, original_owner}, who
    holds how much of which nonce, per-user totals; accrual (APR bound, capacity), reward payment, unbond
    tokens and admin endpoints are those of Model/Staking.v; the boosted payout [b] is an input bounded by
    the boosted pools.  [preach dsc apr minub ops]: the state after ANY list of operations from deployment.
    [pvalid_op]: account ids in range.  [sep_op]: additionally the whitelisted proxy keeps its positions to
    itself and users do not call the proxy endpoints (needed only where the VIRTUAL principal is compared
    with the supply).  From here on the names settle, pay, utot, ... are those of the staking models. *)
From MX Require Import Model.Staking Model.StakingPos Proofs.StakingProofs Proofs.StakingPosProofs.

(** the documented formula is the floor (and zero when the entry index is not below the current one) *)
Theorem C06_staking_base_formula : forall R d e x, 0 < d ->
  (e < R -> is_floor_s (base_formula R d e x) (x * (R - e)) d) /\ (R <= e -> base_formula R d e x = 0).
Proof. exact base_formula_floor. Qed.
Print Assumptions C06_staking_base_formula.

(** S-C06a/b claimRewards (newv = None) and claimRewardsWithNewValue: pays exactly
    floor(x * (rps_settled - rps_entry) / DSC) + b, re-mints the position at the settled index with the floor share
    of the compounded reward; nothing else changes in the ledger *)
Theorem C06_staking_a_claim : forall sp blk ep c u n0 x0 newv b sp' o,
  ep_claim sp blk ep c u (n0, x0) newv b = Ok (sp', o) -> Inv sp -> valid_id c ->
  exists s2 s3 a base,
    settle (p_s sp) blk = Ok s2 /\ find_sattrs (p_attrs sp) n0 = Some a /\ 0 < x0 <= held sp n0 c /\
    base = base_formula (s_rps s2) (s_dsc (p_s sp)) (sa_rps a) x0 /\
    pay s2 (base + b) b = Ok s3 /\
    let n := s_next (p_s sp) in
    let amt := match newv with Some v => v | None => x0 end in
    let m := mkSA (s_rps s2) (comp_part a x0) amt u in
    o = [n; amt; base + b] /\
    p_attrs sp' = p_attrs sp ++ [(n, m)] /\ find_sattrs (p_attrs sp') n = Some m /\
    p_held sp' = aset (aset (p_held sp) (hkey n0 c) (held sp n0 c - x0)) (hkey n c) amt /\
    p_s sp' = bump (match newv with
                    | None => s3
                    | Some v => with_supply s3 (s_supply s3 - x0 + v) (s_virt s3 + v - x0)
                    end) /\
    s_rps (p_s sp') = s_rps s2.
Proof. exact ep_claim_shape. Qed.
Print Assumptions C06_staking_a_claim.

(** S-C06a unstakeFarm / unstakeFarmThroughProxy: burns the part, pays floor(...) + b, supply decreases by the part,
    an unbond token {current epoch + min unbond epochs} for the principal (or for the tokens sent along) is minted *)
Theorem C06_staking_a_unstake : forall sp blk ep c u n0 x0 t b sp' o,
  ep_unstake sp blk ep c u (n0, x0) t b = Ok (sp', o) -> Inv sp -> valid_id c ->
  exists s2 s3 a base,
    settle (p_s sp) blk = Ok s2 /\ find_sattrs (p_attrs sp) n0 = Some a /\ 0 < x0 <= held sp n0 c /\
    base = base_formula (s_rps s2) (s_dsc (p_s sp)) (sa_rps a) x0 /\
    pay s2 (base + b) b = Ok s3 /\
    let n := s_next (p_s sp) in
    let ubamt := match t with Some v => v | None => x0 end in
    o = [n; ubamt; base + b] /\
    p_attrs sp' = p_attrs sp /\
    p_held sp' = aset (p_held sp) (hkey n0 c) (held sp n0 c - x0) /\
    s_supply (p_s sp') = s_supply (p_s sp) - x0 /\
    s_virt (p_s sp') = (match t with Some _ => s_virt (p_s sp) - x0 | None => s_virt (p_s sp) end) /\
    find_z (s_ub (p_s sp')) n = Some (ep + s_minub (p_s sp)) /\
    ubheld sp' n c = ubheld sp n c + ubamt /\
    s_rps (p_s sp') = s_rps s2.
Proof. exact ep_unstake_shape. Qed.
Print Assumptions C06_staking_a_unstake.

(** S-C06a/c compoundRewards: the reward floor(...) + b is not paid out but joins the principal and the compounded
    part of the new position (merged with the additional payments by the C07 rules) *)
Theorem C06_staking_a_compound : forall sp blk ep c n0 x0 adds b sp' o,
  ep_compound sp blk ep c (n0, x0) adds b = Ok (sp', o) -> Inv sp -> valid_id c ->
  exists sp1 s2 s3 a base m,
    pay_all sp c ((n0, x0) :: adds) = Ok sp1 /\ settle (p_s sp) blk = Ok s2 /\
    find_sattrs (p_attrs sp) n0 = Some a /\ 0 < x0 /\
    base = base_formula (s_rps s2) (s_dsc (p_s sp)) (sa_rps a) x0 /\ 0 <= base /\
    pay s2 (base + b) b = Ok s3 /\
    let r := base + b in
    merge_payments sp (mkSA (s_rps s2) (comp_part a x0 + r) (x0 + r) c) adds = Ok m /\
    let n := s_next (p_s sp) in
    o = [n; sa_amt m] /\
    p_attrs sp' = p_attrs sp ++ [(n, m)] /\ find_sattrs (p_attrs sp') n = Some m /\
    p_held sp' = aset (p_held sp1) (hkey n c) (sa_amt m) /\
    s_supply (p_s sp') = s_supply (p_s sp) + r /\ s_virt (p_s sp') = s_virt (p_s sp) /\
    s_bal (p_s sp') = s_bal (p_s sp) /\ s_reserve (p_s sp') = s_reserve s2 - r /\
    s_rps (p_s sp') = s_rps s2.
Proof. exact ep_compound_shape. Qed.
Print Assumptions C06_staking_a_compound.

(** S-C06c: compounding one position: reward r enters principal and compounded part, supply grows by r, the
    reserve pays it, no token leaves the contract, and the new position starts at the settled index - its base
    reward right now is 0: the compounded reward earns from this block on only *)
Theorem C06_staking_c_compound : forall sp blk ep c n0 x0 b sp' o,
  ep_compound sp blk ep c (n0, x0) [] b = Ok (sp', o) -> Inv sp -> valid_id c ->
  exists s2 a base n m,
    settle (p_s sp) blk = Ok s2 /\ find_sattrs (p_attrs sp) n0 = Some a /\
    base = base_formula (s_rps s2) (s_dsc (p_s sp)) (sa_rps a) x0 /\ 0 <= base /\
    let r := base + b in
    o = [n; x0 + r] /\ find_sattrs (p_attrs sp') n = Some m /\
    m = mkSA (s_rps (p_s sp')) (comp_part a x0 + r) (x0 + r) c /\
    s_rps (p_s sp') = s_rps s2 /\
    s_supply (p_s sp') = s_supply (p_s sp) + r /\ s_bal (p_s sp') = s_bal (p_s sp) /\
    s_reserve (p_s sp') = s_reserve s2 - r /\
    base_formula (s_rps (p_s sp')) (s_dsc (p_s sp')) (sa_rps m) (sa_amt m) = 0.
Proof. exact sc06c_compound. Qed.
Print Assumptions C06_staking_c_compound.

(** S-C06b: stakeFarm / stakeFarmThroughProxy with nothing merged in: the new position records exactly the index
    settled up to the current block (it earns nothing for earlier blocks); with positions merged in, its index is
    the rounded-up weighted average (SC07b) of that index and theirs *)
Theorem C06_staking_b_stake_index : forall (virtual : bool) sp blk ep c u amt b sp' o,
  ep_stake virtual sp blk ep c u amt [] b = Ok (sp', o) -> Inv sp -> valid_id c ->
  exists n, o = [n; amt; b] /\ find_sattrs (p_attrs sp') n = Some (mkSA (s_rps (p_s sp')) 0 amt u) /\
            s_rps (p_s sp) <= s_rps (p_s sp') /\ s_supply (p_s sp') = s_supply (p_s sp) + amt.
Proof. exact sc06b_stake_index. Qed.
Print Assumptions C06_staking_b_stake_index.

Theorem C06_staking_b_stake : forall virtual sp blk ep c u amt adds b sp' o,
  ep_stake virtual sp blk ep c u amt adds b = Ok (sp', o) -> Inv sp -> valid_id c ->
  exists sp1 s2 s5 m,
    pay_all sp c adds = Ok sp1 /\ pay (p_s sp) b b = Ok s2 /\ settle s2 blk = Ok s5 /\ 0 < amt /\
    merge_payments sp (mkSA (s_rps s5) 0 amt u) adds = Ok m /\
    let n := s_next (p_s sp) in
    o = [n; sa_amt m; b] /\
    p_attrs sp' = p_attrs sp ++ [(n, m)] /\ find_sattrs (p_attrs sp') n = Some m /\
    p_held sp' = aset (p_held sp1) (hkey n c) (sa_amt m) /\
    s_supply (p_s sp') = s_supply (p_s sp) + amt /\
    s_virt (p_s sp') = s_virt (p_s sp) + (if virtual then amt else 0) /\
    s_bal (p_s sp') = s_bal (p_s sp) - b + (if virtual then 0 else amt) /\
    s_rps (p_s sp') = s_rps s5.
Proof. exact ep_stake_shape. Qed.
Print Assumptions C06_staking_b_stake.
