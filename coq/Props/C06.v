(** C06 — Farm base rewards: pro rata in stake and time, never retroactive or over-issued. *)
From MX Require Import Base.Prelude Gen.Params Model.Farm Proofs.FarmInv Proofs.FarmSolv Proofs.FarmRps.
From MX Require Model.Staking Proofs.StakingProofs.
From MX Require Import Model.FarmLocked Proofs.FarmLockedProofs.

(** The index only grows, and only by floor(base_share * DSC / supply) for the blocks elapsed while
    production is enabled (base_share = rate * blocks - boosted cut); nothing accrues with zero supply. *)
Theorem C06_settle : forall f blk f', settle f blk = Ok f' -> wf_cfg f ->
  let tm := minted f blk in
  let cut := boosted_cut f tm in
  f_last f' = Z.max (f_last f) blk /\
  f_gen f' = f_gen f + tm /\ f_pool f' = f_pool f + cut /\ f_reserve f' = f_reserve f + tm /\
  0 <= cut <= tm /\ cut = (if (f_pct f =? 0) || negb (f_factors f) then 0 else tm * f_pct f / MAXP) /\
  (f_supply f = 0 -> f_rps f' = f_rps f) /\
  (0 < f_supply f -> is_floor (f_rps f' - f_rps f) ((tm - cut) * f_dsc f) (f_supply f)) /\
  f_supply f' = f_supply f /\ f_rate f' = f_rate f /\ f_produce f' = f_produce f /\ f_pct f' = f_pct f.
Proof. exact settle_char. Qed.
Print Assumptions C06_settle.

Theorem C06_index_monotone : forall f op f' o, FarmOK f -> valid_op op -> fstep f op = Ok (f', o) ->
  f_rps f <= f_rps f'.
Proof. intros f op f' o K V E. pose proof (fstep_ok _ _ _ _ E K V) as (_ & _ & R). exact R. Qed.
Print Assumptions C06_index_monotone.

(** claimRewards pays the boosted part plus floor(amount * (RPS_now - RPS_entry) / DSC), RPS_now being
    the index settled to the current block (0 when the position's index is not below it). *)
Theorem C06_claim_reward : forall f blk ep c n0 x0 adds b f' o, FarmAcc f ->
  ep_claim f blk ep c (n0, x0) adds b = Ok (f', o) ->
  exists f1 f2 a nn amt base,
    pay_all f c ((n0, x0) :: adds) = Ok f1 /\ settle f1 blk = Ok f2 /\
    find_attrs (f_attrs f) n0 = Some a /\ o = [nn; amt; base + b] /\ 0 <= base /\ 0 < x0 /\
    (a_rps a < f_rps f2 -> is_floor base (x0 * (f_rps f2 - a_rps a)) (f_dsc f)) /\
    (f_rps f2 <= a_rps a -> base = 0) /\
    f_rps f' = f_rps f2 /\ amt = x0 + psum (fun _ => 1) adds.
Proof. exact claim_reward_char. Qed.
Print Assumptions C06_claim_reward.

(** a position created by enterFarm records the index settled up to its own block: nothing earned
    for blocks before it entered *)
Theorem C06_not_retroactive : forall f blk ep c amt b f' o, FarmAcc f -> Solv f -> valid_id c ->
  ep_enter f blk ep c amt [] b = Ok (f', o) ->
  exists n, o = [n; amt; b] /\
    find_attrs (f_attrs f') n = Some (mkAttrs (f_rps f') ep 0 amt c) /\ f_rps f <= f_rps f'.
Proof. exact enter_index. Qed.
Print Assumptions C06_not_retroactive.

(** total base rewards paid over any history never exceed rate * blocks minus the boosted share:
    gen = everything minted, paid = everything paid, pool = boosted share still unpaid *)
Theorem C06_issuance : forall dsc same ops, 0 < dsc -> Forall valid_op ops ->
  let f := frun (init_farm dsc same) ops in f_paid f + f_pool f <= f_gen f.
Proof.
  intros dsc same ops Hd V f. destruct (frun_ok ops (init_farm dsc same) (init_farm_ok dsc same Hd) V) as (A & S & _).
  apply issuance_bound; assumption.
Qed.
Print Assumptions C06_issuance.

(** rate / percentage changes and stopping production settle with the OLD parameters first *)
Theorem C06_admin_settles_first : forall f blk c f' o,
  (forall r, fstep f (FSetRate blk c r) = Ok (f', o) ->
     exists f1, settle f blk = Ok f1 /\ f_rps f' = f_rps f1 /\ f_reserve f' = f_reserve f1 /\ f_rate f' = r) /\
  (fstep f (FEnd blk c) = Ok (f', o) ->
     exists f1, settle f blk = Ok f1 /\ f_rps f' = f_rps f1 /\ f_reserve f' = f_reserve f1 /\ f_produce f' = false) /\
  (forall p, fstep f (FSetPct blk c p) = Ok (f', o) ->
     exists f1, settle f blk = Ok f1 /\ f_rps f' = f_rps f1 /\ f_pool f' = f_pool f1 /\ f_pct f' = p) /\
  (fstep f (FStart blk c) = Ok (f', o) -> f_rps f' = f_rps f /\ f_last f' = blk /\ f_produce f' = true).
Proof. exact admin_settles_first. Qed.
Print Assumptions C06_admin_settles_first.


(** the staking farm (farm-staking): one settlement accrues min(rate*blocks, APR bound*blocks, remaining capacity),
    moves the boosted share aside and grows the index by exactly floor((accrual - cut) * DSC / supply);
    nothing at all happens for a block that was already settled (no retroactive accrual) *)
Theorem C06_staking_settle : forall s blk s', Staking.settle s blk = Ok s' -> StakingProofs.StkInv s ->
  (blk <= Staking.s_last s -> s' = s) /\
  (Staking.s_last s < blk ->
     let unb := if Staking.s_produce s then Staking.s_rate s * (blk - Staking.s_last s) else 0 in
     let total := Z.min (Z.min unb (Staking.apr_per_block s * (blk - Staking.s_last s))) (Staking.s_cap s - Staking.s_acc s) in
     let cut := Staking.boosted_cut s total in
     Staking.s_last s' = blk /\ Staking.s_acc s' = Staking.s_acc s + total /\
     Staking.s_reserve s' = Staking.s_reserve s + total /\
     Staking.s_pool s' = Staking.s_pool s + cut /\ 0 <= cut <= total /\
     (Staking.s_supply s = 0 -> Staking.s_rps s' = Staking.s_rps s) /\
     (0 < Staking.s_supply s ->
        StakingProofs.is_floor_s (Staking.s_rps s' - Staking.s_rps s) ((total - cut) * Staking.s_dsc s) (Staking.s_supply s))).
Proof. exact StakingProofs.settle_index_char. Qed.
Print Assumptions C06_staking_settle.

(** farm-with-locked-rewards runs the same settlement / claim code: every successful operation of the
    locked farm IS a successful step of the farm model on the shared state with the same outputs, so
    C06_settle, C06_claim_reward, C06_not_retroactive and C06_admin_settles_first apply to it verbatim;
    the index never decreases along any locked-farm step *)
Theorem C06_locked_is_farm_step : forall ops s, exists fops,
  (Forall lvalid ops -> Forall valid_op fops) /\ l_f (lrun s ops) = frun (l_f s) fops.
Proof. exact lrun_refines_frun. Qed.
Print Assumptions C06_locked_is_farm_step.

Example C06_nonvacuous :
  let f0 := frun (init_farm 1000000000000 false)
              [FSetRate 10 OWNER 1000; FSetState OWNER 1; FStart 10 OWNER; FEnter 12 5 1 300 [] 0; FEnter 15 5 2 700 [] 0] in
  match fstep f0 (FClaim 25 6 1 (1, 300) [] 0) with
  | Ok (_, [_; amt; r]) => amt = 300 /\ r = 1000 * 3 + 1000 * 10 * 300 / 1000
  | _ => False
  end.
Proof. vm_compute. split; reflexivity. Qed.
