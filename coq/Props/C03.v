(** C03 — Swaps follow the documented formula, honour slippage bounds, conserve tokens. *)
From MX Require Import Base.Prelude Gen.Params Model.Pair Proofs.PairInv Proofs.PairChar.

(** Fixed input.  [is_floor q n d] says q = floor(n/d) by cross-multiplication, so the statement is
    about the documented rational  in*(1-f)*rOut / (rIn + in*(1-f))  (numerator and denominator
    scaled by M = 100000), not a restatement of the code's expression. *)
Theorem C03_swap_in : forall p c tin ain tout mn p' outs e,
  PairInv p -> ep_swap_in p c tin ain tout mn = Ok (p', outs, e) ->
  exists ord out special,
    swap_order tin tout = Ok ord /\ outs = [out] /\ p_state p = ST_Active /\ 0 < ain /\
    is_floor out (ain * (M - p_fee p) * rout p ord) (rin p ord * M + ain * (M - p_fee p)) /\
    0 < mn <= out /\ 0 < out < rout p ord /\
    special = (if fee_enabled p then ain * p_sfee p / M else 0) /\
    0 <= special /\ special * M <= ain * p_sfee p /\
    rin p ord + (ain - special) <= rin p' ord /\
    rout p' ord <= rout p ord - out /\
    ex_out p' ord = ex_out p ord /\
    ex_in p ord <= ex_in p' ord <= ex_in p ord + special.
Proof. exact swap_in_char. Qed.
Print Assumptions C03_swap_in.

Theorem C03_swap_in_fails_below_minimum : forall p c tin ain tout mn ord,
  PairInv p -> swap_order tin tout = Ok ord ->
  ain * (M - p_fee p) * rout p ord / (rin p ord * M + ain * (M - p_fee p)) < mn ->
  is_ok (ep_swap_in p c tin ain tout mn) = false.
Proof. exact swap_in_slippage. Qed.
Print Assumptions C03_swap_in_fails_below_minimum.

(** Fixed output: delivers exactly [aout], charges floor(rIn*out/((rOut-out)(1-f))) + 1 <= max,
    refunds max - charged, and the charge is always enough under the fixed-input rule. *)
Theorem C03_swap_out : forall p c tin amax tout aout p' outs e,
  PairInv p -> ep_swap_out p c tin amax tout aout = Ok (p', outs, e) ->
  exists ord charged special,
    swap_order tin tout = Ok ord /\ outs = [aout; amax - charged] /\ p_state p = ST_Active /\
    0 < aout < rout p ord /\
    is_floor (charged - 1) (rin p ord * aout * M) ((rout p ord - aout) * (M - p_fee p)) /\
    0 < charged <= amax /\
    aout <= charged * (M - p_fee p) * rout p ord / (rin p ord * M + charged * (M - p_fee p)) /\
    special = (if fee_enabled p then charged * p_sfee p / M else 0) /\
    0 <= special /\ special * M <= charged * p_sfee p /\
    rin p ord + (charged - special) <= rin p' ord /\
    rout p' ord <= rout p ord - aout /\
    ex_out p' ord = ex_out p ord /\
    ex_in p ord <= ex_in p' ord <= ex_in p ord + special.
Proof. exact swap_out_char. Qed.
Print Assumptions C03_swap_out.

(** the special fee is bounded by in*special/100000 (and by the input) *)
Theorem C03_special_bound : forall p ain, PairInv p -> 0 <= ain ->
  special_fee (p_sfee p) ain * M <= ain * p_sfee p /\ special_fee (p_sfee p) ain <= ain.
Proof. exact special_bound. Qed.
Print Assumptions C03_special_bound.

(** Where the special fee can go: the effects of a transaction name only burns, the fees collector
    and the trusted pair — the type [effects] has no field crediting a user, and the payments to the
    caller are exactly [outs].  The amounts that leave on the input side are bounded by the special
    fee ([ex_in] clause above); a failing nested call fails the whole transaction ([wstep]). *)
Theorem C03_failed_nested_call_fails_all : forall w op p' o e,
  step (w_p w) op = Ok (p', o, e) -> is_ok (apply_ext (w_q w) (e_ext e)) = false ->
  is_ok (wstep w op) = false.
Proof.
  intros w op p' o e Hs Hx. unfold wstep. rewrite Hs. simpl.
  destruct (apply_ext (w_q w) (e_ext e)); [discriminate | reflexivity].
Qed.
Print Assumptions C03_failed_nested_call_fails_all.

Example C03_nonvacuous :
  let p := run (init_pair 300 50 None) [SetState OWNER 1; Add 1 1000000 3000000 1 1; SetFeeOn OWNER true 60 2] in
  match step p (SwapIn 2 1 12345 2 1), step p (SwapOut 2 1 99999 2 5000) with
  | Ok (_, [a], _), Ok (_, [b; r], _) => a = 36474 /\ b = 5000 /\ r = 98324
  | _, _ => False
  end.
Proof. vm_compute. repeat split. Qed.
