(** C13 — Safe price is the exact time-weighted average of start-of-round reserves.

    Vocabulary (Model/SafePrice.v, Proofs/SafePriceProofs.v):
      [us]                 every call of update_safe_price ever made on the pair, oldest first: block round
                           and the (first reserve, second reserve, LP supply) it was given — by
                           [sp_step] these are the reserves BEFORE the operation that makes the call;
      [wf_calls us]        rounds never decrease along [us]; amounts are non-negative (BigUint);
      [eff us]             the calls that record an observation; [observations us] what they record;
      [ring_of N us]       price_observations + safe_price_current_index for capacity [N];
      [start us c t]       reserves in effect at the start of round [t]: those given to the first call
                           (with all three non-zero) made in a round >= t, and the present reserves [c]
                           if no call was made since;
      [sumr f a b]         f (a+1) + ... + f b;
      [acc g us c x]       g (first recording call) + sum over rounds (first recorded round, x] of g (start t);
      [avg g us c s e]     floor (sum over rounds (s, e] of g (start t)  /  (e - s)).
    Every theorem holds for EVERY ring capacity N >= 2; [C13_capacity] instantiates it with the
    constant of the source.  Search focus (framework.py, broken-proof search): windows whose ends are
    recorded / interpolated / extrapolated rounds on partial, exactly full and wrapped rings. *)
From MX Require Import Base.Prelude Gen.Params Model.Pair Model.SafePrice Proofs.PairInv Proofs.SafePriceProofs.

Theorem C13_capacity : 2 <= MAX_OBSERVATIONS.
Proof. exact max_obs_ge2. Qed.
Print Assumptions C13_capacity.

(** What gets recorded.  The contract's storage after any sequence of calls is [ring_of N us]; at most
    one observation per round (rounds strictly increase), none at round 0, none with a zero reserve;
    the call that records is the first initialised call of its round, so what it saw are the
    start-of-round reserves; the j-th recorded observation carries the closed-form prefix sums
    [acc] and weight 1 + (its round - first recorded round). *)
Theorem C13_update : forall N, 2 <= N -> forall us c, wf_calls us ->
  run_updates N ring0 us = Ok (ring_of N us) /\
  strict_from 0 (eff us) /\
  Forall pos_upd (eff us) /\
  (forall u, In u (eff us) -> In u us /\ start us c (u_round u) = u) /\
  length (observations us) = length (eff us) /\
  (forall j, (j < length (eff us))%nat ->
     nth j (observations us) obs0 = acc_obs us c (u_round (nth j (eff us) u0))).
Proof. exact update_spec. Qed.
Print Assumptions C13_update.

(** Ring contents: of k recorded observations the last min(k, N) survive; observation number j
    (1-based) is stored at index ((j-1) mod N)+1, the newest at safe_price_current_index; rounds
    strictly increase with j, i.e. along the cyclic order starting at the oldest slot. *)
Theorem C13_ring : forall N, 2 <= N -> forall l, 0 < vlen l ->
  vlen (rg_obs (layout N l)) = Z.min (vlen l) N /\
  rg_cur (layout N l) = (vlen l - 1) mod N + 1 /\
  (forall j, vlen l - Z.min (vlen l) N < j <= vlen l ->
     vget (rg_obs (layout N l)) ((j - 1) mod N + 1) = Ok (nth (Z.to_nat (j - 1)) l obs0)).
Proof. exact ring_spec. Qed.
Print Assumptions C13_ring.

Theorem C13_ring_sorted : forall us, wf_calls us -> sorted_obs (observations us).
Proof. exact observations_sorted. Qed.
Print Assumptions C13_ring_sorted.

(** Binary search (fuel N, every index inside 1..len, no usize underflow: the result is [Ok]): for a
    round x between the oldest retained and the newest observation it returns the observation
    recorded at x, or the default observation together with an index such that the slot at the index
    and the slot the interpolation reads next hold the two consecutive observations enclosing x. *)
Theorem C13_search : forall N, 2 <= N -> forall l x, sorted_obs l -> 0 < vlen l ->
  ob_round (nth (Z.to_nat (Z.max 0 (vlen l - N))) l obs0) <= x -> x < ob_round (last l obs0) ->
  let rg := layout N l in
  exists po idx, bsearch N rg x = Ok (po, idx) /\ 1 <= idx <= vlen (rg_obs rg) /\
    ((vget (rg_obs rg) idx = Ok po /\ ob_round po = x) \/
     (po = obs0 /\ encloses N l (rg_obs rg) x idx)).
Proof. exact search_spec. Qed.
Print Assumptions C13_search.

(** Lookup: for every round x from the oldest retained observation up to the current round,
    get_price_observation returns exactly the prefix sums up to x — whether x is the newest recorded
    round, a recorded one found by the search, lies between two observations (the interpolation's
    division is exact) or after the newest one (extrapolation with the present reserves). *)
Theorem C13_lookup : forall N, 2 <= N -> forall us ev o x, wf_calls us ->
  (forall u, In u us -> u_round u <= e_now ev) ->
  get_oldest N (ring_of N us) = Ok o -> ob_round o <= x -> x <= e_now ev ->
  get_price_observation N (ring_of N us) ev x = Ok (acc_obs us (cur_upd ev) x).
Proof. exact lookup_spec. Qed.
Print Assumptions C13_lookup.

(** The safe price over (s, e]: amount * floor(avg of the other reserve) / floor(avg of the input
    token's reserve), floors as documented; both averages are >= 1 ([C13_average]). *)
Theorem C13_query : forall N, 2 <= N -> forall us ev o s e tok amt, wf_calls us ->
  (forall u, In u us -> u_round u <= e_now ev) -> pos_upd (cur_upd ev) ->
  get_oldest N (ring_of N us) = Ok o -> ob_round o <= s -> s < e -> e <= e_now ev ->
  get_safe_price N (ring_of N us) ev s e tok amt =
    let c := cur_upd ev in
    if tok =? T1 then Ok (T2, amt * avg u_r2 us c s e / avg u_r1 us c s e)
    else if tok =? T2 then Ok (T1, amt * avg u_r1 us c s e / avg u_r2 us c s e)
    else Err EGuard.
Proof. exact price_spec. Qed.
Print Assumptions C13_query.

(** LP variant: liquidity * floor(avg reserve) / floor(avg LP supply) for both tokens; the
    current-supply fallback of the code is never taken on observations recorded by this code. *)
Theorem C13_query_lp : forall N, 2 <= N -> forall us ev o s e liq, wf_calls us ->
  (forall u, In u us -> u_round u <= e_now ev) -> pos_upd (cur_upd ev) ->
  get_oldest N (ring_of N us) = Ok o -> ob_round o <= s -> s < e -> e <= e_now ev ->
  get_lp_safe_price N (ring_of N us) ev s e liq =
    let c := cur_upd ev in
    Ok (liq * avg u_r1 us c s e / avg u_S us c s e, liq * avg u_r2 us c s e / avg u_S us c s e).
Proof. exact lp_price_spec. Qed.
Print Assumptions C13_query_lp.

(** [avg] is the floor of the window sum over the window length (cross-multiplied) and at least 1 *)
Theorem C13_average : forall g us c s e, wf_calls us -> pos_upd c ->
  (forall u, pos_upd u -> 1 <= g u) -> 0 <= s -> s < e ->
  1 <= avg g us c s e /\
  avg g us c s e * (e - s) <= sumr (fun t => g (start us c t)) s e < avg g us c s e * (e - s) + (e - s).
Proof. exact avg_bounds. Qed.
Print Assumptions C13_average.

(** Rejections: s >= e, e in the future, nothing recorded yet, s before the oldest retained observation *)
Theorem C13_reject : forall N, 2 <= N -> forall us ev s e tok amt liq, wf_calls us ->
  (forall u, In u us -> u_round u <= e_now ev) -> 0 <= e_now ev ->
  (e <= s \/ e_now ev < e \/ eff us = [] \/
   (exists o, get_oldest N (ring_of N us) = Ok o /\ s < ob_round o)) ->
  is_ok (get_safe_price N (ring_of N us) ev s e tok amt) = false /\
  is_ok (get_lp_safe_price N (ring_of N us) ev s e liq) = false.
Proof. exact reject_spec. Qed.
Print Assumptions C13_reject.

Theorem C13_reject_observation : forall N, 2 <= N -> forall us ev x, wf_calls us ->
  (forall u, In u us -> u_round u <= e_now ev) -> 0 <= e_now ev ->
  (e_now ev < x \/ eff us = [] \/ (exists o, get_oldest N (ring_of N us) = Ok o /\ x < ob_round o)) ->
  is_ok (view_observation N (ring_of N us) ev x) = false.
Proof. exact reject_observation. Qed.
Print Assumptions C13_reject_observation.

(** The ...ByRoundOffset / ...ByDefaultOffset entry points only choose the window *)
Theorem C13_offsets : forall N rg ev,
  (forall off s, offset_start ev off = Ok s <-> (0 < off < e_now ev /\ s = e_now ev - off)) /\
  (forall o, get_oldest N rg = Ok o -> ob_round o <= e_now ev ->
     default_start N rg ev = Ok (e_now ev - Z.min DEFAULT_SAFE_PRICE_ROUNDS_OFFSET (e_now ev - ob_round o))).
Proof. exact offsets_spec. Qed.
Print Assumptions C13_offsets.

(** Composition with the pool model: along any run of pool operations with non-decreasing rounds,
    started with an empty ring, the calls made ([calls_of]: round and PRE-operation reserves of every
    successful reserve-changing operation) are well-formed and the ring is [ring_of] of them — so
    every theorem above speaks about the composed pair.  And whenever the pool is initialised at the
    start of round t, the reserves it then holds are [start (calls_of ...) (final reserves) t]:
    [start] IS the start-of-round reserve of the property, however many operations share a round. *)
Theorem C13_pool_feeds_ring : forall N, 2 <= N -> forall ops w,
  WorldInv (sw_w w) -> sw_ring w = ring0 -> rounds_from 0 ops ->
  wf_calls (calls_of N w ops) /\ sw_ring (sp_run N w ops) = ring_of N (calls_of N w ops).
Proof. exact composed_ring. Qed.
Print Assumptions C13_pool_feeds_ring.

Theorem C13_start_of_round : forall N ops w t lr, WorldInv (sw_w w) -> rounds_from lr ops ->
  let wt := sp_run N w (before t ops) in
  let wf := sp_run N w ops in
  0 < p_S (w_p (sw_w wt)) ->
  same_res (start (calls_of N w ops) (upd_of 0 (w_p (sw_w wf))) t) (w_p (sw_w wt)).
Proof. exact start_of_round. Qed.
Print Assumptions C13_start_of_round.

(** a wrapped ring (capacity 3, five observations, two calls in one round), queried across the wrap
    point with interpolated start and extrapolated end *)
Example C13_nonvacuous :
  let us := [mkU 5 1000 3000 1000; mkU 5 1100 2800 1000; mkU 9 1100 2800 1000; mkU 20 900 3400 1000;
             mkU 21 950 3300 1200; mkU 40 700 900 1200] in
  let ev := mkEnv 50 1000 650 1300 in
  wf_calls us /\ (forall u, In u us -> u_round u <= e_now ev) /\ pos_upd (cur_upd ev) /\
  match run_updates 3 ring0 us with
  | Ok rg => rg = ring_of 3 us /\ rg_cur rg = 2 /\ vlen (rg_obs rg) = 3 /\
      match get_oldest 3 rg with Ok o => ob_round o = 20 | Err _ => False end /\
      get_price_observation 3 rg ev 30 = Ok (mkO 22550 63000 26 30 28000) /\
      get_safe_price 3 rg ev 30 45 T1 1000 = Ok (T2, 1020) /\
      get_lp_safe_price 3 rg ev 30 45 1200 = Ok (778, 794) /\
      is_ok (get_safe_price 3 rg ev 19 45 T1 1000) = false /\
      is_ok (get_safe_price 3 rg ev 30 51 T1 1000) = false
  | Err _ => False
  end.
Proof.
  vm_compute. repeat split; try discriminate; try lia;
    try (repeat constructor; discriminate).
  intros u [<-|[<-|[<-|[<-|[<-|[<-|[]]]]]]]; discriminate.
Qed.

(** the same through the pool model: a real operation history (several operations per round, an
    admin call in between, capacity 3 so that the ring wraps) *)
Example C13_nonvacuous_pool :
  let w0 := mkSpw (mkWorld (init_pair 300 50 None) (init_pair 300 50 None)) ring0 in
  let ops := [(1, SetState OWNER 1); (1, Add 1 1000000 3000000 1 1); (5, SwapIn 2 1 12345 2 1);
              (5, SwapIn 2 2 777 1 1); (6, SetFee OWNER 100 0); (9, Remove 1 5000 1 1);
              (9, SwapOut 2 1 99999 2 5000); (20, Add 3 500 1500 1 1); (21, SwapIn 2 2 100000 1 1);
              (40, SwapIn 2 1 1 2 1)] in
  let w := sp_run 3 w0 ops in
  rounds_from 0 ops /\ length (calls_of 3 w0 ops) = 8%nat /\
  sw_ring w = ring_of 3 (calls_of 3 w0 ops) /\ rg_cur (sw_ring w) = 2 /\
  u_r1 (start (calls_of 3 w0 ops) (upd_of 0 (w_p (sw_w w))) 9) = 1012081 /\
  p_r1 (w_p (sw_w (sp_run 3 w0 (before 9 ops)))) = 1012081 /\
  get_safe_price 3 (sw_ring w) (env_of w 50) 22 45 T1 1000000 = Ok (T2, 3120418) /\
  get_lp_safe_price 3 (sw_ring w) (env_of w 50) 22 45 1000 = Ok (980, 3059) /\
  is_ok (get_safe_price 3 (sw_ring w) (env_of w 50) 10 45 T1 1000000) = false.
Proof. vm_compute. repeat split; discriminate. Qed.
