(** dex/farm as ONE closed model (Model/FarmFull.v = Model/Farm.v composed with Model/Boosted.v on Model/Weekly.v):
    the theorems only the composition can carry.  Statements only; proofs in Proofs/FarmFullProofs.v.
    (This file continues Props/C05.v: the C05 theorems of the closed model; the other half is in Props/C11_closed.v.)

    Vocabulary:
      [full_step s op = Ok (s', out)]  one successful dex/farm endpoint call on the closed state [s] = (farm, module, block):
            the boosted payout, the caller's position, the emission and the supply are COMPUTED; the only inputs are the
            caller's arguments, the energy factory's stored entry of the user ([raw]) and the clock ([XTime]);
      [fop_of s op b] / [bop_of s op supply posa]  the Model/Farm.v operation (with boosted payout [b]) and the
            Model/Boosted.v operation (with the farm-level facts) the endpoint consists of;
      [xo_b out]  the boosted payout the module computed = what the farm half paid; [xo_f], [xo_m] the halves' outputs;
      [xreach dsc same blk epoch ops]  the state after ANY list of operations from deployment (failed calls revert);
      [xgreach ...]  the same with the ghost: the module's ledger [xg_b] (per week: [gcuts] = slices booked, [gpaid] =
            boosted payments made, the accepted factor settings) and, per week, [uE] / [uF] = the sums of the energies /
            positions the settlements of that week were computed with;
      [xvalid op]  account ids in range (the model's position-ledger keys are nonce * 1000 + holder);
      [pending_amount s g wk u p]  what get_user_rewards_for_week computes — formula only, NO guard on remaining(week) —
            for recorded user [u] (progress [p], still able to claim week [wk]) from the present state: his present total
            position, his recorded energy decayed to [wk], the week's pool / farm supply / total energy / factors;
      [pool_left b wk]  remaining(wk) once the week's total is frozen, accumulated(wk) before. *)
From MX Require Import Base.Prelude Gen.Params Model.Weekly Model.Farm Model.Boosted Model.FarmFull.
From MX Require Import Proofs.FarmInv Proofs.FarmSolv Proofs.FarmOwner Proofs.WeeklyProofs Proofs.BoostedProofs Proofs.FarmFullProofs.

Local Notation MAXW := USER_MAX_CLAIM_WEEKS.

(** ------------------------------------------------------------------ 1. projection and refinement *)
(** Every successful closed step IS a successful step of the farm model with the computed boosted payout and a successful
    step of the boosted model with the computed farm-level facts; the payout the module reports is the one the farm paid. *)
Theorem C05_closed_step_projects : forall s op s' out, full_step s op = Ok (s', out) ->
  clock_of s op = Ok (x_blk s') /\
  (match fop_of s op (xo_b out) with
   | Some fo => fstep (x_f s) fo = Ok (x_f s', xo_f out)
   | None => x_f s' = x_f s /\ xo_f out = []
   end) /\
  (match bop_of s op (f_supply (x_f s')) (utot (x_f s') (caller_of op)) with
   | Some bo => Boosted.step (x_b s) bo = Ok (x_b s', xo_m out) /\ o_b (xo_m out) = xo_b out
   | None => x_b s' = x_b s /\ xo_m out = out0 /\ xo_b out = 0
   end).
Proof.
  intros s op s' out H. destruct (full_step_proj _ _ _ _ H) as (Hc & _).
  split; [exact Hc|]. split; [apply (full_step_farm _ _ _ _ H) | apply (full_step_module _ _ _ _ H)].
Qed.
Print Assumptions C05_closed_step_projects.

(** [full_run] refines [frun] and [run]: the two halves of any closed history are histories of the two open models
    (with the operation lists [fops] / [bops] the closed run itself produces). *)
Theorem C05_closed_refines_farm : forall ops s,
  x_f (full_run s ops) = frun (x_f s) (fops s ops) /\ (Forall xvalid ops -> Forall valid_op (fops s ops)).
Proof. intros ops s. split; [apply full_run_farm | apply fops_valid]. Qed.
Print Assumptions C05_closed_refines_farm.

(** ... hence C05 - C07 hold in every reachable state of the closed model: accounting, solvency and principal (FarmOK,
    with its parts FarmAcc and Solv), owner totals (UT) ... *)
Theorem C05_closed_reach : forall dsc same blk epoch ops, 0 < dsc -> Forall xvalid ops ->
  let f := x_f (xreach dsc same blk epoch ops) in FarmOK f /\ FarmAcc f /\ Solv f /\ UT f.
Proof. exact closed_farm_ok. Qed.
Print Assumptions C05_closed_reach.

(** all of it at once, with the ghost of the closed run: FarmOK, UT, BInv, the link invariant and the no-underflow
    invariant hold in every reachable state *)
Theorem C05_C11_closed_invariant : forall dsc same blk epoch ops, 0 < dsc -> Forall xvalid ops ->
  let sg := xgreach dsc same blk epoch ops in
  fst sg = xreach dsc same blk epoch ops /\ XInv (fst sg) (snd sg).
Proof. intros. split; [apply xgreach_state | apply reach_xinv; assumption]. Qed.
Print Assumptions C05_C11_closed_invariant.

(** ------------------------------------------------------------------ 2. the link invariant *)
(** In every reachable state the farm's aggregate of "boosted share accrued and not yet paid" is exactly the module's
    books: the sum over the weeks of accumulated + remaining, plus undistributed (collectUndistributedBoostedRewards only
    moves a week's leftover into undistributed: nothing leaves the contract); the two percentage fields agree; the farm's
    "factors configured" flag is the presence of the module's config.  The storage maps have unique keys, so [asum] is
    the sum over weeks. *)
Theorem C05_link_invariant : forall dsc same blk epoch ops, 0 < dsc -> Forall xvalid ops ->
  let s := xreach dsc same blk epoch ops in
  let h := b_h (x_b s) in
  f_pool (x_f s) = asum (bh_acc h) + asum (bh_rem h) + bh_und h /\
  NoDup (akeys (bh_acc h)) /\ NoDup (akeys (bh_rem h)) /\
  f_pct (x_f s) = bh_pct h /\
  (f_factors (x_f s) = true <-> bh_cfg h <> None).
Proof.
  intros dsc same blk epoch ops Hd V s h. pose proof (reach_xinv dsc same blk epoch ops Hd V) as X.
  rewrite xgreach_state in X. fold s in X. destruct X as [_ _ Hi (L1 & L2 & L3) _].
  destruct Hi as (_ & _ & _ & _ & HM & _). destruct (m_nd _ _ _ _ HM) as (N1 & N2).
  split; [exact L1|]. split; [exact N1|]. split; [exact N2|]. split; [exact L2 | exact L3].
Qed.
Print Assumptions C05_link_invariant.

(** Per operation: the slice the module books ([o_cut]) is exactly the cut the farm takes out of this operation's
    emission (0 for operations that do not settle), and the farm's aggregate moves by that slice minus the payout. *)
Theorem C05_link_step : forall s g op s' out,
  LK s -> BoostedProofs.BInv (x_b s) g -> full_step s op = Ok (s', out) ->
  LK s' /\
  o_cut (xo_m out) = (if settles op then boosted_cut (x_f s) (emission (x_f s) (x_blk s)) else 0) /\
  f_pool (x_f s') = f_pool (x_f s) + o_cut (xo_m out) - xo_b out.
Proof. exact full_step_link. Qed.
Print Assumptions C05_link_step.

(** C05's clause "the reserve covers all claimable base rewards plus all not-yet-claimed boosted-reward pools", now about
    the ACTUAL weekly pools: un-floored claimable base rewards (scaled by DSC) fit into reserve - (sum of the weekly pools +
    undistributed), which is non-negative. *)
Theorem C05_reserve_covers_weekly_pools : forall dsc same blk epoch ops, 0 < dsc -> Forall xvalid ops ->
  let s := xreach dsc same blk epoch ops in
  let pools := asum (bh_acc (b_h (x_b s))) + asum (bh_rem (b_h (x_b s))) + bh_und (b_h (x_b s)) in
  claimable (x_f s) <= f_dsc (x_f s) * (f_reserve (x_f s) - pools) /\ 0 <= claimable (x_f s) /\
  0 <= pools <= f_reserve (x_f s) /\ f_reserve (x_f s) <= f_bal_rew (x_f s).
Proof.
  intros dsc same blk epoch ops Hd V s pools. pose proof (reach_xinv dsc same blk epoch ops Hd V) as X.
  rewrite xgreach_state in X. fold s in X. destruct X as [K _ _ (L1 & _) _].
  destruct K as (A & S & D). pose proof (claimable_nonneg _ A S). pose proof (pool_within_reserve _ A S).
  destruct S as [_ CV]. destruct A as [[_ _ _ _ _ _ (_ & _ & _ & _ & _ & P0)] _ _]. unfold don in D.
  unfold pools. unfold msum in L1. rewrite <- L1. repeat split; lia.
Qed.
Print Assumptions C05_reserve_covers_weekly_pools.

(** What the module pays in an operation is non-negative and within the farm's aggregate pool plus this operation's own
    slice — exactly the hypothesis 0 <= b <= f_pool of C05_reward_payable, now discharged for the COMPUTED payout: the
    pool and reserve debits of the farm half cannot fail on it. *)
Theorem C05_boosted_payout_payable : forall dsc same blk epoch ops bo b' out, 0 < dsc -> Forall xvalid ops ->
  let s := fst (xgreach dsc same blk epoch ops) in
  Boosted.step (x_b s) bo = Ok (b', out) -> 0 <= o_b out <= f_pool (x_f s) + o_cut out.
Proof.
  intros dsc same blk epoch ops bo b' out Hd V s Hs.
  apply (payout_within_pool s (snd (xgreach dsc same blk epoch ops)) bo b' out); [apply reach_xinv; assumption | exact Hs].
Qed.
Print Assumptions C05_boosted_payout_payable.

(** C05's last clause on the closed model, boosted part included: a user endpoint called in a reachable state fails only
    if its farm half (Model/Farm.v's endpoint, run with the payout the module computed — which the pool covers) fails;
    the boosted half never does. *)
Theorem C05_user_step_fails_only_in_farm_half : forall dsc same blk epoch ops op u e, 0 < dsc -> Forall xvalid ops ->
  let s := fst (xgreach dsc same blk epoch ops) in
  xvalid op -> claim_user op = Some u -> raw_ok op ->
  (forall c raw, op = XClaimBoosted c raw -> utot (x_f s) c <> 0) ->
  full_step s op = Err e ->
  exists b1 o1 fo e', run_b (x_b s) (bop_of s op 0 0) = Ok (b1, o1) /\ fop_of s op (o_b o1) = Some fo /\
                      fstep (x_f s) fo = Err e' /\ 0 <= o_b o1 <= f_pool (x_f s) + o_cut o1.
Proof.
  intros dsc same blk epoch ops op u e Hd V s Vo Hcu Hraw Hcb H.
  apply (user_step_fails_in_farm_half s (snd (xgreach dsc same blk epoch ops)) op u e); try assumption. apply reach_xinv; assumption.
Qed.
Print Assumptions C05_user_step_fails_only_in_farm_half.

(** ------------------------------------------------------------------ non-vacuity *)
(** 25 % boosted share, factors (2,3,2,1,1); users 1 and 2 enter in week 1 (pool 500 booked by the settlement of the second
    enter); in week 2 user 1 settles (250 = min(2*500*100/400, (1050+250)/5)), hands 40 of his position to user 2, who
    claims with it: his boosted part 240 is computed with his position BEFORE the received 40 are attributed to him;
    user 1 exits the rest; six weeks later the admin sweeps the leftover 10 and the never-claimed 1250 of week 2.
    Every call succeeds; the farm's aggregate equals the module's books throughout. *)
Definition ff_example : list xop :=
  [XSetRate 100 1000; XSetState 100 1; XStart 100; XSetPct 100 2500; XSetFactors 100 (mkFac 2 3 2 1 1);
   XEnter 1 100 [] (Some (mkEn 7000 5 10)); XTime 2 0; XEnter 2 300 [] (Some (mkEn 3000 5 10));
   XTime 5 7;
   XClaimBoosted 1 (Some (mkEn 7000 5 10));
   XTransfer 1 1 2 40;
   XClaim 2 (2, 300) [(1, 40)] (Some (mkEn 3000 5 10));
   XExit 1 (1, 60) (Some (mkEn 7000 5 10));
   XTime 1 42; XCollect 100].

Definition ff_outs (s : xstate) (ops : list xop) : list (Z * Z) :=
  snd (fold_left (fun (acc : xstate * list (Z * Z)) op =>
                    match full_step (fst acc) op with
                    | Ok (s', o) => (s', snd acc ++ [(xo_b o, o_cut (xo_m o))])
                    | Err _ => (fst acc, snd acc ++ [(-1, -1)])
                    end) ops (s, [])).

Example FarmFull_nonvacuous :
  let sg := xgreach 1000000 false 10 5 ff_example in let s := fst sg in let g := snd sg in
  ff_outs (init_x 1000000 false 10 5) ff_example =
    [(0, 0); (0, 0); (0, 0); (0, 0); (0, 0); (0, 0); (0, 0); (0, 500); (0, 0); (250, 1250); (0, 0); (240, 0); (0, 0); (0, 0); (0, 0)] /\
  gcuts (xg_b g) 1 = 500 /\ gpaid (xg_b g) 1 = 490 /\ uF g 1 = 400 /\ Fw (x_b s) 1 = 400 /\
  f_pool (x_f s) = 1260 /\ bh_und (b_h (x_b s)) = 1260 /\ f_supply (x_f s) = 340.
Proof. vm_compute. repeat split. Qed.
