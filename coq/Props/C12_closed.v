(** farm-staking as ONE closed model (Model/StakingFull.v): the C12 theorems of the composition.  Statements only; proofs in
    Proofs/StakingFullProofs.v.  (This file continues Props/C12.v; vocabulary as in Props/C05_staking_closed.v.)

    Props/C12.v states C12 on the money-flow model Model/Staking.v, where the reward of an operation, its boosted part and
    the aggregate of the boosted pools are inputs / a single counter.  Here the staking farm is closed with its boosted
    module: the accrual of a settlement is the one the module slices, the boosted part of every payment is what the module
    computed, and the counter [s_pool] is the sum of the actual weekly pools. *)
From MX Require Import Base.Prelude Gen.Params Model.Weekly Model.Boosted Model.BoostedHosts Model.Staking Model.StakingPos Model.StakingFull.
From MX Require Import Proofs.FarmInv Proofs.StakingProofs Proofs.StakingPosProofs.
From MX Require Import Proofs.WeeklyProofs Proofs.BoostedProofs Proofs.BoostedHostsProofs Proofs.FarmFullProofs Proofs.StakingFullProofs.

(** the money-flow state of every reachable closed state satisfies C12's invariant [StkInv]: so every theorem of Props/C12.v
    about a state with [StkInv] (C12_step, C12_apr, C12_unstake, C12_unlock_epoch_fixed, C12_unbond, C12_unbond_never_early,
    C12_unbond_possible_when_elapsed, C12_unbond_once, C12_withdraw) applies to it as it stands *)
Theorem C12_closed_reach : forall dsc apr minub blk epoch ops, 0 < dsc -> 0 < apr -> Forall sxvalid ops ->
  StkInv (p_s (sx_p (sxreach dsc apr minub blk epoch ops))).
Proof. intros. apply i_stk. apply closed_staking_inv; assumption. Qed.
Print Assumptions C12_closed_reach.

(** C12's balance identity with the pools itemised: in every reachable state the contract's staking-token balance =
    directly staked principal + outstanding unbond amounts + un-accrued capacity + accrued-but-unpaid rewards (+ donations),
    where accrued-but-unpaid = the base share still owed (reserve - pools, which covers every position's claimable base
    reward) + the sum over the weeks of accumulated(w) + remaining(w) + undistributed; accrued never exceeds capacity. *)
Theorem C12_closed_balance_itemised : forall dsc apr minub blk epoch ops, 0 < dsc -> 0 < apr -> Forall sxvalid ops ->
  let s := sxreach dsc apr minub blk epoch ops in
  let st := p_s (sx_p s) in let h := b_h (sx_b s) in
  let pools := asum (bh_acc h) + asum (bh_rem h) + bh_und h in
  s_bal st = (s_supply st - s_virt st) + s_ubtot st + (s_cap st - s_acc st) + (s_reserve st - pools) + pools + s_don st /\
  0 <= s_acc st <= s_cap st /\ 0 <= s_ubtot st /\ 0 <= s_don st /\ 0 <= pools /\
  sclaimable_floor (sx_p s) <= s_reserve st - pools.
Proof.
  intros dsc apr minub blk epoch ops Hd Ha V s. pose proof (reach_sxinv dsc apr minub blk epoch ops Hd Ha V) as X.
  rewrite sxgreach_state in X. fold s in X. apply (sclosed_balance _ _ X).
Qed.
Print Assumptions C12_closed_balance_itemised.

(** ... with the proxy separated, the virtual principal is what the proxy holds, within the supply: every other position is
    backed by staking tokens *)
Theorem C12_closed_principal_backed : forall dsc apr minub blk epoch ops, 0 < dsc -> 0 < apr -> Forall sxsep ops ->
  let s := sxreach dsc apr minub blk epoch ops in let st := p_s (sx_p s) in
  0 <= s_virt st <= s_supply st /\ s_virt st = proxy_held (sx_p s) /\
  (s_supply st - s_virt st) + s_ubtot st + s_reserve st <= s_bal st.
Proof.
  intros dsc apr minub blk epoch ops Hd Ha V s st. destruct (closed_staking_sep dsc apr minub blk epoch ops Hd Ha V) as (I & VI). fold s in I, VI.
  pose proof (virt_within_supply _ I VI) as Hv. fold st in Hv. pose proof (i_stk _ I) as IS. fold st in IS.
  pose proof (k_bal _ IS). pose proof (k_cap _ IS). pose proof (k_wf _ IS) as (_ & _ & _ & _ & _ & _ & _ & Hdn & _).
  split; [exact Hv|]. split; [exact VI|]. lia.
Qed.
Print Assumptions C12_closed_principal_backed.

(** the accrual [semission] the closed model hands to the module is exactly what Staking.settle accrues on that state, and
    it is bounded as C12 says: within the un-accrued capacity, at most supply*maxAPR/(10000*blocks_per_year) and at most the
    rate per block (cross-multiplied), nothing while production is off *)
Theorem C12_closed_accrual_bounds : forall s blk, StkInv s ->
  let d := Z.max 0 (blk - s_last s) in
  (forall s', Staking.settle s blk = Ok s' -> s_acc s' - s_acc s = semission s blk) /\
  0 <= semission s blk <= s_cap s - s_acc s /\
  semission s blk * (Staking.MAXP * BLOCKS_IN_YEAR) <= d * (s_supply s * s_apr s) /\
  semission s blk <= d * s_rate s /\
  (s_produce s = false -> semission s blk = 0).
Proof. exact semission_bounds. Qed.
Print Assumptions C12_closed_accrual_bounds.

(** per settlement of the closed model: the slice the module books in the running week is the boosted percentage of that
    bounded accrual (0 while no factors are configured), so the boosted pools are filled from topped-up capacity only *)
Theorem C12_closed_slice_of_accrual : forall dsc apr minub blk epoch ops op s' out, 0 < dsc -> 0 < apr -> Forall sxvalid ops ->
  let s := fst (sxgreach dsc apr minub blk epoch ops) in
  sfull_step s op = Ok (s', out) ->
  o_cut (so_m out) = (if ssettles op then Staking.boosted_cut (p_s (sx_p s)) (sem s) else 0) /\
  0 <= o_cut (so_m out) <= (if ssettles op then sem s else 0) /\
  0 <= sem s <= s_cap (p_s (sx_p s)) - s_acc (p_s (sx_p s)) /\
  s_pool (p_s (sx_p s')) = s_pool (p_s (sx_p s)) + o_cut (so_m out) - so_b out.
Proof.
  intros dsc apr minub blk epoch ops op s' out Hd Ha V s H.
  pose proof (reach_sxinv dsc apr minub blk epoch ops Hd Ha V) as X. fold s in X. destruct X as [I Hi L _].
  destruct (sfull_step_link _ _ _ _ _ L Hi (Inv_utot_nn _ I) H) as (_ & C & P).
  destruct (semission_bounds (p_s (sx_p s)) (sx_blk s) (i_stk _ I)) as (_ & B & _). fold (sem s) in B.
  pose proof (k_wf _ (i_stk _ I)) as (_ & _ & _ & Hp & _).
  pose proof (boosted_cut_bounds (p_s (sx_p s)) (sem s) (proj1 B) Hp) as Hc.
  split; [exact C|]. split; [rewrite C; destruct (ssettles op); lia|]. split; [exact B | exact P].
Qed.
Print Assumptions C12_closed_slice_of_accrual.

(** unbondFarm of the closed model IS Model/Staking.v's unbond on the staking half's state at the chain's epoch — the epoch
    moves only by the clock operation — so C12_unbond / C12_unbond_never_early / C12_unbond_once apply: paid exactly the token
    amount, never before the unlock epoch, once; the caller must hold the unbond token *)
Theorem C12_closed_unbond : forall s c n amt s' out, sfull_step s (SXUnbond c n amt) = Ok (s', out) ->
  sstep (p_s (sx_p s)) (SUnbond (b_epoch (sx_b s)) c n amt) = Ok (p_s (sx_p s'), so_p out) /\
  0 < amt <= ubheld (sx_p s) n c /\ sx_b s' = sx_b s /\
  exists unlock, find_z (s_ub (p_s (sx_p s))) n = Some unlock /\ unlock <= b_epoch (sx_b s) /\ so_p out = [amt] /\
                 s_bal (p_s (sx_p s')) = s_bal (p_s (sx_p s)) - amt.
Proof.
  intros s c n amt s' out H. destruct (sclosed_unbond _ _ _ _ _ _ H) as (A & B & C).
  split; [exact A|]. split; [exact B|]. split; [exact C|].
  destruct (unbond_char _ _ _ _ _ _ _ A) as (unlock & U1 & U2 & U3 & _ & U5 & _). exists unlock. auto.
Qed.
Print Assumptions C12_closed_unbond.

(** non-vacuity: the history of Props/C05_staking_closed.v extended by an early (refused) and a timely unbond *)
Example C12_closed_nonvacuous :
  let ops := [SXSetRate 100 1000; SXSetState 100 1; SXTopUp 100 1000000000; SXStart 100; SXSetPct 100 2500; SXSetFactors 100 (mkFac 2 3 2 1 1);
              SXStake 1 1 100 [] (Some (mkEn 7000 5 10)); SXTime 2 0; SXStakeProxy 50 2 300 [] (Some (mkEn 3000 5 10));
              SXTime 5 7; SXClaimBoosted 1 (Some (mkEn 7000 5 10)); SXUnstake 1 1 (1, 60) (Some (mkEn 7000 5 10))] in
  let s := sxreach 1000000 1000000000000 3 10 5 ops in
  let st := p_s (sx_p s) in let h := b_h (sx_b s) in
  asum (bh_acc h) + asum (bh_rem h) + bh_und h = 1500 /\ s_pool st = 1500 /\ s_reserve st = 5288 /\ s_acc st = 7000 /\
  s_ubtot st = 60 /\ s_virt st = 300 /\ s_supply st = 340 /\
  is_ok (sfull_step s (SXUnbond 1 3 60)) = false /\
  is_ok (sfull_step (sfull_run s [SXTime 1 3]) (SXUnbond 1 3 60)) = true.
Proof. vm_compute. repeat split. Qed.
