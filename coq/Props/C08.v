(** C08 — Energy equals the time-weighted sum of the account's locked tokens.
    Statements only; proofs are in Proofs/EnergyProofs.v.

    Reading guide.  [s_bal s] is the ledger of real locked-token balances (holder x unlock epoch),
    compared with the chain state after every operation of the correspondence run; user accounts are
    the ids > 0, the contract accounts holding tokens in escrow are H_UNSTAKE (unbonding), H_XFER
    (pending LKMEX transfer) and H_WRAP (wrapped), all <= 0.  [epochs_of l u] enumerates without
    repetition the unlock epochs of the tokens the ledger mentions for u, [lget l u e] is u's balance of
    the token with unlock epoch e, so
        spec_energy l u now = sum over u's locked tokens of balance * (unlock_epoch - now)   (terms of
                              either sign: a token past its unlock epoch contributes negatively)
        spec_total  l u     = sum over u's locked tokens of balance.
    [view_entry] / [view_amount] are getEnergyEntryForUser / getEnergyAmountForUser.

    Scope.  "Attributed to an account" is, in this model, "held by the account": locked tokens cannot
    move between accounts except through the modelled contracts (transfer role).  The whitelisted
    contract of extendLockPeriod / lockVirtual / mergeTokens(original_caller) is modelled as a
    pass-through acting for the user within one operation (ExtendVia / LockVirtual / MergeVia);
    positions that proxy_dex keeps for a user between transactions, its energy_update deduction, the
    owner-only adjustUserEnergy and the legacy-token migration endpoints are outside this model. *)
From MX Require Import Base.Prelude Gen.Params Model.Energy Proofs.EnergyProofs.

(** The two sums, spelled out (definitional unfolding, to pin what the theorems are about). *)
Theorem C08_spec_meaning : forall l u now,
  spec_energy l u now = fold_right (fun e acc => lget l u e * (e - now) + acc) 0 (epochs_of l u) /\
  spec_total l u = fold_right (fun e acc => lget l u e + acc) 0 (epochs_of l u) /\
  NoDup (epochs_of l u) /\
  (forall e, ~ In e (epochs_of l u) -> lget l u e = 0).
Proof. exact spec_meaning. Qed.
Print Assumptions C08_spec_meaning.

(** What the invariant gives for every user account: the reported entry IS the time-weighted sum of
    the tokens the account holds, its total is the sum of the amounts, and the amount view is the sum
    clamped at zero. *)
Theorem C08_energy_is_time_weighted_sum : forall s u, EnergyInv s -> 0 < u ->
  e_amt (view_entry s u) = spec_energy (s_bal s) u (s_now s) /\
  e_tot (view_entry s u) = spec_total (s_bal s) u /\
  e_upd (view_entry s u) = s_now s /\
  view_amount s u = Z.max 0 (spec_energy (s_bal s) u (s_now s)).
Proof. exact inv_view. Qed.
Print Assumptions C08_energy_is_time_weighted_sum.

(** Every successful operation — lock (own / other destination / lockVirtual), extend (own / through
    the whitelisted contract), merge, reduce, unlock, unlockEarly, claimUnlockedTokens, cancelUnbond,
    lockFunds, withdraw, cancelTransfer, wrap, unwrap, wrapped-token transfer, epoch advance — by any
    account with any arguments preserves it; a failed one changes nothing ([step_total]). *)
Theorem C08_step : forall s op s' o, EnergyInv s -> step s op = Ok (s', o) -> EnergyInv s'.
Proof. exact step_inv. Qed.
Print Assumptions C08_step.

(** Every reachable state: any interleaving of any length, from any start epoch and any configuration
    whose lock options [addLockOptions] accepts (any unbond / cooldown / minimum-lock settings). *)
Theorem C08_reach : forall c epoch ops, valid_opts (c_opts c) = true -> 0 <= epoch ->
  EnergyInv (run (init_state c epoch) ops).
Proof. exact reach_inv. Qed.
Print Assumptions C08_reach.

(** The property in one statement. *)
Theorem C08_reach_view : forall c epoch ops u, valid_opts (c_opts c) = true -> 0 <= epoch -> 0 < u ->
  let s := run (init_state c epoch) ops in
  e_amt (view_entry s u) = spec_energy (s_bal s) u (s_now s) /\
  e_tot (view_entry s u) = spec_total (s_bal s) u /\
  view_amount s u = Z.max 0 (spec_energy (s_bal s) u (s_now s)).
Proof. exact reach_view. Qed.
Print Assumptions C08_reach_view.

(** Escrow gives energy to nobody.  (1) The sums above range over the account's OWN balances only;
    (2) the contract accounts — the three escrows among them — never have an entry, whatever they
    hold; (3) an operation whose balance changes [d] (the ledger is the list of signed balance
    changes) name other holders only does not touch the account's entry: tokens entering, sitting in or
    leaving escrow never show up in a third party's energy. *)
Theorem C08_escrow_has_no_energy : forall s h, EnergyInv s -> h <= 0 ->
  view_entry s h = mkEn 0 (s_now s) 0 /\ view_amount s h = 0.
Proof. exact inv_escrow. Qed.
Print Assumptions C08_escrow_has_no_energy.

Theorem C08_third_party_unaffected : forall s s' u d, EnergyInv s -> EnergyInv s' -> 0 < u -> s_now s' = s_now s ->
  s_bal s' = d ++ s_bal s -> Forall (fun x => fst (fst x) <> u) d ->
  view_entry s' u = view_entry s u /\ (forall e, lget (s_bal s') u e = lget (s_bal s) u e).
Proof. exact inv_frame_view. Qed.
Print Assumptions C08_third_party_unaffected.

(** The escrow accounts hold exactly what is pending: the unbond queue, the scheduled transfers and
    the wrapped supply are backed token for token, per unlock epoch. *)
Theorem C08_escrow_backed : forall c epoch ops e, valid_opts (c_opts c) = true -> 0 <= epoch ->
  let s := run (init_state c epoch) ops in
  lget (s_bal s) H_UNSTAKE e = unbonding s e /\
  lget (s_bal s) H_XFER e = in_transfer s e /\
  lget (s_bal s) H_WRAP e = wrapped_supply s e.
Proof. exact reach_escrow. Qed.
Print Assumptions C08_escrow_backed.

(** Call sites of add_after_token_lock: every successful lock / lockVirtual / extend / merge / reduce
    produces a token whose unlock epoch is strictly in the future (month rounding and the upper
    estimate included), so [lock_tokens] never returns the payment unlocked and the energy term is
    never silently dropped. *)
Theorem C08_new_token_in_future : forall s op s' o, EnergyInv s -> makes_token op = true ->
  step s op = Ok (s', o) -> exists ne ma, o = [ne; ma] /\ s_now s < ne /\ 0 < ma.
Proof. exact new_token_in_future. Qed.
Print Assumptions C08_new_token_in_future.

(** Non-vacuity: a concrete history (replayed on the real contracts by tools/props/c08.py) in which
    all 22 operations succeed; at the end account 1 holds four kinds of locked token, one of them past
    its unlock epoch (negative term), while tokens sit in all three escrows. *)
Definition c08_cfg : cfg := mkCfg [(360, 4000); (720, 6000); (1440, 8000)] 10 4 6.
Definition c08_ops : list eop :=
  [Lock 1 1000 360 1; Lock 1 5000 1440 1; Lock 2 700 720 3; LockVirtual 2 900 360; Reduce 1 1440 1000 360;
   UnlockEarly 1 360 300; UnlockEarly 3 720 50; Wrap 1 1440 500; WTransfer 1 2 1440 200;
   LockFunds 1 3 [(1440, 100); (360, 50)]; Advance 5; Withdraw 3 1; Unwrap 2 1440 200; Extend 3 720 100 1440 3;
   ExtendVia 1 360 100 720; Merge 1 [(1440, 10); (720, 20)]; Advance 360; Unlock 2 [(360, 400)]; CancelUnbond 1;
   Claim 3; UnlockEarly 1 1440 90; LockFunds 2 1 [(1440, 10)]].
Example C08_nonvacuous :
  let s := run (init_state c08_cfg 5) c08_ops in
  valid_opts (c_opts c08_cfg) = true /\
  forallb (fun k => is_ok (step (run (init_state c08_cfg 5) (firstn k c08_ops)) (nth k c08_ops (Advance 0))))
          (seq 0 22) = true /\
  s_now s = 370 /\
  epochs_of (s_bal s) 1 = [960; 720; 1440; 360] /\
  map (lget (s_bal s) 1) (epochs_of (s_bal s) 1) = [30; 80; 3300; 1183] /\
  e_amt (view_entry s 1) = 30 * (960 - 370) + 80 * (720 - 370) + 3300 * (1440 - 370) + 1183 * (360 - 370) /\
  e_tot (view_entry s 1) = 4593 /\
  lget (s_bal s) H_WRAP 1440 = 300 /\ lget (s_bal s) H_XFER 1440 = 10 /\ lget (s_bal s) H_UNSTAKE 1440 = 90.
Proof. vm_compute. repeat split. Qed.
