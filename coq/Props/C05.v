(** C05 — Farm reward accounting is exact and principal is fully backed (dex/farm; the boosted
    payout of each operation is an input bounded by the boosted pools, see Model/Farm.v). *)
From MX Require Import Base.Prelude Gen.Params Model.Farm Proofs.FarmInv Proofs.FarmSolv.
From MX Require Import Model.FarmLocked Proofs.FarmLockedProofs.

(** What the invariants say. *)
Theorem C05_invariant_meaning : forall f, FarmOK f ->
  f_reserve f = f_gen f - f_paid f                     (* reserve = generated - paid *)
  /\ f_bal_farming f = f_supply f                       (* farming tokens held = reported farm-token supply *)
  /\ asum (f_out f) = f_supply f                        (* supply = sum of outstanding position amounts (C07) *)
  /\ asum (f_held f) = asum (f_out f)                   (* ... all of them held by accounts *)
  /\ claimable f <= f_dsc f * (f_reserve f - f_pool f)  (* reserve covers every claimable base reward (un-floored, scaled by DSC) ... *)
  /\ 0 <= claimable f /\ 0 <= f_pool f <= f_reserve f   (* ... on top of all not-yet-claimed boosted pools *)
  /\ f_reserve f <= f_bal_rew f.                        (* and is really there *)
Proof.
  intros f (A & S & D). pose proof (claimable_nonneg f A S). pose proof (pool_within_reserve f A S).
  destruct A as [[acc led hh fr frh nx (w1 & w2 & w3 & w4 & w5 & w6)] out prin]. destruct S as [_ CV].
  unfold don in D. repeat split; auto; lia.
Qed.
Print Assumptions C05_invariant_meaning.

(** Every successful operation by any caller preserves it; the reward-token balance exceeds the
    reserve exactly by what was donated with plain transfers, so for a farm that only mints its
    rewards: reward-token balance = reserve (+ principal when farming token = reward token). *)
Theorem C05_step : forall f op f' o, FarmOK f -> valid_op op -> fstep f op = Ok (f', o) ->
  FarmOK f' /\ (f_bal_rew f' - f_reserve f') = (f_bal_rew f - f_reserve f) + donated op.
Proof. intros f op f' o K V E. pose proof (fstep_ok _ _ _ _ E K V) as (K' & D & _). split; assumption. Qed.
Print Assumptions C05_step.

(** Every reachable state of every history, from any deployment (DSC > 0). *)
Theorem C05_reach : forall dsc same ops, 0 < dsc -> Forall valid_op ops ->
  FarmOK (frun (init_farm dsc same) ops).
Proof. intros. apply frun_ok; auto. apply init_farm_ok; assumption. Qed.
Print Assumptions C05_reach.

(** No legitimate claim / exit fails because a reward counter would go negative. *)
Theorem C05_reward_payable : forall f n x a base b, FarmOK f ->
  find_attrs (f_attrs f) n = Some a -> 0 < x <= outst f n ->
  base_reward f a x = Ok base -> 0 <= b <= f_pool f ->
  is_ok (pay_reward f (base + b) b) = true.
Proof. exact reward_payable. Qed.
Print Assumptions C05_reward_payable.

(** Base rewards paid never exceed base rewards generated (all minted minus the boosted share). *)
Theorem C05_issuance : forall f, FarmOK f -> f_paid f + f_pool f <= f_gen f.
Proof.
  intros f (A & S & _). pose proof (pool_within_reserve f A S). destruct A as [[acc _ _ _ _ _ _] _ _]. lia.
Qed.
Print Assumptions C05_issuance.

Definition c05_example : list fop :=
  [FSetRate 10 OWNER 1000; FSetState OWNER 1; FStart 10 OWNER; FSetPct 10 OWNER 2500; FSetFactors OWNER;
   FEnter 12 5 1 100 [] 0; FEnter 15 5 2 250 [] 0; FClaim 20 6 1 (1, 60) [] 0; FTransfer 2 2 1 50;
   FEnter 30 9 1 7 [(2, 50); (1, 40)] 0; FExit 31 9 2 (2, 200) 0; FClaimBoosted 40 9 1 3].
(** ---- farm-with-locked-rewards (same farm modules; rewards are not minted on generation and leave
    only as LOCKED tokens created by the energy factory): every reachable state of the locked farm *)
Theorem C05_locked_reach : forall dsc same opts lock ops, 0 < dsc -> Forall lvalid ops ->
  let f := l_f (lrun (init_locked dsc same opts lock) ops) in
  FarmOK f /\
  f_reserve f = f_gen f - f_paid f /\ f_bal_farming f = f_supply f /\
  claimable f <= f_dsc f * (f_reserve f - f_pool f) /\ 0 <= f_pool f <= f_reserve f /\
  f_paid f + f_pool f <= f_gen f.
Proof. exact locked_C05_reach. Qed.
Print Assumptions C05_locked_reach.

(** the reported reserve = generated - LOCKED tokens created for users; the farm's real balance of the
    reward token moves by donations only *)
Theorem C05_locked_reserve : forall dsc same opts lock ops, 0 < dsc -> Forall lvalid ops ->
  let s := lrun (init_locked dsc same opts lock) ops in
  f_reserve (l_f s) = f_gen (l_f s) - l_locked s /\ 0 <= l_base s /\
  f_bal_rew (l_f s) = f_reserve (l_f s) + l_base s.
Proof. exact locked_reserve_exact. Qed.
Print Assumptions C05_locked_reserve.

Theorem C05_locked_base_balance : forall ops s, l_base (lrun s ops) = l_base s + donations s ops.
Proof. exact lrun_base_balance. Qed.
Print Assumptions C05_locked_base_balance.

(** one operation: the reward r it reports is exactly what the reserve pays and what is locked for the
    caller (nothing when r = 0), with an unlock epoch at a month boundary within the configured lock *)
Theorem C05_locked_receipts : forall s fop s' o lk, LOK s -> valid_op fop -> lstep s (LF fop) = Ok (s', o, lk) ->
  let r := reward_of fop o in
  0 <= r /\ f_paid (l_f s') = f_paid (l_f s) + r /\ l_locked s' = l_locked s + r /\
  l_base s' = l_base s + donated fop /\
  (r = 0 -> lk = []) /\
  (0 < r -> listed s = true /\ exists ue, lk = [(op_caller fop, (r, ue))] /\
            op_epoch fop < ue <= op_epoch fop + l_lock s /\ ue mod EPOCHS_PER_MONTH = 0).
Proof. exact locked_receipts. Qed.
Print Assumptions C05_locked_receipts.

Example C05_nonvacuous :
  let f := frun (init_farm 1000000 false) c05_example in
  0 < f_supply f /\ 0 < f_pool f /\ 0 < f_paid f /\
  forallb (fun k => is_ok (fstep (frun (init_farm 1000000 false) (firstn k c05_example)) (nth k c05_example (FTopUp 1))))
          (seq 0 12) = true.
Proof. vm_compute. repeat split. Qed.

(** ==================================================================================================
    The same property for the STAKING farm (farm-staking), on the position-level model Model/StakingPos.v:
    positions with attributes {reward_per_share, compounded_reward, current_farm_amount, original_owner}, who
    holds how much of which nonce, per-user totals; accrual (APR bound, capacity), reward payment, unbond
    tokens and admin endpoints are those of Model/Staking.v; the boosted payout [b] is an input bounded by
    the boosted pools.  [preach dsc apr minub ops]: the state after ANY list of operations from deployment.
    [pvalid_op]: account ids in range.  [sep_op]: additionally the whitelisted proxy keeps its positions to
    itself and users do not call the proxy endpoints (needed only where the VIRTUAL principal is compared
    with the supply).  From here on the names settle, pay, utot, ... are those of the staking models. *)
From MX Require Import Model.Staking Model.StakingPos Proofs.StakingProofs Proofs.StakingPosProofs.

(** every successful operation of any caller preserves the invariant (C12 invariant of the money-flow part,
    ledger, attributes, supply = sum, reserve = accrued - paid, solvency, owner totals) *)
Theorem C05_staking_step : forall sp op sp' o, pstep sp op = Ok (sp', o) -> Inv sp -> pvalid_op op -> Inv sp'.
Proof. exact pstep_inv. Qed.
Print Assumptions C05_staking_step.

(** S-C05a reserve = accrued - paid;  S-C05b the reserve, net of all unclaimed boosted pools, covers the base
    rewards claimable by all live holdings - un-floored (scaled by DSC) and in the floor form of the property
    text: reserve >= sum_i floor(amount_i * (rps - rps_i) / DSC) + pools;  accrued never exceeds the capacity *)
Theorem C05_staking_ab_accounting : forall dsc apr minub ops, 0 < dsc -> 0 < apr -> Forall pvalid_op ops ->
  let sp := preach dsc apr minub ops in
  s_reserve (p_s sp) = s_acc (p_s sp) - p_paid sp /\
  sclaimable sp <= s_dsc (p_s sp) * (s_reserve (p_s sp) - s_pool (p_s sp)) /\ 0 <= sclaimable sp /\
  sclaimable_floor sp + s_pool (p_s sp) <= s_reserve (p_s sp) /\ 0 <= sclaimable_floor sp /\
  0 <= s_pool (p_s sp) <= s_reserve (p_s sp) /\
  s_acc (p_s sp) <= s_cap (p_s sp).
Proof. exact sc05_accounting. Qed.
Print Assumptions C05_staking_ab_accounting.

(** S-C05c principal backed (the C12 identity, now with the virtual principal pinned down): the staking tokens
    the contract really holds = principal of all non-virtual positions + outstanding unbond tokens + un-accrued
    capacity + reserve + donations, every term non-negative; the virtual principal is exactly what the proxy holds *)
Theorem C05_staking_c_principal_backed : forall dsc apr minub ops, 0 < dsc -> 0 < apr -> Forall sep_op ops ->
  let sp := preach dsc apr minub ops in let s := p_s sp in
  s_bal s = (s_supply s - s_virt s) + s_ubtot s + (s_cap s - s_acc s) + s_reserve s + s_don s /\
  0 <= s_virt s <= s_supply s /\ s_virt s = proxy_held sp /\ 0 <= s_ubtot s /\ 0 <= s_cap s - s_acc s /\ 0 <= s_reserve s /\ 0 <= s_don s /\
  (s_supply s - s_virt s) + s_ubtot s + s_reserve s <= s_bal s.
Proof. exact sc05c_principal_backed. Qed.
Print Assumptions C05_staking_c_principal_backed.

(** S-C05d: in a reachable state no stake / claim / compound / unstake / merge (by a user, or by the proxy for an
    original caller) fails unless a documented guard fails: contract not active, caller not authorised, zero
    amount, the caller does not hold what he pays in, or the boosted payout exceeds the boosted pools (the boosted
    module's own guard).  In particular no reserve / supply / user-total / balance counter can go negative. *)
Theorem C05_staking_d_no_spurious_failure : forall dsc apr minub ops op, 0 < dsc -> 0 < apr -> Forall sep_op ops ->
  let sp := preach dsc apr minub ops in
  pvalid_op op -> guards sp op -> exists r, pstep sp op = Ok r.
Proof. exact sc05d_no_spurious_failure. Qed.
Print Assumptions C05_staking_d_no_spurious_failure.
