(** C19 (continuation) — the permissions module and the pausable module over HISTORIES.

    Props/C19.v states who may call what for one call from a fixed configuration; the clause
    "previously authorised then revoked" is about the EFFECT of the permission operations over a
    sequence.  Here: the state machine [px_step] (Model/PermExt.v: Model/Access.v's [pm_step] plus
    the address-LIST forms of addToPauseWhitelist / removeFromPauseWhitelist, the owner change, and
    what [init] grants), tied to the real pair / farm / farm-with-locked-rewards / farm-staking /
    lkmex-transfer contracts by tools/sys_perm.py + Run/PermRun.v (Ok/Err, getPermissions of every
    tracked address and getState after every operation).

    (0) the theorems of Props/C19.v about [pm_step] hold for the extended machine;
    (a) exact effect of every operation on the permission bits of every address
        (add = bitwise or, remove = and-not: after removeX no address has gained a bit and no named
        address holds X);
    (b) idempotence; revoking a role that is not held changes nothing;
    (c) over any history the addresses holding OWNER / ADMIN / PAUSE are exactly those granted and
        not since revoked: refinement to a specification on three SETS of addresses;
    (d) pause / resume succeed iff the caller currently holds PAUSE, and the stored State is what
        the last successful state-setting call set. *)
From Coq Require Import ZArith List Bool.
From MX Require Import Base.Prelude Gen.Params Gen.Endpoints Model.Access Proofs.AccessProofs
                       Model.PermExt Proofs.PermExtProofs.
Import ListNotations.
Open Scope Z_scope.

(** ---- (0) the statements of Props/C19.v, for the extended machine *)

(** an operation succeeds only for a caller holding its role (OWNER flag; PAUSE flag for pause /
    resume; the chain owner for updateOwnerOrAdmin and the owner change) ... *)
Theorem C19_perm_ops_authorised : forall s op s', px_step s op = Ok s' -> px_authorised s op.
Proof. exact px_step_authorised. Qed.
Print Assumptions C19_perm_ops_authorised.

(** ... is refused with a permission error otherwise, and never refused for such a caller *)
Theorem C19_perm_unauthorised_refused : forall s op, ~ px_authorised s op -> px_step s op = Err EPerm.
Proof. exact px_step_unauthorised. Qed.
Print Assumptions C19_perm_unauthorised_refused.

Theorem C19_perm_authorised_succeeds : forall s op, px_authorised s op -> exists s', px_step s op = Ok s'.
Proof. exact px_step_authorised_ok. Qed.
Print Assumptions C19_perm_authorised_succeeds.

(** no escalation along EVERY history (list operations and owner changes included) *)
Theorem C19_perm_no_escalation : forall ops s,
  (forall op, In op ops -> ~ has_flag (pm_get s (px_caller op)) PERM_OWNER /\ px_caller op <> pm_chain_owner s) ->
  pm_perms (px_run s ops) = pm_perms s /\ pm_chain_owner (px_run s ops) = pm_chain_owner s.
Proof. exact px_no_escalation. Qed.
Print Assumptions C19_perm_no_escalation.

(** callers holding no flag change nothing, over every history *)
Theorem C19_perm_powerless_history : forall ops s,
  (forall op, In op ops -> pm_get s (px_caller op) = 0 /\ px_caller op <> pm_chain_owner s) ->
  px_run s ops = s.
Proof. exact px_powerless_history. Qed.
Print Assumptions C19_perm_powerless_history.

(** the one-address whitelist operations of Model/Access.v are the one-element lists *)
Theorem C19_perm_single_address : forall s c a,
  px_step s (XAddPausers c [a]) = pm_step s (PmAddPauser c a) /\
  px_step s (XRemovePausers c [a]) = pm_step s (PmRemovePauser c a).
Proof. intros s c a. split; [exact (px_single_pauser_add s c a) | exact (px_single_pauser_remove s c a)]. Qed.
Print Assumptions C19_perm_single_address.

(** ---- (a) exact effect *)

(** the permission value of EVERY address after a successful operation: or-ed with the flag for the
    addresses an add names, and-not for those a remove names (lists with duplicates included),
    prev's value moved to the caller by updateOwnerOrAdmin, untouched otherwise *)
Theorem C19_perm_exact_effect : forall s op s', px_step s op = Ok s' ->
  forall x, pm_get s' x = px_effect s op x.
Proof. exact px_step_effect. Qed.
Print Assumptions C19_perm_exact_effect.

Theorem C19_perm_add_is_or : forall s op s' l f, px_step s op = Ok s' -> add_target op = Some (l, f) ->
  forall x i, Z.testbit (pm_get s' x) i = Z.testbit (pm_get s x) i || (zmem x l && Z.testbit f i).
Proof. exact px_add_bits. Qed.
Print Assumptions C19_perm_add_is_or.

Theorem C19_perm_remove_is_andnot : forall s op s' l f, px_step s op = Ok s' -> remove_target op = Some (l, f) ->
  forall x i, Z.testbit (pm_get s' x) i = Z.testbit (pm_get s x) i && negb (zmem x l && Z.testbit f i).
Proof. exact px_remove_bits. Qed.
Print Assumptions C19_perm_remove_is_andnot.

(** after removeX no address holds a bit it did not hold ... *)
Theorem C19_perm_remove_never_gains : forall s op s' l f, px_step s op = Ok s' -> remove_target op = Some (l, f) ->
  forall x i, Z.testbit (pm_get s' x) i = true -> Z.testbit (pm_get s x) i = true.
Proof. exact px_remove_never_gains. Qed.
Print Assumptions C19_perm_remove_never_gains.

(** ... and no named address holds X *)
Theorem C19_perm_remove_clears : forall s op s' l f, px_step s op = Ok s' -> remove_target op = Some (l, f) ->
  forall x, In x l -> intersects (pm_get s' x) f = false.
Proof. exact px_remove_clears. Qed.
Print Assumptions C19_perm_remove_clears.

(** ---- (b) idempotence *)

(** the same add / remove call again: succeeds again, changes nobody's permissions *)
Theorem C19_perm_idempotent : forall s op s1 l f,
  add_target op = Some (l, f) \/ remove_target op = Some (l, f) ->
  px_step s op = Ok s1 ->
  exists s2, px_step s1 op = Ok s2 /\ forall x, pm_get s2 x = pm_get s1 x.
Proof. exact px_add_remove_idempotent. Qed.
Print Assumptions C19_perm_idempotent.

(** revoking a role none of the named addresses holds changes nothing *)
Theorem C19_perm_remove_not_held_noop : forall s op s' l f, px_step s op = Ok s' -> remove_target op = Some (l, f) ->
  (forall x, In x l -> intersects (pm_get s x) f = false) ->
  forall x, pm_get s' x = pm_get s x.
Proof. exact px_remove_not_held_noop. Qed.
Print Assumptions C19_perm_remove_not_held_noop.

Theorem C19_perm_add_held_noop : forall s op s' l f, px_step s op = Ok s' -> add_target op = Some (l, f) ->
  (forall x, In x l -> Z.land (pm_get s x) f = f) ->
  forall x, pm_get s' x = pm_get s x.
Proof. exact px_add_held_noop. Qed.
Print Assumptions C19_perm_add_held_noop.

(** ---- (c) holders = granted and not since revoked *)

(** every state has its three holder sets ... *)
Theorem C19_perm_abstraction : forall s, refines s (abs s).
Proof. exact abs_refines. Qed.
Print Assumptions C19_perm_abstraction.

(** ... and along EVERY history the bit-level machine stays in step with the specification on sets
    (grant = insert, revoke = delete, updateOwnerOrAdmin = the caller takes prev's place, an
    operation acts iff its caller is in the demanded set): who holds OWNER / ADMIN / PAUSE, the
    stored State and the chain owner are those of [sp_run] *)
Theorem C19_perm_refines_sets : forall ops s t, refines s t -> refines (px_run s ops) (sp_run t ops).
Proof. exact px_refines_run. Qed.
Print Assumptions C19_perm_refines_sets.

(** the verdict of every operation is membership of the caller in the demanded set *)
Theorem C19_perm_verdict_is_membership : forall s t op, refines s t -> is_ok (px_step s op) = sp_accepts t op.
Proof. exact refines_ok. Qed.
Print Assumptions C19_perm_verdict_is_membership.

(** direct form: a role not held stays not held until an operation that names the address in a
    grant (or makes it the heir of updateOwnerOrAdmin) ... *)
Theorem C19_perm_not_held_until_granted : forall ops s x i,
  holds_bit s x i = false -> (forall op, In op ops -> may_grant op x i = false) ->
  holds_bit (px_run s ops) x i = false.
Proof. exact px_not_held_until_granted. Qed.
Print Assumptions C19_perm_not_held_until_granted.

(** ... and a role held stays held until an operation that names the address in a revocation (or
    in updateOwnerOrAdmin) *)
Theorem C19_perm_held_until_revoked : forall ops s x i,
  holds_bit s x i = true -> (forall op, In op ops -> may_revoke op x i = false) ->
  holds_bit (px_run s ops) x i = true.
Proof. exact px_held_until_revoked. Qed.
Print Assumptions C19_perm_held_until_revoked.

(** the revoked keeper: after a successful removeFromPauseWhitelist naming x (once or several
    times), along every history that does not grant PAUSE to x again, x can neither pause nor resume *)
Theorem C19_perm_revoked_keeper_powerless : forall s op s1 l ops x,
  px_step s op = Ok s1 -> remove_target op = Some (l, PERM_PAUSE) -> In x l ->
  (forall o, In o ops -> may_grant o x BIT_PAUSE = false) ->
  px_step (px_run s1 ops) (XBase (PmPause x)) = Err EPerm /\
  px_step (px_run s1 ops) (XBase (PmResume x)) = Err EPerm.
Proof. exact px_revoked_keeper_powerless. Qed.
Print Assumptions C19_perm_revoked_keeper_powerless.

(** ---- (d) pause / resume *)

Theorem C19_perm_pause_iff : forall s c s',
  px_step s (XBase (PmPause c)) = Ok s' <-> holds_bit s c BIT_PAUSE = true /\ s' = pm_set_state s ST_Inactive.
Proof. exact px_pause_iff. Qed.
Print Assumptions C19_perm_pause_iff.

Theorem C19_perm_resume_iff : forall s c s',
  px_step s (XBase (PmResume c)) = Ok s' <-> holds_bit s c BIT_PAUSE = true /\ s' = pm_set_state s ST_Active.
Proof. exact px_resume_iff. Qed.
Print Assumptions C19_perm_resume_iff.

(** only pause / resume / setStateActiveNoSwaps move the stored State, to their own target *)
Theorem C19_perm_state_after_step : forall s op s', px_step s op = Ok s' ->
  pm_state_val s' = match state_target op with Some v => v | None => pm_state_val s end.
Proof. exact px_step_state. Qed.
Print Assumptions C19_perm_state_after_step.

(** over every history the stored State is what the last SUCCESSFUL state-setting call set *)
Theorem C19_perm_state_last_set : forall ops s,
  pm_state_val (px_run s ops) = last (state_sets s ops) (pm_state_val s).
Proof. exact px_state_last_set. Qed.
Print Assumptions C19_perm_state_last_set.

(** Non-vacuity: a farm deployed by 1 with owner argument 2 and admin 4.  The deployer whitelists
    keepers 6 (twice in the list) and 7, owner 2 revokes 6 with a duplicated list and revokes ADMIN
    from 8 (never held: nothing changes); 7 resumes, 6 is refused; the chain owner hands over to 9,
    who takes the deployer's place.  The sets of the specification, run from the abstraction of the
    deployment, are the holders. *)
Example C19_perm_nonvacuous :
  let s0 := pinit_farm 1 2 [4] in
  let ops := [XAddPausers 1 [6; 6; 7]; XRemovePausers 2 [6; 6]; XBase (PmRemoveAdmin 1 8);
              XBase (PmResume 7); XBase (PmPause 6); XChangeOwner 1 9; XBase (PmUpdateOwnerOrAdmin 9 1)] in
  let s := px_run s0 ops in
  map (pm_get s0) [1; 2; 4; 6; 7; 8; 9] = [5; 5; 2; 0; 0; 0; 0] /\
  map (pm_get s) [1; 2; 4; 6; 7; 8; 9] = [0; 5; 2; 0; 4; 0; 5] /\
  pm_state_val s = ST_Active /\ pm_chain_owner s = 9 /\
  state_sets s0 ops = [ST_Active] /\
  map (fun op => is_ok (px_step (px_run s0 [XAddPausers 1 [6; 6; 7]; XRemovePausers 2 [6; 6]]) op))
      [XBase (PmResume 7); XBase (PmPause 6); XBase (PmPause 1); XBase (PmAddAdmin 4 8); XChangeOwner 2 9]
    = [true; false; true; false; false] /\
  (let t := sp_run (abs s0) ops in
   map (fun x => zmem x (sp_owners t)) [1; 2; 9] = [false; true; true] /\
   map (fun x => zmem x (sp_pausers t)) [1; 2; 6; 7; 9] = [false; true; false; true; true] /\
   map (fun x => zmem x (sp_admins t)) [4; 8] = [true; false] /\
   sp_paused t = ST_Active /\ sp_chain t = 9) /\
  pm_get (pinit_farm 1 0 []) 1 = 7 /\ map (pm_get (pinit_pair 1 3 2 [4; 4])) [1; 2; 3; 4] = [0; 5; 5; 2] /\
  pm_get (pinit_lkmex 1) 1 = 1.
Proof. vm_compute. repeat split. Qed.
