(** C05, last clause — "no legitimate enter/claim/exit/merge fails because an internal counter would go negative" —
    for dex/farm.  Statements only; proofs in Proofs/FarmTotal.v.
    (This file continues Props/C05.v: C05_reward_payable there covers the reward subtraction only; here EVERY
    sub_chk / div_chk / attribute lookup of every endpoint of Model/Farm.v is covered, and the result is composed
    with the boosted-yields half in the closed model Model/FarmFull.v.)

    Vocabulary (Proofs/FarmTotal.v):
      [fguards f op]   the DOCUMENTED guards of the endpoint, on the pre-state [f] only:
            contract Active; the payments are farm positions the caller holds in the stated amounts, each > 0
            ([holds f c ps]: per nonce, the amounts listed for it — a nonce may be listed several times — add up to
            at most what the caller holds; [holdsb] decides it); enterFarm: farming-token amount > 0;
            compoundRewards: farming token = reward token; mergeFarmTokens: at least one payment;
            claimBoostedRewards: the user's total farm position is not empty; exitFarm: the block epoch is not
            before the position's entering epoch (u64 subtraction of get_exit_penalty — [epoch_ok]);
            the boosted payout [b] (an INPUT of the open farm model) is within the boosted pools: [payout_before]
            0 <= b <= f_pool for enterFarm / mergeFarmTokens (claim_only_boosted_payment runs before any
            settlement), [payout_after] 0 <= b <= f_pool + this settlement's slice for the others (exactly the
            bound of C05_boosted_payout_payable);  admin endpoints: caller is the owner, parameter ranges;
            position transfer: 0 < amount <= held.
      [FarmTI f]       the extra reachable-state invariant totality needs: 0 <= penalty_percent < MAX_PERCENT,
            0 < DSC, per nonce the amounts held by all accounts add up to the amount outstanding, every position
            ever minted has a positive amount.
      [xguards s op]   the same guards for a user endpoint of the closed model — WITHOUT the payout bound and the
            epoch condition: there the payout and the clock are computed / part of the state.
      [raw_ok op]      the energy factory's stored entry handed to the endpoint has a non-negative locked-token total. *)
From MX Require Import Base.Prelude Gen.Params Model.Farm Model.FarmFull.
From MX Require Import Proofs.FarmInv Proofs.FarmSolv Proofs.FarmOwner Proofs.FarmFullProofs Proofs.FarmTotal.

(** The extra invariant holds in every reachable state of the farm model (from any deployment, after any history of
    operations by anybody; failed calls revert). *)
Theorem C05_total_invariant_reach : forall dsc same ops, 0 < dsc -> Forall valid_op ops ->
  let f := frun (init_farm dsc same) ops in FarmOK f /\ FarmTI f.
Proof. exact farm_reach_invariants. Qed.
Print Assumptions C05_total_invariant_reach.

(** ... and is kept by every successful operation *)
Theorem C05_total_invariant_step : forall f op f' o, fstep f op = Ok (f', o) -> valid_op op -> FarmTI f -> FarmTI f'.
Proof. exact fstep_ti. Qed.
Print Assumptions C05_total_invariant_step.

(** In a state satisfying the reachable-state invariants, EVERY operation whose documented guards hold returns Ok:
    no held / outstanding debit of a position payment, no supply, principal (farming-token balance), reserve, pool,
    reward-balance, epoch-age or penalty subtraction goes below zero, no division (by DSC, by a position's amount in
    rule_of_three, by the merged amount in the weighted average, by the supply) is by zero, no attribute lookup fails.
    (Owner totals — UT — are not needed: decrease_user_farm_position saturates.) *)
Theorem C05_farm_no_spurious_failure : forall f op, FarmOK f -> FarmTI f -> valid_op op -> fguards f op ->
  exists r, fstep f op = Ok r.
Proof. exact farm_no_spurious_failure. Qed.
Print Assumptions C05_farm_no_spurious_failure.

(** ... hence in every reachable state *)
Theorem C05_farm_reach_no_spurious_failure : forall dsc same ops, 0 < dsc -> Forall valid_op ops ->
  let f := frun (init_farm dsc same) ops in
  forall op, valid_op op -> fguards f op -> exists r, fstep f op = Ok r.
Proof. exact farm_reach_no_spurious_failure. Qed.
Print Assumptions C05_farm_reach_no_spurious_failure.

(** ... and the guards are not stronger than the endpoints' own checks: in a state satisfying the invariants an
    operation fails IF AND ONLY IF one of the documented guards fails. *)
Theorem C05_farm_fails_iff_guard_fails : forall f op, FarmOK f -> FarmTI f -> valid_op op ->
  ((exists r, fstep f op = Ok r) <-> fguards f op).
Proof. exact farm_fails_iff_guard_fails. Qed.
Print Assumptions C05_farm_fails_iff_guard_fails.

(** The guards are decidable: [fguardsb] / [holdsb] (what a monitor or an Example evaluates on a concrete state). *)
Theorem C05_guards_decidable : forall f op, FarmAcc f -> fguardsb f op = true -> fguards f op.
Proof. exact fguardsb_sound. Qed.
Print Assumptions C05_guards_decidable.

Theorem C05_holds_decidable : forall f c ps, FarmAcc f -> holdsb f c ps = true -> holds f c ps.
Proof. exact holds_check. Qed.
Print Assumptions C05_holds_decidable.

(** The closed model (farm + boosted-yields module; boosted payout, caller's position, emission, supply, clock all
    COMPUTED): in every reachable state a user endpoint — enterFarm (with merge), claimRewards, compoundRewards,
    exitFarm (partial, with penalty), mergeFarmTokens, claimBoostedRewards — whose documented guards hold returns Ok,
    farm half and boosted half.  The payout bound of [fguards] is discharged by the link invariant
    (C05_boosted_payout_payable; for enterFarm, whose claim precedes the settlement, against the pools WITHOUT this
    operation's slice), the epoch condition by the clock being monotone, the boosted half by C11_no_underflow_endpoint.
    Residual side conditions: [xvalid] (account ids in range) and [raw_ok] (the energy entry is well formed). *)
Theorem C05_closed_no_spurious_failure : forall dsc same blk epoch ops op, 0 < dsc -> Forall xvalid ops ->
  let s := fst (xgreach dsc same blk epoch ops) in
  xvalid op -> raw_ok op -> xguards s op -> exists r, full_step s op = Ok r.
Proof. exact closed_reach_no_spurious_failure. Qed.
Print Assumptions C05_closed_no_spurious_failure.

(** ... if and only if: a user endpoint of the closed model fails exactly when a documented guard fails *)
Theorem C05_closed_fails_iff_guard_fails : forall dsc same blk epoch ops op u, 0 < dsc -> Forall xvalid ops ->
  let s := fst (xgreach dsc same blk epoch ops) in
  xvalid op -> raw_ok op -> claim_user op = Some u ->
  ((exists r, full_step s op = Ok r) <-> xguards s op).
Proof. exact closed_fails_iff_guard_fails. Qed.
Print Assumptions C05_closed_fails_iff_guard_fails.

(** the same per state, from the invariants (XInv of C05_C11_closed_invariant, FarmTI, entering epochs <= clock) *)
Theorem C05_closed_step_no_spurious_failure : forall s g op,
  XInv s g -> FarmTI (x_f s) -> EpB (x_f s) (Boosted.b_epoch (x_b s)) ->
  xvalid op -> raw_ok op -> xguards s op -> exists r, full_step s op = Ok r.
Proof. exact closed_no_spurious_failure. Qed.
Print Assumptions C05_closed_step_no_spurious_failure.

(** the two extra invariants of the closed theorem hold in every reachable closed state *)
Theorem C05_closed_total_invariants : forall dsc same blk epoch ops, 0 < dsc -> Forall xvalid ops ->
  let s := xreach dsc same blk epoch ops in FarmTI (x_f s) /\ EpB (x_f s) (Boosted.b_epoch (x_b s)).
Proof. exact closed_farm_ti. Qed.
Print Assumptions C05_closed_total_invariants.

Theorem C05_closed_guards_decidable : forall s op, FarmAcc (x_f s) -> xguardsb s op = true -> xguards s op.
Proof. exact xguardsb_sound. Qed.
Print Assumptions C05_closed_guards_decidable.

(** ------------------------------------------------------------------ non-vacuity *)
(** 25 % boosted share, 50 % exit penalty; users 1 and 2 enter (100, 300); user 1 hands 40 of his position to user 2 and
    claims 200 boosted.  In that reachable state the guards hold for ([fguardsb], sound by C05_guards_decidable), and
    the model executes:
      - user 2's claimRewards paying nonce 2 TWICE (200 + 100 = the 300 he holds) and the received 40 of nonce 1, with a
        boosted payout of 1750 > f_pool = 1050 (covered only with this settlement's slice 1250): reward 4750, new
        position 340;
      - user 1's partial exitFarm of 30 inside the minimum farming epochs: 15 farming tokens back, 900 rewards;
      - user 2's mergeFarmTokens of three payments with a boosted payout of 500; his enterFarm of 77 merging two positions. *)
Definition tot_example : list fop :=
  [FSetRate 0 100 1000; FSetState 100 1; FStart 10 100; FSetPct 10 100 2500; FSetFactors 100; FSetPenalty 100 5000;
   FEnter 10 5 1 100 [] 0; FEnter 12 5 2 300 [] 0; FTransfer 1 1 2 40; FClaimBoosted 15 5 1 200].

Example C05_total_nonvacuous :
  let f := frun (init_farm 1000000 false) tot_example in
  let claim := FClaim 20 6 2 (2, 200) [(1, 40); (2, 100)] 1750 in
  let exit := FExit 20 6 1 (1, 30) 0 in
  let merge := FMerge 20 6 2 [(2, 100); (1, 40); (2, 200)] 500 in
  let enter := FEnter 20 6 2 77 [(2, 100); (1, 40)] 500 in
  (f_pool f, boosted_cut f (emission f 20)) = (1050, 1250) /\
  fguardsb f claim && fguardsb f exit && fguardsb f merge && fguardsb f enter = true /\
  match fstep f claim, fstep f exit, fstep f merge, fstep f enter with
  | Ok (_, o1), Ok (_, o2), Ok (_, o3), Ok (_, o4) =>
      (o1, o2, o3, o4) = ([3; 340; 4750], [15; 900], [3; 340; 500], [3; 217; 500])
  | _, _, _, _ => False
  end.
Proof. vm_compute. repeat split. Qed.

(** The closed model: the history of Props/C05_closed.v's example up to the transfer (25 % boosted share, factors
    (2,3,2,1,1), users 1 and 2 enter in week 1, in week 2 user 1 claims his boosted 250 and hands 40 to user 2).
    In that reachable state the guards hold for ([xguardsb], sound by C05_closed_guards_decidable; the stored energy
    entries have 10 locked tokens: [raw_ok]), and the closed model executes: user 2's claimRewards with the received
    position (the module computes the payout 240); user 1's partial exitFarm; user 2's enterFarm merging both positions,
    whose boosted claim (240) is paid BEFORE the settlement. *)
Definition tot_xexample : list xop :=
  [XSetRate 100 1000; XSetState 100 1; XStart 100; XSetPct 100 2500; XSetFactors 100 (Boosted.mkFac 2 3 2 1 1);
   XEnter 1 100 [] (Some (Weekly.mkEn 7000 5 10)); XTime 2 0; XEnter 2 300 [] (Some (Weekly.mkEn 3000 5 10));
   XTime 5 7;
   XClaimBoosted 1 (Some (Weekly.mkEn 7000 5 10));
   XTransfer 1 1 2 40].

Example C05_closed_total_nonvacuous :
  let s := fst (xgreach 1000000 false 10 5 tot_xexample) in
  let claim := XClaim 2 (2, 300) [(1, 40)] (Some (Weekly.mkEn 3000 5 10)) in
  let exit := XExit 1 (1, 25) (Some (Weekly.mkEn 7000 5 10)) in
  let enter := XEnter 2 50 [(1, 40); (2, 300)] (Some (Weekly.mkEn 3000 5 10)) in
  xguardsb s claim && xguardsb s exit && xguardsb s enter = true /\
  match full_step s claim, full_step s exit, full_step s enter with
  | Ok (_, o1), Ok (_, o2), Ok (_, o3) =>
      ((xo_b o1, xo_f o1), (xo_b o2, xo_f o2), (xo_b o3, xo_f o3)) = ((240, [3; 340; 3052]), (0, [25; 609]), (240, [3; 390; 240]))
  | _, _, _ => False
  end.
Proof. vm_compute. repeat split. Qed.
