(** C07 (continuation) - owner totals when positions are HELD by an agent acting on behalf of their recorded owner.

    "Each user's tracked total farm position equals the sum of outstanding positions whose recorded owner is that
    user, also after positions are transferred and then used by another account" - here for every history that mixes
    ordinary operations, transfers, permissions-hub operations and the on-behalf endpoints
    (enterFarmOnBehalf / stakeFarmOnBehalf / claimRewardsOnBehalf) of dex/farm, farm-with-locked-rewards and farm-staking
    (Model/FarmBehalf.v, Model/StakingBehalf.v: the endpoints are COMPOSITIONS of operations of Model/Farm.v,
    Model/FarmLocked.v, Model/StakingPos.v, so every invariant proved for those models holds on every reachable state).
    [BOK] = FarmOK (C05 accounting + solvency) /\ UT (C07 owner totals) /\ fresh nonces /\ well-formed hub;
    [SBOK] = the invariant [Inv] of Model/StakingPos.v /\ well-formed hub. *)
From MX Require Import Base.Prelude Gen.Params Model.Farm Proofs.FarmInv Proofs.FarmSolv Proofs.FarmOwner.
From MX Require Import Model.FarmLocked Proofs.FarmLockedProofs Model.FarmBehalf.
From MX Require Model.Access.
From MX Require Import Proofs.BehalfProofs.
Import BehalfProofs.FarmB.

(** dex/farm: on every reachable state of the mixed system the tracked total of every account = sum of the OUTSTANDING
    positions recorded for it (whoever holds them), supply = sum of outstanding = sum of holdings *)
Theorem C07_behalf_farm_owner_totals : forall dsc same ho ops u, 0 < dsc -> Forall bvalid ops ->
  let f := b_f (brun (init_b dsc same ho) ops) in
  utot f u = wsum (ind f u) (f_out f) /\ f_supply f = asum (f_out f) /\ asum (f_out f) = asum (f_held f).
Proof. exact behalf_owner_totals. Qed.
Print Assumptions C07_behalf_farm_owner_totals.

(** farm-with-locked-rewards *)
Theorem C07_behalf_locked_owner_totals : forall dsc same opts lock ho ops u, 0 < dsc -> Forall lbvalid ops ->
  let f := l_f (lb_s (lbrun (init_lb dsc same opts lock ho) ops)) in
  FarmOK f /\ utot f u = wsum (ind f u) (f_out f) /\ f_supply f = asum (f_out f) /\ asum (f_out f) = asum (f_held f).
Proof. exact locked_behalf_owner_totals. Qed.
Print Assumptions C07_behalf_locked_owner_totals.

(** every operation of the mixed system preserves every invariant of the dex/farm model *)
Theorem C07_behalf_farm_step : forall s op s' o, bstep s op = Ok (s', o) -> BOK s -> bvalid op -> BOK s'.
Proof. exact bstep_ok. Qed.
Print Assumptions C07_behalf_farm_step.

Theorem C07_behalf_locked_step : forall s op s' o rc, lbstep s op = Ok (s', o, rc) -> LBOK s -> lbvalid op -> LBOK s'.
Proof. exact lbstep_ok. Qed.
Print Assumptions C07_behalf_locked_step.

(** the farm of any mixed history IS the farm of a history of Model/Farm.v made of valid operations: every theorem
    about [frun] (C05, C06, C07, C20 on dex/farm) transfers *)
Theorem C07_behalf_refines_farm : forall ops s, hub_ok (b_hub s) -> Forall bvalid ops ->
  exists fops, Forall valid_op fops /\ b_f (brun s ops) = frun (b_f s) fops.
Proof. exact brun_refines_frun. Qed.
Print Assumptions C07_behalf_refines_farm.

(** the composition is EXACT: a successful enterFarmOnBehalf is this history of the dex/farm model - the agent's positions
    move to the user, the user enters, the new position moves to the agent - under the endpoint's guards *)
Theorem C07_behalf_enter_is_user_history : forall h f blk ep a u amt adds b f' o,
  ob_enter h f blk ep a u amt adds b = Ok (f', o) ->
  f' = frun f (map (xfer a u) adds ++ [FEnter blk ep u amt adds b; FTransfer (nth 0 o 0) u a (nth 1 o 0)]) /\
  Access.is_whitelisted h u a = true /\ owned f u adds /\
  exists f1 f2, fseq f (map (xfer a u) adds) = Ok f1 /\ ep_enter f1 blk ep u amt adds b = Ok (f2, o) /\
                ep_transfer f2 (nth 0 o 0) u a (nth 1 o 0) = Ok (f', []).
Proof. exact ob_enter_refines. Qed.
Print Assumptions C07_behalf_enter_is_user_history.

Theorem C07_behalf_claim_is_user_history : forall h f blk ep a first adds b f' o u,
  ob_claim h f blk ep a first adds b = Ok (f', o, u) ->
  f' = frun f (map (xfer a u) (first :: adds) ++ [FClaim blk ep u first adds b; FTransfer (nth 0 o 0) u a (nth 1 o 0)]) /\
  Access.is_whitelisted h u a = true /\ owned f u (first :: adds) /\ u <> 0 /\
  exists f1 f2, fseq f (map (xfer a u) (first :: adds)) = Ok f1 /\ ep_claim f1 blk ep u first adds b = Ok (f2, o) /\
                ep_transfer f2 (nth 0 o 0) u a (nth 1 o 0) = Ok (f', []).
Proof. exact ob_claim_refines. Qed.
Print Assumptions C07_behalf_claim_is_user_history.

(** the agent HOLDS the new position, the user holds none of it, its recorded owner is the user, and the user's total
    (which grew by exactly the new principal) is the sum of the outstanding positions recorded for the user *)
Theorem C07_behalf_agent_holds_user_counts : forall s blk ep a u amt adds b s' o,
  bstep s (BEnterOB blk ep a u amt adds b) = Ok (s', o) -> BOK s -> valid_id a -> valid_id u -> a <> u ->
  let f' := b_f s' in let n := f_next (b_f s) in
  held f' n a = amt + psum (fun _ => 1) adds /\ held f' n u = 0 /\ owner_of f' n = u /\
  (forall v, utot f' v = wsum (ind f' v) (f_out f')) /\
  utot f' u = utot (b_f s) u + amt.
Proof. exact agent_holds_user_counts. Qed.
Print Assumptions C07_behalf_agent_holds_user_counts.

(** an agent can never move a position's recorded owner away from the user: on-behalf operations leave the attributes of
    every existing position as they are (the one position they create records the user, see Props/C19_behalf.v) *)
Theorem C07_behalf_owner_never_changes : forall s op s' o n at_, bstep s op = Ok (s', o) -> BOK s -> bvalid op ->
  (match op with BEnterOB _ _ _ _ _ _ _ | BClaimOB _ _ _ _ _ _ => True | _ => False end) ->
  find_attrs (f_attrs (b_f s)) n = Some at_ -> find_attrs (f_attrs (b_f s')) n = Some at_.
Proof. exact on_behalf_keeps_owners. Qed.
Print Assumptions C07_behalf_owner_never_changes.

Definition C07_behalf_example : list bop :=
  [BF (FSetRate 10 100 1000); BF (FSetState 100 1); BF (FStart 10 100);
   BHub (Access.HWhitelist 1 4); BHub (Access.HWhitelist 2 4);
   BEnterOB 20 5 4 1 1000 [] 0; BEnterOB 30 5 4 1 500 [(1, 400)] 0; BEnterOB 30 5 4 2 700 [] 0;
   BClaimOB 40 5 4 (2, 900) [(1, 600)] 0].

(** agent 4 holds everything (1500 recorded for user 1, 700 for user 2), the users' totals count it, the reward went to user 1 *)
Example C07_behalf_nonvacuous :
  let s := brun (init_b 1000000000000 false 100) C07_behalf_example in
  utot (b_f s) 1 = 1500 /\ utot (b_f s) 2 = 700 /\ utot (b_f s) 4 = 0 /\
  held (b_f s) 4 4 = 1500 /\ held (b_f s) 3 4 = 700 /\ held (b_f s) 4 1 = 0 /\
  owner_of (b_f s) 4 = 1 /\ owner_of (b_f s) 3 = 2 /\
  aget (b_rew s) 1 = 8090 /\ aget (b_rew s) 4 = 0 /\ aget (b_fin s) 4 = 2200 /\
  Forall bvalid C07_behalf_example.
Proof. vm_compute. repeat split; try lia; repeat constructor; vm_compute; intuition discriminate. Qed.

(** ================================================================================================== farm-staking *)
From MX Require Import Model.Staking Model.StakingPos Proofs.StakingProofs Proofs.StakingPosProofs Model.StakingBehalf.
Import BehalfProofs.StakB.

Theorem C07_behalf_staking_owner_totals : forall dsc apr minub ho ops u, 0 < dsc -> 0 < apr -> Forall sbvalid ops ->
  let sp := sb_p (sbrun (init_sb dsc apr minub ho) ops) in
  Inv sp /\ utot sp u = hsum (fun n => if sowner_of sp n =? u then 1 else 0) (p_held sp) /\
  s_supply (p_s sp) = asum (p_held sp).
Proof. exact staking_behalf_owner_totals. Qed.
Print Assumptions C07_behalf_staking_owner_totals.

Theorem C07_behalf_staking_step : forall s op s' o, sbstep s op = Ok (s', o) -> SBOK s -> sbvalid op -> SBOK s'.
Proof. exact sbstep_ok. Qed.
Print Assumptions C07_behalf_staking_step.

(** where the composition is NOT the user's own endpoint: farm-staking's claimRewardsOnBehalf accepts additional position
    payments (the ordinary claimRewards takes exactly one); the extra step is the ordinary claim when there are none ... *)
Theorem C07_behalf_staking_claim_single : forall sp blk ep c u p b, auth c u = true ->
  ep_claim sp blk ep c u p None b = ep_claim_multi sp blk ep c u p [] b.
Proof. exact claim_multi_single. Qed.
Print Assumptions C07_behalf_staking_claim_single.

(** ... and keeps the whole invariant (supply = sum, owner totals, accounting, solvency) with any number of them *)
Theorem C07_behalf_staking_claim_multi : forall sp blk ep c u first adds b sp' o,
  ep_claim_multi sp blk ep c u first adds b = Ok (sp', o) -> Inv sp -> valid_id c -> Inv sp'.
Proof. exact ep_claim_multi_inv. Qed.
Print Assumptions C07_behalf_staking_claim_multi.
