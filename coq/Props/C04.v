(** C04 — Liquidity minted/redeemed strictly pro rata; first deposit locks a floor. *)
From MX Require Import Base.Prelude Gen.Params Model.Pair Proofs.PairInv Proofs.PairChar.

(** addLiquidity on a pool with liquidity: used amounts are the largest deposit at the pool's ratio
    that fits the payment (one side is the whole payment, the other the floor quote), both meet the
    caller's minimums, LP minted = min(floor(o1*S/r1), floor(o2*S/r2)) > 0, the remainder is refunded. *)
Theorem C04_add : forall p c a1 a2 m1 m2 p' outs e,
  PairInv p -> 0 < p_S p -> ep_add p c a1 a2 m1 m2 = Ok (p', outs, e) ->
  exists o1 o2 liq,
    outs = [liq; o1; o2] /\
    ((o1 = a1 /\ is_floor o2 (a1 * p_r2 p) (p_r1 p) /\ o2 <= a2) \/
     (a2 < a1 * p_r2 p / p_r1 p /\ o2 = a2 /\ is_floor o1 (a2 * p_r1 p) (p_r2 p) /\ o1 <= a1)) /\
    0 < m1 <= o1 /\ 0 < m2 <= o2 /\
    liq = Z.min (o1 * p_S p / p_r1 p) (o2 * p_S p / p_r2 p) /\ 0 < liq /\
    p_r1 p' = p_r1 p + o1 /\ p_r2 p' = p_r2 p + o2 /\ p_S p' = p_S p + liq /\
    p_bal1 p' = p_bal1 p + o1 /\ p_bal2 p' = p_bal2 p + o2 /\
    lp_of p' c = lp_of p c + liq /\ (forall b, b <> c -> lp_of p' b = lp_of p b).
Proof. exact add_char. Qed.
Print Assumptions C04_add.

(** removeLiquidity pays exactly floor(lp*reserve/S) of each token, or fails *)
Theorem C04_remove : forall p c lp m1 m2 p' outs e,
  PairInv p -> ep_remove p c lp m1 m2 = Ok (p', outs, e) ->
  exists x1 x2,
    outs = [x1; x2] /\ 0 < lp /\ lp + MINIMUM_LIQUIDITY <= p_S p /\
    is_floor x1 (lp * p_r1 p) (p_S p) /\ is_floor x2 (lp * p_r2 p) (p_S p) /\
    0 < m1 <= x1 /\ 0 < m2 <= x2 /\ 0 < x1 < p_r1 p /\ 0 < x2 < p_r2 p /\
    p_r1 p' = p_r1 p - x1 /\ p_r2 p' = p_r2 p - x2 /\ p_S p' = p_S p - lp /\
    p_bal1 p' = p_bal1 p - x1 /\ p_bal2 p' = p_bal2 p - x2 /\
    lp_of p' c = lp_of p c - lp /\ lp <= lp_of p c.
Proof. exact remove_char. Qed.
Print Assumptions C04_remove.

Theorem C04_remove_fails_below_minimum : forall p c lp m1 m2,
  PairInv p -> 0 < p_S p -> (lp * p_r1 p / p_S p < m1 \/ lp * p_r2 p / p_S p < m2) ->
  is_ok (ep_remove p c lp m1 m2) = false.
Proof. exact remove_slippage. Qed.
Print Assumptions C04_remove_fails_below_minimum.

(** first deposit *)
Theorem C04_first_deposit : forall p c a1 a2 p' outs e,
  PairInv p -> ep_add_initial p c a1 a2 = Ok (p', outs, e) ->
  p_S p = 0 /\ is_state_active (p_state p) = false /\
  (forall ad, p_adder p = Some ad -> c = ad) /\
  MINIMUM_LIQUIDITY < Z.min a1 a2 /\
  outs = [Z.min a1 a2 - MINIMUM_LIQUIDITY; a1; a2] /\
  p_S p' = Z.min a1 a2 /\ p_r1 p' = a1 /\ p_r2 p' = a2 /\ p_state p' = ST_PartialActive /\
  lp_of p' SELF >= MINIMUM_LIQUIDITY.
Proof. exact first_deposit_char. Qed.
Print Assumptions C04_first_deposit.

(** the pool can never be emptied: from any state with liquidity, every successful operation leaves
    an LP supply of at least the locked floor (hence, by C01, positive reserves) *)
Theorem C04_floor_forever : forall p op p' o e,
  PairInv p -> 0 < p_S p -> step p op = Ok (p', o, e) -> MINIMUM_LIQUIDITY <= p_S p'.
Proof. exact step_S_floor. Qed.
Print Assumptions C04_floor_forever.

Theorem C04_initial_adder_gate : forall p c a1 a2 m1 m2 ad,
  p_adder p = Some ad -> p_S p = 0 -> is_ok (ep_add p c a1 a2 m1 m2) = false.
Proof. exact add_needs_initial. Qed.
Print Assumptions C04_initial_adder_gate.

Example C04_nonvacuous :
  let p := run (init_pair 300 50 (Some 1)) [AddInitial 1 1001 5000] in
  p_S p = 1001 /\ lp_of p SELF = 1000 /\ lp_of p 1 = 1 /\
  is_ok (step p (Add 2 7 100 1 1)) = true /\ is_ok (step p (Remove 1 1 1 1)) = true /\
  is_ok (step p (Remove 1 2 1 1)) = false.
Proof. vm_compute. repeat split. Qed.
