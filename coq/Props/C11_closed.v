(** dex/farm as ONE closed model (Model/FarmFull.v = Model/Farm.v composed with Model/Boosted.v on Model/Weekly.v):
    the theorems only the composition can carry.  Statements only; proofs in Proofs/FarmFullProofs.v.
    (This file continues Props/C11.v: the C11 theorems of the closed model; the other half is in Props/C05_closed.v.)

    Vocabulary:
      [full_step s op = Ok (s', out)]  one successful dex/farm endpoint call on the closed state [s] = (farm, module, block):
            the boosted payout, the caller's position, the emission and the supply are COMPUTED; the only inputs are the
            caller's arguments, the energy factory's stored entry of the user ([raw]) and the clock ([XTime]);
      [fop_of s op b] / [bop_of s op supply posa]  the Model/Farm.v operation (with boosted payout [b]) and the
            Model/Boosted.v operation (with the farm-level facts) the endpoint consists of;
      [xo_b out]  the boosted payout the module computed = what the farm half paid; [xo_f], [xo_m] the halves' outputs;
      [xreach dsc same blk epoch ops]  the state after ANY list of operations from deployment (failed calls revert);
      [xgreach ...]  the same with the ghost: the module's ledger [xg_b] (per week: [gcuts] = slices booked, [gpaid] =
            boosted payments made, the accepted factor settings) and, per week, [uE] / [uF] = the sums of the energies /
            positions the settlements of that week were computed with;
      [xvalid op]  account ids in range (the model's position-ledger keys are nonce * 1000 + holder);
      [pending_amount s g wk u p]  what get_user_rewards_for_week computes — formula only, NO guard on remaining(week) —
            for recorded user [u] (progress [p], still able to claim week [wk]) from the present state: his present total
            position, his recorded energy decayed to [wk], the week's pool / farm supply / total energy / factors;
      [pool_left b wk]  remaining(wk) once the week's total is frozen, accumulated(wk) before. *)
From MX Require Import Base.Prelude Gen.Params Model.Weekly Model.Farm Model.Boosted Model.FarmFull.
From MX Require Import Proofs.FarmInv Proofs.FarmSolv Proofs.FarmOwner Proofs.WeeklyProofs Proofs.BoostedProofs Proofs.FarmFullProofs.

Local Notation MAXW := USER_MAX_CLAIM_WEEKS.

Theorem C11_closed_refines_module : forall ops s, x_b (full_run s ops) = Boosted.run (x_b s) (bops s ops).
Proof. exact full_run_module. Qed.
Print Assumptions C11_closed_refines_module.

(** ... and C11's invariant (BInv, with the ghost ledger of the module half's own history). *)
Theorem C11_closed_reach : forall dsc same blk epoch ops,
  let s := xreach dsc same blk epoch ops in
  let sg := bgrun (init_b epoch, bg0) (bops (init_x dsc same blk epoch) ops) in
  x_b s = fst sg /\ BoostedProofs.BInv (fst sg) (snd sg).
Proof. exact closed_module_inv. Qed.
Print Assumptions C11_closed_reach.

(** ------------------------------------------------------------------ 3. C11_no_underflow *)
(** Sum form.  In every reachable state and for every completed week: what has been paid for the week plus what ALL
    recorded users who can still claim it would be paid — each amount computed by the hook's formula from the present
    state, without the guard — does not exceed the week's pool (the slices booked in that week). *)
Theorem C11_no_underflow : forall dsc same blk epoch ops wk, 0 < dsc -> Forall xvalid ops ->
  let s := fst (xgreach dsc same blk epoch ops) in let g := snd (xgreach dsc same blk epoch ops) in
  wk < bcur_week (x_b s) ->
  gpaid (xg_b g) wk + usum (pending_amount s g wk) (w_prog (b_w (x_b s))) <= gcuts (xg_b g) wk.
Proof. intros dsc same blk epoch ops wk Hd V s g Hw. apply week_sum_bound; [apply reach_xinv; assumption | exact Hw]. Qed.
Print Assumptions C11_no_underflow.

(** ... because the positions and energies the week's settlements use never add up to more than the week's totals:
    used so far + still claimable <= farm supply of the week (when the week has a pool) and <= total energy of the week. *)
Theorem C11_week_totals : forall dsc same blk epoch ops wk, 0 < dsc -> Forall xvalid ops ->
  let s := fst (xgreach dsc same blk epoch ops) in let g := snd (xgreach dsc same blk epoch ops) in
  wk < bcur_week (x_b s) ->
  (En (b_w (x_b s)) wk = 0 \/ uE g wk + owedE (b_w (x_b s)) wk <= En (b_w (x_b s)) wk) /\
  (Fw (x_b s) wk = 0 \/ gcuts (xg_b g) wk = 0 \/ uF g wk + owedF (x_f s) (b_w (x_b s)) wk <= Fw (x_b s) wk) /\
  PIw (x_b s) g wk.
Proof.
  intros dsc same blk epoch ops wk Hd V s g Hw. pose proof (reach_xinv dsc same blk epoch ops Hd V) as X. fold s g in X.
  destruct X as [_ _ _ _ N]. split; [apply (EInv_base _ _ _ (nu_e _ _ N) wk Hw)|]. split; [apply (nu_FI _ _ N wk Hw) | apply (nu_PI _ _ N wk Hw)].
Qed.
Print Assumptions C11_week_totals.

(** Per user: for every week of the claim window and every recorded user who can still claim it, the hook's amount is
    covered by what is left of the pool (= booked - paid). *)
Theorem C11_no_underflow_per_user : forall dsc same blk epoch ops wk u p, 0 < dsc -> Forall xvalid ops ->
  let s := fst (xgreach dsc same blk epoch ops) in let g := snd (xgreach dsc same blk epoch ops) in
  bcur_week (x_b s) - MAXW <= wk < bcur_week (x_b s) ->
  pfind (w_prog (b_w (x_b s))) u = Some p -> pr_week p <= wk ->
  pool_left (x_b s) wk = gcuts (xg_b g) wk - gpaid (xg_b g) wk /\
  hook_amount (fw (xg_b g) wk) (gcuts (xg_b g) wk) (utot (x_f s) u) (Fw (x_b s) wk) (energy_at p wk) (En (b_w (x_b s)) wk)
  <= pool_left (x_b s) wk.
Proof.
  intros dsc same blk epoch ops wk u p Hd V s g Hw Hp Hle. pose proof (reach_xinv dsc same blk epoch ops Hd V) as X. fold s g in X.
  split; [apply (pool_left_ledger _ _ _ X Hw) | apply (guard_slack _ _ _ _ _ X Hw Hp Hle)].
Qed.
Print Assumptions C11_no_underflow_per_user.

(** Operationally: in a reachable state the call of get_user_rewards_for_week that the next settlement of ANY such user
    makes for ANY claimable week — with his present position, his recorded energy, the config brought to the current week —
    returns Ok on the state's storage: the guard [remaining -= reward] does not fire (nor does the division, the register
    lookup or the freeze).  (Inside a settlement the call runs on the storage as modified by the endpoint's own slice, the
    user's global energy update and the calls for the other weeks: none of them touches this week's pool, supply, total
    energy or frozen total — BoostedProofs.claim_weeks_calls.) *)
Theorem C11_no_underflow_hook : forall dsc same blk epoch ops wk u p c cfg, 0 < dsc -> Forall xvalid ops ->
  let s := fst (xgreach dsc same blk epoch ops) in
  let cw := bcur_week (x_b s) in
  cw - MAXW <= wk < cw -> pfind (w_prog (b_w (x_b s))) u = Some p -> pr_week p <= wk ->
  bh_cfg (b_h (x_b s)) = Some c -> cfg_update c cw None = Ok cfg ->
  exists r, boosted_hook (utot (x_f s) u) cfg cw (b_h (x_b s)) (b_w (x_b s)) wk (energy_at p wk) (En (b_w (x_b s)) wk) = Ok r.
Proof.
  intros dsc same blk epoch ops wk u p c cfg Hd V s cw Hw Hp Hle Hc Hu.
  apply (hook_total s (snd (xgreach dsc same blk epoch ops)) wk u p c cfg); try assumption. apply reach_xinv; assumption.
Qed.
Print Assumptions C11_no_underflow_hook.

(** At the endpoints: in a reachable state the boosted-yields half of enterFarm / claimRewards / compoundRewards /
    exitFarm / mergeFarmTokens / claimBoostedRewards cannot abort, whoever calls with whatever payments and stored energy
    entry ([raw_ok]: its locked-token total is a BigUint; claimBoostedRewards: the user has a position): no
    remaining(week), bucket, total-energy or locked-token counter would go negative, no division by zero, no register or
    freeze failure.  ([supply], [posa] >= 0: what the farm half leaves behind.) *)
Theorem C11_no_underflow_endpoint : forall dsc same blk epoch ops op u supply posa, 0 < dsc -> Forall xvalid ops ->
  let s := fst (xgreach dsc same blk epoch ops) in
  claim_user op = Some u -> raw_ok op -> 0 <= supply -> 0 <= posa ->
  (forall c raw, op = XClaimBoosted c raw -> utot (x_f s) c <> 0) ->
  exists r, run_b (x_b s) (bop_of s op supply posa) = Ok r.
Proof.
  intros dsc same blk epoch ops op u supply posa Hd V s Hcu Hraw HS HP Hcb.
  apply (module_half_total s (snd (xgreach dsc same blk epoch ops)) op u supply posa); try assumption. apply reach_xinv; assumption.
Qed.
Print Assumptions C11_no_underflow_endpoint.
