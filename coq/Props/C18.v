(** C18 — Governance: status from time and tallies; one vote per address; exact fee escrow.
    Statements only; proofs are in Proofs/GovernanceProofs.v.

    Reading guide.  [GovInv g] is the invariant of every state reachable from deployment
    ([C18_reach]); [get_prop g id = Some p] with [pr_live p = true] says that proposal [id] exists and
    was not cancelled; [view_status] is the model of the view getProposalStatus; [bal g a] is account
    [a]'s balance of the fee token ([SELF] = the governance contract); [g_burned] the amount burned. *)
From MX Require Import Base.Prelude Gen.Params Model.Governance Proofs.GovernanceProofs.

(** ------------------------------------------------------------------ reachable states *)
(** Any interleaving of any length of propose / vote / cancel / withdrawDeposit / block advance /
    energy changes / collector updates / donations / configuration changes, by any callers, from any
    deployment whose withdraw percentage is at most 100 % (what [init] accepts).  Failed transactions
    leave the state unchanged. *)
Theorem C18_reach : forall me mf q d p w blk bals ops,
  0 <= w <= FULL /\ 0 <= p -> NoDup (akeys bals) -> 0 <= aget bals SELF ->
  GovInv (run (init_gov me mf q d p w blk bals) ops).
Proof. exact reach_inv. Qed.
Print Assumptions C18_reach.

Theorem C18_step : forall g op g' o, step g op = Ok (g', o) -> GovInv g -> GovInv g'.
Proof. intros g op g' o H I. exact (proj1 (step_inv g op g' o H I)). Qed.
Print Assumptions C18_step.

(** ------------------------------------------------------------------ clause 1: status *)
(** The status view is the documented function of block height and tallies, with the thresholds as
    rational conditions (cross-multiplied, no integer division):
      quorum reached   :  quorum * FULL >= minimum_quorum * total_energy      (FULL = FULL_PERCENTAGE = 10000)
      up exceeds half  :  2 * up > up + down + veto + abstain
      veto exceeds 1/3 :  3 * veto > up + down + veto + abstain
    The code decides with floor(tot/2) and floor(tot/3); the proof shows that these integer tests are
    equivalent to the rational ones for every input ([C18_integer_thresholds]), so no input exists on
    which the code's rounding departs from the documented strict / non-strict conditions. *)
Theorem C18_status : forall g id p, GovInv g -> get_prop g id = Some p -> pr_live p = true ->
  let blk := g_block g in
  let vs := pr_start p + pr_delay p in
  let ve := vs + pr_period p in
  let tot := pr_up p + pr_down p + pr_veto p + pr_abstain p in
  let quorum_reached := pr_quorum p * FULL >= pr_minq p * pr_total p in
  let s := view_status g id in
  (s = GOV_STATUS_Pending <-> blk < vs) /\
  (s = GOV_STATUS_Active <-> vs <= blk < ve) /\
  (s = GOV_STATUS_Succeeded <-> ve <= blk /\ quorum_reached /\ 2 * pr_up p > tot /\ ~ 3 * pr_veto p > tot) /\
  (s = GOV_STATUS_DefeatedWithVeto <-> ve <= blk /\ 3 * pr_veto p > tot) /\
  (s = GOV_STATUS_Defeated <-> ve <= blk /\ ~ 3 * pr_veto p > tot /\ ~ (quorum_reached /\ 2 * pr_up p > tot)) /\
  s <> GOV_STATUS_None.
Proof. exact status_documented. Qed.
Print Assumptions C18_status.

Theorem C18_status_none : forall g id,
  view_status g id = GOV_STATUS_None <-> (forall p, get_prop g id = Some p -> pr_live p = false).
Proof. exact view_status_none. Qed.
Print Assumptions C18_status_none.

(** the two integer tests of views.rs against the rational conditions, for all integers *)
Theorem C18_integer_thresholds : forall x tot,
  ((tot / 2 <? x) = true <-> tot < 2 * x) /\ ((tot / 3 <? x) = true <-> tot < 3 * x).
Proof. intros x tot. split; [apply half_equiv | apply third_equiv]. Qed.
Print Assumptions C18_integer_thresholds.

(** ------------------------------------------------------------------ clause 2: votes *)
(** the smoothing function is the floor square root: specified, and unique *)
Theorem C18_isqrt : forall x, 0 <= x ->
  0 <= isqrt x /\ isqrt x * isqrt x <= x < (isqrt x + 1) * (isqrt x + 1) /\
  (forall r, 0 <= r -> r * r <= x < (r + 1) * (r + 1) -> isqrt x = r).
Proof.
  intros x Hx. destruct (isqrt_spec x Hx) as [A B]. split; [exact A|]. split; [exact B|].
  intros r Hr H. apply isqrt_unique; assumption.
Qed.
Print Assumptions C18_isqrt.

(** A successful vote: the proposal was Active, the address had not voted on it and now has, its
    energy e is positive, exactly the chosen tally grows by floor(sqrt e) (the other three stay), the
    quorum grows by e, the total-energy snapshot is taken from the collector by the first voter only,
    nothing else of the proposal, no other proposal and no balance changes. *)
Theorem C18_vote : forall g c id kind g' o,
  ep_vote g c id kind = Ok (g', o) ->
  exists p p',
    get_prop g id = Some p /\ pr_live p = true /\
    view_status g id = GOV_STATUS_Active /\ status_of (g_block g) p = GOV_STATUS_Active /\
    has_voted g c id = false /\ has_voted g' c id = true /\
    0 <= kind < GOV_VOTE_COUNT /\ 0 < energy_of g c /\
    get_prop g' id = Some p' /\
    (forall k, 0 <= k < GOV_VOTE_COUNT ->
       tally p' k = tally p k + (if k =? kind then isqrt (energy_of g c) else 0)) /\
    pr_quorum p' = pr_quorum p + energy_of g c /\
    pr_total p' = (if pr_quorum p =? 0 then g_total g else pr_total p) /\
    pr_withdrawn p' = pr_withdrawn p /\ same_snapshot p p' /\
    g_voted g' = g_voted g ++ [(c, id)] /\
    g_props g' = upd (g_props g) (Z.to_nat (id - 1)) p' /\
    (forall id2, id2 <> id -> get_prop g' id2 = get_prop g id2) /\
    g' = put_prop (set_voted g (g_voted g ++ [(c, id)])) id p' /\ o = [].
Proof. exact vote_spec. Qed.
Print Assumptions C18_vote.

Theorem C18_vote_only_while_active : forall g c id kind,
  view_status g id <> GOV_STATUS_Active -> is_ok (ep_vote g c id kind) = false.
Proof. exact vote_needs_active. Qed.
Print Assumptions C18_vote_only_while_active.

(** one vote per address per proposal: whatever happens in between, a second vote is rejected *)
Theorem C18_never_votes_twice : forall g c id k1 g1 o1 ops k2,
  ep_vote g c id k1 = Ok (g1, o1) -> is_ok (ep_vote (run g1 ops) c id k2) = false.
Proof. exact never_votes_twice. Qed.
Print Assumptions C18_never_votes_twice.

(** ... and as a statement about whole histories: take the successful votes of any history from
    deployment ([ballots]: voter, proposal, kind, the voter's energy at that moment).  No (voter,
    proposal) pair occurs twice, and the tallies of every live proposal are exactly the sums over these
    single ballots: floor(sqrt energy) into the tally of the ballot's kind, energy into the quorum. *)
Theorem C18_tallies_are_sums_of_single_votes : forall me mf q d p w blk bals ops,
  let g0 := init_gov me mf q d p w blk bals in
  let log := ballots g0 ops in
  NoDup (map b_key log) /\
  map b_key log = g_voted (run g0 ops) /\
  forall id x, get_prop (run g0 ops) id = Some x -> pr_live x = true ->
    (forall k, 0 <= k < GOV_VOTE_COUNT -> tally x k = sum_power log id k) /\
    pr_quorum x = sum_energy log id.
Proof. exact history_votes. Qed.
Print Assumptions C18_tallies_are_sums_of_single_votes.

(** ------------------------------------------------------------------ clause 3: the fee *)
(** propose: exactly the configured fee moves from the proposer into escrow; the new proposal takes
    the next id and snapshots the current quorum / delay / period / withdraw percentage and block *)
Theorem C18_propose : forall g c tok amt nact gas g' o,
  ep_propose g c tok amt nact gas = Ok (g', o) ->
  is_sc c = false /\ tok = FEE_TOK /\ amt = g_min_fee g /\ g_min_energy g <= energy_of g c /\
  o = [nprops g + 1] /\
  get_prop g' (nprops g + 1) =
    Some (mkProp true c amt (g_quorum g) (g_delay g) (g_period g) (g_wpct g) 0 (g_block g) false 0 0 0 0 0) /\
  (forall id p, get_prop g id = Some p -> get_prop g' id = Some p) /\
  bal g' SELF = bal g SELF + amt /\ bal g' c = bal g c - amt /\
  (forall a, a <> SELF -> a <> c -> bal g' a = bal g a) /\
  g_burned g' = g_burned g /\ g_voted g' = g_voted g.
Proof. exact propose_fee. Qed.
Print Assumptions C18_propose.

(** cancel: proposer only, Pending only; the whole fee goes back to the proposer, nothing is burned,
    no other account moves, the proposal is cleared (status None from then on) *)
Theorem C18_cancel : forall g c id g' o, GovInv g -> ep_cancel g c id = Ok (g', o) ->
  exists p, get_prop g id = Some p /\ escrowed p = true /\
    view_status g id = GOV_STATUS_Pending /\ g_block g < pr_start p + pr_delay p /\
    c = pr_proposer p /\
    bal g' SELF = bal g SELF - pr_fee p /\
    bal g' (pr_proposer p) = bal g (pr_proposer p) + pr_fee p /\
    (forall a, a <> SELF -> a <> pr_proposer p -> bal g' a = bal g a) /\
    g_burned g' = g_burned g /\
    get_prop g' id = Some pr_cleared /\ view_status g' id = GOV_STATUS_None /\
    (forall id2, id2 <> id -> get_prop g' id2 = get_prop g id2).
Proof. exact cancel_fee. Qed.
Print Assumptions C18_cancel.

Theorem C18_cancel_rejected : forall g c id, GovInv g ->
  (view_status g id <> GOV_STATUS_Pending \/ exists p, get_prop g id = Some p /\ c <> pr_proposer p) ->
  is_ok (ep_cancel g c id) = false.
Proof. exact cancel_rejected. Qed.
Print Assumptions C18_cancel_rejected.

(** withdrawDeposit: on Succeeded / Defeated the proposer gets the whole fee; on DefeatedWithVeto the
    proposer gets refund = floor(percentage * fee / 10000) (stated as refund*10000 <= percentage*fee <
    (refund+1)*10000) and fee - refund is burned; in all cases exactly [fee] leaves the contract
    (refund + burned = fee), no other account moves, and the proposal is marked withdrawn. *)
Theorem C18_withdraw : forall g c id g' o, GovInv g -> ep_withdraw g c id = Ok (g', o) ->
  exists p refund, get_prop g id = Some p /\ escrowed p = true /\
    view_status g id = status_of (g_block g) p /\
    (((status_of (g_block g) p = GOV_STATUS_Succeeded \/ status_of (g_block g) p = GOV_STATUS_Defeated) /\
      c = pr_proposer p /\ refund = pr_fee p)
     \/ (status_of (g_block g) p = GOV_STATUS_DefeatedWithVeto /\
         refund * FULL <= pr_wpct p * pr_fee p < (refund + 1) * FULL)) /\
    0 <= refund <= pr_fee p /\
    bal g' SELF = bal g SELF - pr_fee p /\
    bal g' (pr_proposer p) = bal g (pr_proposer p) + refund /\
    (forall a, a <> SELF -> a <> pr_proposer p -> bal g' a = bal g a) /\
    g_burned g' = g_burned g + (pr_fee p - refund) /\
    get_prop g' id = Some (pr_set_withdrawn p) /\
    (forall id2, id2 <> id -> get_prop g' id2 = get_prop g id2).
Proof. exact withdraw_fee. Qed.
Print Assumptions C18_withdraw.

Theorem C18_withdraw_rejected : forall g c id, GovInv g ->
  ((view_status g id <> GOV_STATUS_Succeeded /\ view_status g id <> GOV_STATUS_Defeated /\
    view_status g id <> GOV_STATUS_DefeatedWithVeto)
   \/ (view_status g id <> GOV_STATUS_DefeatedWithVeto /\ exists p, get_prop g id = Some p /\ c <> pr_proposer p)) ->
  is_ok (ep_withdraw g c id) = false.
Proof. exact withdraw_rejected. Qed.
Print Assumptions C18_withdraw_rejected.

(** the refunds are always available: the contract holds the fee of every proposal in escrow, so the
    proposer's cancel (while Pending) and the withdrawal (once decided) cannot fail *)
Theorem C18_cancel_available : forall g id p, GovInv g -> get_prop g id = Some p -> pr_live p = true ->
  status_of (g_block g) p = GOV_STATUS_Pending -> is_ok (ep_cancel g (pr_proposer p) id) = true.
Proof. exact cancel_succeeds. Qed.
Print Assumptions C18_cancel_available.

Theorem C18_withdraw_available : forall g c id p, GovInv g -> get_prop g id = Some p -> escrowed p = true ->
  ((status_of (g_block g) p = GOV_STATUS_Succeeded \/ status_of (g_block g) p = GOV_STATUS_Defeated) /\ c = pr_proposer p
   \/ status_of (g_block g) p = GOV_STATUS_DefeatedWithVeto) ->
  is_ok (ep_withdraw g c id) = true.
Proof. exact withdraw_succeeds. Qed.
Print Assumptions C18_withdraw_available.

(** at most once.  [escrowed p] (live and not withdrawn) is the flag "the fee is still in escrow".
    Per step: proposals never vanish, a flag that is down stays down, a live proposal's fee / proposer /
    snapshots never change, and the flag goes down only by the proposer's cancel or a withdrawDeposit of
    that very proposal (whose amounts are fixed by C18_cancel / C18_withdraw). *)
Theorem C18_escrow_flag_one_way : forall g op g' o, step g op = Ok (g', o) -> GovInv g ->
  forall id p, get_prop g id = Some p ->
  exists p', get_prop g' id = Some p' /\
    (escrowed p = false -> escrowed p' = false) /\
    (pr_live p' = true -> same_snapshot p p') /\
    (escrowed p = true -> escrowed p' = false ->
       op = Cancel (pr_proposer p) id \/ exists c, op = Withdraw c id).
Proof. exact escrow_one_way. Qed.
Print Assumptions C18_escrow_flag_one_way.

(** ... along whole histories: once the fee of a proposal has left, every later cancel / withdraw on it fails *)
Theorem C18_fee_never_leaves_twice : forall g id p ops c, GovInv g -> get_prop g id = Some p -> escrowed p = false ->
  is_ok (ep_cancel (run g ops) c id) = false /\ is_ok (ep_withdraw (run g ops) c id) = false.
Proof. exact fee_never_leaves_twice. Qed.
Print Assumptions C18_fee_never_leaves_twice.

(** no other operation takes fee tokens out of the contract or burns any *)
Theorem C18_outflow_only_by_cancel_or_withdraw : forall g op g' o, step g op = Ok (g', o) ->
  (forall c id, op <> Cancel c id) -> (forall c id, op <> Withdraw c id) ->
  bal g SELF <= bal g' SELF /\ g_burned g' = g_burned g.
Proof. exact outflow_only. Qed.
Print Assumptions C18_outflow_only_by_cancel_or_withdraw.

(** escrow accounting along every history from deployment (contract starting empty): the contract's
    balance is exactly the sum of the fees still in escrow plus what was donated to it by plain
    transfers, and the fee token is conserved (all balances + burned = initial supply). *)
Theorem C18_escrow_accounting : forall me mf q d p w blk bals ops,
  0 <= w <= FULL /\ 0 <= p -> NoDup (akeys bals) -> aget bals SELF = 0 ->
  let g0 := init_gov me mf q d p w blk bals in
  bal (run g0 ops) SELF = escrow_sum (g_props (run g0 ops)) + donated g0 ops /\
  asum (g_bal (run g0 ops)) + g_burned (run g0 ops) = asum bals.
Proof. exact reach_escrow. Qed.
Print Assumptions C18_escrow_accounting.

Theorem C18_escrow_backed : forall g id p, GovInv g -> get_prop g id = Some p -> escrowed p = true ->
  pr_fee p <= bal g SELF.
Proof. exact escrow_backed. Qed.
Print Assumptions C18_escrow_backed.

(** ------------------------------------------------------------------ non-vacuity
    A concrete history: four proposals (fee 3*10^24 + 7, 33.33 % refund on veto); #1 cancelled while
    pending, #2 succeeds at 2*up = tot + 1, #3 is vetoed at 3*veto = tot + 1 (refund split inexact),
    #4 is defeated at exactly half; second votes, foreign cancels and repeated withdrawals are
    rejected; all fees leave escrow exactly once. *)
Definition c18_fee : Z := 3000000000000000000000007.
Definition c18_ops : list gop :=
  [SetEnergy 1 100; SetEnergy 2 81; SetEnergy 3 17; SetEnergy 4 400; Sync 1; Sync 2;
   Propose 1 1 c18_fee 0 0; Cancel 2 1; Cancel 1 1; Cancel 1 1;
   Propose 1 1 c18_fee 1 1000; Propose 2 1 c18_fee 0 0; Propose 3 1 c18_fee 0 0;
   Vote 1 2 0; Block 5; Vote 1 2 0; Vote 1 2 1; Vote 2 2 1;
   Vote 3 3 2; Vote 4 4 0; SetEnergy 1 50; Vote 1 3 0;
   SetEnergy 2 400; Vote 2 4 1; Vote 4 4 1;
   Withdraw 1 2; Block 14400;
   Withdraw 2 2; Withdraw 1 2; Withdraw 1 2;
   Withdraw 4 3; Withdraw 2 3;
   Withdraw 1 4; Withdraw 3 4; Cancel 3 4].
Definition c18_g0 : gov := init_gov 0 c18_fee 1000 5 14400 3333 10 [(1, c18_fee * 3); (2, c18_fee * 3); (3, c18_fee * 3); (4, 0)].
Example C18_nonvacuous :
  let g := run c18_g0 c18_ops in
  map (view_status g) [1; 2; 3; 4; 5] =
    [GOV_STATUS_None; GOV_STATUS_Succeeded; GOV_STATUS_DefeatedWithVeto; GOV_STATUS_Defeated; GOV_STATUS_None] /\
  view_votes g 2 = [10; 9; 0; 0; 181] /\ view_votes g 3 = [7; 0; 4; 0; 67] /\ view_votes g 4 = [20; 20; 0; 0; 800] /\
  bal g SELF = 0 /\ bal g 1 = c18_fee * 3 /\ bal g 3 = c18_fee * 3 /\
  bal g 2 = c18_fee * 2 + 999900000000000000000002 /\ g_burned g = c18_fee - 999900000000000000000002 /\
  map (fun k => is_ok (step (run c18_g0 (firstn k c18_ops)) (nth k c18_ops (Block 0))))
      (seq 0 35) =
    map (fun k => negb (existsb (Nat.eqb k) [7; 9; 13; 16; 24; 25; 27; 29; 31; 32; 34]%nat)) (seq 0 35).
Proof. vm_compute. repeat split. Qed.
