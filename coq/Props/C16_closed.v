(** C16 on ONE closed model (Model/ProxyClosed.v = Model/ProxyDex.v composed with Model/Pair.v, two Model/FarmLocked.v and
    Model/Energy.v): the answers of the pair, the farms and the energy factory to the proxy are COMPUTED by the callee models,
    so no interface law is assumed any more.  Statements only; proofs in Proofs/ProxyClosedProofs.v.
    (This file continues Props/C16.v; C08 for proxy positions is Props/C08_proxy.v.)

    Vocabulary:
      [cstep cs o = Ok (cs', co)]  one successful transaction on the closed state [cs] = (proxy, pair, base-asset farm, LP farm,
            factory, block, ghosts): a proxy endpoint (CAddLiq ... CIncFm, CSetPair, CSetFarm, CXferWlp, CXferWfm) or an
            environment operation on a callee (CPair: trades and everything else of other accounts on the pair; CFarm: direct
            farm operations of other accounts; CEnergy: the users' own factory operations; CTime);
      [co_x co]  what the proxy endpoint did (Model/ProxyDex.v [eff]); [co_e co] the record of answers it was run on, computed
            by the callee models through Proofs/LawsC16.v's [answer_of_...]; [co_db co] / [co_dl co] change of the global
            base-asset / locked-token supply in the transaction, callee burns and mints included;
      [pop_of o e]  the Model/ProxyDex.v operation a closed operation consists of (None for environment operations);
      [pops cs ops] the ProxyDex operations of a closed run, with the computed records;
      [creach cs]   cs = any closed run from a state whose proxy is freshly deployed (failed transactions revert);
      [chist2 cs]   the same from a state where moreover the factory model is consistent and the books agree, by
            well-formed operations [cwf] (callers of proxy endpoints are user accounts; account ids of direct farm
            operations in the range of the farm model's ledger keys);
      INPUTS that remain (what the callee models lack, exactly as in Proofs/LawsC16.v): the boosted payouts [b] / [bm] of the
            farm calls (inputs of Model/Farm.v itself; the closed farm is Model/FarmFull.v), block / epoch moves (CTime);
            the original-caller argument of the farm endpoints is composed as in Model/FarmBehalf.v ([via_user]); the LOCKED
            reward nonce and the nonce of a factory answer are the unlock epochs the models return (a locked token IS its
            unlock epoch, as in Model/Energy.v); the factory handing tokens to / taking tokens from the proxy is ledger glue
            around the model's MergeVia / ExtendVia / LockVirtual ([px_merge], [px_extend], [rc_px]). *)
From MX Require Import Base.Prelude Gen.Params Model.ProxyDex Proofs.ProxyDexProofs.
From MX Require Model.Pair Model.Farm Model.FarmLocked Model.Energy Proofs.EnergyProofs Proofs.LawsC16.
From MX Require Import Model.ProxyClosed Proofs.ProxyClosedProofs.

(** ------------------------------------------------------------------ (a) projection; the laws are discharged *)
(** every successful closed step IS a ProxyDex step on the computed record of answers, and that record obeys every
    interface law ([x_law = true]: proved from the callee models, not assumed); environment operations leave the proxy alone *)
Theorem C16_closed_step_projects : forall cs o cs' co, cstep cs o = Ok (cs', co) ->
  match pop_of o (co_e co) with
  | Some po => step (c_px cs) po = Ok (c_px cs', co_x co) /\ x_law (co_x co) = true
  | None => c_px cs' = c_px cs
  end.
Proof. exact cstep_proj. Qed.
Print Assumptions C16_closed_step_projects.

(** every closed run is a LAWFUL ProxyDex run *)
Theorem C16_closed_run_lawful : forall ops cs,
  c_px (crun cs ops) = run (c_px cs) (pops cs ops) /\ lawful (c_px cs) (pops cs ops) = true.
Proof. exact crun_proj. Qed.
Print Assumptions C16_closed_run_lawful.

Theorem C16_closed_reach : forall cs, creach cs -> reach (c_px cs).
Proof. exact creach_reach. Qed.
Print Assumptions C16_closed_reach.

(** ... and contains these steps of the CALLEE models (the nested calls, on the states the ledger glue hands them) *)
Theorem C16_closed_step_callees : forall cs o cs' co, cstep cs o = Ok (cs', co) ->
  match o with
  | CAddLiq u _ p1 p2 extra m1 m2 =>
      (exists po ef, PR.step (c_pair cs) (PR.Add PX (p_amt p1) (p_amt p2) m1 m2) = Ok (c_pair cs', po, ef)) /\
      (extra <> [] -> exists s1 fps s2 fo, EN.step s1 (EN.MergeVia u fps) = Ok (s2, fo))
  | CRemoveLiq _ _ p m1 m2 => exists po ef, PR.step (c_pair cs) (PR.Remove PX (p_amt p) m1 m2) = Ok (c_pair cs', po, ef)
  | CEnterFarm u farm p extra b =>
      (exists lf lf2 fo rc, farm_of cs farm = Ok lf /\
         FL.lstep lf (FL.LF (F.FEnter (c_blk cs) (now_of cs) u (p_amt p) [] b)) = Ok (lf2, fo, rc)) /\
      (extra <> [] -> (exists s1 fps s2 fo, EN.step s1 (EN.MergeVia u fps) = Ok (s2, fo)) /\
                      (exists lf3 toks lf4 go rcm, FL.lstep lf3 (FL.LF (F.FMerge (c_blk cs) (now_of cs) u toks 0)) = Ok (lf4, go, rcm)))
  | CExitFarm u _ p b => exists w lf1 lf2 fo rc, getn (s_wfm (c_px cs)) (p_non p) = Some w /\
      FL.lstep lf1 (FL.LF (F.FExit (c_blk cs) (now_of cs) u (wf_f w, p_amt p) b)) = Ok (lf2, fo, rc)
  | CClaim u _ p b => exists w lf1 lf2 fo rc, getn (s_wfm (c_px cs)) (p_non p) = Some w /\
      FL.lstep lf1 (FL.LF (F.FClaim (c_blk cs) (now_of cs) u (wf_f w, p_amt p) [] b)) = Ok (lf2, fo, rc)
  | CMergeWlp u _ => exists s1 fps s2 fo, EN.step s1 (EN.MergeVia u fps) = Ok (s2, fo)
  | CMergeWfm u _ _ bm =>
      (exists s1 fps s2 fo, EN.step s1 (EN.MergeVia u fps) = Ok (s2, fo)) /\
      (exists lf1 toks lf2 go rcm, FL.lstep lf1 (FL.LF (F.FMerge (c_blk cs) (now_of cs) u toks bm)) = Ok (lf2, go, rcm))
  | CIncLp u _ le | CIncFm u _ le => exists s1 k amt s2 fo, EN.step s1 (EN.ExtendVia u k amt le) = Ok (s2, fo)
  | CPair o' => exists po ef, PR.step (c_pair cs) o' = Ok (c_pair cs', po, ef)
  | CFarm farm o' => exists lf lf' fo rc, farm_of cs farm = Ok lf /\ FL.lstep lf o' = Ok (lf', fo, rc) /\ lf' = lf_of cs' farm
  | CEnergy o' => exists out, EN.step (c_en cs) o' = Ok (c_en cs', out)
  | CTime _ dep => exists out, EN.step (c_en cs) (EN.Advance dep) = Ok (c_en cs', out)
  | _ => True
  end.
Proof. exact cstep_callees. Qed.
Print Assumptions C16_closed_step_callees.

(** the callee models keep their OWN invariants inside the composition (C01's PairInv; C05-C07's invariant of the locked
    farm), so every theorem of Props/C01 ... C07 about those models applies to the callee states of a closed history;
    with them, from the deployed world: backing, the links, the flows, the custody invariant - all at once *)
Theorem C16_closed_callee_invariants : forall cs o cs' co, cstep cs o = Ok (cs', co) -> cwf o -> CalleeOK cs -> CalleeOK cs'.
Proof. exact cstep_callee_ok. Qed.
Print Assumptions C16_closed_callee_invariants.

Theorem C16_closed_world : forall fee sfee bf dsc opts lock blk epoch ops,
  0 <= sfee <= fee -> fee <= PAIR_MAX_FEE_PERCENTAGE -> 0 < dsc -> EN.valid_opts opts = true -> 0 <= epoch -> Forall cwf ops ->
  let cs := crun (init_c fee sfee bf dsc opts lock blk epoch) ops in
  Backed (c_px cs) /\ Links cs /\ Flows (c_g cs) /\ CInv (cus_of cs) /\ CalleeOK cs.
Proof. exact closed_world_invariants. Qed.
Print Assumptions C16_closed_world.

(** ------------------------------------------------------------------ C16 without a law hypothesis *)
Theorem C16_closed_backed : forall cs, creach cs -> Backed (c_px cs).
Proof. exact creach_backed. Qed.
Print Assumptions C16_closed_backed.

Theorem C16_closed_backed_step : forall cs o cs' co, cstep cs o = Ok (cs', co) -> Backed (c_px cs) -> Backed (c_px cs').
Proof. exact closed_backed_step. Qed.
Print Assumptions C16_closed_backed_step.

Theorem C16_closed_locked_remove : forall cs u pid p m1 m2 cs' co, creach cs -> cstep cs (CRemoveLiq u pid p m1 m2) = Ok (cs', co) ->
  let s := c_px cs in let e := co_e co in let x := co_x co in
  exists w lp, getn (s_wlp s) (p_non p) = Some w /\ part_wlp w (p_amt p) = Ok lp /\
    let rb := snd (fst (v_pair e)) in let ro := snd (v_pair e) in
    let burned := Z.max 0 (lp - rb) in
    x_outs x = (if lp <? rb then [(TK_BASE, 0, rb - lp)] else []) ++
               [(TK_LOCKED, wl_k w, Z.min rb lp)] ++ [(TK_OTHER, 0, ro)] /\
    x_mint x = 0 /\ x_burn x = Z.min rb lp /\ x_lburn x = (if lp <? rb then (0, 0) else (wl_k w, burned)) /\
    x_burn x + snd (x_lburn x) = lp /\
    burn_energy e burned = Ok (x_energy x).
Proof. exact closed_locked_remove. Qed.
Print Assumptions C16_closed_locked_remove.

Theorem C16_closed_locked_exit : forall cs u farm p b cs' co, creach cs -> cstep cs (CExitFarm u farm p b) = Ok (cs', co) ->
  let s := c_px cs in let e := co_e co in let x := co_x co in
  exists w, getn (s_wfm s) (p_non p) = Some w /\ wf_farm w = farm /\ wf_P w = wf_T w /\
    let a := p_amt p in let F := snd (v_farm e) in let pen := a - F in
    0 < a /\ F <= a /\ x_mint x = 0 /\ x_burn x = (if farm =? 0 then F else 0) /\
    (exists out, x_outs x = [out; (TK_LOCKED, fst (v_rew e), snd (v_rew e))] /\ p_amt out = a - pen /\
       ((wf_kind w = 0 /\ out = (TK_LOCKED, wf_pn w, a - pen)) \/ (wf_kind w <> 0 /\ p_tok out = TK_WLP /\ (pen = 0 -> p_non out = wf_pn w)))) /\
    (wf_kind w = 0 -> snd (x_lburn x) = pen /\ (pen <> 0 -> fst (x_lburn x) = wf_pn w) /\ burn_energy e pen = Ok (x_energy x)) /\
    (wf_kind w <> 0 -> pen = 0 -> x_lburn x = (0, 0) /\ x_energy x = None) /\
    (wf_kind w <> 0 -> pen <> 0 -> exists wl lold lnew,
        getn (s_wlp s) (wf_pn w) = Some wl /\ part_wlp wl a = Ok lold /\ part_wlp wl (a - pen) = Ok lnew /\
        x_lburn x = (wl_k wl, lold - lnew) /\ lnew <= lold /\ burn_energy e (lold - lnew) = Ok (x_energy x)).
Proof. exact closed_locked_exit. Qed.
Print Assumptions C16_closed_locked_exit.

(** no closed operation - environment operations included - pays base asset, except removeLiquidityProxy's pool surplus *)
Theorem C16_closed_locked_base_only_surplus : forall cs o cs' co pay,
  cstep cs o = Ok (cs', co) -> In pay (x_outs (co_x co)) -> p_tok pay = TK_BASE ->
  exists u pid p m1 m2 lp w, o = CRemoveLiq u pid p m1 m2 /\ getn (s_wlp (c_px cs)) (p_non p) = Some w /\
    part_wlp w (p_amt p) = Ok lp /\ lp < snd (fst (v_pair (co_e co))) /\ pay = (TK_BASE, 0, snd (fst (v_pair (co_e co))) - lp).
Proof. exact closed_base_only_surplus. Qed.
Print Assumptions C16_closed_locked_base_only_surplus.

Theorem C16_closed_locked_merge : forall cs u ps cs' co, creach cs -> cstep cs (CMergeWlp u ps) = Ok (cs', co) ->
  let s := c_px cs in let e := co_e co in let x := co_x co in
  let n := next_nonce (s_wlp s) in
  x_outs x = [(TK_WLP, n, sum_amt ps)] /\ x_mint x = 0 /\ x_burn x = 0 /\ x_lburn x = (0, 0) /\ x_energy x = None /\
  0 < sum_amt ps /\ 0 <= snd (v_fact e) /\
  getn (s_wlp (c_px cs')) n = Some (mkWlp (sum_amt ps) (fst (v_fact e)) (snd (v_fact e)) (sum_amt ps) 0).
Proof. exact closed_locked_merge. Qed.
Print Assumptions C16_closed_locked_merge.

Theorem C16_closed_mint_burn_add : forall cs u pid p1 p2 m1 m2 cs' co, creach cs -> cstep cs (CAddLiq u pid p1 p2 [] m1 m2) = Ok (cs', co) ->
  let s := c_px cs in let e := co_e co in let x := co_x co in
  exists pl po used_l used_o,
    ((p_tok p1 = TK_LOCKED /\ p_tok p2 <> TK_LOCKED /\ pl = p1 /\ po = p2 /\ used_l = snd (fst (v_pair e)) /\ used_o = snd (v_pair e)) \/
     (p_tok p2 = TK_LOCKED /\ p_tok p1 <> TK_LOCKED /\ pl = p2 /\ po = p1 /\ used_l = snd (v_pair e) /\ used_o = snd (fst (v_pair e)))) /\
    let lp := fst (fst (v_pair e)) in
    let n := next_nonce (s_wlp s) in
    0 <= used_l <= p_amt pl /\
    x_mint x = p_amt pl /\ x_burn x = p_amt pl - used_l /\ x_lburn x = (0, 0) /\ x_energy x = None /\
    x_outs x = [(TK_WLP, n, lp); (TK_LOCKED, p_non pl, p_amt pl - used_l); (TK_OTHER, 0, p_amt po - used_o)] /\
    getn (s_wlp (c_px cs')) n = Some (mkWlp lp (p_non pl) used_l lp 0).
Proof. exact closed_mint_burn_add. Qed.
Print Assumptions C16_closed_mint_burn_add.

Theorem C16_closed_mint_burn_enter : forall cs u farm p b cs' co, creach cs -> cstep cs (CEnterFarm u farm p [] b) = Ok (cs', co) ->
  let s := c_px cs in let e := co_e co in let x := co_x co in
  let a := p_amt p in let m := next_nonce (s_wfm s) in
  0 < a /\ snd (v_farm e) = a /\ x_burn x = 0 /\ x_lburn x = (0, 0) /\ x_energy x = None /\
  x_outs x = [(TK_WFM, m, a); (TK_LOCKED, fst (v_rew e), snd (v_rew e))] /\
  ((p_tok p = TK_LOCKED /\ farm = 0 /\ x_mint x = a /\
    getn (s_wfm (c_px cs')) m = Some (mkWfm farm (fst (v_farm e)) a 0 (p_non p) a a)) \/
   (p_tok p = TK_WLP /\ farm = 1 /\ x_mint x = 0 /\
    getn (s_wfm (c_px cs')) m = Some (mkWfm farm (fst (v_farm e)) a 1 (p_non p) a a))).
Proof. exact closed_mint_burn_enter. Qed.
Print Assumptions C16_closed_mint_burn_enter.

(** the energy deduction is exact on the FACTORY MODEL: when a proxy endpoint called by [u] burns [amt] locked tokens of
    unlock epoch [k], it is removeLiquidityProxy or exitFarmProxy; the entry the proxy read is the factory model's current
    entry of [u] (for exitFarmProxy: after the farm's reward was locked for [u]); the factory model's entry of [u]
    afterwards is that entry less amt * (k - now) (a refund when the lock expired) and less amt locked tokens *)
Theorem C16_closed_mint_burn_energy : forall cs o cs' co u k amt,
  cstep cs o = Ok (cs', co) -> Backed (c_px cs) -> caller_of o = Some u -> uid u ->
  x_lburn (co_x co) = (k, amt) -> amt <> 0 ->
  let r := v_energy (co_e co) in
  let en' := EN.view_entry (c_en cs') u in
  (match o with CRemoveLiq _ _ _ _ _ | CExitFarm _ _ _ _ => True | _ => False end) /\
  (match o with CRemoveLiq _ _ _ _ _ => r = entry_of (c_en cs) u | _ => True end) /\
  pe_upd r = now_of cs /\
  EN.e_amt en' = pe_amt r - amt * (k - now_of cs) /\ EN.e_tot en' = pe_tot r - amt /\ amt <= pe_tot r /\
  k = v_unlock (co_e co) /\
  (match o with
   | CRemoveLiq _ _ p _ _ => k = wlp_k (c_px cs) (p_non p)
   | CExitFarm _ _ p _ => k = wfm_k (c_px cs) (p_non p)
   | _ => True end).
Proof. exact cstep_burn_exact. Qed.
Print Assumptions C16_closed_mint_burn_energy.

(** ------------------------------------------------------------------ (b) cross-contract conservation *)
(** the LP tokens the proxy's books record ARE the LP balance the pair model holds for the proxy; per farm and farm-token
    nonce, the farm tokens the proxy's books record ARE the position the farm model holds for the proxy; the kind of
    proxy farming token of every wrapped farm position is the one of its farm - in every closed history *)
Theorem C16_closed_links : forall cs, chist2 cs ->
  s_lp (c_px cs) = PR.lp_of (c_pair cs) PX /\
  (forall farm k, farm = 0 \/ farm = 1 -> aget (s_farm (c_px cs)) (fkey k farm) = F.held (FL.l_f (lf_of cs farm)) k PX) /\
  KF (c_px cs).
Proof. exact chist2_links. Qed.
Print Assumptions C16_closed_links.

Theorem C16_closed_links_step : forall cs o cs' co, cstep cs o = Ok (cs', co) -> cwf o -> Links cs -> Links cs'.
Proof. exact cstep_links. Qed.
Print Assumptions C16_closed_links_step.

(** with C16_closed_backed: every outstanding wrapped farm position is backed by a position of the FARM MODEL held for the
    proxy, every wrapped LP token in a user's hands by LP tokens the PAIR MODEL holds for the proxy *)
Theorem C16_closed_backed_by_callees : forall cs, chist2 cs ->
  asum (s_hlp (c_px cs)) <= PR.lp_of (c_pair cs) PX /\
  forall m w, getn (s_wfm (c_px cs)) m = Some w ->
    (wf_farm w = 0 \/ wf_farm w = 1) /\ wf_sup w <= F.held (FL.l_f (lf_of cs (wf_farm w))) (wf_f w) PX.
Proof. exact chist2_backed_by_callees. Qed.
Print Assumptions C16_closed_backed_by_callees.

(** base asset minted - burned by the proxy = net base asset the pair model took from it + net base asset the base-asset
    farm model took from it + pool surplus it paid out (the ghost tallies are fed by the COMPUTED answers) *)
Theorem C16_closed_flows : forall cs, chist2 cs ->
  let g := c_g cs in g_mint g - g_burn g = (g_pin g - g_pout g) + (g_fin g - g_fout g) + g_paid g.
Proof. exact chist2_flows. Qed.
Print Assumptions C16_closed_flows.

(** the pool keeps what it does not hand back: the pair model's base-asset balance grows by the minted base asset it used
    and falls by what it returns *)
Theorem C16_closed_pool_add : forall cs u pid p1 p2 extra m1 m2 cs' co, c_add_liq cs u pid p1 p2 extra m1 m2 = Ok (cs', co) ->
  pool_base cs' = pool_base cs + L16.add_used_locked p1 (co_e co) /\ c_bf cs' = c_bf cs.
Proof. exact closed_add_pool. Qed.
Print Assumptions C16_closed_pool_add.

Theorem C16_closed_pool_remove : forall cs u pid p m1 m2 cs' co, c_remove_liq cs u pid p m1 m2 = Ok (cs', co) ->
  pool_base cs' = pool_base cs - snd (fst (v_pair (co_e co))) /\ c_bf cs' = c_bf cs.
Proof. exact closed_remove_pool. Qed.
Print Assumptions C16_closed_pool_remove.

(** round trip through the pool, whatever the environment did to the callees in between (trades, time, other users):
    the combined base + locked supply - callee burns and mints included - is back where it was *)
Theorem C16_closed_pool_round_trip : forall cs u pid p1 p2 m1 m2 cs1 co1 cs2 m1' m2' cs3 co3,
  creach cs -> c_add_liq cs u pid p1 p2 [] m1 m2 = Ok (cs1, co1) -> c_px cs2 = c_px cs1 ->
  c_remove_liq cs2 u pid (TK_WLP, next_nonce (s_wlp (c_px cs)), fst (fst (v_pair (co_e co1)))) m1' m2' = Ok (cs3, co3) ->
  co_dl co1 = 0 /\ co_db co1 = L16.add_used_locked p1 (co_e co1) /\
  (co_db co1 + co_dl co1) + (co_db co3 + co_dl co3) = 0.
Proof. exact closed_pool_round_trip_reach. Qed.
Print Assumptions C16_closed_pool_round_trip.

(** round trip through the base-asset farm: the base asset minted on entry is burned in full - by the proxy what the farm
    returned, by the FARM MODEL the penalty it kept ([co_db] of the exit counts both) - and the caller gets back his locked
    tokens less the penalty, which the proxy burns in locked tokens *)
Theorem C16_closed_farm_round_trip : forall cs u p b1 cs1 co1 cs2 b2 cs3 co3,
  creach cs -> p_tok p = TK_LOCKED -> c_enter_farm cs u 0 p [] b1 = Ok (cs1, co1) -> c_px cs2 = c_px cs1 ->
  c_exit_farm cs2 u 0 (TK_WFM, next_nonce (s_wfm (c_px cs)), p_amt p) b2 = Ok (cs3, co3) ->
  let pen := snd (x_lburn (co_x co3)) in
  co_db co1 = p_amt p /\ co_db co3 = - p_amt p /\ co_db co1 + co_db co3 = 0 /\
  x_burn (co_x co3) = p_amt p - pen /\ co_db co3 = - (x_burn (co_x co3) + pen) /\
  (exists rew, x_outs (co_x co3) = [(TK_LOCKED, p_non p, p_amt p - pen); rew]).
Proof. exact closed_farm_round_trip_reach. Qed.
Print Assumptions C16_closed_farm_round_trip.

(** ------------------------------------------------------------------ non-vacuity
    The scripted history of Proofs/ProxyClosedProofs.v [ex_ops] (executed on the real contracts): every transaction succeeds,
    the operations are well-formed, the records of answers are computed (the pool returned 68 814 513 base asset for a
    locked part of 10^8: 31 185 487 locked tokens burned; the farm kept 1 % = 10 000), the books agree with the callee
    models and the supplies moved as the real ones did. *)
Example C16_closed_nonvacuous :
  all_ok ex_init ex_ops = true /\ forallb cwf_b ex_ops = true /\
  let cs := crun ex_init ex_ops in
  lawful init_state (pops ex_init ex_ops) = true /\ length (pops ex_init ex_ops) = 5%nat /\
  s_lp (c_px cs) = 0 /\ PR.lp_of (c_pair cs) PX = 0 /\ PR.p_S (c_pair cs) = 1000000000 /\
  F.held (FL.l_f (c_f0 cs)) 1 PX = 0 /\ F.f_supply (FL.l_f (c_f0 cs)) = 0 /\
  g_mint (c_g cs) = 101000000 /\ g_burn (c_g cs) = 69804513 /\ g_lburn (c_g cs) = 31195487 /\
  g_pin (c_g cs) = 100000000 /\ g_pout (c_g cs) = 68814513 /\ g_fin (c_g cs) = 1000000 /\ g_fout (c_g cs) = 990000 /\
  g_fpen (c_g cs) = 10000 /\
  match cstep (crun ex_init (firstn 19 ex_ops)) (nth 19 ex_ops (CTime 0 0)) with
  | Ok (_, co) => x_outs (co_x co) = [(TK_LOCKED, 360, 68814513); (TK_OTHER, 0, 290909090)] /\
                  v_pair (co_e co) = (0, 68814513, 290909090) /\ x_lburn (co_x co) = (360, 31185487) /\
                  co_db co = -68814513 /\ co_dl co = -31185487
  | Err _ => False
  end.
Proof. vm_compute. repeat split. Qed.
